import Driver.Proto
import Gotree.Spec.C11
import Gotree.Model.C11Tbe
import Gotree.Gen.C11Goroutines

namespace Gotree.Driver.C11
open Gotree Gotree.Driver Gotree.C11

/-! The pool shapes the driver runs are the ones EXTRACTED from the source on this run (Gen/C11Goroutines.lean):
    a change of the table changes what the model can do — with an unsynchronised shared write a worker
    may compute its result from another worker's item, with an exit that skips `wg.Done` or a reader
    that skips `close` the run may end without closing the result channel — and the comparison with the
    implementation's records below says so.  The library pools are fed by the harness (a producer that
    closes), the commands by `ReadMultiTrees`. -/
open Gotree.Gen.C11 in
def extractedShape (kind : String) : Shape :=
  match kind with
  | "compare" => Compare_worker0.facts.shape
  | "weighted" => CompareWeighted_worker0.facts.shape
  | "fbp" => FBP_worker0.facts.shape
  | "tbe" | "clitbe" => (TBE_worker0.factsWithProducer TBE_go0).shape
  | "clicompare" => (Compare_worker0.factsWithProducer ReadMultiTrees_go0).shape
  | "cliweighted" => (CompareWeighted_worker0.factsWithProducer ReadMultiTrees_go0).shape
  | "clifbp" => (FBP_worker0.factsWithProducer ReadMultiTrees_go0).shape
  | _ => shapeRecord

open Gotree.Gen.C11 in
/-- capacity of a channel of the pools, from the regenerated table (`a * threads + b`; `dflt` if the row is missing,
    which `table_channel_capacities` excludes) -/
def extractedCap (fn elem : String) (threads dflt : Nat) : Nat :=
  match chanCaps.find? (fun c => c.1 == fn && c.2.2.1 == elem) with
  | some c => c.2.2.2.1 * threads + c.2.2.2.2
  | none => dflt

/-- what the LTS says about the ORDER in which the caller receives the records of a per-item pool with
    `w` workers (`pool_arrival_window`, `pool_single_worker_sequential`): the record of tree `i` is not
    received before `i - w + 1` others; with one worker the order is the order of the stream -/
def orderOK (w : Nat) (order : List Nat) : Bool :=
  ((List.range order.length).zip order).all (fun (p, i) => i < p + w) &&
  (w != 1 || order == List.range order.length)

def parseItem (s : String) : Option Item :=
  if s == "!err" then some .err else (T.undump s).map .tree

def parseItems (s : String) : Option (List Item) := (splitTerm "|" s).mapM parseItem

/-- a deterministic pseudo-random schedule derived from the case (the theorems hold for every schedule) -/
def mkSched (seed : UInt64) (w len : Nat) : List (Nat × Nat) :=
  let rec go : Nat → UInt64 → List (Nat × Nat) → List (Nat × Nat)
    | 0, _, acc => acc
    | n + 1, x, acc =>
      let x := x * 6364136223846793005 + 1442695040888963407
      let a := (x >>> 33).toNat
      go n x ((a % (w + 2), (a / 64) % 3) :: acc)
  go len seed []

def parseCmpRecs (s : String) : Option (List CmpRec) :=
  (splitTerm ";" s).mapM fun rec =>
    match rec.splitOn ":" with
    | [i, a, b, c, sm, e] =>
      match i.toNat?, a.toInt?, b.toInt?, c.toInt? with
      | some i, some a, some b, some c => some ⟨i, a, b, c, sm == "true", e⟩
      | _, _, _, _ => none
    | _ => none

def sortRecs (l : List CmpRec) : List CmpRec := l.mergeSort (fun a b => decide (a.id ≤ b.id))

def parseWRecs (s : String) : Option (List WRec) :=
  (splitTerm ";" s).mapM fun rec =>
    match rec.splitOn ":" with
    | [i, a, b, c, sm, e] =>
      match i.toNat?, parseRatList a, parseRatList b, parseRatList c with
      | some i, some a, some b, some c => some ⟨i, sortR a, sortR b, sortR c, sm == "true", e⟩
      | _, _, _, _ => none
    | _ => none

def sortWRecs (l : List WRec) : List WRec := l.mergeSort (fun a b => decide (a.id ≤ b.id))

/-- the lines `gotree compare trees` prints (sorted by id by the harness): `id ref common compared`,
    or `id identical` with --binary -/
def parseCliCmp (binary : Bool) (s : String) : Option (List (Nat × Option (Int × Int × Int) × Bool)) :=
  (splitTerm ";" s).mapM fun rec =>
    match unescape rec with
    | none => none
    | some l =>
      match binary, l.splitOn "\t" with
      | false, [d] => (d.toInt?).map fun d => (0, some (d, 0, 0), false)   -- --rf: the distance alone
      | true, [i, sm] => (i.toNat?).map fun i => (i, none, sm == "true")
      | false, [i, a, c, b] =>
        match i.toNat?, a.toInt?, c.toInt?, b.toInt? with
        | some i, some a, some c, some b => some (i, some (a, b, c), false)
        | _, _, _, _ => none
      | _, _ => none

/-- |a-b| within one rounding of b (one float64 division of exact operands) -/
def approx (a b : Rat) : Bool := (if a ≥ b then a - b else b - a) * (4503599627370496 : Rat) ≤ (if b ≥ 0 then b else -b)

/-- `1.234560E+01` (Go's %E) as a rational -/
def parseSci (t : String) : Option Rat :=
  match t.splitOn "E" with
  | [m, e] =>
    match parseDecimal m, (if e.startsWith "+" then (dropFirst e).toInt? else e.toInt?) with
    | some m, some e =>
      if e ≥ 0 then some (m * ((10 ^ e.toNat : Nat) : Rat)) else some (m / ((10 ^ (-e).toNat : Nat) : Rat))
    | _, _ => none
  | _ => none

/-- `a` is `b` printed with seven significant digits -/
def closeRel (a b : Rat) (relNum relDen : Nat) : Bool :=
  let d := if a ≥ b then a - b else b - a
  let m := if b ≥ 0 then b else -b
  d * (relDen : Rat) ≤ m * (relNum : Rat) + (1 : Rat) / 1000000000000

/-- the lines of `gotree compare trees --weighted`: `id wRF KF` (or `id identical` with --binary) -/
def parseCliW (binary : Bool) (s : String) : Option (List (Nat × Option (Rat × Rat) × Bool)) :=
  (splitTerm ";" s).mapM fun rec =>
    match unescape rec with
    | none => none
    | some l =>
      match binary, l.splitOn "\t" with
      | true, [i, sm] => (i.toNat?).map fun i => (i, none, sm == "true")
      | false, [i, a, b] =>
        match i.toNat?, parseSci a, parseSci b with
        | some i, some a, some b => some (i, some (a, b), false)
        | _, _, _ => none
      | _, _ => none

def absR (q : Rat) : Rat := if q ≥ 0 then q else -q

/-- within 2⁻⁵⁰ (three float roundings of values in [0,1]) -/
def approxAbs (a b : Rat) : Bool := absR (a - b) * (1125899906842624 : Rat) ≤ 1

/-- a value printed on one line (the verdict protocol is line-based) -/
def showL (f : Std.Format) : String :=
  (toString f).map fun c => if c == '\n' || c == '\t' then ' ' else c

/-! ### `C11.hmseq`: a history of calls on one `hashmap.HashMap` -/

def parseHmOp (s : String) : Option (HM.Op Nat Int) :=
  match s.splitOn ":" with
  | ["p", k, v] => match k.toNat?, v.toInt? with
    | some k, some v => some (.put k v)
    | _, _ => none
  | ["g", k] => (k.toNat?).map .get
  | ["K"] => some .keys
  | ["V"] => some .keyValues
  | _ => none

def parseHmOut (s : String) : Option (HM.Out Nat Int) :=
  if s == "u" then some .unit
  else if s == "absent" then some (.val none)
  else if s == "panic" then some .panic
  else if s.startsWith "v" then ((dropFirst s).toInt?).map fun v => .val (some v)
  else if s.startsWith "K" then
    ((splitTerm "." (dropFirst s)).mapM fun c => if c == "nil" then some none else (c.toNat?).map some).map .keys
  else if s.startsWith "V" then
    ((splitTerm "." (dropFirst s)).mapM fun c =>
      if c == "nil" then some none else
      match c.splitOn "=" with
      | [k, v] => match k.toNat?, v.toInt? with
        | some k, some v => some (some (k, v))
        | _, _ => none
      | _ => none).map .kvs
  else none

/-- an answer as text; `sorted` = the cells of Keys / KeyValues as a multiset (the property's observation),
    otherwise in the order returned (fidelity) -/
def hmOutStr (sorted : Bool) : HM.Out Nat Int → String
  | .unit => "u"
  | .val none => "absent"
  | .val (some v) => "v" ++ toString v
  | .keys l =>
    let cs := l.map fun c => match c with | some k => toString k ++ "." | none => "nil."
    "K" ++ String.join (if sorted then sortStrings cs else cs)
  | .kvs l =>
    let cs := l.map fun c => match c with | some (k, v) => toString k ++ "=" ++ toString v ++ "." | none => "nil."
    "V" ++ String.join (if sorted then sortStrings cs else cs)
  | .panic => "panic"

/-- the `Taxon tIndex` table of TBE's statistics log: (tip, moved-taxa index) -/
def parseTaxaTable (log : String) : Option (List (String × Rat)) :=
  let lines := (log.splitOn "\n").map fun l => l.replace "\r" ""
  let after := (lines.dropWhile (· != "Taxon\ttIndex")).drop 1
  let rows := after.takeWhile fun l => l != "" && !l.startsWith "Edge\t"
  rows.mapM fun l =>
    match l.splitOn "\t" with
    | [x, v] => (parseDecimal v).map fun q => (x, q)
    | _ => none

def handle (op : String) (f : List String) : Verdict :=
  match op, f with
  | "pool", [kind, ths, flags, refS, itemsS, outcome, records, outcome1, records1, race, tookS] =>
    match ths.toNat?, T.undump refS, parseItems itemsS, ((tookS.splitOn ";").headD "").toInt?,
          parseNatList (((tookS.splitOn ";").drop 1).headD "") with
    | some threads, some ref, some items, some took, some order =>
      -- goroutines the call left behind (-1: not observed)
      let left : Int := ((((tookS.splitOn ";").drop 2).headD "").toInt?).getD (-1)
      -- fbp, tbe: the progress counter of the caller's Supporter after the call (-1: not observed)
      let progress : Int := ((((tookS.splitOn ";").drop 3).headD "").toInt?).getD (-1)
      let cancelled := flags.contains 'c'
      let run : Run := ⟨kind, threads, ref, items, outcome, records, outcome1, records1, race, cancelled⟩
      let n := items.length
      let tips := flags.contains 't'
      let binary := flags.contains 'b'
      let badPos := (items.map (Item.isBad ref)).idxOf true
      let nbad := run.badClasses.length
      let nontrivial := if took ≥ 0 then decide (took ≥ 2) else decide (threads ≥ 2 ∧ n ≥ 2)
      let tags := [kind, "threads=" ++ (if threads > n ∧ threads != 16 ∧ threads > 4 then "n+3" else toString threads)] ++
        tagIf nontrivial "nontrivial" ++
        tagIf (threads > n) "more-threads-than-trees" ++
        tagIf (n == 0) "empty-stream" ++
        tagIf (nbad == 0) "clean" ++
        tagIf (run.badClasses.contains "item") "bad-item" ++
        tagIf (run.badClasses.contains "taxa") "bad-taxa" ++
        tagIf (run.badClasses.contains "dup") "bad-duplicate-tip-names" ++
        tagIf (nbad > 0 ∧ badPos == 0) "bad-first" ++
        tagIf (nbad > 0 ∧ badPos + 1 == n) "bad-last" ++
        tagIf (nbad > 0 ∧ 0 < badPos ∧ badPos + 1 < n) "bad-middle" ++
        tagIf ref.rooted "rooted-ref" ++ tagIf tips "tips" ++ tagIf binary "binary" ++
        tagIf (took ≥ 2) "observed-2-workers" ++ tagIf cancelled "cancelled" ++ tagIf (flags.contains 'r') "rf" ++ tagIf (flags.contains 'R') "race-build" ++
        tagIf (left > 0) "goroutines-left-behind" ++ tagIf (left == 0) "no-goroutine-left-behind" ++
        tagIf (run.perItem && order != List.range n) "records-out-of-stream-order" ++
        tagIf (!ref.noSingle) "single-child-nodes" ++ tagIf (ref.kids.length == 1) "root-is-tip" ++
        tagIf (ref.edges.any (·.len == NIL)) "absent-lengths" ++ tagIf (ref.edges.any (·.len == 0)) "zero-lengths" ++
        tagIf (run.cli && flags.contains 'L') "opt-long" ++ tagIf (run.cli && flags.contains 'E') "opt-eq" ++
        tagIf (run.cli && flags.contains 'P') "opt-before-subcommand" ++ tagIf (run.cli && flags.contains 'O') "opt-omitted" ++
        tagIf (run.cli && flags.contains 'A') "alias-command" ++
        tagIf (run.cli && threads > 16 && kind != "clitbe") "threads>cores-clamped-by-the-code" ++
        tagIf (run.cli && threads > 16 && kind == "clitbe") "threads>cores" ++ tagIf (threads < 1) "threads<1"
      -- the glue of the support commands: the log echoes the thread count the command was given,
      -- whatever the form of the option (-t N, --threads N, --threads=N, before the sub-command, omitted = 1)
      let cliLogOK := !((kind == "clifbp" || kind == "clitbe") && outcome == "ok") || took == (threads : Int)
      -- the glue around the pools: a thread count below 1 means one worker (fbp.go:17, tbe.go:151, and since
      -- 3282a54 tree.Compare / tree.CompareWeighted)
      let threads := if threads < 1 then 1 else threads
      if !(runOK run) then
        ⟨.oracle, tags, (if tbeLogFloatOrder run then "class=TbeMovedTaxaFloatOrder " else "") ++ runWhy run⟩
      else if !(progressOK run progress) then
        ⟨.oracle, tags, "the Supporter's progress counter is " ++ toString progress ++ " after " ++ toString n ++ " trees without error"⟩
      -- with an erroneous tree TBE (sequential outer loop) has counted the trees before it; FBP with one worker too
      else if progress ≥ 0 && !cancelled && nbad > 0 && (kind == "tbe" || (kind == "fbp" && threads == 1)) && progress != (badPos : Int) then
        ⟨.tie, tags, "progress counter " ++ toString progress ++ ", the model counts the " ++ toString badPos ++ " trees before the erroneous one"⟩
      else if !cliLogOK then ⟨.tie, tags, "the command logged CPUs : " ++ toString took ++ " for " ++ toString threads ++ " threads"⟩
      else if cancelled then ⟨.pass, tags, ""⟩
      -- the terminal states of the LTS against the goroutines really left behind: a maximal run of a
      -- clean pool leaves the producer blocked only when every worker stopped on an erroneous tree
      -- (`pool_normal_form_general`): never on a stream without erroneous tree, never for the pools that
      -- record the error and go on; with one worker that stops, exactly when trees remain after the bad one
      else if left ≥ 0 && !run.cli && (nbad == 0 || run.perItem) && left != 0 then
        ⟨.tie, tags, toString left ++ " goroutine(s) left behind by a run in which the LTS leaves none"⟩
      else if left ≥ 0 && (kind == "fbp" && threads == 1 || kind == "tbe") && nbad > 0 && ((left > 0) != (badPos + 1 < n)) then
        ⟨.tie, tags, toString left ++ " goroutine(s) left behind; the LTS leaves the feeder blocked exactly when trees remain after the erroneous one"⟩
      else if run.perItem && !(order.length == n && orderOK threads order) then
        ⟨.tie, tags, "the records arrived in an order the LTS excludes for " ++ toString threads ++ " workers: " ++ toString order⟩
      else
      -- the model: the pool LTS run under a schedule derived from the case
      let seed : UInt64 := (hash itemsS) + threads.toUInt64
      let sched := mkSched seed threads (8 * n + 6)
      -- capacity of the input channel: the harness feeds the library pools through an unbuffered channel
      -- (0: rendezvous), the commands read through ReadMultiTrees (buffer of 10)
      let cap : Nat := if run.cli then extractedCap "ReadMultiTrees" "tree.Trees" threads 10 else 0
      let stops : (Nat × Item) → Bool := fun x => x.2.isBad ref
      let indexed := (List.range n).zip items
      if kind == "compare" then
        let fin := runToEnd (extractedShape kind) (fun x : Nat × Item => compareItem ref tips binary x.1 x.2) stops threads cap indexed sched
        match parseCmpRecs records with
        | none => bad "C11.pool compare records"
        | some recs =>
          if !fin.closed || fin.panicked then ⟨.tie, tags, "model run does not end closed"⟩
          else if (sortRecs fin.out).map CmpRec.obs != (sortRecs recs).map CmpRec.obs then
            ⟨.tie, tags, "model records " ++ showL (repr ((sortRecs fin.out).map CmpRec.obs))⟩
          else ⟨.pass, "model-compare" :: tags, ""⟩
      else if kind == "weighted" then
        let fin := runToEnd (extractedShape kind) (fun x : Nat × Item => weightedItem ref tips binary x.1 x.2) stops threads cap indexed sched
        match parseWRecs records with
        | none => bad "C11.pool weighted records"
        | some recs =>
          if !fin.closed || fin.panicked then ⟨.tie, tags, "model run does not end closed"⟩
          else if (sortWRecs fin.out).map WRec.obs != (sortWRecs recs).map WRec.obs then
            ⟨.tie, tags, "model records " ++ showL (repr ((sortWRecs fin.out).map WRec.obs))⟩
          else ⟨.pass, "model-weighted" :: tags, ""⟩
      else if kind == "cliweighted" && outcome == "ok" then
        -- the command's glue (comparetrees.go:108-126): wRF = Σ|common| + Σ specific lengths, KF = √(Σ squares)
        let fin := runToEnd (extractedShape kind) (fun x : Nat × Item => weightedItem ref tips binary x.1 x.2) stops threads cap indexed sched
        match parseCliW binary records with
        | none => bad "C11.pool cliweighted records"
        | some recs =>
          let model := sortWRecs fin.out
          let agree := model.length == recs.length && (List.zip model recs).all fun (m, r) =>
            m.id == r.1 &&
            (match r.2.1 with
             | none => m.same == r.2.2
             | some (wrf, kf) =>
               let mw := (m.common.map absR).sum + m.ref.sum + m.comp.sum
               let mk2 := (m.common.map (fun x => x * x)).sum + (m.ref.map (fun x => x * x)).sum + (m.comp.map (fun x => x * x)).sum
               closeRel wrf mw 1 1000000 && closeRel (kf * kf) mk2 3 1000000)
          if !fin.closed || fin.panicked then ⟨.tie, tags, "model run does not end closed"⟩
          else if !agree then ⟨.tie, tags, "model records " ++ showL (repr model)⟩
          else ⟨.pass, "model-cliweighted" :: tags, ""⟩
      else if kind == "clicompare" && outcome == "ok" then
        let fin := runToEnd (extractedShape kind) (fun x : Nat × Item => compareItem ref tips binary x.1 x.2) stops threads cap indexed sched
        match parseCliCmp binary records with
        | none => bad "C11.pool clicompare records"
        | some recs =>
          let rf := flags.contains 'r' && !binary
          let model := (sortRecs fin.out).map fun r =>
            if binary then (r.id, none, r.same)
            else if rf then (0, some (r.t1 + r.t2, 0, 0), false)   -- in the order of the compared trees
            else (r.id, some (r.t1, r.t2, r.common), false)
          if !fin.closed || fin.panicked then ⟨.tie, tags, "model run does not end closed"⟩
          else if model != recs then ⟨.tie, tags, "model lines " ++ showL (repr model)⟩
          else ⟨.pass, "model-clicompare" :: tags, ""⟩
      else if kind == "fbp" || kind == "clifbp" then
        -- the stopping pool: the model predicts exactly when the shared error cell is set, and the
        -- collector's tallies give the supports
        let fin := runToEnd (extractedShape kind) (fun x : Nat × Item => fbpFound ref x.2) stops threads cap indexed sched
        let modelErr := fin.errSet
        -- when every worker stopped on an erroneous tree the goroutine feeding the channel stays blocked for
        -- ever (a leaked goroutine, not a hang of the call): made visible as a tag
        let tags := tags ++ tagIf fin.prod "model-producer-left-blocked"
        if !fin.closed || fin.panicked then ⟨.tie, tags, "model run does not end closed"⟩
        else if modelErr != (outcome != "ok") then ⟨.tie, tags, "model error cell " ++ toString modelErr⟩
        else if outcome == "ok" then
          match parseRatList records with
          | none => bad "C11.pool fbp records"
          | some sups =>
            let model := fbpSupports ref fin.out n
            let orig := ref.splits.map (·.e.sup)
            let okAll := sups.length == model.length &&
              ((List.zip sups (List.zip model orig)).all fun (x : Rat × Option Rat × Rat) =>
                match x.2.1 with
                | some q => approx x.1 q
                | none => x.1 == x.2.2)
            if progress ≥ 0 && progress != (fin.out.length : Int) then
              ⟨.tie, tags, "progress counter " ++ toString progress ++ ", the model run completed " ++ toString fin.out.length ++ " trees"⟩
            else if okAll then ⟨.pass, "model-fbp" :: (tags ++ tagIf (progress ≥ 0) "progress-observed"), ""⟩
            else ⟨.tie, tags, "model supports " ++ showL (repr model)⟩
        else ⟨.pass, "model-stop" :: tags, ""⟩
      else if kind == "tbe" || kind == "clitbe" then
        -- the whole call against the model (Model/C11Tbe.lean): the outer loop over the stream — the first
        -- erroneous tree makes it return its error — with, per bootstrap tree, C10's per-branch function run
        -- through the pool LTS (`cpu` workers, edge channel of capacity `cpu*10`, one schedule per tree derived
        -- from the case), then the normalisation.  For the commands an empty file is a stream of one error item.
        let scheds : Nat → List (Nat × Nat) := fun k => mkSched (seed + k.toUInt64) threads (8 * ref.splits.length + 6)
        let stream := if run.cli && items.isEmpty then [Item.err] else items
        match tbeCall (extractedShape "tbe") ref threads (extractedCap "TBE" "*tree.Edge" threads (threads * 10)) scheds stream with
        | .error c =>
          if outcome == "ok" then ⟨.tie, tags, "the model of TBE fails with " ++ c⟩
          else ⟨.pass, "model-tbe-error" :: tags, ""⟩
        | .ok model =>
          if outcome != "ok" then ⟨.tie, tags, "the model of TBE succeeds, the call failed: " ++ outcome⟩
          else
          let supS := (records.splitOn "#").headD ""
          match parseRatList supS with
          | none => bad "C11.pool tbe records"
          | some sups =>
            if !(sups.length == model.length && (List.zip sups model).all (fun (a, m) => if m == NIL then a == NIL else approxAbs a m)) then
              ⟨.tie, tags, "model supports " ++ showL (repr model)⟩
            else if kind == "tbe" && flags.contains 'a' && !items.isEmpty then
              -- the moved-taxa tallies (shared by the workers under the mutex): the `Taxon tIndex` table of the log
              -- against the pool model of the tallies (Model/C11Tbe.lean `tallyOuter`), values printed with %f
              let boots := items.filterMap fun it => match it with | .tree t => some t | .err => none
              let logS := (((records.splitOn "#").drop 1).filter fun p => !p.startsWith "raw:").headD ""
              match (unescape logS).bind parseTaxaTable,
                    tallyOuter (extractedShape "tbe") ref ((3 : Rat) / 10) threads (extractedCap "TBE" "*tree.Edge" threads (threads * 10)) scheds boots 0 (tallyAcc0 ref) with
              | none, _ => bad "C11.pool tbe statistics log"
              | _, none => ⟨.tie, tags, "model run of the TBE fan-out with tallies does not deliver every branch"⟩
              | some table, some acc =>
                let want := taxaTable acc boots.length
                let ok := table.length == want.length && table.all fun (x, v) =>
                  match want.find? (·.1 == x) with
                  | some (_, m) => absR (v - m) ≤ (2 : Rat) / 1000000
                  | none => false
                if ok then ⟨.pass, "model-tbe" :: "model-tbe-tallies" :: (tags ++ tagIf (want.any (·.2 != 0)) "moved-taxa-nonzero"), ""⟩
                else ⟨.tie, tags, "model moved-taxa table " ++ showL (repr want)⟩
            else ⟨.pass, "model-tbe" :: tags, ""⟩
      else
        let fin := runToEnd (extractedShape kind) (fun x : Nat × Item => x.1) stops threads cap indexed sched
        if !fin.closed || fin.panicked then ⟨.tie, tags, "model run does not end closed"⟩
        else if run.perItem && (fin.out.mergeSort (fun a b => decide (a ≤ b))) != List.range n then
          ⟨.tie, tags, "model ids"⟩
        else ⟨.pass, (if run.perItem then "model-ids" else "model-shape-only") :: tags, ""⟩
    | _, _, _, _, _ => bad "C11.pool fields"
  | "hm", [_, ths, flags, _, _, outcome, records, outcome1, records1, race, _] =>
    -- goroutines filling one hashmap.HashMap with disjoint keys: the final content is the sequential one
    match ths.toNat?, ((flags.replace "R" "").splitOn ",").map String.toNat? with
    | some threads, [some n, some _, some _] =>
      let expect := String.join ((List.range n).map fun j => toString j ++ ":" ++ toString (j * j) ++ ",") ++ ";" ++ toString n
      let tags := ["hashmap", "threads=" ++ toString threads] ++ tagIf (threads ≥ 2 ∧ n ≥ 2) "nontrivial" ++
        tagIf (flags.contains 'R') "race-build"
      if !(terminated outcome) then ⟨.oracle, tags, "hash map filling did not terminate normally: " ++ outcome⟩
      else if race != "" then ⟨.oracle, tags, "data race reported: " ++ race⟩
      else if outcome != "ok" || outcome1 != "ok" || records != records1 then
        ⟨.oracle, tags, "content of the hash map depends on the number of goroutines"⟩
      else if records != expect then ⟨.oracle, tags, "content of the hash map is not what was put"⟩
      else
        -- the model: the same calls in ONE sequential order (`hashmap_interleaving_independent`: every
        -- interleaving of goroutines owning disjoint keys answers alike), then the `Value` of every key
        match ((flags.replace "R" "").splitOn ",").map String.toNat? with
        | [_, some capacity, some mod] =>
          let hash := HM.intKeyHash mod
          let puts : List (Nat × Int) := (List.range n).flatMap fun j => [(j, (-1 : Int)), (j, ((j * j : Nat) : Int))]
          match HM.putAll hash (HM.new capacity 3 4) puts with
          | none => ⟨.tie, tags, "the model of the hash map panics on this filling"⟩
          | some m =>
            let model := String.join ((List.range n).map fun j =>
              match HM.value hash m j with
              | .ok (some v) => toString j ++ ":" ++ toString v ++ ","
              | .ok none => toString j ++ ":absent,"
              | .panic => toString j ++ ":panic,") ++ ";" ++
              (match HM.keys m with | .ok l => toString l.length | .panic => "panic")
            if model != records then ⟨.tie, tags, "model content " ++ model⟩
            else ⟨.pass, "model-hashmap-filling" :: tags, ""⟩
        | _ => ⟨.pass, tags, ""⟩
    | _, _ => bad "C11.hm fields"
  | "hmseq", [_, ths, flags, _, itemsS, outcome, records, outcome1, records1, race, _] =>
    -- a history of whole calls on ONE hashmap.HashMap by one goroutine, `threads-1` others reading meanwhile
    match ths.toNat?, ((flags.replace "R" "").splitOn ",").map String.toNat?, (splitTerm "|" itemsS).mapM parseHmOp,
          (splitTerm ";" records).mapM parseHmOut with
    | some threads, [some capacity, some lfNum, some lfDen, some mod], some ops, some outs =>
      let hash := HM.intKeyHash mod
      let m0 : HM.HMap Nat Int := HM.new capacity lfNum lfDen
      let puts := ops.filterMap fun o => match o with | .put k v => some (k, v) | _ => none
      let mEnd := HM.putAll hash m0 puts
      let distinct := (puts.map (·.1)).eraseDups.length
      let rehashed := match mEnd with | some m => decide (m.capacity > m0.capacity) | none => false
      let collided := match mEnd with | some m => m.arr.any (fun b => b.length ≥ 2) | none => false
      let tags := ["hmseq", "threads=" ++ toString threads] ++
        tagIf (distinct ≥ 2 && (rehashed || collided)) "nontrivial" ++
        tagIf rehashed "rehash" ++ tagIf collided "bucket-collision" ++ tagIf (distinct < puts.length) "put-of-a-stored-key" ++
        tagIf (capacity &&& (capacity - 1) != 0) "capacity-not-a-power-of-two" ++ tagIf (capacity == 0) "capacity-0" ++
        tagIf (lfNum > lfDen) "loadfactor>1" ++ tagIf (mod > 0) "few-hash-codes" ++
        tagIf (threads ≥ 2) "concurrent-readers" ++ tagIf (flags.contains 'R') "race-build"
      if !(terminated outcome) || !(terminated outcome1) then
        ⟨.oracle, tags, "a history of hash map calls did not terminate normally: " ++ outcome ++ " / " ++ outcome1⟩
      else if race != "" then ⟨.oracle, tags, "data race reported: " ++ race⟩
      else if outcome != "ok" || outcome1 != "ok" then ⟨.oracle, tags, "hash map history failed: " ++ outcome⟩
      else if !(HM.historyOK [] ops outs) then
        ⟨.oracle, tags, "call " ++ toString (HM.firstBad 0 [] ops outs) ++ " of the history does not answer what was put (association-list reference)"⟩
      else if records != records1 then
        ⟨.oracle, tags, "the writer's answers depend on the presence of concurrent readers"⟩
      else
        let model := HM.runOps hash m0 ops
        if model.map (hmOutStr true) != outs.map (hmOutStr true) then
          ⟨.tie, tags, "model answers " ++ ";".intercalate (model.map (hmOutStr true))⟩
        else
          let fid := model.map (hmOutStr false) == outs.map (hmOutStr false)
          ⟨.pass, "model-hashmap" :: tags ++ [if fid then "fidelity-keys-order-equal" else "fidelity-keys-order-differs"], ""⟩
    | _, _, _, _ => bad "C11.hmseq fields"
  | "selftest", _ =>
    -- the driver's comparison fed with deliberately broken shapes (a table with such rows does not pass
    -- the `decide`s of Proofs/C11.lean, but the driver is built apart and runs all the same): the model run
    -- of a leaky shape must end NOT closed, the run of a racy shape must be able to deliver a wrong record —
    -- i.e. the branches "model run does not end closed" / "model records …" above are live
    let leaky : Shape := ⟨true, [false], true, true⟩
    let racy : Shape := ⟨true, [], false, true⟩
    let noClose : Shape := ⟨true, [], true, false⟩
    let r1 := runToEnd leaky (fun n : Nat => n) (fun n => n == 2) 1 0 [1, 2, 3] (mkSched 7 1 20)
    let r2 := runToEnd racy (fun n : Nat => n) (fun _ => false) 2 1 [1, 2] [(3, 0), (0, 0), (3, 0), (1, 0), (0, 2)]
    let r3 := runToEnd noClose (fun n : Nat => n) (fun _ => false) 2 0 [1, 2] (mkSched 3 2 20)
    if r1.closed then ⟨.tie, ["selftest"], "a shape with an exit that skips wg.Done ends closed in the driver"⟩
    else if r2.out.mergeSort (fun a b => decide (a ≤ b)) == [1, 2] then ⟨.tie, ["selftest"], "a shape with an unsynchronised write cannot deliver a wrong record in the driver"⟩
    else if r3.closed then ⟨.tie, ["selftest"], "a shape whose producer skips close ends closed in the driver"⟩
    else ⟨.pass, ["selftest"], ""⟩
  | "table", [status, leaksS, unsyncS, outsideS] =>
    -- (4th field: rows of the pools OUTSIDE the four named computations — compute edgetrees, compute
    -- roccurve —: shown, tagged, not judged by this property)
    match handle "table" [status, leaksS, unsyncS], parseStrList outsideS with
    | v, some outside => { v with tags := v.tags ++ tagIf (!outside.isEmpty) ("rows-outside-the-named-pools=" ++ toString outside.length) }
    | v, none => v
  | "table", [status, leaksS, unsyncS] =>
    -- the regenerated table seen from the runner: rows that break the hypotheses of the LTS theorems.
    -- Not a property violation by itself (no failing run): the tie between the model shape and the code.
    match parseStrList leaksS, parseStrList unsyncS with
    | some leaks, some unsync =>
      if status != "ok" then ⟨.tie, ["table"], "table extraction failed: " ++ leaksS⟩
      else if leaks.isEmpty && unsync.isEmpty then ⟨.pass, ["table"], ""⟩
      else ⟨.tie, ["table"], "the extracted pool shape is not the clean one the theorems assume: " ++
        " ; ".intercalate (leaks ++ unsync)⟩
    | _, _ => bad "C11.table fields"
  | _, _ => bad ("C11: unknown op " ++ op)

end Gotree.Driver.C11
