/-
  C11 — what the CALLER sees does not depend on the order in which the workers' messages arrive:
  the collector of FBP (`fbpSupports`: tallies, then one division per branch) and the per-bootstrap-tree
  collection of TBE (`tbeCollect`: one raw support per reference branch) are invariant under
  permutation of the messages.  Core Lean only.
-/
import Gotree.Spec.C11
import Gotree.Lemmas.C11

namespace Gotree.C11

theorem perm_sum_map_nat {γ : Type} (g : γ → Nat) {l l' : List γ} (h : l.Perm l') :
    (l.map g).sum = (l'.map g).sum := by
  induction h with
  | nil => rfl
  | cons x _ ih => simp [ih]
  | swap x y l => simp; omega
  | trans _ _ ih1 ih2 => exact ih1.trans ih2

/-- the FBP collector: the supports are a function of the MULTISET of the workers' messages -/
theorem fbpSupports_perm (ref : T) {sent sent' : List (List Nat)} (h : sent.Perm sent') (ntrees : Nat) :
    fbpSupports ref sent ntrees = fbpSupports ref sent' ntrees := by
  unfold fbpSupports
  apply List.map_congr_left
  intro i _
  rw [perm_sum_map_nat (fun l => l.count i) h]

/-- looking a key up in a list of (key, value) messages with distinct keys does not depend on their order -/
theorem find_key_perm {γ : Type} {out out' : List (Nat × γ)} (h : out.Perm out') (hk : (out.map (·.1)).Nodup) (i : Nat) :
    out.find? (·.1 == i) = out'.find? (·.1 == i) := by
  induction h with
  | nil => rfl
  | cons x _ ih =>
    simp only [List.map_cons, List.nodup_cons] at hk
    simp only [List.find?_cons]
    split
    · rfl
    · exact ih hk.2
  | swap x y l =>
    simp only [List.map_cons, List.nodup_cons, List.mem_cons, not_or] at hk
    simp only [List.find?_cons]
    by_cases hx : (x.1 == i) = true <;> by_cases hy : (y.1 == i) = true
    · exfalso
      have h1 : x.1 = i := by simpa using hx
      have h2 : y.1 = i := by simpa using hy
      exact hk.1.1 (by rw [h1, h2])
    · simp [hx, hy]
    · simp [hx, hy]
    · simp [hx, hy]
  | trans h1 _ ih1 ih2 =>
    exact (ih1 hk).trans (ih2 (((h1.map (·.1)).nodup_iff).mp hk))

/-- the TBE collection for one bootstrap tree: a function of the multiset of (branch, raw support) messages -/
theorem tbeCollect_perm {out out' : List (Nat × Rat)} (h : out.Perm out') (hk : (out.map (·.1)).Nodup) (n : Nat) :
    tbeCollect n out = tbeCollect n out' := by
  unfold tbeCollect
  congr 1
  funext i
  rw [find_key_perm h hk i]

theorem map_fst_zip_range {γ : Type} : ∀ (n k : Nat) (l : List γ),
    ((List.range' k n).zip l).map (·.1) = (List.range' k n).take l.length
  | 0, _, _ => by simp
  | n + 1, k, [] => by simp
  | n + 1, k, a :: r => by
    simp [List.range'_succ, map_fst_zip_range n (k + 1) r]

/-- the messages of one TBE fan-out carry distinct branch positions -/
theorem tbeItems_keys_nodup (r b : T) (sups : List Rat) :
    (((tbeItems r sups).map (tbeItemFn r b)).map (·.1)).Nodup := by
  have : ((tbeItems r sups).map (tbeItemFn r b)).map (·.1) = (tbeItems r sups).map (·.1) := by
    simp [tbeItemFn, List.map_map, Function.comp_def]
  rw [this]
  unfold tbeItems
  rw [List.range_eq_range', map_fst_zip_range]
  exact (List.nodup_range' (step := 1) (by omega)).sublist (List.take_sublist _ _)

/-! ## The order in which the caller receives the results

  The input channel is a queue: the items that have left it form a PREFIX of the stream, and a worker
  holds at most one of them.  So when the result of the item at position `k` of the stream is delivered
  as the `j`-th one, `k < j + w` (+ the number of items dropped on an early exit). -/

variable {α β : Type}

def Phase.nheld : Phase α β → Nat
  | .holding _ => 1 | .computed _ _ => 1 | _ => 0

theorem nheld_le_one (p : Phase α β) : p.nheld ≤ 1 := by cases p <;> simp [Phase.nheld]

theorem le_sumMap_of_getElem? (g : Phase α β → Nat) : ∀ (l : List (Phase α β)) (i : Nat) (p : Phase α β),
    l[i]? = some p → g p ≤ sumMap g l
  | [], _, _, h => by simp at h
  | a :: r, 0, p, h => by simp at h; subst h; simp [sumMap]
  | a :: r, i + 1, p, h => by
    simp at h
    have := le_sumMap_of_getElem? g r i p h
    simp [sumMap]; omega

section
open Classical

/-- what has left the input channel is a prefix `T` of the stream, as long as what is delivered, held or dropped -/
structure Win (w : Nat) (inp0 : List α) (s : PState α β) : Prop where
  suf : ∃ T, inp0 = T ++ (s.inp ++ s.pending) ∧
        T.length = s.done.length + sumMap Phase.nheld s.workers + s.dropped.length
  win : ∀ j x k, s.done.reverse[j]? = some x → inp0[k]? = some x → k < j + w + s.dropped.length

theorem win_init (w cap : Nat) (inp : List α) : Win w inp (init w cap inp : PState α β) := by
  refine ⟨⟨[], ?_, ?_⟩, ?_⟩
  · simp [init]
  · simp [init, sumMap_replicate, Phase.nheld]
  · intro j x k h; simp [init] at h

/-- position of a delivered item: it has left the channel, so it lies in the prefix -/
theorem pos_in_prefix {inp0 T rest : List α} (hn : inp0.Nodup) (h : inp0 = T ++ rest) {x : α} {k : Nat}
    (hk : inp0[k]? = some x) (hx : x ∉ rest) : k < T.length := by
  apply Classical.byContradiction
  intro hlt
  have hge : T.length ≤ k := by omega
  rw [h, List.getElem?_append_right hge] at hk
  exact hx (List.mem_of_getElem? hk)

theorem win_step {Sh : Shape} {f : α → β} {stops : α → Bool} {w c0 : Nat} {inp0 : List α} (hn : inp0.Nodup)
    {s s' : PState α β} {i c : Nat}
    (hI : Inv Sh stops w c0 inp0 s) (h : Win w inp0 s) (hs : stepFn Sh f stops s i c = some s') : Win w inp0 s' := by
  have hW := fun p q hget => sumMap_set (Phase.nheld (α := α) (β := β)) s.workers i p q hget
  obtain ⟨⟨T, hT, hTl⟩, hwin⟩ := h
  unfold stepFn at hs
  split at hs
  · simp at hs
  · split at hs
    · -- idle
      rename_i hget
      split at hs
      · rename_i x r hinp
        simp at hs; subst hs
        refine ⟨⟨T ++ [x], ?_, ?_⟩, hwin⟩
        · simp [hT, hinp]
        · have := hW _ (.holding x) hget
          simp [Phase.nheld] at *; omega
      · rename_i hinp
        split at hs
        · split at hs
          · rename_i x r hpend
            simp at hs; subst hs
            refine ⟨⟨T ++ [x], ?_, ?_⟩, hwin⟩
            · simp [hT, hinp, hpend]
            · have := hW _ (.holding x) hget
              simp [Phase.nheld] at *; omega
          · simp at hs
        split at hs
        · simp at hs
        simp at hs; subst hs
        refine ⟨⟨T, hT, ?_⟩, hwin⟩
        have := hW _ (if Sh.rangeEndDone then .exiting else .leaked) hget
        cases hr : Sh.rangeEndDone <;> simp [hr, Phase.nheld] at * <;> omega
    · -- holding
      rename_i x hget
      split at hs
      · split at hs
        · rename_i e he
          simp at hs; subst hs
          refine ⟨⟨T, hT, ?_⟩, ?_⟩
          · have := hW _ (if e then .exiting else .leaked) hget
            cases e <;> simp [Phase.nheld] at * <;> omega
          · intro j y k hj hk
            have := hwin j y k hj hk
            simp; omega
        · simp at hs
      · have key : ∀ y : β, Win w inp0 { s with workers := s.workers.set i (.computed x y) } := by
          intro y
          refine ⟨⟨T, hT, ?_⟩, hwin⟩
          have := hW _ (.computed x y) hget
          simp [Phase.nheld] at *; omega
        split at hs
        · simp at hs; subst hs; exact key _
        · split at hs
          · simp at hs
          · split at hs
            · simp at hs; subst hs; exact key _
            · simp at hs
    · -- computed: the send
      rename_i x y hget
      split at hs
      · simp at hs; subst hs
        exact ⟨⟨T, hT, hTl⟩, hwin⟩
      · simp at hs; subst hs
        have h2 := hW _ .idle hget
        refine ⟨⟨T, hT, ?_⟩, ?_⟩
        · simp [Phase.nheld] at *; omega
        · intro j z k hj hk
          simp only [List.reverse_cons] at hj
          by_cases hjl : j < s.done.reverse.length
          · rw [List.getElem?_append_left hjl] at hj
            exact hwin j z k hj hk
          · -- the item just delivered: it is held, hence not in the channel any more
            have hjeq : j = s.done.length := by
              have hle : s.done.reverse.length ≤ j := by omega
              rw [List.getElem?_append_right hle] at hj
              have : j - s.done.reverse.length = 0 := by
                cases hd : j - s.done.reverse.length with
                | zero => rfl
                | succ m => rw [hd] at hj; simp at hj
              simp at *; omega
            have hzx : z = x := by
              have hle : s.done.reverse.length ≤ j := by omega
              rw [List.getElem?_append_right hle] at hj
              have : j - s.done.reverse.length = 0 := by simp at *; omega
              rw [this] at hj; simp at hj; exact hj.symm
            subst hzx
            have hcount := hI.cons z
            have hheld : 1 ≤ sumMap (Phase.cnt z) s.workers := by
              have := le_sumMap_of_getElem? (Phase.cnt z) s.workers i _ hget
              simpa [Phase.cnt, Phase.items] using this
            have hone : inp0.count z ≤ 1 := List.nodup_iff_count.mp hn z
            have hnot : z ∉ s.inp ++ s.pending := by
              intro hm
              have : 0 < (s.inp ++ s.pending).count z := List.count_pos_iff.mpr hm
              simp [List.count_append] at this
              omega
            have hk' := pos_in_prefix hn hT hk hnot
            have hle : sumMap Phase.nheld s.workers ≤ s.workers.length := sumMap_le_length nheld_le_one _
            have hlen : s.workers.length = w := hI.len
            have hfin : k < s.done.length + w + s.dropped.length := by
              rw [hTl] at hk'
              omega
            show k < j + w + s.dropped.length
            rw [hjeq]; exact hfin
    · -- exiting
      rename_i hget
      simp at hs; subst hs
      refine ⟨⟨T, hT, ?_⟩, hwin⟩
      have := hW _ .finished hget
      simp [Phase.nheld] at *; omega
    · simp at hs
    · simp at hs
    · split at hs
      · split at hs
        · simp at hs; subst hs
          exact ⟨⟨T, hT, hTl⟩, hwin⟩
        · simp at hs
      · split at hs
        · split at hs
          · rename_i x r hpend
            split at hs
            · simp at hs; subst hs
              refine ⟨⟨T, ?_, hTl⟩, hwin⟩
              simp [hT, hpend]
            · simp at hs
          · split at hs
            · simp at hs; subst hs
              exact ⟨⟨T, hT, hTl⟩, hwin⟩
            · simp at hs; subst hs
              exact ⟨⟨T, hT, hTl⟩, hwin⟩
        · simp at hs

theorem reachable_win (F : PoolFacts) (f : α → β) (stops : α → Bool) (w cap : Nat) (inp : List α) (hn : inp.Nodup)
    (s : PState α β) (h : Reachable F f stops (init w cap inp) s) : Win w inp s := by
  induction h with
  | refl => exact win_init _ _ _
  | step hr hs ih =>
    obtain ⟨i, c, hs⟩ := hs
    exact win_step hn (reachable_inv F f stops w cap inp _ hr) ih hs

end

end Gotree.C11
