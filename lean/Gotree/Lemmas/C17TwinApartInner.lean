/-
  C17 — the two neighbours of one branch in the `Apart` form: the upper end is an inner node.
-/
import Gotree.Lemmas.C17TwinApartCommon

namespace Gotree.C17
open Gotree Gotree.C17.Spec

set_option maxHeartbeats 4000000 in
theorem local_twin_apart_nonroot (path : List Nat) (d1 d2 : NodeD) (e eu ev : EdgeD) (tu tv : T)
    (y : EdgeD × T) (p1 p2 : Nat) (hp1 : p1 ≤ 2) (hp2 : p2 ≤ 2) :
    LocalTwinApart path d1 false p1 [(e, T.node d2 p2 [(eu, tu), (ev, tv)]), y] 0 p2 ∧
    LocalTwinApart path d1 false p1 [y, (e, T.node d2 p2 [(eu, tu), (ev, tv)])] 1 p2 := by
  obtain ⟨xu, hxu⟩ := List.exists_mem_of_ne_nil _ (leaves_ne_nil tu)
  obtain ⟨xv, hxv⟩ := List.exists_mem_of_ne_nil _ (leaves_ne_nil tv)
  obtain ⟨ey, ty⟩ := y
  obtain ⟨xy, hxy⟩ := List.exists_mem_of_ne_nil _ (leaves_ne_nil ty)
  have bu := block_sub eu tu
  have bv := block_sub ev tv
  have bY := block_sub ey ty
  have h1 : p1 = 0 ∨ p1 = 1 ∨ p1 = 2 := by omega
  have h2 : p2 = 0 ∨ p2 = 1 ∨ p2 = 2 := by omega
  unfold LocalTwinApart
  rcases h1 with rfl | rfl | rfl <;> rcases h2 with rfl | rfl | rfl <;>
    refine ⟨?_, ?_⟩ <;> intro hnd S1 S2 hS1 hS2 <;> eval_local at hS1 <;> eval_local at hS2 <;>
    subst hS1 <;> subst hS2 <;>
    simp only [leavesL, T.leaves, List.append_nil, List.nodup_append, List.mem_append] at hnd <;>
    simp only [T.kids_node, leavesL, List.append_nil] <;>
    first
    | apart2_at3 0 0 eu ev ey tu tv ty xu xv xy bu bv bY
    | apart2_at3 1 1 eu ev ey tu tv ty xu xv xy bu bv bY
    | apart2_at3 0 1 eu ev ey tu tv ty xu xv xy bu bv bY
    | apart2_at3 1 0 eu ev ey tu tv ty xu xv xy bu bv bY

end Gotree.C17
