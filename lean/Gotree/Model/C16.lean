/-
  C16 — executable model of the tree generators of `tree/treegen.go`
  (RandomUniformBinaryTree, RandomYuleBinaryTree, RandomCaterpillarBinaryTree,
  RandomBalancedBinaryTree, StarTree, AllTopologies/allTopologies_recur) and of
  the pieces of `tree/tree.go` they call (GraftTipOnEdge, RerootFirst/Reroot,
  UnRoot, Clone, UpdateTipIndex).  Core Lean only (linked into the driver).

  Randomness (DESIGN §3.5): every generator takes the values returned by its
  `rand.Intn(k)` calls as `ints : List Nat` (in call order) and the values
  returned by its `gostats.Exp(lambda)` calls as `lens : List Rat` (in call
  order).  The j-th call reads `getD j 0`.

  Pointers: Go keeps `[]*Edge` / `[]*Node` slices into the tree under
  construction.  The model keeps, for an edge pointer, the *current position of
  that edge in `Tree.Edges()` order* (pre-order) and updates the positions when
  a graft shifts them; a tip pointer is kept as the name the tip was created
  with (`tips[k]` is the node created as "Tip k").
-/
import Gotree.Model.Core

namespace Gotree.C16
open Gotree

/-- outcome of a call: value, returned `error`, or a Go panic (index out of range …) -/
inductive Res (α : Type) where
  | ok (a : α)
  | err (msg : String)
  | panic (msg : String)
  deriving Repr

def Res.isOk {α} : Res α → Bool | .ok _ => true | _ => false
def Res.isErr {α} : Res α → Bool | .err _ => true | _ => false

/-- `"Tip" + strconv.Itoa(i)` / `fmt.Sprintf("Tip%d", i)` -/
def tipName (i : Nat) : String := "Tip" ++ toString i

/-- `NewEdge()` followed by `SetLength(l)` -/
def newEdge (l : Rat) : EdgeD := { EdgeD.blank with len := l }

/-- `NewNode()` (name "", no comment) -/
def newNodeD : NodeD := ⟨"", []⟩

def lenAt (lens : List Rat) (j : Nat) : Rat := lens.getD j 0

/- ## number of branches, and "apply at the k-th branch in Edges() order" -/

mutual
def numEdges : T → Nat
  | .node _ _ k => numEdgesL k
def numEdgesL : Kids → Nat
  | [] => 0
  | (_, t) :: r => 1 + numEdges t + numEdgesL r
end

mutual
/-- replace the k-th branch (pre-order, `Tree.Edges()` order) and the subtree below it by `f` of them;
    unchanged when `k` is not the index of a branch -/
def applyAt (f : EdgeD × T → EdgeD × T) (k : Nat) : T → T
  | .node d p ks => .node d p (applyAtL f k ks)
def applyAtL (f : EdgeD × T → EdgeD × T) (k : Nat) : Kids → Kids
  | [] => []
  | (e, t) :: r =>
    if k = 0 then f (e, t) :: r
    else if k - 1 < numEdges t then (e, applyAt f (k - 1) t) :: r
    else (e, t) :: applyAtL f (k - 1 - numEdges t) r
end

/- ## GraftTipOnEdge (tree.go:853)

   e = lnode→rnode becomes lnode —e→ newnode, newnode —newedge→ n, newnode —newedge2→ rnode.
   newnode.neigh = [n, lnode, rnode]: its parent sits at position 1, its children are
   [n, rnode] in this order; rnode keeps the position of its parent; `e` keeps its
   support/comments and gets half its length, `newedge2` the other half, `newedge` length 1. -/
def graftF (name : String) : EdgeD × T → EdgeD × T
  | (e, c) =>
    ({ e with len := e.len / 2 },
     .node newNodeD 1 [(newEdge 1, T.leaf name), (newEdge (e.len / 2), c)])

/-- the three `SetLength` calls that follow a graft in every generator: `e`, `newedge`, `newedge2` -/
def relen (l0 l1 l2 : Rat) : EdgeD × T → EdgeD × T
  | (e, .node d p [(e1, a), (e2, b)]) =>
    ({ e with len := l0 }, .node d p [({ e1 with len := l1 }, a), ({ e2 with len := l2 }, b)])
  | x => x

/-- graft + the three SetLength calls -/
def graftLen (name : String) (l0 l1 l2 : Rat) (x : EdgeD × T) : EdgeD × T :=
  relen l0 l1 l2 (graftF name x)

/-- `t.GraftTipOnEdge(n, e)` + `SetLength`s where `e` is the k-th branch; a `k` that is not a
    branch cannot be expressed in Go (the pointer always designates a branch): panic -/
def graftAt (name : String) (l0 l1 l2 : Rat) (k : Nat) (t : T) : Res T :=
  if k < numEdges t then .ok (applyAt (graftLen name l0 l1 l2) k t) else .panic "no such branch"

/-- positions of the previously known branches after a graft on branch `k`: the branch itself keeps
    its position (it is the upper half), everything after it moves by two -/
def shiftPos (k : Nat) (x : Nat) : Nat := if x ≤ k then x else x + 2

/- ## Reroot (tree.go:783) as a one-branch root move, RerootFirst (tree.go:572) -/

/-- child `i` of the root becomes the root; the old root becomes its child at the position the
    parent occupied in the child's neighbour slice (no neighbour order changes) -/
def moveRoot (t : T) (i : Nat) : Option T :=
  match t with
  | .node d _ ks =>
    match ks[i]? with
    | none => none
    | some (e, .node dc pc kc) =>
      some (.node dc 0 (kc.take pc ++ (e, .node d i (ks.eraseIdx i)) :: kc.drop pc))

/-- `Reroot` on the node at child-index path `p` (indexes refer to the child lists of the tree
    before re-rooting): a fold of `moveRoot`.  `shift` = position at which the previous step
    inserted the old root into the child list now being indexed. -/
def rerootGo (shift : Option Nat) : List Nat → T → Option T
  | [], t => some t
  | i :: r, t =>
    let i' := match shift with
      | none => i
      | some pc => if i < pc then i else i + 1
    match t.kids[i']? with
    | none => none
    | some (_, c) =>
      match moveRoot t i' with
      | none => none
      | some t' => rerootGo (some c.ppos) r t'

def rerootPath (p : List Nat) (t : T) : Option T := rerootGo none p t

mutual
/-- path (child indexes) of the first node in `Nodes()` order (pre-order) that has exactly three
    neighbours; `up` = 1 for a non-root node (its parent), 0 for the root -/
def firstDeg3 (up : Nat) : T → Option (List Nat)
  | .node _ _ ks => if ks.length + up == 3 then some [] else firstDeg3L 0 ks
def firstDeg3L (i : Nat) : Kids → Option (List Nat)
  | [] => none
  | (_, t) :: r =>
    match firstDeg3 1 t with
    | some p => some (i :: p)
    | none => firstDeg3L (i + 1) r
end

def errNoDeg3 : String := "No nodes with 3 neighors have been found for rerooting"

/-- `t.RerootFirst()` -/
def rerootFirst (t : T) : Res T :=
  match firstDeg3 0 t with
  | none => .err errNoDeg3
  | some p =>
    match rerootPath p t with
    | some t' => .ok t'
    | none => .panic "reroot"

/- ## UpdateTipIndex (tree.go:457): sorted tip names, error on a duplicate -/

def insertSorted (a : String) : List String → List String
  | [] => [a]
  | b :: r => if a ≤ b then a :: b :: r else b :: insertSorted a r

def sortNames (l : List String) : List String := l.foldr insertSorted []

def hasDup : List String → Bool
  | [] => false
  | a :: r => r.contains a || hasDup r

/-- the tip index after `UpdateTipIndex`: `none` when two tips have the same name (the Go call
    returns an error and leaves the index half-filled) -/
def updateTipIndex (t : T) : Option (List String) :=
  if hasDup t.tipNames then none else some (sortNames t.tipNames)

/-- what a generator returns: the tree, and the tip index left by the final `ReinitIndexes`
    (whose error the generators ignore) -/
structure Out where
  t : T
  index : Option (List String)
  deriving Repr

def finishOut (t : T) : Out := ⟨t, updateTipIndex t⟩

/-- `ExistsTip(name)` on the returned tree: error when the index is empty -/
def Out.existsTip (o : Out) (name : String) : Option Bool :=
  match o.index with
  | none => none
  | some [] => none
  | some ix => some (ix.contains name)

/- ## the insertion generators -/

def errLess2 : String := "Cannot create an unrooted random binary tree with less than 2 tips"
def errLess3 : String := "Cannot create a rooted random binary tree with less than 3 tips"

/-- state after the `i = 1` iteration (`case 0` / `case 1` of the switch): the tree rooted at `n2`
    and the number of Exp values consumed -/
def initTree (rooted : Bool) (lens : List Rat) : T × Nat :=
  if rooted then
    (.node ⟨"", []⟩ 0 [(newEdge (lenAt lens 0), T.leaf (tipName 1)), (newEdge (lenAt lens 1), T.leaf (tipName 0))], 2)
  else
    (.node ⟨tipName 0, []⟩ 0 [(newEdge (lenAt lens 0), T.leaf (tipName 1))], 1)

/-- state of the loops -/
structure St where
  t : T
  edges : List Nat      -- `edges []*Edge` (uniform): current Edges() position of each
  tips : List String    -- `tips []*Node` (yule): name each was created with
  li : Nat              -- Exp values consumed so far

/-- run `step i` for `i = i₀ … i₀ + cnt - 1`, stopping at the first non-ok -/
def iter (step : Nat → St → Res St) : Nat → Nat → St → Res St
  | 0, _, s => .ok s
  | c + 1, i, s =>
    match step i s with
    | .ok s' => iter step c (i + 1) s'
    | .err m => .err m
    | .panic m => .panic m

/-- position in `Edges()` order of the single branch of the tip named `name` (`tip.br[0]`):
    branch 0 when the tip is the root itself -/
def edgeOfTip (t : T) (name : String) : Option Nat :=
  if t.kids.length == 1 && t.name == name then some 0
  else t.splits.findIdx? (fun s => s.tip && s.below == [name])

/-- the `default:` branch of RandomUniformBinaryTree for tip `i` (≥ 2) -/
def uniformStep (ints : List Nat) (lens : List Rat) (i : Nat) (s : St) : Res St :=
  let j := ints.getD (i - 2) 0               -- rand.Intn(len(edges))
  match s.edges[j]? with
  | none => .panic "index out of range"
  | some k =>
    match graftAt (tipName i) (lenAt lens s.li) (lenAt lens (s.li + 1)) (lenAt lens (s.li + 2)) k s.t with
    | .ok t' => .ok { s with t := t', edges := s.edges.map (shiftPos k) ++ [k + 1, k + 2], li := s.li + 3 }
    | .err m => .err m
    | .panic m => .panic m

/-- the `default:` branch of RandomYuleBinaryTree for tip `i` (≥ 2), and the `tips = append(tips, n)` -/
def yuleStep (ints : List Nat) (lens : List Rat) (i : Nat) (s : St) : Res St :=
  let j := ints.getD (i - 2) 0               -- rand.Intn(len(tips))
  match s.tips[j]? with
  | none => .panic "index out of range"
  | some nm =>
    match edgeOfTip s.t nm with
    | none => .panic "tip without branch"
    | some k =>
      match graftAt (tipName i) (lenAt lens s.li) (lenAt lens (s.li + 1)) (lenAt lens (s.li + 2)) k s.t with
      | .ok t' => .ok { s with t := t', tips := s.tips ++ [tipName i], li := s.li + 3 }
      | .err m => .err m
      | .panic m => .panic m

/-- the `default:` branch of RandomCaterpillarBinaryTree for tip `i` (≥ 2): `lasttip` is tip `i-1` -/
def caterStep (lens : List Rat) (i : Nat) (s : St) : Res St :=
  match edgeOfTip s.t (tipName (i - 1)) with
  | none => .panic "tip without branch"
  | some k =>
    match graftAt (tipName i) (lenAt lens s.li) (lenAt lens (s.li + 1)) (lenAt lens (s.li + 2)) k s.t with
    | .ok t' => .ok { s with t := t', li := s.li + 3 }
    | .err m => .err m
    | .panic m => .panic m

/-- the end of the three insertion generators: `if !rooted {err = t.RerootFirst()}; t.ReinitIndexes();
    return t, err` -/
def finishIns (rooted : Bool) (t : T) : Res Out :=
  if rooted then .ok (finishOut t)
  else match rerootFirst t with
    | .ok t' => .ok (finishOut t')
    | .err m => .err m
    | .panic m => .panic m

def initSt (rooted : Bool) (lens : List Rat) : St :=
  let (t, li) := initTree rooted lens
  { t := t, edges := List.range (numEdges t), tips := [tipName 0, tipName 1], li := li }

/-- pinned variant (before f417e91): the frame of the three insertion generators with the guards
    "less than 2 tips" (unrooted) / "less than 3 tips" (rooted): the 2-tip unrooted call passes them,
    draws one length and ends in the unrelated error of `RerootFirst` (the Go code returned the tree
    together with that error) -/
def insertionGenDoc2 (step : Nat → St → Res St) (n : Int) (rooted : Bool) (lens : List Rat) : Res Out :=
  if n < 2 then .err errLess2
  else if n < 3 && rooted then .err errLess3
  else
    match iter step (n.toNat - 2) 2 (initSt rooted lens) with
    | .ok s => finishIns rooted s.t
    | .err m => .err m
    | .panic m => .panic m

def errLess3All : String := "Cannot create a random binary tree with less than 3 tips"

/-- shared frame of the three insertion generators (since f417e91 one guard, whatever the rootedness;
    from 3 tips on the rest is unchanged) -/
def insertionGen (step : Nat → St → Res St) (n : Int) (rooted : Bool) (lens : List Rat) : Res Out :=
  if n < 3 then .err errLess3All else insertionGenDoc2 step n rooted lens

def uniform (n : Int) (rooted : Bool) (ints : List Nat) (lens : List Rat) : Res Out :=
  insertionGen (uniformStep ints lens) n rooted lens

def yule (n : Int) (rooted : Bool) (ints : List Nat) (lens : List Rat) : Res Out :=
  insertionGen (yuleStep ints lens) n rooted lens

def caterpillar (n : Int) (rooted : Bool) (lens : List Rat) : Res Out :=
  insertionGen (caterStep lens) n rooted lens

/- ## RandomBalancedBinaryTree, UnRoot -/

/-- `randomBalancedBinaryTreeRecur` with `fuel = targetdepth - curdepth`: the two children of a
    node; returns them with the next tip id and the number of Exp values consumed -/
def balKids (lens : List Rat) : Nat → Nat → Nat → Kids × Nat × Nat
  | 0, id, li =>
    ([(newEdge (lenAt lens li), T.leaf (tipName id)), (newEdge (lenAt lens (li + 1)), T.leaf (tipName (id + 1)))],
     id + 2, li + 2)
  | f + 1, id, li =>
    let r1 := balKids lens f id (li + 2)
    let r2 := balKids lens f r1.2.1 r1.2.2
    ([(newEdge (lenAt lens li), .node newNodeD 0 r1.1), (newEdge (lenAt lens (li + 1)), .node newNodeD 0 r2.1)],
     r2.2.1, r2.2.2)

def max0 (x : Rat) : Rat := if x ≥ 0 then x else 0

/-- `t.UnRoot()` (tree.go:1460) without its final ReinitIndexes -/
def unroot : T → T
  | .node _ _ [(e1, n1), (e2, n2)] =>
    let len := if e1.len != NIL || e2.len != NIL then max0 e1.len + max0 e2.len else NIL
    let sup := if !n1.isLeaf && !n2.isLeaf && (e1.sup != NIL || e2.sup != NIL)
               then (if max0 e1.sup ≥ max0 e2.sup then max0 e1.sup else max0 e2.sup) else NIL
    let e3 : EdgeD := { EdgeD.blank with len := len, sup := sup }
    if n1.isLeaf then
      .node n2.d 0 (n2.kids ++ [(e3, .node n1.d n1.kids.length n1.kids)])
    else
      .node n1.d 0 (n1.kids ++ [(e3, .node n2.d n2.kids.length n2.kids)])
  | t => t

def errDepth : String := "Cannot create an random binary tree of depth < 1"
def errDepthU : String := "Cannot create an unrooted balanced binary tree of depth < 2"

def balanced (depth : Int) (rooted : Bool) (lens : List Rat) : Res Out :=
  if depth < 1 then .err errDepth
  else if depth < 2 && !rooted then .err errDepthU
  else
    let t : T := .node newNodeD 0 (balKids lens (depth.toNat - 1) 0 0).1
    .ok (finishOut (if rooted then t else unroot t))

/-- pinned variant (before 254a41c): no size check for the unrooted case, so depth 1 unrooted
    un-roots a cherry and returns a two-node tree rooted at a tip -/
def balancedPinned (depth : Int) (rooted : Bool) (lens : List Rat) : Res Out :=
  if depth < 1 then .err errDepth
  else
    let t : T := .node newNodeD 0 (balKids lens (depth.toNat - 1) 0 0).1
    .ok (finishOut (if rooted then t else unroot t))

/- ## StarTree -/

def errStar : String := "Cannot create a star tree with less than 2 tips"

def star (n : Int) : Res Out :=
  if n < 2 then .err errStar
  else .ok (finishOut (.node newNodeD 0 ((List.range n.toNat).map fun i => (newEdge 1, T.leaf (tipName i)))))

/- ## AllTopologies / allTopologies_recur (without caller-supplied tip names) -/

mutual
/-- `Clone()`: rebuilt with ConnectNodes from the root, so every parent is neighbour 0 -/
def clone : T → T
  | .node d _ ks => .node d 0 (cloneL ks)
def cloneL : Kids → Kids
  | [] => []
  | (e, t) :: r => (e, clone t) :: cloneL r
end

/-- name of the tip inserted as number `i` (0-based): `tipNames[i]` when the caller supplied names,
    `fmt.Sprintf("Tip%d", i+1)` otherwise -/
def topoName (names : List String) (i : Nat) : String :=
  if names.isEmpty then tipName (i + 1) else names.getD i ""

/-- the end of the rooted enumeration (7eca7b6), on the clone: the start node, which only holds the
    branch above the root, is deleted and its neighbour becomes the root -/
def dropStem : T → T
  | .node _ _ [(_, .node dn _ ks)] => .node dn 0 ks
  | t => t

/-- backtracking: `fuel = nbTips - total`; for every branch of `t.Edges()` graft tip number `total`,
    recurse, undo (the value `t` is simply reused) -/
def allTopoRec (nm : Nat → String) : Nat → T → Nat → List T
  | 0, t, _ => [dropStem (clone t)]
  | f + 1, t, total =>
    (List.range (numEdges t)).flatMap fun k =>
      allTopoRec nm f (applyAt (graftLen (nm total) NIL NIL NIL) k t) (total + 1)

def errTopoU : String := "Cannot create all non rooted topologies with less than 3 tips"
def errTopoR : String := "Cannot create all rooted topologies with less than 2 tips"
def errTopoNames : String := "Length of tip name array is different from desired number of tips"

/-- the start tree: root + first tip (rooted: the root has ONE neighbour) or root + three tips -/
def topoInit (nm : Nat → String) (rooted : Bool) : T × Nat :=
  if rooted then (.node newNodeD 0 [(newEdge NIL, T.leaf (nm 0))], 1)
  else (.node newNodeD 0 [(newEdge NIL, T.leaf (nm 0)), (newEdge NIL, T.leaf (nm 1)),
                          (newEdge NIL, T.leaf (nm 2))], 3)

/-- `AllTopologies(nbTips, rooted, tipNames...)` -/
def allTopologies (n : Int) (rooted : Bool) (names : List String := []) : Res (List T) :=
  if n < 3 && !rooted then .err errTopoU
  else if n < 2 && rooted then .err errTopoR
  else if decide (names.length > 0) && ((names.length : Int) != n) then .err errTopoNames
  else
    let nm := topoName names
    let (t, total) := topoInit nm rooted
    .ok (allTopoRec nm (n.toNat - total) t total)

/-- pinned variant (before 7eca7b6): the clone keeps the start node, so every "rooted" topology has
    a root with a single neighbour -/
def allTopoRecPinned (nm : Nat → String) : Nat → T → Nat → List T
  | 0, t, _ => [clone t]
  | f + 1, t, total =>
    (List.range (numEdges t)).flatMap fun k =>
      allTopoRecPinned nm f (applyAt (graftLen (nm total) NIL NIL NIL) k t) (total + 1)

/- ## one entry point for the driver and the theorems -/

inductive GenKind where
  | uniform | yule | caterpillar | balanced | star
  deriving DecidableEq, Repr

def GenKind.parse : String → Option GenKind
  | "uniform" => some .uniform | "yule" => some .yule | "caterpillar" => some .caterpillar
  | "balanced" => some .balanced | "star" => some .star | _ => none

def run (g : GenKind) (n : Int) (rooted : Bool) (ints : List Nat) (lens : List Rat) : Res Out :=
  match g with
  | .uniform => uniform n rooted ints lens
  | .yule => yule n rooted ints lens
  | .caterpillar => caterpillar n rooted lens
  | .balanced => balanced n rooted lens
  | .star => star n

/-- sizes below this are answered by an error, sizes from it on by a valid tree (for the insertion
    generators the documented bound of the unrooted case is 2, but a 2-tip tree has no node to
    re-root on: `RerootFirst` fails; same convention for the unrooted balanced tree since 254a41c) -/
def GenKind.min (g : GenKind) (rooted : Bool) : Nat :=
  match g with
  | .balanced => if rooted then 1 else 2
  | .star => 2
  | _ => 3

/-- number of tips for size argument `n` -/
def GenKind.ntips (g : GenKind) (n : Nat) : Nat :=
  match g with
  | .balanced => 2 ^ n
  | _ => n

/-- bound of the j-th `Intn` call -/
def GenKind.bound (g : GenKind) (rooted : Bool) (j : Nat) : Nat :=
  match g with
  | .uniform => (if rooted then 2 else 1) + 2 * j
  | .yule => j + 2
  | _ => 0

/-- number of `Intn` calls -/
def GenKind.nints (g : GenKind) (n : Nat) : Nat :=
  match g with
  | .uniform | .yule => n - 2
  | _ => 0

/-- number of `gostats.Exp` calls of a call with size `n` (none for a rejected size) -/
def GenKind.nlens (g : GenKind) (n : Int) (rooted : Bool) : Nat :=
  match g with
  | .uniform | .yule | .caterpillar =>
    if n < 3 then 0
    else (if rooted then 2 else 1) + 3 * (n.toNat - 2)
  | .balanced => if n < 1 || (n < 2 && !rooted) then 0 else 2 * (2 ^ n.toNat - 1)
  | .star => 0

/-- number of `rand.Intn` calls, for every size -/
def GenKind.nintsZ (g : GenKind) (n : Int) (rooted : Bool) : Nat :=
  match g with
  | .uniform | .yule => if n < 3 then 0 else n.toNat - 2
  | _ => 0

/-- the draws are values `Intn` can return -/
def drawsInRange (g : GenKind) (n : Nat) (rooted : Bool) (ints : List Nat) : Bool :=
  (List.range (g.nints n)).all fun j => decide (ints.getD j 0 < g.bound rooted j)

def lensNonneg (lens : List Rat) : Bool := lens.all fun l => decide (0 ≤ l)

/-- a pinned variant for F6/F21: before 6e33baa, `ReinitIndexes` dereferenced a nil edge on a tree
    whose root has a single neighbour, so the 2-tip unrooted calls crashed instead of returning the
    RerootFirst error -/
def finishInsPinned (rooted : Bool) (t : T) : Res Out :=
  if rooted then .ok (finishOut t)
  else match rerootFirst t with
    | .ok t' => if t'.kids.length == 1 then .panic "nil dereference" else .ok (finishOut t')
    | .err m => if t.kids.length == 1 then .panic "nil dereference" else .err m
    | .panic m => .panic m

def insertionGenPinned (step : Nat → St → Res St) (n : Int) (rooted : Bool) (lens : List Rat) : Res Out :=
  if n < 2 then .err errLess2
  else if n < 3 && rooted then .err errLess3
  else
    match iter step (n.toNat - 2) 2 (initSt rooted lens) with
    | .ok s => finishInsPinned rooted s.t
    | .err m => .err m
    | .panic m => .panic m

end Gotree.C16
