package c10

// Shrinking of a failing C10.sup / C10.supt request (library mode).
//
//	C10_SHRINK=1 bin/check C10 --replay replays/C10-…txt
//
// re-executes every request of the file and, when the Lean driver (the compiled oracle,
// found through C10_DRIVER or at its usual place) does not answer PASS, looks for a
// smaller request that still fails: fewer bootstrap trees, fewer threads, fewer taxa
// (a tip pruned from every tree), fewer inner branches in the bootstrap trees.  The
// smallest failing case line is what the replay emits, so that the new replay file
// holds the shrunk case.  Nothing here decides a verdict: the driver does.

import (
	"bufio"
	"bytes"
	"os"
	"os/exec"
	"strings"

	"verifharness/core"
)

func driverPath() string {
	if p := os.Getenv("C10_DRIVER"); p != "" {
		return p
	}
	for _, p := range []string{"lean/.lake/build/bin/gotree_model", "/verif/lean/.lake/build/bin/gotree_model",
		"/verif/lean/.lake/build/bin/gotree_model_C10"} {
		if _, err := os.Stat(p); err == nil {
			return p
		}
	}
	return ""
}

// verdictOf asks the driver about case lines; returns the first status that is not PASS ("" if all pass).
func verdictOf(lines string) string {
	d := driverPath()
	if d == "" {
		return ""
	}
	cmd := exec.Command(d)
	cmd.Stdin = strings.NewReader(lines)
	out, err := cmd.Output()
	if err != nil {
		return ""
	}
	for _, l := range strings.Split(string(out), "\n") {
		if l != "" && !strings.HasPrefix(l, "PASS") {
			return strings.SplitN(l, "\t", 2)[0]
		}
	}
	return ""
}

type supReq struct {
	threads int
	ref     *core.N
	boots   []*core.N
}

func (r supReq) clone() supReq {
	c := supReq{threads: r.threads, ref: r.ref.Clone()}
	for _, b := range r.boots {
		c.boots = append(c.boots, b.Clone())
	}
	return c
}

func (r supReq) size() int {
	s := r.ref.NNodes()*3 + r.threads
	for _, b := range r.boots {
		s += b.NNodes()
	}
	return s
}

// run executes the request on the real code into a private buffer and returns (case lines, failing status).
func (r supReq) run(c *core.Ctx) (string, string) {
	var buf bytes.Buffer
	saved := c.W
	c.W = bufio.NewWriter(&buf)
	tries := 1
	if r.threads > 1 {
		tries = 8 // a race does not show on every run
	}
	status, lines := "", ""
	for i := 0; i < tries && status == ""; i++ {
		buf.Reset()
		func() {
			defer func() {
				if e := recover(); e != nil {
					buf.Reset() // a candidate the builder refuses is not a candidate
				}
			}()
			doSupN(c, "lib", r.threads, r.ref, r.boots)
		}()
		c.W.Flush()
		lines = buf.String()
		if lines != "" {
			status = verdictOf(lines)
		}
	}
	c.W = saved
	return lines, status
}

// pruneTip removes the tip from the tree (suppressing the node left with one child); false if impossible.
func pruneTip(root *core.N, name string) bool {
	if len(root.TipNames()) <= 4 {
		return false
	}
	var rec func(x *core.N) bool
	rec = func(x *core.N) bool {
		for i, k := range x.Kids {
			if len(k.Kids) == 0 && k.Name == name {
				x.Kids = append(append([]*core.N{}, x.Kids[:i]...), x.Kids[i+1:]...)
				return true
			}
			if rec(k) {
				if len(k.Kids) == 1 { // suppress k
					g := k.Kids[0]
					g.E.Len = addLen(g.E.Len, k.E.Len)
					x.Kids[i] = g
				}
				return true
			}
		}
		return false
	}
	if !rec(root) {
		return false
	}
	for len(root.Kids) == 1 && len(root.Kids[0].Kids) > 0 {
		root.Kids = root.Kids[0].Kids
	}
	if len(root.Kids) < 2 {
		return false
	}
	core.NumberEdges(root)
	resetPPos(root)
	return true
}

func contractAt(root *core.N, idx int) bool {
	nodes, parents := innerNodes(root)
	if idx >= len(nodes) {
		return false
	}
	v, u := nodes[idx], parents[idx]
	vi := indexOf(u.Kids, v)
	kids := append([]*core.N{}, u.Kids[:vi]...)
	kids = append(kids, v.Kids...)
	kids = append(kids, u.Kids[vi+1:]...)
	u.Kids = kids
	core.NumberEdges(root)
	return true
}

// candidates lists the one-step reductions of a request.
func (r supReq) candidates() []supReq {
	var out []supReq
	for i := range r.boots {
		if len(r.boots) > 1 {
			c := r.clone()
			c.boots = append(c.boots[:i], c.boots[i+1:]...)
			out = append(out, c)
		}
	}
	for _, th := range []int{1, 2, 4} {
		if th < r.threads {
			c := r.clone()
			c.threads = th
			out = append(out, c)
		}
	}
	for _, name := range r.ref.TipNames() {
		c := r.clone()
		ok := pruneTip(c.ref, name)
		for _, b := range c.boots {
			has := false
			for _, n := range b.TipNames() {
				if n == name {
					has = true
				}
			}
			if has && !pruneTip(b, name) {
				ok = false
			}
		}
		if ok {
			out = append(out, c)
		}
	}
	for bi, b := range r.boots {
		nodes, _ := innerNodes(b)
		for i := range nodes {
			c := r.clone()
			if contractAt(c.boots[bi], i) {
				out = append(out, c)
			}
		}
	}
	nodes, _ := innerNodes(r.ref)
	for i := range nodes {
		c := r.clone()
		if contractAt(c.ref, i) {
			out = append(out, c)
		}
	}
	return out
}

// shrinkSup returns the case lines of the smallest failing request found (those of the request
// itself when it does not fail or no driver is at hand).
func shrinkSup(c *core.Ctx, r supReq) string {
	lines, status := r.run(c)
	if status == "" {
		return lines
	}
	want := status
	for steps := 0; steps < 400; steps++ {
		progress := false
		for _, cand := range r.candidates() {
			if cand.size() >= r.size() {
				continue
			}
			l, st := cand.run(c)
			if st == want {
				r, lines, progress = cand, l, true
				break
			}
		}
		if !progress {
			break
		}
	}
	return lines
}
