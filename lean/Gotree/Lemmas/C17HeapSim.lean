/-
  C17 — the simulation square for the pointer-level model of `Apply`/`Undo`
  (`Model/C17Heap.lean`): on every well-formed piece the Go statements keep pairing, symmetric
  adjacency and the number of parent branches of each node, and commute with the abstraction to
  `Heap` (`applyH`/`undoH`), hence to `T`.
-/
import Gotree.Model.C17Heap
import Gotree.Lemmas.C17

namespace Gotree.C17
open Gotree

/- ## list facts for the slices of the outer nodes -/

theorem nodeIndex_mid (l : List Nat) (y : Ref) (rest : List PId) :
    nodeIndex (l.map PId.ext ++ PId.n y :: rest) (PId.n y) = some l.length := by
  induction l with
  | nil => simp [nodeIndex]
  | cons k l ih => simp [nodeIndex, ih]

theorem set_mid {α : Type} (l : List α) (a b : α) (m : List α) : (l ++ a :: m).set l.length b = l ++ b :: m := by
  induction l with
  | nil => simp
  | cons x l ih => simp [ih]

theorem length_map_ext (l : List Nat) : (l.map PId.ext).length = l.length := by simp

/- ## well-formed pieces, by construction -/

def triList {α} (t : Tri α) : List α := [t.1, t.2.1, t.2.2]

def Tri.mem (t : Tri Ref) (x : Ref) : Bool := t.1 == x || t.2.1 == x || t.2.2 == x

/-- the branch by which a centre node reaches its neighbour `y` -/
def edgeTo (y : Ref) : EId :=
  match y with
  | .n1 => .e0
  | .n2 => .e0
  | o => .eo o

/-- The piece of a well-formed heap around the central branch: `s1`, `s2` are the neighbour
    slices of n1 and n2; the outer node `o` hangs on the centre node in whose slice it is, its
    own slices are `pre o ++ [centre] ++ post o` (other neighbours outside the piece); `up` is
    the outer node on the root side, if any (then its branch and the central branch point away
    from it). -/
def mkP (s1 s2 : Tri Ref) (up : Option Ref) (pre post : Ref → List Nat) : PHeap :=
  let centreOf (o : Ref) : Ref := if s1.mem o then .n1 else .n2
  let top : Ref := match up with | some o => centreOf o | none => .n1
  { node := fun x =>
      match x with
      | .n1 => ⟨(triList s1).map PId.n, (triList s1).map edgeTo⟩
      | .n2 => ⟨(triList s2).map PId.n, (triList s2).map edgeTo⟩
      | o => ⟨(pre o).map PId.ext ++ PId.n (centreOf o) :: (post o).map PId.ext,
              (pre o).map EId.ext ++ EId.eo o :: (post o).map EId.ext⟩
    edge := fun e =>
      match e with
      | .e0 => if top = .n1 then ⟨.n .n1, .n .n2⟩ else ⟨.n .n2, .n .n1⟩
      | .eo o => if up = some o then ⟨.n o, .n (centreOf o)⟩ else ⟨.n (centreOf o), .n o⟩
      | .ext _ => ⟨.ext 0, .ext 0⟩ }

/-- the neighbour slices `newNNI` sees (`applied = false`) and those after `Apply` -/
def slices1 (i1 : Nat) (cross applied : Bool) : Tri Ref :=
  let r : NNI := ⟨[], i1, 0, cross, false⟩
  (lab1 r applied 0, lab1 r applied 1, lab1 r applied 2)

def slices2 (i2 : Nat) (cross applied : Bool) : Tri Ref :=
  let r : NNI := ⟨[], 0, i2, cross, false⟩
  (lab2 r applied 0, lab2 r applied 1, lab2 r applied 2)

/-- two pieces are the same: same records -/
def PHeap.same (h h' : PHeap) : Prop :=
  (∀ x, (h.node x).neigh = (h'.node x).neigh ∧ (h.node x).br = (h'.node x).br) ∧
  (∀ e, (h.edge e).left = (h'.edge e).left ∧ (h.edge e).right = (h'.edge e).right)

macro "eval_heap" : tactic => `(tactic|
  simp [applyP, undoP, mkP, slices1, slices2, lab1, lab2, rot1, rot2, triList, Tri.mem, edgeTo, nodeIndex, nodeIndex_mid,
    set_mid, updN, updE, reattach, PHeap.same])

macro "finish_same" : tactic => `(tactic|
  (constructor
   · intro x; cases x <;> simp
   · intro e
     cases e with
     | e0 => simp
     | eo o => cases o <;> simp
     | ext k => simp))

/-- `Apply` on the well-formed piece before: the well-formed piece after.
    `up`: the root side is beyond one of the four outer nodes (beyond `c` or `d` when the tree was
    re-rooted after `newNNI`: the case of commit 48c858a), or nowhere (n1 is the root). -/
theorem applyP_mk (i1 i2 : Nat) (h1 : i1 ≤ 2) (h2 : i2 ≤ 2) (cross : Bool) (up : Option Ref)
    (hup : up = none ∨ up = some .a ∨ up = some .b ∨ up = some .c ∨ up = some .d) (pre post : Ref → List Nat) :
    ∃ p', applyP (mkP (slices1 i1 cross false) (slices2 i2 cross false) up pre post) cross = some p' ∧
      p'.same (mkP (slices1 i1 cross true) (slices2 i2 cross true) up pre post) := by
  have e1 : i1 = 0 ∨ i1 = 1 ∨ i1 = 2 := by omega
  have e2 : i2 = 0 ∨ i2 = 1 ∨ i2 = 2 := by omega
  rcases e1 with rfl | rfl | rfl <;> rcases e2 with rfl | rfl | rfl <;> cases cross <;>
    rcases hup with rfl | rfl | rfl | rfl | rfl <;> eval_heap <;> finish_same

/-- `Undo` on the well-formed piece after `Apply`: the piece before, back -/
theorem undoP_mk (i1 i2 : Nat) (h1 : i1 ≤ 2) (h2 : i2 ≤ 2) (cross : Bool) (up : Option Ref)
    (hup : up = none ∨ up = some .a ∨ up = some .b ∨ up = some .c ∨ up = some .d) (pre post : Ref → List Nat) :
    ∃ p', undoP (mkP (slices1 i1 cross true) (slices2 i2 cross true) up pre post) cross = some p' ∧
      p'.same (mkP (slices1 i1 cross false) (slices2 i2 cross false) up pre post) := by
  have e1 : i1 = 0 ∨ i1 = 1 ∨ i1 = 2 := by omega
  have e2 : i2 = 0 ∨ i2 = 1 ∨ i2 = 2 := by omega
  rcases e1 with rfl | rfl | rfl <;> rcases e2 with rfl | rfl | rfl <;> cases cross <;>
    rcases hup with rfl | rfl | rfl | rfl | rfl <;> eval_heap <;> finish_same

/- ## the promises hold on every well-formed piece -/

theorem zip_ext_all (l : List Nat) (p : PId × EId → Bool) (hp : ∀ k, p (.ext k, .ext k) = true) :
    ((l.map PId.ext).zip (l.map EId.ext)).all p = true := by
  induction l with
  | nil => simp
  | cons k l ih => simp [hp k, ih]

theorem zip_mid (l m : List Nat) (y : PId) (e : EId) :
    (l.map PId.ext ++ y :: m.map PId.ext).zip (l.map EId.ext ++ e :: m.map EId.ext) =
      (l.map PId.ext).zip (l.map EId.ext) ++ (y, e) :: (m.map PId.ext).zip (m.map EId.ext) := by
  rw [List.zip_append (by simp)]
  simp

theorem filter_ext (l : List Nat) (q : EId → Bool) (hq : ∀ k, q (.ext k) = false) : (l.map EId.ext).filter q = [] := by
  induction l with
  | nil => simp
  | cons k l ih => simp [hq k, ih]

theorem same_pairing {h h' : PHeap} (hs : h.same h') : pairing h = pairing h' := by
  obtain ⟨hn, he⟩ := hs
  unfold pairing PEdge.joins
  simp only [fun x => (hn x).1, fun x => (hn x).2, fun e => (he e).1, fun e => (he e).2]

theorem same_symmetric {h h' : PHeap} (hs : h.same h') : symmetric h = symmetric h' := by
  obtain ⟨hn, _⟩ := hs
  unfold symmetric
  simp only [fun x => (hn x).1, fun x => (hn x).2]

theorem same_incoming {h h' : PHeap} (hs : h.same h') (x : Ref) : incoming h x = incoming h' x := by
  obtain ⟨hn, he⟩ := hs
  unfold incoming
  simp only [fun x => (hn x).2, fun e => (he e).2]

macro "eval_inv" : tactic => `(tactic|
  simp [pairing, symmetric, incoming, allRefs, mkP, slices1, slices2, lab1, lab2, rot1, rot2, triList, Tri.mem, edgeTo,
    PEdge.joins, EId.isLocal, zip_mid, zip_ext_all, filter_ext, List.filter_cons])

set_option maxHeartbeats 8000000 in
/-- pairing and symmetric adjacency on every well-formed piece, before and after `Apply` -/
theorem mkP_invariants (i1 i2 : Nat) (h1 : i1 ≤ 2) (h2 : i2 ≤ 2) (cross applied : Bool) (up : Option Ref)
    (hup : up = none ∨ up = some .a ∨ up = some .b ∨ up = some .c ∨ up = some .d) (pre post : Ref → List Nat) :
    pairing (mkP (slices1 i1 cross applied) (slices2 i2 cross applied) up pre post) = true ∧
    symmetric (mkP (slices1 i1 cross applied) (slices2 i2 cross applied) up pre post) = true := by
  have e1 : i1 = 0 ∨ i1 = 1 ∨ i1 = 2 := by omega
  have e2 : i2 = 0 ∨ i2 = 1 ∨ i2 = 2 := by omega
  rcases e1 with rfl | rfl | rfl <;> rcases e2 with rfl | rfl | rfl <;> cases cross <;> cases applied <;>
    rcases hup with rfl | rfl | rfl | rfl | rfl <;> eval_inv

set_option maxHeartbeats 8000000 in
/-- every node has as many parent branches after `Apply` as before (at most one, by the next
    statement): the branches still point away from the root -/
theorem mkP_incoming (i1 i2 : Nat) (h1 : i1 ≤ 2) (h2 : i2 ≤ 2) (cross : Bool) (up : Option Ref)
    (hup : up = none ∨ up = some .a ∨ up = some .b ∨ up = some .c ∨ up = some .d) (pre post : Ref → List Nat) (x : Ref) :
    incoming (mkP (slices1 i1 cross true) (slices2 i2 cross true) up pre post) x =
      incoming (mkP (slices1 i1 cross false) (slices2 i2 cross false) up pre post) x ∧
    incoming (mkP (slices1 i1 cross false) (slices2 i2 cross false) up pre post) x ≤ 1 := by
  have e1 : i1 = 0 ∨ i1 = 1 ∨ i1 = 2 := by omega
  have e2 : i2 = 0 ∨ i2 = 1 ∨ i2 = 2 := by omega
  rcases e1 with rfl | rfl | rfl <;> rcases e2 with rfl | rfl | rfl <;> cases cross <;>
    rcases hup with rfl | rfl | rfl | rfl | rfl <;> cases x <;> eval_inv

/- ## abstraction to the six-node `Heap` of `Model/C17.lean` -/

/-- what the pointer piece does not hold: node data, branch data, the subtrees behind the outer nodes -/
structure HData where
  d1 : NodeD
  d2 : NodeD
  ec : EdgeD
  p0 : Nat
  sub : Ref → EdgeD × T

def toTri : List PId → Tri Ref
  | [.n x, .n y, .n z] => (x, y, z)
  | _ => (.n1, .n1, .n1)

/-- α on the piece: the neighbour slices of the two centre nodes, the orientation of the central
    branch, and for each outer node whether it is the parent side (its branch leaves it) -/
def absH (dat : HData) (h : PHeap) : Heap :=
  let out (o : Ref) : Outer := if (h.edge (.eo o)).left = .n o then .up else .sub (dat.sub o).1 (dat.sub o).2
  { d1 := dat.d1, d2 := dat.d2, ng1 := toTri (h.node .n1).neigh, ng2 := toTri (h.node .n2).neigh, ec := dat.ec,
    left1 := decide ((h.edge .e0).left = .n .n1), oa := out .a, ob := out .b, oc := out .c, od := out .d, p0 := dat.p0 }

theorem same_absH (dat : HData) {h h' : PHeap} (hs : h.same h') : absH dat h = absH dat h' := by
  obtain ⟨hn, he⟩ := hs
  unfold absH
  simp only [fun x => (hn x).1, fun e => (he e).1]

def datOf (H : Heap) : HData :=
  { d1 := H.d1, d2 := H.d2, ec := H.ec, p0 := H.p0,
    sub := fun o => match H.outer o with
      | .sub e t => (e, t)
      | .up => (EdgeD.blank, T.leaf "") }

def upOf (H : Heap) : Option Ref :=
  if H.oa.isUp then some .a else if H.ob.isUp then some .b else none

/-- the shape of the heap `newNNI` sees -/
structure Fresh (H : Heap) (i1 i2 : Nat) (cross : Bool) : Prop where
  b1 : i1 ≤ 2
  b2 : i2 ≤ 2
  g1 : H.ng1 = slices1 i1 cross false
  g2 : H.ng2 = slices2 i2 cross false
  left : H.left1 = true
  c : H.oc.isUp = false
  d : H.od.isUp = false
  ab : ¬(H.oa.isUp = true ∧ H.ob.isUp = true)

theorem upOf_cases (H : Heap) :
    upOf H = none ∨ upOf H = some .a ∨ upOf H = some .b ∨ upOf H = some .c ∨ upOf H = some .d := by
  unfold upOf
  split
  · exact Or.inr (Or.inl rfl)
  · split
    · exact Or.inr (Or.inr (Or.inl rfl))
    · exact Or.inl rfl

/-- every fresh heap is the abstraction of a well-formed pointer piece -/
theorem absH_mkP {H : Heap} {i1 i2 : Nat} {cross : Bool} (hf : Fresh H i1 i2 cross) (pre post : Ref → List Nat) :
    absH (datOf H) (mkP (slices1 i1 cross false) (slices2 i2 cross false) (upOf H) pre post) = H := by
  obtain ⟨b1, b2, g1, g2, hl, hc, hd, hab⟩ := hf
  obtain ⟨d1, d2, ng1, ng2, ec, left1, oa, ob, oc, od, p0⟩ := H
  simp only at g1 g2 hl hc hd hab
  subst g1 g2 hl
  have e1 : i1 = 0 ∨ i1 = 1 ∨ i1 = 2 := by omega
  have e2 : i2 = 0 ∨ i2 = 1 ∨ i2 = 2 := by omega
  rcases e1 with rfl | rfl | rfl <;> rcases e2 with rfl | rfl | rfl <;> cases cross <;>
    cases oa <;> cases ob <;> cases oc <;> cases od <;>
    simp_all [Outer.isUp, absH, datOf, upOf, mkP, slices1, slices2, lab1, lab2, rot1, triList, Tri.mem, toTri,
      Heap.outer]

/-- the square on `Heap`: the Go statements on the pointer piece, then α = α, then `applyH` -/
theorem applyP_absH (dat : HData) (i1 i2 : Nat) (h1 : i1 ≤ 2) (h2 : i2 ≤ 2) (cross : Bool) (up : Option Ref)
    (hup : up = none ∨ up = some .a ∨ up = some .b ∨ up = some .c ∨ up = some .d) (pre post : Ref → List Nat) :
    applyH (absH dat (mkP (slices1 i1 cross false) (slices2 i2 cross false) up pre post)) cross =
      some (absH dat (mkP (slices1 i1 cross true) (slices2 i2 cross true) up pre post)) := by
  have e1 : i1 = 0 ∨ i1 = 1 ∨ i1 = 2 := by omega
  have e2 : i2 = 0 ∨ i2 = 1 ∨ i2 = 2 := by omega
  rcases e1 with rfl | rfl | rfl <;> rcases e2 with rfl | rfl | rfl <;> cases cross <;>
    rcases hup with rfl | rfl | rfl | rfl | rfl <;>
    simp [applyH, absH, mkP, slices1, slices2, lab1, lab2, rot1, triList, Tri.mem, toTri, Tri.idx, Tri.set,
      Outer.isUp, Heap.outer]

theorem undoP_absH (dat : HData) (i1 i2 : Nat) (h1 : i1 ≤ 2) (h2 : i2 ≤ 2) (cross : Bool) (up : Option Ref)
    (hup : up = none ∨ up = some .a ∨ up = some .b ∨ up = some .c ∨ up = some .d) (pre post : Ref → List Nat) :
    undoH (absH dat (mkP (slices1 i1 cross true) (slices2 i2 cross true) up pre post)) cross =
      some (absH dat (mkP (slices1 i1 cross false) (slices2 i2 cross false) up pre post)) := by
  have e1 : i1 = 0 ∨ i1 = 1 ∨ i1 = 2 := by omega
  have e2 : i2 = 0 ∨ i2 = 1 ∨ i2 = 2 := by omega
  rcases e1 with rfl | rfl | rfl <;> rcases e2 with rfl | rfl | rfl <;> cases cross <;>
    rcases hup with rfl | rfl | rfl | rfl | rfl <;>
    simp [undoH, absH, mkP, slices1, slices2, lab1, lab2, rot1, triList, Tri.mem, toTri, Tri.idx, Tri.set,
      Outer.isUp, Heap.outer]

end Gotree.C17
