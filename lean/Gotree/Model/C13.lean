/-
  C13 — format conversions and reader entry points (model of the Go code).

  Modelled code (as it is NOW in /repo):
    io/fileutils/readln.go   ReadUntilSemiColon            → `splitLines`, `lastNonBlank`, `multiGo`
    io/utils/readtrees.go    ReadMultiTrees / ReadTreeReader → `readMulti` / `readFirst` (four formats)
    io/nexus/nexus.go        WriteNexus, FirstTree, IterateTrees → `writeNexus`, `NexDoc`
    tree/tree.go             Tree.Nexus, Rename, AllTipNames, Clone → `treeNexus`, `renameT`, …
    io/nexus/nexus_lexer.go  Scan/scanIdent/scanWhitespace  → `Nex.scan`
    io/nexus/nexus_parser.go Parse/parseTaxa/parseTrees/parseTranslationTable/consumeComment
                             restricted to TAXA / TREES blocks → `Nex.parse*` (anything else is the
                             explicit outcome `unsupported`, never defaulted away)
    io/phyloxml/phyloxml.go  WritePhyloXML/writeClade → `Px.encode` (element tree) and `Px.render` (text),
                             decoding (the subset of encoding/xml used) → `Px.decode*`, cladeToTree,
                             FirstTree, IterateTrees
    io/nextstrain            FirstTree / cladeToTree (names, divergences) → `Ns.*`

  The Newick reader/writer is a PARAMETER (`NewickCodec`): property C01 owns its model.  Numbers in
  PhyloXML text go through a `NumCodec` parameter.  Core Lean only (linked into the driver).
-/
import Gotree.Model.Core

namespace Gotree.C13
open Gotree

abbrev Txt := List Char

/-- Outcome class of one delivered record: a tree, or an error (only the class is observed). -/
inductive Out where
  | ok (t : T)
  | err
  deriving Inhabited

/-- One `tree.Trees{Tree, Id, Err}` record of the channel. -/
structure Rec where
  id : Nat
  out : Out
  deriving Inhabited

/-- The Newick writer and parser, as far as this property needs them.  `parse` is the whole of
    `newick.NewParser(r).Parse()` run on a character stream (it stops after the first tree). -/
structure NewickCodec where
  write : T → Txt
  parse : Txt → Option T

/-- `strconv.FormatFloat(x,'f',-1,64)` / `ParseFloat(strings.TrimSpace(s))` as used by PhyloXML. -/
structure NumCodec where
  fmt : Rat → Txt
  parse : Txt → Option Rat

/- ## 1. ReadUntilSemiColon and the Newick multi-tree reader -/

def isBlank (c : Char) : Bool := c == ' ' || c == '\t'

/-- white space of the Newick lexer -/
def isNewickWs (c : Char) : Bool := c == ' ' || c == '\t' || c == '\n' || c == '\r'

/-- `cur` is the current line, reversed.  `bufio.ReadLine` drops "\n" or "\r\n". -/
def dropCR : Txt → Txt
  | '\r' :: r => r
  | l => l

/-- The successive results of `bufio.Reader.ReadLine` (chunks of an over-long line are always
    re-joined by the callers' `isPrefix` loops, so a result here is a whole line): split at '\n',
    a '\r' right before it is dropped; a last line without '\n' is returned as it is (a trailing
    '\r' stays); after that ReadLine reports EOF (end of the list). -/
def splitLinesGo : Txt → Txt → List Txt
  | [], cur => if cur.isEmpty then [] else [cur.reverse]
  | c :: r, cur => if c == '\n' then (dropCR cur).reverse :: splitLinesGo r [] else splitLinesGo r (c :: cur)

def splitLines (s : Txt) : List Txt := splitLinesGo s []

/-- The `lastChar` computed by ReadUntilSemiColon for a non-empty buffer: walk back over blanks and
    tabs, but never before index 0 (`i > 0`), so an all-blank buffer yields a blank.
    For the empty buffer the Go variable keeps its initial value '0'. -/
def lastNonBlankRev : Txt → Char
  | [] => '0'
  | [c] => c
  | c :: r => if isBlank c then lastNonBlankRev r else c

def lastNonBlank (ln : Txt) : Char := lastNonBlankRev ln.reverse

/-- `unicode.IsSpace` (what `strings.TrimSpace` removes) -/
def isSpaceGo (c : Char) : Bool :=
  c == ' ' || c == '\t' || c == '\n' || c == '\r' || c.toNat == 0x0B || c.toNat == 0x0C || c.toNat == 0x85 ||
  c.toNat == 0xA0 || c.toNat == 0x1680 || (0x2000 ≤ c.toNat && c.toNat ≤ 0x200A) || c.toNat == 0x2028 ||
  c.toNat == 0x2029 || c.toNat == 0x202F || c.toNat == 0x205F || c.toNat == 0x3000

/-- The two nested loops of ReadMultiTrees(FORMAT_NEWICK) / ReadUntilSemiColon, as one structural
    recursion over the lines still to be read.  `acc` is `ln` (lines are appended without separator),
    `id` the running identifier.
    * EOF (`[]`): ReadUntilSemiColon returns `(ln, io.EOF)`: on the very first call (id = 0, nothing
      delivered yet) the caller sends one error record; otherwise the loop ends and (since fix 7ce7b93)
      text left after the last ';' (`strings.TrimSpace(line) != ""`) is reported as an error record
      with the next identifier: an unterminated last tree.
    * a line after which the last non-blank character is ';' ends the chunk: it is parsed; an error is
      sent with the current id and reading stops (`break`).
    Since fix 3850fd2 every tree of the chunk is parsed (`chunkGo`); `multiGoOne` is the loop before it. -/
def multiGoOne (C : NewickCodec) : List Txt → Txt → Nat → List Rec
  | [], acc, id => if id == 0 then [⟨0, .err⟩] else if acc.all isSpaceGo then [] else [⟨id, .err⟩]
  | l :: ls, acc, id =>
    let ln := acc ++ l
    if lastNonBlank ln == ';' then
      match C.parse ln with
      | none => [⟨id, .err⟩]
      | some t => ⟨id, .ok t⟩ :: multiGoOne C ls [] (id + 1)
    else multiGoOne C ls ln id

/-- the multi-tree reader BEFORE fix 3850fd2 (`multiGoOne` above: ONE `Parse()` per chunk): text after the
    first ';' of a line is dropped without a record -/
def readMultiNewickOne (C : NewickCodec) (doc : Txt) : List Rec := multiGoOne C (splitLines doc) [] 0

/-- what the Newick parser has not consumed after a successful `Parse()`: the text after the first ';'
    that is not inside a `[…]` comment (the lexer has no quoting) -/
def afterTree : Txt → Bool → Txt
  | [], _ => []
  | c :: r, inCom =>
    if inCom then afterTree r (c != ']')
    else if c == '[' then afterTree r true
    else if c == ';' then r
    else afterTree r false

/-- the trees of ONE chunk since fix 3850fd2: `Parse()`, then as long as `More()` (something else than white
    space is left) `Parse()` again on what is left.  Result: the records, and the next identifier — `none`
    after an error record (the caller stops reading).  `fuel` bounds the iterations (each consumes a ';'). -/
def chunkGo (C : NewickCodec) : Nat → Txt → Nat → List Rec × Option Nat
  | 0, _, id => ([], some id)
  | f + 1, ln, id =>
    match C.parse ln with
    | none => ([⟨id, .err⟩], none)
    | some t =>
      let rest := afterTree ln false
      if rest.all isNewickWs then ([⟨id, .ok t⟩], some (id + 1))
      else (⟨id, .ok t⟩ :: (chunkGo C f rest (id + 1)).1, (chunkGo C f rest (id + 1)).2)

def multiGo (C : NewickCodec) : List Txt → Txt → Nat → List Rec
  | [], acc, id => if id == 0 then [⟨0, .err⟩] else if acc.all isSpaceGo then [] else [⟨id, .err⟩]
  | l :: ls, acc, id =>
    let ln := acc ++ l
    if lastNonBlank ln == ';' then
      match (chunkGo C (ln.length + 1) ln id).2 with
      | none => (chunkGo C (ln.length + 1) ln id).1
      | some nid => (chunkGo C (ln.length + 1) ln id).1 ++ multiGo C ls [] nid
    else multiGo C ls ln id

def readMultiNewick (C : NewickCodec) (doc : Txt) : List Rec := multiGo C (splitLines doc) [] 0

def readFirstNewick (C : NewickCodec) (doc : Txt) : Out :=
  match C.parse doc with
  | some t => .ok t
  | none => .err

/-- The pinned multi-tree reader (before fix 7ce7b93): text left after the last ';' is dropped
    without any record. -/
def multiGoPinned (C : NewickCodec) : List Txt → Txt → Nat → List Rec
  | [], _, id => if id == 0 then [⟨0, .err⟩] else []
  | l :: ls, acc, id =>
    let ln := acc ++ l
    if lastNonBlank ln == ';' then
      match C.parse ln with
      | none => [⟨id, .err⟩]
      | some t => ⟨id, .ok t⟩ :: multiGoPinned C ls [] (id + 1)
    else multiGoPinned C ls ln id

/-- The pinned code (before fix b11db41, F5): `for (…) && i >= 0 { i--; lastChar = ln[i] }` indexes
    `ln[-1]` on an all-blank buffer: a panic in the reader goroutine. -/
def lastNonBlankRevPinned : Txt → Option Char
  | [] => some '0'
  | c :: r => if isBlank c then (match r with | [] => none | _ => lastNonBlankRevPinned r) else some c

/- ## 2. Renaming, tips, the Nexus writer -/

mutual
/-- all node names, `Nodes()` order -/
def allNames : T → List String
  | .node d _ k => d.name :: allNamesL k
def allNamesL : Kids → List String
  | [] => []
  | (_, t) :: r => allNames t ++ allNamesL r
end

def lookup (m : List (String × String)) (k : String) : Option String :=
  match m with
  | [] => none
  | (a, b) :: r => if a == k then some b else lookup r k

/-- Go-map insertion: a later value for the same key replaces the earlier one (key order irrelevant). -/
def mapSet (m : List (String × String)) (k v : String) : List (String × String) :=
  match m with
  | [] => [(k, v)]
  | (a, b) :: r => if a == k then (a, v) :: r else (a, b) :: mapSet r k v

def renameName (m : List (String × String)) (n : String) : String :=
  if n == "" then n else match lookup m n with
  | some v => v
  | none => n

mutual
/-- the effect of a successful `Tree.Rename(m)`: every named node whose name is a key gets the value
    (the node index is built before any renaming, so the substitution is simultaneous) -/
def renameT (m : List (String × String)) : T → T
  | .node d p k => .node { d with name := renameName m d.name } p (renameL m k)
def renameL (m : List (String × String)) : Kids → Kids
  | [] => []
  | (e, t) :: r => (e, renameT m t) :: renameL m r
end

def hasDup : List String → Bool
  | [] => false
  | a :: r => r.contains a || hasDup r

/-- `NewNodeIndex` fails when two nodes carry the same non-empty name; `UpdateTipIndex` fails when two
    tips have the same name afterwards. -/
def renameChecked (m : List (String × String)) (t : T) : Option T :=
  if hasDup ((allNames t).filter (· != "")) then none
  else
    let t' := renameT m t
    if hasDup t'.tipNames then none else some t'

/-- insertion sort = `sort.Strings` (bytewise order) -/
def insertS (a : String) : List String → List String
  | [] => [a]
  | b :: r => if a ≤ b then a :: b :: r else b :: insertS a r

def sortStr : List String → List String
  | [] => []
  | a :: r => insertS a (sortStr r)

def natTxt (n : Nat) : Txt := (toString n).toList

/-- state of the WriteNexus loop: name → index (first appearance order), the label slice -/
structure WState where
  map : List (String × String) := []
  slice : List String := []
  nb : Nat := 0

def addTips : List String → WState → WState
  | [], s => s
  | tip :: r, s =>
    match lookup s.map tip with
    | some _ => addTips r s
    | none => addTips r { map := s.map ++ [(tip, toString s.nb)], slice := s.slice ++ [tip], nb := s.nb + 1 }

/- the fixed pieces of the Nexus text, cut where the lexer starts a new token -/
def lit1 : Txt := "#NEXUS\nBEGIN TAXA;\n DIMENSIONS NTAX=".toList
def lit2a : Txt := "\n ".toList
def litTaxlabels : Txt := "TAXLABELS".toList
def lit3a : Txt := "\nEND;\nBEGIN TREES;\n".toList
def litTranslate : Txt := "  TRANSLATE\n".toList
def litTrEnd : Txt := "  ;\n".toList
def lit4 : Txt := "END;\n".toList
def litTree1 : Txt := "  TREE ".toList
def litTree2 : Txt := "tree".toList
def litEq : Txt := "= ".toList
def lit3sp : Txt := "   ".toList

/-- "  TREE tree<id> = <newick>\n" -/
def treeLine (C : NewickCodec) (id : Nat) (t : T) : Txt :=
  litTree1 ++ ((litTree2 ++ natTxt id) ++ ' ' :: (litEq ++ (C.write t ++ ['\n'])))

/-- the label state after one iteration of the `for t := range tchan` loop of WriteNexus -/
def stepState (s : WState) (t : T) : WState :=
  { addTips t.tipNames s with slice := sortStr (addTips t.tipNames s).slice }

/-- the tree that is written: with `translate`, a clone renamed through the current map.  The error of
    `Rename` is ignored by the Go code: when `NewNodeIndex` fails (two nodes with the same name) nothing
    has been renamed yet and the clone is written as it is; a failure of the final `UpdateTipIndex`
    would come after the renaming and leaves the clone renamed. -/
def writtenTree (translate : Bool) (s : WState) (t : T) : T :=
  if translate then (if hasDup ((allNames t).filter (· != "")) then t else renameT s.map t) else t

/-- One iteration of the `for t := range tchan` loop of WriteNexus: returns the new state and the
    "  TREE tree<id> = <newick>\n" line. -/
def writeNexusStep (C : NewickCodec) (translate : Bool) (s : WState) (it : Nat × T) : WState × Txt :=
  (stepState s it.2, treeLine C it.1 (writtenTree translate (stepState s it.2) it.2))

def writeNexusLoop (C : NewickCodec) (translate : Bool) : List (Nat × T) → WState → Txt → WState × Txt
  | [], s, buf => (s, buf)
  | it :: r, s, buf =>
    writeNexusLoop C translate r (writeNexusStep C translate s it).1 (buf ++ (writeNexusStep C translate s it).2)

/-- the label state after the whole loop (first component of `writeNexusLoop`) -/
def stateLoop : List (Nat × T) → WState → WState
  | [], s => s
  | it :: r, s => stateLoop r (stepState s it.2)

def joinMap (f : String → Txt) : List String → Txt
  | [] => []
  | a :: r => f a ++ joinMap f r

/-- "   <index> <tip>\n" -/
def translateLine (m : List (String × String)) (tip : String) : Txt :=
  lit3sp ++ ((match lookup m tip with | some v => v.toList | none => []) ++ ' ' :: (tip.toList ++ ['\n']))

/-- " <tip>" for each label -/
def labelsText (ls : List String) : Txt := joinMap (fun tip => ' ' :: tip.toList) ls

/-- `nexus.WriteNexus(tchan, translate)` for a channel that carries no error record. -/
def writeNexus (C : NewickCodec) (translate : Bool) (ts : List (Nat × T)) : Txt :=
  let s := (writeNexusLoop C translate ts {} []).1
  let treeBuf := (writeNexusLoop C translate ts {} []).2
  lit1 ++ (natTxt s.map.length ++ ';' :: (lit2a ++ (litTaxlabels ++ (labelsText s.slice ++ ';' :: (lit3a ++
  ((if translate then litTranslate ++ (joinMap (translateLine s.map) s.slice ++ litTrEnd) else []) ++
  (treeBuf ++ lit4)))))))

/-- `Tree.Nexus()`: one tree, labels in `Tips()` order (not sorted), NTAX = number of tips, tree name
    "tree1".  Same text pieces as `writeNexus` without translate table. -/
def treeNexus (C : NewickCodec) (t : T) : Txt :=
  lit1 ++ (natTxt t.tipNames.length ++ ';' :: (lit2a ++ (litTaxlabels ++ (labelsText t.tipNames ++ ';' :: (lit3a ++
  (treeLine C 1 t ++ lit4))))))

/- ## 3. The Nexus lexer -/

namespace Nex

inductive Kw where
  | nexus | begin_ | data | taxa | taxlabels | trees | tree | translate | dimensions | ntax | nchar
  | format | datatype | missing | gap | matrix | end_
  deriving DecidableEq, Repr

inductive Tok where
  | ident (s : String)
  | numeric (s : String)
  | openbrack | closebrack | endcmd | eol | comma | equal
  | kw (k : Kw) (lit : String)
  /-- a '\r' that is not followed by '\n': the Go lexer then does something this model does not follow -/
  | loneCR
  deriving DecidableEq, Repr

def isWs (c : Char) : Bool := c == ' ' || c == '\t'

def isIdent (c : Char) : Bool :=
  c != '[' && c != ']' && c != ';' && c != '=' && c != '\r' && c != '\n' && c != ',' && !isWs c

/-- `unicode.ToUpper` restricted to what can produce an ASCII letter: ASCII lower case, and the two
    non-ASCII letters whose upper case is ASCII (U+0131 dotless i, U+017F long s). -/
def upperGo (c : Char) : Char :=
  if c == 'ı' then 'I' else if c == 'ſ' then 'S' else c.toUpper

def keywordOf (s : String) : Option Kw :=
  match String.ofList (s.toList.map upperGo) with
  | "#NEXUS" => some .nexus | "BEGIN" => some .begin_ | "DATA" => some .data | "CHARACTERS" => some .data
  | "TAXA" => some .taxa | "TAXLABELS" => some .taxlabels | "TREES" => some .trees | "TREE" => some .tree
  | "TRANSLATE" => some .translate | "DIMENSIONS" => some .dimensions | "NTAX" => some .ntax
  | "NCHAR" => some .nchar | "FORMAT" => some .format | "DATATYPE" => some .datatype
  | "MISSING" => some .missing | "GAP" => some .gap | "MATRIX" => some .matrix | "END" => some .end_
  | _ => none

/-- optional sign of an integer literal -/
def signSplit : Txt → Bool × Txt
  | '-' :: r => (true, r)
  | '+' :: r => (false, r)
  | l => (false, l)

def digitsNat (ds : Txt) : Nat := ds.foldl (fun a c => 10 * a + (c.toNat - 48)) 0

/-- does `strconv.ParseInt(s, 10, 64)` succeed: optional sign, at least one digit, only digits,
    value within int64 -/
def isInt64 (s : String) : Bool :=
  let p := signSplit s.toList
  !p.2.isEmpty && p.2.all Char.isDigit &&
    (if p.1 then digitsNat p.2 ≤ 9223372036854775808 else digitsNat p.2 ≤ 9223372036854775807)

def classify (lit : String) : Tok :=
  if isInt64 lit then .numeric lit else
  match keywordOf lit with
  | some k => .kw k lit
  | none => .ident lit

/-- `Scanner.Scan` iterated to the end of the input, white-space tokens dropped (the parser only ever
    scans through `scanIgnoreWhitespace`, and contiguous white space is one token).
    `cur` = the identifier being accumulated (reversed), `none` when not inside one. -/
def flush : Option Txt → List Tok
  | some w => [classify (String.ofList w.reverse)]
  | none => []

def scanGo : Txt → Option Txt → List Tok
  | [], cur => flush cur
  | '\r' :: '\n' :: r, cur => flush cur ++ .eol :: scanGo r none
  | '\r' :: _, cur => flush cur ++ [.loneCR]
  | c :: r, cur =>
    if isIdent c then scanGo r (some (c :: cur.getD []))
    else if isWs c then flush cur ++ scanGo r none
    else if c == '\n' then flush cur ++ .eol :: scanGo r none
    else if c == '[' then flush cur ++ .openbrack :: scanGo r none
    else if c == ']' then flush cur ++ .closebrack :: scanGo r none
    else if c == ';' then flush cur ++ .endcmd :: scanGo r none
    else if c == '=' then flush cur ++ .equal :: scanGo r none
    else flush cur ++ .comma :: scanGo r none

def scan (s : Txt) : List Tok := scanGo s none

def Tok.lit : Tok → String
  | .ident s => s | .numeric s => s | .kw _ s => s
  | .openbrack => "[" | .closebrack => "]" | .endcmd => ";" | .eol => "" | .comma => "," | .equal => "="
  | .loneCR => "\r"


/- ## 4. The Nexus parser (TAXA and TREES blocks) -/

/-- result of a parsing function: a value, an error (`fmt.Errorf` somewhere), or a path of the Go
    parser this model does not follow (reported by the driver as such, never turned into a value) -/
inductive PRes (α : Type) where
  | ok (a : α)
  | err
  | unsupported
  deriving Inhabited

def Tok.name? : Tok → Option String
  | .ident s => some s
  | .numeric s => some s
  | _ => none

/-- `consumeComment` after the opening bracket: scan up to the matching `]`; EOF is an error. -/
def skipComment : List Tok → Option (List Tok)
  | [] => none
  | .closebrack :: r => some r
  | _ :: r => skipComment r

/-- `parseUnsupportedCommand`: skip up to and including the next `;`; EOF is an error -/
def skipCommand : List Tok → Option (List Tok)
  | [] => none
  | .endcmd :: r => some r
  | _ :: r => skipCommand r

/-- `parseUnsupportedBlock`: skip up to the next END, which must be followed by `;` -/
def skipBlock : List Tok → PRes (List Tok)
  | [] => .err
  | .kw .end_ _ :: .endcmd :: r => .ok r
  | .kw .end_ _ :: _ => .err
  | _ :: r => skipBlock r

def insertLabel (l : List String) (s : String) : List String := if l.contains s then l else l ++ [s]

/-- value of a token that `isInt64` accepted (`strconv.ParseInt`) -/
def intVal (s : String) : Int :=
  let p := signSplit s.toList
  if p.1 then - (digitsNat p.2 : Int) else (digitsNat p.2 : Int)

/-- the TAXLABELS loop: labels up to `;` (line ends allowed); the labels are the keys of a Go map -/
def parseTaxlabels : List Tok → List String → PRes (List String × List Tok)
  | [], _ => .err
  | .eol :: r, acc => parseTaxlabels r acc
  | .endcmd :: r, acc => .ok (acc, r)
  | .ident s :: r, acc => parseTaxlabels r (insertLabel acc s)
  | .numeric s :: r, acc => parseTaxlabels r (insertLabel acc s)
  | _ :: _, _ => .err

/-- the DIMENSIONS loop; only `NTAX = <int>` is followed, any other key is `unsupported` -/
def parseDims : List Tok → Int → PRes (Int × List Tok)
  | .endcmd :: r, n => .ok (n, r)
  | .kw .ntax _ :: .equal :: .numeric s :: r, _ => parseDims r (intVal s)
  | _, _ => .unsupported

/-- `parseTaxa`: returns (ntax, labels) and the rest.  `fuel` bounds the number of loop iterations
    (each consumes at least one token). -/
def parseTaxa : Nat → List Tok → Int → List String → PRes ((Int × List String) × List Tok)
  | 0, _, _, _ => .unsupported
  | f + 1, toks, ntax, labs =>
    match toks with
    | [] => .err
    | .eol :: r => parseTaxa f r ntax labs
    | .kw .end_ _ :: .endcmd :: r => .ok ((ntax, labs), r)
    | .kw .end_ _ :: _ => .err
    | .kw .dimensions _ :: r =>
      (match parseDims r ntax with
       | .ok (n, r') => parseTaxa f r' n labs
       | .err => .err
       | .unsupported => .unsupported)
    | .kw .taxlabels _ :: r =>
      (match parseTaxlabels r labs with
       | .ok (l, r') => parseTaxa f r' ntax l
       | .err => .err
       | .unsupported => .unsupported)
    | .openbrack :: r =>
      (match skipComment r with
       | some r' => parseTaxa f r' ntax labs
       | none => .err)
    | _ :: r =>
      -- any other command of the block: skipped up to its `;`
      (match skipCommand r with
       | some r' => parseTaxa f r' ntax labs
       | none => .err)

mutual
/-- `parseTranslationTable`; a comment where an entry could start is consumed (`consumeComment`), a
    bracket anywhere else in an entry is an error -/
def parseTransl : List Tok → List (String × String) → PRes (List (String × String) × List Tok)
  | [], _ => .err
  | .eol :: r, m => parseTransl r m
  | .comma :: r, m => parseTransl r m
  | .endcmd :: r, m => .ok (m, r)
  | .openbrack :: r, m => parseTranslCom r m
  | t :: r, m =>
    match t.name? with
    | none => .err
    | some key =>
      match r with
      | [] => .err
      | t2 :: r2 =>
        match t2.name? with
        | none => .err
        | some value =>
          match r2 with
          | .endcmd :: r3 => .ok (mapSet m key value, r3)
          | .comma :: r3 => parseTransl r3 (mapSet m key value)
          | .eol :: r3 => parseTransl r3 (mapSet m key value)
          | _ => .err
/-- inside a comment of the TRANSLATE command: up to the `]`; the end of the input is an error -/
def parseTranslCom : List Tok → List (String × String) → PRes (List (String × String) × List Tok)
  | [], _ => .err
  | .closebrack :: r, m => parseTransl r m
  | _ :: r, m => parseTranslCom r m
end

/-- the loop collecting the tree string of a TREE command: literals are concatenated (white space is
    gone), up to `;`; a line end, a keyword or the end of the input is an error -/
def parseTreeStr : List Tok → Txt → PRes (Txt × List Tok)
  | [], _ => .err
  | .endcmd :: r, acc => .ok (acc, r)
  | .ident s :: r, acc => parseTreeStr r (acc ++ s.toList)
  | .numeric s :: r, acc => parseTreeStr r (acc ++ s.toList)
  | .openbrack :: r, acc => parseTreeStr r (acc ++ ['['])
  | .closebrack :: r, acc => parseTreeStr r (acc ++ [']'])
  | .comma :: r, acc => parseTreeStr r (acc ++ [','])
  | .equal :: r, acc => parseTreeStr r (acc ++ ['='])
  | _ :: _, _ => .err

def dropEol : List Tok → List Tok
  | .eol :: r => dropEol r
  | l => l

structure TreesAcc where
  trees : List (String × Txt) := []
  transl : Option (List (String × String)) := none

/-- `parseTrees` -/
def parseTrees : Nat → List Tok → TreesAcc → PRes (TreesAcc × List Tok)
  | 0, _, _ => .unsupported
  | f + 1, toks, a =>
    match toks with
    | [] => .err
    | .eol :: r => parseTrees f r a
    | .kw .end_ _ :: .endcmd :: r => .ok (a, r)
    | .kw .end_ _ :: _ => .err
    | .kw .translate _ :: r =>
      (match parseTransl r [] with
       | .ok (m, r') => parseTrees f r' { a with transl := some m }
       | .err => .err
       | .unsupported => .unsupported)
    | .kw .tree _ :: r =>
      (match r with
       | [] => .err
       | t2 :: r2 =>
         match t2.name? with
         | none => .err
         | some name =>
           match r2 with
           | .equal :: r3 =>
             let r4? : Option (List Tok) := match r3 with
               | .openbrack :: r' => (skipComment r').map dropEol
               | _ => some r3
             (match r4? with
              | none => .err
              | some r4 =>
                match parseTreeStr r4 [] with
                | .ok (s, r5) => parseTrees f r5 { a with trees := a.trees ++ [(name, s)] }
                | .err => .err
                | .unsupported => .unsupported)
           | _ => .err)
    | .openbrack :: r =>
      (match skipComment r with
       | some r' => parseTrees f r' a
       | none => .err)
    | _ :: r =>
      (match skipCommand r with
       | some r' => parseTrees f r' a
       | none => .err)

structure PState where
  ntax : Int := 0
  taxlabels : Option (List String) := none
  trees : Option (List (String × Txt)) := none
  transl : Option (List (String × String)) := none

/-- the main loop of `Parser.Parse` after the `#NEXUS` token -/
def parseLoop : Nat → List Tok → PState → PRes PState
  | 0, _, _ => .unsupported
  | f + 1, toks, st =>
    let block (t2 : Tok) (r : List Tok) : PRes PState :=
      match t2 with
      | .kw .taxa _ =>
        (match parseTaxa f r (-1) [] with
         | .ok ((n, l), r') => parseLoop f r' { st with ntax := n, taxlabels := some l }
         | .err => .err
         | .unsupported => .unsupported)
      | .kw .trees _ =>
        -- since fix 82a8873 the trees of every TREES block are kept (appended)
        (match parseTrees f r { transl := st.transl } with
         | .ok (a, r') => parseLoop f r' { st with trees := some (st.trees.getD [] ++ a.trees), transl := a.transl }
         | .err => .err
         | .unsupported => .unsupported)
      | .kw .data _ => .unsupported
      | _ =>
        -- an unsupported block (PAUP, NOTES, FIGTREE, …) is skipped
        (match skipBlock r with
         | .ok r' => parseLoop f r' st
         | .err => .err
         | .unsupported => .unsupported)
    match toks with
    | [] => .ok st
    | .eol :: r => parseLoop f r st
    | .openbrack :: r =>
      (match skipComment r with
       | none => .err
       | some r' =>
         match r' with
         | .kw .begin_ _ :: t2 :: .endcmd :: r'' => block t2 r''
         | .kw .begin_ _ :: _ => .err
         | [] => .ok st
         | _ :: r'' => parseLoop f r'' st)
    | .kw .begin_ _ :: t2 :: .endcmd :: r => block t2 r
    | .kw .begin_ _ :: _ => .err
    | _ :: r => parseLoop f r st

/-- the trees of a parsed Nexus document, with their names -/
abbrev NexDoc := List (String × T)

/-- the loop over `treestrings` at the end of `Parse`: re-parse as Newick, translate, check the taxa -/
def buildTrees (C : NewickCodec) (transl : Option (List (String × String))) (taxlabels : Option (List String)) :
    List (String × Txt) → Option NexDoc
  | [] => some []
  | (name, s) :: r =>
    match C.parse (s ++ [';']) with
    | none => none
    | some t0 =>
      let t? : Option T := match transl with
        | some m => renameChecked m t0
        | none => some t0
      match t? with
      | none => none
      | some t =>
        -- since fix 6a194b0 a tree may bear a subset of the taxa of the TAXA block
        let okTaxa : Bool := match taxlabels with
          | none => true
          | some labs => t.tipNames.all labs.contains
        if !okTaxa then none else
        match buildTrees C transl taxlabels r with
        | none => none
        | some d => some ((name, t) :: d)

/-- `buildTrees` BEFORE fix 6a194b0: every label of the TAXA block had to be a tip of every tree
    (`len(tips) != len(taxlabels)` → error) -/
def buildTreesAllTaxa (C : NewickCodec) (transl : Option (List (String × String))) (taxlabels : Option (List String)) :
    List (String × Txt) → Option NexDoc
  | [] => some []
  | (name, s) :: r =>
    match C.parse (s ++ [';']) with
    | none => none
    | some t0 =>
      let t? : Option T := match transl with
        | some m => renameChecked m t0
        | none => some t0
      match t? with
      | none => none
      | some t =>
        let okTaxa : Bool := match taxlabels with
          | none => true
          | some labs => t.tipNames.all labs.contains && t.tipNames.length == labs.length
        if !okTaxa then none else
        match buildTreesAllTaxa C transl taxlabels r with
        | none => none
        | some d => some ((name, t) :: d)

/-- `nexus.NewParser(r).Parse()` on a text. -/
def parse (C : NewickCodec) (doc : Txt) : PRes NexDoc :=
  let toks := scan doc
  if toks.contains .loneCR then .unsupported else
  match toks with
  | .kw .nexus _ :: r =>
    (match parseLoop (r.length + 1) r {} with
     | .err => .err
     | .unsupported => .unsupported
     | .ok st =>
       if st.ntax != -1 && st.ntax != ((st.taxlabels.getD []).length : Int) then .err else
       match st.trees with
       | none => .ok []
       | some l =>
         match buildTrees C st.transl st.taxlabels l with
         | none => .err
         | some d => .ok d)
  | _ => .err

/-- `Parse()` BEFORE fix 6a194b0 (`buildTreesAllTaxa`) -/
def parseAllTaxa (C : NewickCodec) (doc : Txt) : PRes NexDoc :=
  let toks := scan doc
  if toks.contains .loneCR then .unsupported else
  match toks with
  | .kw .nexus _ :: r =>
    (match parseLoop (r.length + 1) r {} with
     | .err => .err
     | .unsupported => .unsupported
     | .ok st =>
       if st.ntax != -1 && st.ntax != ((st.taxlabels.getD []).length : Int) then .err else
       match st.trees with
       | none => .ok []
       | some l =>
         match buildTreesAllTaxa C st.transl st.taxlabels l with
         | none => .err
         | some d => .ok d)
  | _ => .err

/-- the main loop of `Parser.Parse` BEFORE fix 82a8873: `treenames, treestrings, err = p.parseTrees()`
    overwrites what an earlier TREES block delivered -/
def parseLoopPinned : Nat → List Tok → PState → PRes PState
  | 0, _, _ => .unsupported
  | f + 1, toks, st =>
    let block (t2 : Tok) (r : List Tok) : PRes PState :=
      match t2 with
      | .kw .taxa _ =>
        (match parseTaxa f r (-1) [] with
         | .ok ((n, l), r') => parseLoopPinned f r' { st with ntax := n, taxlabels := some l }
         | .err => .err
         | .unsupported => .unsupported)
      | .kw .trees _ =>
        (match parseTrees f r { transl := st.transl } with
         | .ok (a, r') => parseLoopPinned f r' { st with trees := some a.trees, transl := a.transl }
         | .err => .err
         | .unsupported => .unsupported)
      | .kw .data _ => .unsupported
      | _ =>
        -- an unsupported block (PAUP, NOTES, FIGTREE, …) is skipped
        (match skipBlock r with
         | .ok r' => parseLoopPinned f r' st
         | .err => .err
         | .unsupported => .unsupported)
    match toks with
    | [] => .ok st
    | .eol :: r => parseLoopPinned f r st
    | .openbrack :: r =>
      (match skipComment r with
       | none => .err
       | some r' =>
         match r' with
         | .kw .begin_ _ :: t2 :: .endcmd :: r'' => block t2 r''
         | .kw .begin_ _ :: _ => .err
         | [] => .ok st
         | _ :: r'' => parseLoopPinned f r'' st)
    | .kw .begin_ _ :: t2 :: .endcmd :: r => block t2 r
    | .kw .begin_ _ :: _ => .err
    | _ :: r => parseLoopPinned f r st


/-- `Parse()` before fix 82a8873 -/
def parsePinnedBlocks (C : NewickCodec) (doc : Txt) : PRes NexDoc :=
  let toks := scan doc
  if toks.contains .loneCR then .unsupported else
  match toks with
  | .kw .nexus _ :: r =>
    (match parseLoopPinned (r.length + 1) r {} with
     | .err => .err
     | .unsupported => .unsupported
     | .ok st =>
       if st.ntax != -1 && st.ntax != ((st.taxlabels.getD []).length : Int) then .err else
       match st.trees with
       | none => .ok []
       | some l =>
         match buildTrees C st.transl st.taxlabels l with
         | none => .err
         | some d => .ok d)
  | _ => .err


end Nex

/-- records sent by ReadMultiTrees(FORMAT_NEXUS) -/
def recsOfTrees : List T → Nat → List Rec
  | [], _ => []
  | t :: r, i => ⟨i, .ok t⟩ :: recsOfTrees r (i + 1)

/- ## 5. PhyloXML -/

namespace Px

/-- the element tree of an XML document, as `encoding/xml`'s tokenizer presents it (local names) -/
inductive Xml where
  | elem (tag : String) (attrs : List (String × String)) (kids : List Xml)
  | text (s : String)
  deriving Repr, Inhabited

/-- the decoded `Clade` struct (fields used by cladeToTree) -/
inductive Clade where
  | mk (name : String) (bl conf : Option Rat) (sci code : String) (kids : List Clade)
  deriving Repr, Inhabited

def txt (s : Txt) : Xml := .text (String.ofList s)

mutual
/-- `writeClade(n, prev, e, …)`; `oe = none` at the root (`prev == nil`) -/
def encClade (N : NumCodec) : Option EdgeD → T → Xml
  | oe, .node d _ k =>
    .elem "clade" []
      ((if d.name != "" then [.elem "name" [] [.text d.name]] else []) ++
       (match oe with
        | none => []
        | some e =>
          (if e.len != NIL then [.elem "branch_length" [] [txt (N.fmt e.len)]] else []) ++
          (if !k.isEmpty && e.sup != NIL then [.elem "confidence" [("type", "bootstrap")] [txt (N.fmt e.sup)]] else [])) ++
       encKids N k)
def encKids (N : NumCodec) : Kids → List Xml
  | [] => []
  | (e, t) :: r => encClade N (some e) t :: encKids N r
end

def encPhylogeny (N : NumCodec) (t : T) : Xml :=
  .elem "phylogeny" [("rooted", if t.rooted then "true" else "false")] [encClade N none t]

/-- `WritePhyloXML` at element level (the attributes of the document element are not represented) -/
def encode (N : NumCodec) (ts : List T) : Xml := .elem "phyloxml" [] (ts.map (encPhylogeny N))

/- rendering as text, exactly as the Go writer prints it -/
def tabOf (level : Nat) : Txt := List.replicate (2 + 2 * level) ' '

mutual
def renderClade (N : NumCodec) : Option EdgeD → T → Nat → Txt
  | oe, .node d _ k, level =>
    let tab := tabOf level
    tab ++ "<clade>\n".toList ++
    (if d.name != "" then tab ++ "<name>".toList ++ d.name.toList ++ "</name>\n".toList else []) ++
    (match oe with
     | none => []
     | some e =>
       (if e.len != NIL then tab ++ "<branch_length>".toList ++ N.fmt e.len ++ "</branch_length>\n".toList else []) ++
       (if !k.isEmpty && e.sup != NIL then
          tab ++ "<confidence type=\"bootstrap\">".toList ++ N.fmt e.sup ++ "</confidence>\n".toList else [])) ++
    renderKids N k (level + 1) ++ tab ++ "</clade>\n".toList
def renderKids (N : NumCodec) : Kids → Nat → Txt
  | [], _ => []
  | (e, t) :: r, level => renderClade N (some e) t level ++ renderKids N r level
end

def header : Txt :=
  "<?xml version=\"1.0\" encoding=\"UTF-8\"?>\n<phyloxml xmlns:xsi=\"http://www.w3.org/2001/XMLSchema-instance\" \n          xsi:schemaLocation=\"http://www.phyloxml.org http://www.phyloxml.org/1.10/phyloxml.xsd\"\n          xmlns=\"http://www.phyloxml.org\">\n".toList

def renderPhylogeny (N : NumCodec) (t : T) : Txt :=
  "  <phylogeny rooted=\"".toList ++ (if t.rooted then "true" else "false").toList ++ "\">\n".toList ++
  renderClade N none t 1 ++ "  </phylogeny>\n".toList

def joinT (f : T → Txt) : List T → Txt
  | [] => []
  | t :: r => f t ++ joinT f r

/-- `WritePhyloXML` as text -/
def render (N : NumCodec) (ts : List T) : Txt := header ++ joinT (renderPhylogeny N) ts ++ "</phyloxml>\n".toList

/- decoding: the subset of `xml.Unmarshal` these structs need -/

def Xml.tag? : Xml → Option String
  | .elem t _ _ => some t
  | .text _ => none

def Xml.kids : Xml → List Xml
  | .elem _ _ k => k
  | .text _ => []

/-- character data directly inside an element -/
def chardata : List Xml → String
  | [] => ""
  | .text s :: r => s ++ chardata r
  | .elem _ _ _ :: r => chardata r

def childrenTagged (tag : String) (l : List Xml) : List Xml := l.filter (fun x => x.tag? == some tag)

/-- `strings.TrimSpace` on ASCII white space (what the generated documents contain) -/
def trim (s : Txt) : Txt :=
  let ws (c : Char) : Bool := c == ' ' || c == '\t' || c == '\n' || c == '\r'
  ((s.dropWhile ws).reverse.dropWhile ws).reverse

/-- outcome of decoding an optional float element -/
inductive FRes where
  | absent | val (q : Rat) | bad | dup

/-- every occurrence of a repeated float element is unmarshalled into the same pointer: all must
    parse, the last one stays -/
def floatVals (N : NumCodec) : List Xml → Option (List Rat)
  | [] => some []
  | x :: r =>
    match N.parse (trim (chardata x.kids).toList), floatVals N r with
    | some q, some qs => some (q :: qs)
    | _, _ => none

def floatField (N : NumCodec) (tag : String) (l : List Xml) : FRes :=
  match childrenTagged tag l with
  | [] => .absent
  | xs =>
    match floatVals N xs with
    | none => .bad
    | some vs => (match vs.getLast? with | some v => .val v | none => .absent)

/-- a string field: absent → "", otherwise the character data of the LAST occurrence -/
def strField (tag : String) (l : List Xml) : Option String :=
  match (childrenTagged tag l).getLast? with
  | none => some ""
  | some x => some (chardata x.kids)

/-- the `<taxonomy>` children are unmarshalled one after the other into the same struct: a field keeps
    the value of the last taxonomy element that has it -/
def taxFields : List Xml → String × String → String × String
  | [], acc => acc
  | x :: r, (sci, code) =>
    let sci' := match (childrenTagged "scientific_name" x.kids).getLast? with | some y => chardata y.kids | none => sci
    let code' := match (childrenTagged "code" x.kids).getLast? with | some y => chardata y.kids | none => code
    taxFields r (sci', code')

mutual
/-- decode a `<clade>` element -/
def decClade (N : NumCodec) : Xml → Nex.PRes Clade
  | .text _ => .unsupported
  | .elem _ _ k =>
    match strField "name" k, floatField N "branch_length" k, floatField N "confidence" k, childrenTagged "taxonomy" k with
    | some name, bl, conf, tax =>
      let taxo : Option (String × String) := some (taxFields tax ("", ""))
      (match taxo, bl, conf with
       | none, _, _ => .unsupported
       | _, .dup, _ => .unsupported
       | _, _, .dup => .unsupported
       | _, .bad, _ => .err
       | _, _, .bad => .err
       | some (sci, code), bl, conf =>
         let toOpt : FRes → Option Rat := fun r => match r with | .val q => some q | _ => none
         match decKids N k with
         | .ok cs => .ok (.mk name (toOpt bl) (toOpt conf) sci code cs)
         | .err => .err
         | .unsupported => .unsupported)
    | none, _, _, _ => .unsupported
/-- decode the `<clade>` children among a list of nodes -/
def decKids (N : NumCodec) : List Xml → Nex.PRes (List Clade)
  | [] => .ok []
  | x :: r =>
    if x.tag? == some "clade" then
      match decClade N x, decKids N r with
      | .ok c, .ok cs => .ok (c :: cs)
      | .err, _ => .err
      | _, .err => .err
      | _, _ => .unsupported
    else decKids N r
end

/-- `xml.Unmarshal` of an attribute into a `bool` field: the empty value is `false`, otherwise
    `strconv.ParseBool(strings.TrimSpace(v))` must succeed -/
def parseBoolOk (v : String) : Bool :=
  v == "" || ["1", "t", "T", "TRUE", "true", "True", "0", "f", "F", "FALSE", "false", "False"].contains
    (String.ofList (trim v.toList))

/-- decode a `<phylogeny>`: its root clade (a missing `<clade>` leaves the zero struct); a `rooted`
    attribute that is not a Go boolean makes `Unmarshal` (hence the reader) fail; its value is not used -/
def decPhylogeny (N : NumCodec) (x : Xml) : Nex.PRes Clade :=
  let rootedOk : Bool := match x with
    | .elem _ attrs _ => attrs.all fun (k, v) => k != "rooted" || parseBoolOk v
    | _ => true
  if !rootedOk then .err else
  match decKids N x.kids with
  | .ok [] => .ok (.mk "" none none "" "" [])
  | .ok [c] => .ok c
  | .ok _ => .unsupported
  | .err => .err
  | .unsupported => .unsupported

def decPhylogenies (N : NumCodec) : List Xml → Nex.PRes (List Clade)
  | [] => .ok []
  | x :: r =>
    if x.tag? == some "phylogeny" then
      match decPhylogeny N x, decPhylogenies N r with
      | .ok c, .ok cs => .ok (c :: cs)
      | .err, _ => .err
      | _, .err => .err
      | _, _ => .unsupported
    else decPhylogenies N r

/-- `phyloxml.NewParser(r).Parse()` from the element tree: the document element must be `phyloxml` -/
def decode (N : NumCodec) : Xml → Nex.PRes (List Clade)
  | .elem "phyloxml" _ k => decPhylogenies N k
  | _ => .err

mutual
def Clade.tipsNamed : Clade → Bool
  | .mk name _ _ sci code k => (match k with | [] => name != "" || sci != "" || code != "" | _ :: _ => true) && tipsNamedL k
def tipsNamedL : List Clade → Bool
  | [] => true
  | c :: r => c.tipsNamed && tipsNamedL r
end

def Clade.label : Clade → String
  | .mk name _ _ sci code _ => if name != "" then name else if sci != "" then sci else code

mutual
/-- `cladeToTree` without the identifiers (set by `renumber`) -/
def Clade.toT : Clade → T
  | .mk name bl conf sci code k => .node ⟨(Clade.mk name bl conf sci code []).label, []⟩ 0 (toKids k)
def toKids : List Clade → Kids
  | [] => []
  | .mk name bl conf sci code k :: r =>
    (⟨bl.getD NIL, (match k with | [] => NIL | _ :: _ => conf.getD NIL), NIL, [], -1⟩,
      Clade.toT (.mk name bl conf sci code k)) :: toKids r
end

end Px

mutual
/-- branch identifiers in creation (pre-)order, as `nedges` counts them -/
def renumberGo : T → Nat → T × Nat
  | .node d p k, n => let (k', n') := renumberL k n; (.node d p k', n')
def renumberL : Kids → Nat → Kids × Nat
  | [], n => ([], n)
  | (e, t) :: r, n =>
    let (t', n1) := renumberGo t (n + 1)
    let (r', n2) := renumberL r n1
    (({ e with id := (n : Int) }, t') :: r', n2)
end

def renumber (t : T) : T := (renumberGo t 0).1

/-- `phylogenyToTree`: the error "One tip has no name" is returned together with the tree; only its
    class is observed -/
def Px.phyloOut (c : Px.Clade) : Out := if c.tipsNamed then .ok (renumber c.toT) else .err

def recsOfOuts : List Out → Nat → List Rec
  | [], _ => []
  | o :: r, i => ⟨i, o⟩ :: recsOfOuts r (i + 1)

/- ## 6. Nextstrain (names and divergences only) -/

namespace Ns

inductive Node where
  | mk (name : String) (div : Rat) (kids : List Node)
  deriving Repr, Inhabited

mutual
def Node.tipsNamed : Node → Bool
  | .mk name _ k => (match k with | [] => name != "" | _ :: _ => true) && tipsNamedL k
def tipsNamedL : List Node → Bool
  | [] => true
  | c :: r => c.tipsNamed && tipsNamedL r
end

mutual
def Node.toT : Node → T
  | .mk name div k => .node ⟨name, []⟩ 0 (toKids div k)
def toKids (prev : Rat) : List Node → Kids
  | [] => []
  | .mk name div k :: r => (⟨div - prev, NIL, NIL, [], -1⟩, Node.toT (.mk name div k)) :: toKids prev r
end

/-- `Nextstrain.FirstTree()` after a successful `Parse` -/
def firstTree (n : Node) : Out := if n.tipsNamed then .ok (renumber n.toT) else .err

end Ns

/- ## 7. The reader entry points of io/utils/readtrees.go -/

/-- a document, as far as each reader is modelled: text for Newick and Nexus, the element tree for
    PhyloXML (`none` = `xml.Unmarshal` failed on the text), the decoded JSON for Nextstrain
    (`none` = `json.Unmarshal` failed or the version is not "v2") -/
inductive Doc where
  | newick (s : Txt)
  | nexus (s : Txt)
  | phyloxml (x : Option Px.Xml)
  | nextstrain (n : Option Ns.Node)

/-- environment: the two codecs -/
structure Env where
  C : NewickCodec
  N : NumCodec

/-- result of a reader in the model: the records, or "this model does not follow the parser here" -/
abbrev MultiRes := Option (List Rec)

/-- `PhyloXML.IterateTrees` -/
def pxIterate (cs : List Px.Clade) : List Out := cs.map Px.phyloOut

/-- `PhyloXML.FirstTree` as it is now: `(nil, nil)` for no phylogeny -/
def pxFirst (cs : List Px.Clade) : Option Out := cs.head?.map Px.phyloOut

/-- the pinned `FirstTree` (before fix af86682, F19): the result variable is shadowed inside the
    loop, the function always returns `(nil, err)` -/
def pxFirstPinned (cs : List Px.Clade) : Option Out :=
  match cs.head?.map Px.phyloOut with
  | some .err => some .err
  | _ => none

/-- `utils.ReadMultiTrees(reader, format)`: the records sent on the channel -/
def readMulti (E : Env) : Doc → MultiRes
  | .newick s => some (readMultiNewick E.C s)
  | .nexus s =>
    (match Nex.parse E.C s with
     -- since fix 78cdd07 a document that holds no tree is reported: one error record, identifier 0
     | .ok [] => some [⟨0, .err⟩]
     | .ok d => some (recsOfTrees (d.map (·.2)) 0)
     | .err => some [⟨0, .err⟩]
     | .unsupported => none)
  | .phyloxml none => some [⟨0, .err⟩]
  | .phyloxml (some x) =>
    (match Px.decode E.N x with
     | .ok [] => some [⟨0, .err⟩]
     | .ok cs => some (recsOfOuts (pxIterate cs) 0)
     | .err => some [⟨0, .err⟩]
     | .unsupported => none)
  | .nextstrain none => some [⟨0, .err⟩]
  | .nextstrain (some n) => some [⟨0, Ns.firstTree n⟩]

/-- `utils.ReadTreeReader(reader, format)` -/
def readFirst (E : Env) : Doc → Option Out
  | .newick s => some (readFirstNewick E.C s)
  | .nexus s =>
    (match Nex.parse E.C s with
     | .ok d => (match d with | [] => some .err | (_, t) :: _ => some (.ok t))
     | .err => some .err
     | .unsupported => none)
  | .phyloxml none => some .err
  | .phyloxml (some x) =>
    (match Px.decode E.N x with
     | .ok cs => (match pxFirst cs with | some o => some o | none => some .err)
     | .err => some .err
     | .unsupported => none)
  | .nextstrain none => some .err
  | .nextstrain (some n) => some (Ns.firstTree n)

/-- the first record of the multi-tree reader, as a single-tree result: no record at all is the
    "no tree" error of the single-tree reader -/
def headOut : List Rec → Out
  | [] => .err
  | r :: _ => r.out

/- ## 8. What the formats keep -/

mutual
/-- `strip t`: the tree reduced to what all three formats keep: shape, child order, names, lengths,
    supports (no identifiers, parent positions, comments, p-values) -/
def strip : T → T
  | .node d _ k => .node ⟨d.name, []⟩ 0 (stripL k)
def stripL : Kids → Kids
  | [] => []
  | (e, t) :: r => (⟨e.len, e.sup, NIL, [], -1⟩, strip t) :: stripL r
end

end Gotree.C13
