/-
  C09 — root moves along an arbitrary path (C05's `reroot` = fold of `moveRoot`) keep
  `T.usplitsAll`, hence the Spec's frequency table of a collection, hence the Spec the
  consensus has to meet: the composition that was left open in round 1.
-/
import Gotree.Lemmas.C09Oracle
import Gotree.Lemmas.C05

namespace Gotree.C09
open Gotree

/-- any fold of root moves keeps the tips and the unrooted split map with all its data -/
theorem rerootP_usplitsAll : ∀ (path : List Nat) (t : T) (adj : Option Nat) (back : List Nat),
    t.tipNames.Nodup → LensGood t.splits →
    (C05.rerootP t path adj back).1.tipNames.Perm t.tipNames ∧
    (C05.rerootP t path adj back).1.usplitsAll.Perm t.usplitsAll
  | [], t, _, _, _, _ => ⟨List.Perm.refl _, List.Perm.refl _⟩
  | i :: rest, t, adj, back, hu, hg => by
    cases h : t.kids[C05.adjIdx adj i]? with
    | none => rw [C05.rerootP_cons_none t i rest adj back h]; exact ⟨List.Perm.refl _, List.Perm.refl _⟩
    | some ec =>
      obtain ⟨e, c⟩ := ec
      rw [C05.rerootP_cons_some t i rest adj back e c h]
      have p1 := C05.moveRoot_tips t (C05.adjIdx adj i)
      have p2 := C05.moveRoot_usplitsAll t (C05.adjIdx adj i) hu hg
      have hu' : (C05.moveRoot t (C05.adjIdx adj i)).tipNames.Nodup := p1.nodup_iff.2 hu
      have hg' := C05.moveRoot_lensGood t (C05.adjIdx adj i) hg
      obtain ⟨q1, q2⟩ := rerootP_usplitsAll rest (C05.moveRoot t (C05.adjIdx adj i)) _ _ hu' hg'
      exact ⟨q1.trans p1, q2.trans p2⟩

/-- `Reroot` on any node (C05's model of `Tree.Reroot`), when it succeeds -/
theorem reroot_usplitsAll (t t' : T) (p : List Nat) (hu : t.tipNames.Nodup) (hg : LensGood t.splits)
    (h : C05.reroot t p = .ok t') : t'.tipNames.Perm t.tipNames ∧ t'.usplitsAll.Perm t.usplitsAll := by
  have ht : t' = (C05.rerootP t p none []).1 := by
    unfold C05.reroot at h
    cases hn : C05.nodeAt t p with
    | none => simp [hn] at h
    | some n =>
      simp only [hn] at h
      by_cases h2 : (if p.isEmpty then n.kids.length else n.kids.length + 1) < 2
      · rw [if_pos h2] at h; cases h
      · rw [if_neg h2] at h; cases h; rfl
  subst ht
  exact rerootP_usplitsAll p t none [] hu hg

/-! ## the Spec's tables only depend on the unrooted split maps -/

/-- two trees are the same for the Spec: same tips, same unrooted split map -/
def SameU (t t' : T) : Prop := t'.tipNames.Perm t.tipNames ∧ t'.usplitsAll.Perm t.usplitsAll

theorem spec_count_congr {ts ts' : List T} (h : F2 SameU ts ts') (s : List String) :
    C09S.count ts' s = C09S.count ts s := by
  unfold C09S.count
  induction h with
  | nil => rfl
  | @cons t t' l l' hab _ ih =>
    have e : (t'.usplitsAll.any (·.side == s)) = (t.usplitsAll.any (·.side == s)) := by
      rw [Bool.eq_iff_iff, List.any_eq_true, List.any_eq_true]
      exact ⟨fun ⟨u, hu, h⟩ => ⟨u, hab.2.mem_iff.1 hu, h⟩, fun ⟨u, hu, h⟩ => ⟨u, hab.2.mem_iff.2 hu, h⟩⟩
    simp only [List.filter_cons, e]
    split <;> simp [ih]

theorem spec_lenSum_congr {ts ts' : List T} (h : F2 SameU ts ts') (s : List String) :
    C09S.lenSum ts' s = C09S.lenSum ts s := by
  unfold C09S.lenSum
  induction h with
  | nil => rfl
  | @cons t t' l l' hab _ ih =>
    simp only [List.map_cons, List.sum_cons, ih]
    congr 1
    exact sumR_perm (((hab.2).filter _).map _)

theorem spec_allSides_congr {ts ts' : List T} (h : F2 SameU ts ts') (s : List String) :
    s ∈ C09S.allSides ts' ↔ s ∈ C09S.allSides ts := by
  unfold C09S.allSides
  rw [List.mem_eraseDups, List.mem_eraseDups]
  induction h with
  | nil => exact Iff.rfl
  | @cons t t' l l' hab _ ih =>
    simp only [List.flatMap_cons, List.mem_append, ih]
    have : s ∈ t'.usplitsAll.map (·.side) ↔ s ∈ t.usplitsAll.map (·.side) := (hab.2.map _).mem_iff
    rw [this]

theorem spec_length_congr {ts ts' : List T} (h : F2 SameU ts ts') : ts'.length = ts.length :=
  (F2.length_eq h).symm

theorem spec_taxa_congr {ts ts' : List T} (h : F2 SameU ts ts') : (C09S.taxa ts').Perm (C09S.taxa ts) := by
  cases h with
  | nil => exact List.Perm.refl _
  | cons hab _ => exact hab.1

/-- A tree that meets the Spec of one collection meets the Spec of any collection whose
    trees have, one by one, the same tips and the same unrooted split maps. -/
theorem oracle_congr {ts ts' : List T} (h : F2 SameU ts ts') (c : Rat) (r : T)
    (hkeys : C09S.keysOK ts = true)
    (ho : C09S.splitsOK ts' c r = true ∧ C09S.supportsOK ts' r = true ∧ C09S.lengthsOK ts' r = true) :
    C09S.splitsOK ts c r = true ∧ C09S.supportsOK ts r = true ∧ C09S.lengthsOK ts r = true := by
  have hcnt := spec_count_congr h
  have hls := spec_lenSum_congr h
  have hlen := spec_length_congr h
  have hfreq : ∀ s, C09S.freq ts' s = C09S.freq ts s := fun s => by unfold C09S.freq; rw [hcnt, hlen]
  have hmean : ∀ s, C09S.meanLen ts' s = C09S.meanLen ts s := fun s => by unfold C09S.meanLen; rw [hcnt, hls]
  have hsel : ∀ s, C09S.isSelected ts' c s = C09S.isSelected ts c s := fun s => by
    unfold C09S.isSelected; rw [hfreq, hcnt, hlen]
  have htaxa := spec_taxa_congr h
  obtain ⟨o1, o2, o3⟩ := ho
  refine ⟨?_, ?_, ?_⟩
  · unfold C09S.splitsOK at o1 ⊢
    rw [Bool.and_eq_true, beq_iff_eq, beq_iff_eq] at o1 ⊢
    refine ⟨by rw [o1.1]; exact Gotree.sortS_congr htaxa, ?_⟩
    rw [o1.2]
    unfold C09S.expectedSplits canonSet
    symm
    apply Gotree.C05.canon_eq
    · intro a
      rw [List.mem_filter, List.mem_filter, spec_allSides_congr h, hsel, lightSize_perm_all htaxa]
    · intro a ha b hb hab
      have hk : ((C09S.allSides ts).map fun s => toString s).Nodup := by simpa [C09S.keysOK] using hkeys
      exact Gotree.C05.inj_of_nodup_map _ _ hk a (List.mem_filter.1 ha).1 b (List.mem_filter.1 hb).1 hab
  · unfold C09S.supportsOK at o2 ⊢
    rw [List.all_eq_true] at o2 ⊢
    intro u hu; rw [← hfreq]; exact o2 u hu
  · unfold C09S.lengthsOK at o3 ⊢
    rw [List.all_eq_true] at o3 ⊢
    intro u hu; rw [← hmean]; exact o3 u hu

/-! ## a tip root moved to its neighbour (5a3a76a) is one root move -/

theorem rerootTip_eq_moveRoot (t : T) (h : rerootTip t ≠ t) : rerootTip t = C05.moveRoot t 0 := by
  rcases rerootTip_cases t with h' | ⟨d, p, e, dv, pv, k, kr, rfl, h'⟩
  · exact absurd h' h
  · rw [h']; rfl

theorem rerootTip_sameU (t : T) (hu : t.tipNames.Nodup) (hg : LensGood t.splits) : SameU t (rerootTip t) := by
  by_cases h : rerootTip t = t
  · rw [h]; exact ⟨List.Perm.refl _, List.Perm.refl _⟩
  · rw [rerootTip_eq_moveRoot t h]
    exact ⟨C05.moveRoot_tips t 0, C05.moveRoot_usplitsAll t 0 hu hg⟩
end Gotree.C09
