import Driver.Proto
import Gotree.Spec.C12
import Gotree.Model.C12R
import Gotree.Model.C12Cli
import Gotree.Model.C12Fmt

namespace Gotree.Driver.C12
open Gotree Gotree.Driver Gotree.C12

def parseAlgo0 : String → Option Algo
  | "deltran" => some .deltran | "acctran" => some .acctran | "downpass" => some .downpass
  | "none" => some .none | _ => none

/-- the algo field: `algo` or `algo~prior` (the harness first ran `prior` on the same tree object: a two-step
    history; the second run starts from scratch — ids, state slices, comments — so the model is that of one run) -/
def parseAlgo (s : String) : Option Algo := parseAlgo0 ((s.splitOn "~").headD "")

def hasPrior (s : String) : Bool := (s.splitOn "~").length > 1

mutual
def nodeComments : T → List (List String)
  | .node d _ ks => d.comments :: nodeCommentsL ks
def nodeCommentsL : Kids → List (List String)
  | [] => []
  | (_, c) :: r => nodeComments c ++ nodeCommentsL r
end

mutual
def maxDeg : T → Nat
  | .node _ _ ks => max ks.length (maxDegL ks)
def maxDegL : Kids → Nat
  | [] => 0
  | (_, c) :: r => max (maxDeg c) (maxDegL r)
end

mutual
def hasSingle : T → Bool
  | .node _ _ ks => hasSingleL ks
def hasSingleL : Kids → Bool
  | [] => false
  | (_, c) :: r => c.kids.length == 1 || hasSingle c || hasSingleL r
end

def dedup (l : List String) : List String := l.foldl (fun acc s => if acc.contains s then acc else acc ++ [s]) []

def zipMap (ks vs : List String) : List (String × String) := List.zip ks vs

def splitSet (sep : String) (s : String) : List String := sortStrings (s.splitOn sep)

/-- tags describing the shape of the case -/
def shapeTags (t : T) : List String :=
  tagIf t.rooted "rooted" ++ tagIf (!t.rooted) "unrooted" ++ tagIf (t.kids.length == 1) "roottip" ++
  tagIf (maxDeg t ≥ 4 || (t.rooted && maxDeg t ≥ 3)) "multif" ++ tagIf (hasSingle t) "single" ++
  tagIf (maxDeg t ≥ 255) "huge-degree" ++ tagIf (t.kids.any fun et => et.2.isLeaf) "tip-at-root" ++ tagIf (rootOk t) "hyp-rootOk"

def algoStr : Algo → String
  | .deltran => "deltran" | .acctran => "acctran" | .downpass => "downpass" | .none => "none"

def idxOf (a : List String) (s : String) : Nat := a.findIdx (· == s)

def showProblems (l : List String) : String := "; ".intercalate (l.take 3)

/-- pre-order of `t` (root, neighbour, …) → pre-order of `rootAtNeighbour t` (neighbour, …, old root) -/
def fwdOrder {α : Type} (l : List α) : List α := l.drop 1 ++ l.take 1

/-- repaired finding ParsimonyRootIsTip (fix 2ef38ab): no class any more, the pattern is only named in the detail -/
def rootTipClass : String := "(pattern of the repaired finding ParsimonyRootIsTip: root treated as a leaf, steps 0, every other node `*`)"

/-- ACR on a tree rooted at a TIP (one neighbour, which is an inner node).  For the property this is the same tree as
    `rootAtNeighbour t` (the root is one of its tips): the oracle is evaluated there.  The known wrong answer of the code
    (finding ParsimonyRootIsTip) is recognised by its pattern only. -/
def acrTipRooted (t : T) (m : List (String × String)) (algo : Algo) (outcome stepsS dumpAfter : String)
    (tags0 : List String) (model : Option AcrOut) : Verdict :=
  let tags0 := "root-is-tip" :: tags0
  let missingAll := !(t.tipNames.all fun n => (lookup m n).isSome)
  if outcome == "err" then
    if missingAll then ⟨.pass, "err" :: tags0, ""⟩
    else ⟨.oracle, "err" :: tags0, "error although every tip (the root included) has a state"⟩
  else
  match stepsS.toNat?, T.undump dumpAfter with
  | some steps, some ta =>
    let isets : List (List String) := (nodeComments ta).map fun c => sortStrings (readAcrComment (c.headD ""))
    let silentZero := steps == 0 && (isets.drop 1).all (· == ["*"]) && isets.length ≥ 2
    if missingAll then
      ⟨.oracle, tags0, (if silentZero then rootTipClass ++ " — " else "") ++ "a tip without state was accepted"⟩ else
    let t' := rootAtNeighbour t
    let alpha := dedup ((leavesL t'.kids).filterMap (lookup m))
    let k := alpha.length
    let tv : String → Vec := fun n => match lookup m n with
      | some st => tab k fun i => if i = idxOf alpha st then 1 else 0
      | none => vzero k
    let rep : Report := ⟨steps, fwdOrder (isets.map fun s => s.map (idxOf alpha))⟩
    let tags := tags0 ++ ["states-" ++ toString k] ++ tagIf (tipsOk k tv t') "hyp-tipsOk" ++ tagIf (rootOk t') "hyp-rootOk" ++
      tagIf (minCost k tv t' ≥ 2) "nontrivial"
    let probs := reportProblems k tv t' (algo == .downpass) (algo != .none) true rep
    if !probs.isEmpty then
      ⟨.oracle, tags, (if silentZero then rootTipClass ++ " — " else "") ++ showProblems probs⟩
    else match model with
      | none => ⟨.tie, tags, "model rejects"⟩
      | some mo =>
        if mo.steps != steps then ⟨.tie, tags, "model steps " ++ toString mo.steps⟩
        else if mo.sets.map sortStrings != isets then ⟨.tie, tags, "model sets differ"⟩
        else ⟨.pass, tags, ""⟩
  | _, _ => bad "C12.acr outputs"

/-- ACR.  fields: dump, map keys, map values, algo | outcome, steps, dump after, out-map keys, out-map values, steps on re-rooted copies -/
def handleAcr0 (f : List String) : Verdict :=
  match f with
  | [dump, ks, vs, al, outcome, stepsS, dumpAfter, mks, mvs, rrs, rrps] =>
    match T.undump dump, parseStrList ks, parseStrList vs, parseAlgo al, parseStrList mks, parseStrList mvs, parseIntList rrs,
      (splitTerm ";" rrps).mapM parseNatList with
    | some t, some keys, some vals, some algo, some mkeys, some mvals, some rr, some rrpaths =>
      let m := zipMap keys vals
      let model := acr t m algo
      let missing := !((lookedUp t).all fun n => (lookup m n).isSome)
      let tags0 := shapeTags t ++ ["algo-" ++ algoStr algo] ++ tagIf missing "tip-missing" ++
        tagIf (keys.any fun k => !t.tipNames.contains k) "extra-map-entries" ++ tagIf (hasPrior al) "prior-run" ++
        tagIf ((nodeComments t).any (!·.isEmpty)) "input-comments"
      if outcome.startsWith "panic" then ⟨.oracle, tags0, "panic: " ++ outcome⟩ else
      if tipRooted t then acrTipRooted t m algo outcome stepsS dumpAfter tags0 model else
      if outcome == "err" then
        if !missing then ⟨if rootOk t then .oracle else .tie, "err" :: tags0, "error although every tip has a state"⟩
        else match model with
          | none => ⟨.pass, "err" :: tags0, ""⟩
          | some _ => ⟨.tie, "err" :: tags0, "model accepts"⟩
      else
      if missing then ⟨if rootOk t then .oracle else .tie, tags0, "a tip without state was accepted"⟩ else
      match stepsS.toNat?, T.undump dumpAfter with
      | some steps, some ta =>
        let comments := nodeComments ta
        let isets : List (List String) := comments.map fun c => sortStrings (readAcrComment (c.headD ""))
        let imap : List (String × List String) := List.zip mkeys (mvals.map (splitSet ","))
        -- oracle vocabulary: the states of the tips of this tree, in order of appearance
        let tipStates := (leavesL t.kids).filterMap (lookup m)
        let alpha := dedup tipStates
        let k := alpha.length
        let tv : String → Vec := fun n => match lookup m n with
          | some st => tab k fun i => if i = idxOf alpha st then 1 else 0
          | none => vzero k
        let rep : Report := ⟨steps, isets.map fun s => s.map (idxOf alpha)⟩
        let ambiguous := isets.any (·.length > 1)
        let unamb := isets.all (·.length == 1)
        let tags := tags0 ++ ["states-" ++ toString k] ++ tagIf (steps ≥ 2 && ambiguous) "nontrivial" ++
          tagIf unamb "hyp-unambiguous" ++ tagIf (tipsOk k tv t) "hyp-tipsOk" ++ tagIf (rr.length > 0) "rerooted" ++
          tagIf (k ≥ 4) "many-states"
        if !(rootOk t) then
          -- degenerate root (a Go tip or no child): outside the property; only the tie is checked
          match model with
          | some mo => if mo.steps == steps && mo.sets.map sortStrings == isets then ⟨.pass, "skip-root" :: tags, ""⟩
                       else ⟨.tie, "skip-root" :: tags, "model steps " ++ toString mo.steps⟩
          | none => ⟨.tie, "skip-root" :: tags, "model rejects"⟩
        else
        let probs := reportProblems k tv t (algo == .downpass) (algo != .none) true rep
        let probsRR := if rr.all (· == (steps : Int)) then [] else ["steps depend on the root: " ++ toString rr]
        -- the returned map says the same as the comments
        let names := t.nodeNames
        let leaf := leafFlags t
        let keysOf := (List.range names.length).filterMap fun i =>
          if leaf.getD i false then none else some ((if names.getD i "" != "" then names.getD i "" else toString i), isets.getD i [])
        let uniqueKeys := (keysOf.map (·.1)).eraseDups.length == keysOf.length
        let probsMap := if uniqueKeys && (imap.length != keysOf.length || keysOf.any fun kv => !(imap.contains kv))
          then ["returned map differs from the node comments"] else []
        let all := probs ++ probsRR ++ probsMap
        if !all.isEmpty then ⟨.oracle, tags, showProblems all⟩ else
        match model with
        | none => ⟨.tie, tags, "model rejects"⟩
        | some mo =>
          if mo.steps != steps then ⟨.tie, tags, "model steps " ++ toString mo.steps⟩
          else if mo.sets.map sortStrings != isets then ⟨.tie, tags, "model sets differ"⟩
          else if mo.map.map (fun kv => (kv.1, sortStrings kv.2)) != imap then ⟨.tie, tags, "model map differs"⟩
          else
            -- fidelity figure (decides nothing): the comments character by character, i.e. also the ORDER of the states
            let tags := tags ++ tagIf (mo.sets.map ("|".intercalate ·) == comments.map (·.headD "")) "fidelity-exact-comments" ++
              tagIf (comments.all (·.length == 1)) "fidelity-one-comment-per-node"
            -- the model on the re-rooted trees of Spec (`rerootPath`), against the code on the harness' re-rooted copies
            let alphaM := alphabet (m.map (·.2))
            let tvM := acrTipVec m alphaM
            let okRR := rrpaths.length != rr.length || (List.zip rrpaths rr).all fun (p, st) =>
              if p.getLast? == some 999999 then
                -- rooted on the branch above the node at q: a node inserted there, the root moved onto it
                let q := p.dropLast
                okPath (subdivide t q) q && ((runChar alphaM.length tvM algo (rerootPath (subdivide t q) q)).1 : Int) == st
              else okPath t p && ((runChar alphaM.length tvM algo (rerootPath t p)).1 : Int) == st
            if !okRR then ⟨.tie, tags, "model steps on the re-rooted tree differ"⟩
            else ⟨.pass, tags ++ tagIf (rrpaths.length == rr.length && rr.length > 0) "hyp-okPath" ++
              tagIf (rrpaths.any fun p => p.getLast? == some 999999) "rooted-on-branch" ++ tagIf (rrpaths.length != rr.length) "rr-untied" ++ tagIf (!uniqueKeys) "map-unchecked", ""⟩
      | _, _ => bad "C12.acr outputs"
    | _, _, _, _, _, _, _, _ => bad "C12.acr fields"
  | _ => bad "C12.acr arity"

def asrUniverse : List String := ["A", "C", "G", "T", "-"]

def isPlain (c : Char) : Bool := c == 'A' || c == 'C' || c == 'G' || c == 'T' || c == '-'

/-- ASR.  fields: dump, names, sequences, algo | outcome, steps, dump after, steps on re-rooted copies (one list per copy),
    ACR run per column (lists `steps, comment of node 0, comment of node 1 …`; empty unless the alignment is unambiguous) -/
def handleAsr0 (prot : Bool) (f : List String) : Verdict :=
  match f with
  | [dump, ns, sqs, al, outcome, stepsS, dumpAfter, rrs, acrs] =>
    match T.undump dump, parseStrList ns, parseStrList sqs, parseAlgo al, parseStrLists acrs with
    | some t, some names, some seqs, some algo, some acrCols =>
      let m := zipMap names seqs
      let len := (seqs.headD "").length
      let model := if prot then asrProt t m len algo else asr t m len algo
      let univ := if prot then aaAlphabet else asrUniverse
      let kk := if prot then 22 else 5
      let tvOf : Nat → String → Vec := fun j n => if prot then aaTipVec m j n else specAsrTipVec m j n
      let odd := !prot && hasNonIupac seqs
      let tr := tipRooted t
      let missing := !((if tr then t.tipNames else lookedUp t).all fun n => (lookup m n).isSome)
      let plain := seqs.all fun s => s.toList.all fun c => if prot then aaChars.contains c else isPlain c
      let tags0 := "asr" :: shapeTags t ++ ["algo-" ++ algoStr algo] ++ tagIf missing "tip-missing" ++
        tagIf plain "unambiguous-alignment" ++ tagIf (!plain) "iupac-ambiguity" ++ tagIf (len == 0) "empty-alignment" ++
        tagIf (hasPrior al) "prior-run" ++ tagIf ((nodeComments t).any (!·.isEmpty)) "input-comments" ++
        tagIf (seqs.any fun s => s.toList.contains '-') "gaps" ++ tagIf odd "non-iupac-char" ++ tagIf prot "protein" ++ tagIf (prot && seqs.any fun s => s.toList.contains 'X') "all-amino-X"
      if outcome.startsWith "panic" then ⟨.oracle, tags0, "panic: " ++ outcome⟩ else
      if outcome == "err" then
        if !missing && algo != .none then ⟨if rootOk t || tr then .oracle else .tie, "err" :: tags0, "error although every tip has a sequence"⟩
        else if tr then ⟨.pass, "err" :: "root-is-tip" :: tags0, ""⟩
        else match model with
          | none => ⟨.pass, "err" :: tags0, ""⟩
          | some _ => ⟨.tie, "err" :: tags0, "model accepts"⟩
      else
      if missing && !tr then ⟨if rootOk t then .oracle else .tie, tags0, "a tip without sequence was accepted"⟩ else
      match parseNatList stepsS, T.undump dumpAfter, (splitTerm ";" rrs).mapM parseNatList with
      | some steps, some ta, some rr =>
        let comments := nodeComments ta
        match comments.mapM (fun c => readSeqSets (c.getLastD "")) with
        | none => bad "C12.asr comment"
        | some perNode =>
          -- perNode : node → site → chars
          let okLen := perNode.all (·.length == len) && steps.length ≥ len
          if !okLen then ⟨.oracle, tags0, "wrong number of sites in the output"⟩ else
          let siteSets0 (j : Nat) : List (List String) := perNode.map fun s => sortStrings (s.getD j [])
          -- a tree rooted at a tip is, for the property, the same tree seen from the root's neighbour
          let tO := if tr then rootAtNeighbour t else t
          let siteSets (j : Nat) : List (List String) := if tr then fwdOrder (siteSets0 j) else siteSets0 j
          let silentZero := tr && (steps.take len).all (· == 0) && (perNode.drop 1).all (·.all (· == ["*"])) && perNode.length ≥ 2
          let ambiguous := perNode.any (·.any (·.length > 1))
          let leafF := leafFlags tO
          let nnames := tO.nodeNames
          let narrowed := algo == .acctran && (List.range len).any fun j => (List.range leafF.length).any fun i =>
            leafF.getD i false && ((siteSets j).getD i []).length < (members kk (tvOf j (nnames.getD i ""))).length
          let tags := tags0 ++ tagIf narrowed "acctran-ambiguous-tip-narrowed" ++
            tagIf ((steps.any (· ≥ 2)) && ambiguous) "nontrivial" ++ tagIf (rr.length > 0) "rerooted" ++
            tagIf (len ≥ 2) "multi-site" ++ tagIf (!acrCols.isEmpty) "acr-columns"
          if tr && missing then ⟨.oracle, "root-is-tip" :: tags, (if silentZero then rootTipClass ++ " — " else "") ++ "a tip without sequence was accepted"⟩ else
          if !(rootOk t) && !tr then
            match model with
            | some mo => if mo.steps.take len == steps.take len && (List.range len).all (fun j => (mo.sets.getD j []).map sortStrings == siteSets j)
                         then ⟨.pass, "skip-root" :: tags, ""⟩ else ⟨.tie, "skip-root" :: tags, "model differs"⟩
            | none => ⟨.tie, "skip-root" :: tags, "model rejects"⟩
          else
          let k := kk
          -- per site: problems nothing explains / the site is entirely explained by known finding F59
          let perSite : List (List String × Bool) := (List.range len).map fun j =>
            let rep : Report := ⟨steps.getD j 0, (siteSets j).map fun s => s.map (idxOf univ)⟩
            let pI := reportProblemsK k (tvOf j) tO (algo == .downpass) true rep
            -- the tips whose character at this site has no entry in align.IupacCode (nucleotides only)
            let oddTips : List Nat := if prot then [] else (List.range leafF.length).filter fun i =>
              leafF.getD i false && (match lookup m (nnames.getD i "") with
                | some sq => (iupac (sq.toList.getD j ' ')).isEmpty
                | none => false)
            if pI.isEmpty then ([], false)
            else if oddTips.isEmpty then (pI.map fun p => "site " ++ toString j ++ ": " ++ p.msg, false)
            else
              -- F59 region: the site is judged with the CODE's reading of the odd characters (no state); what is left
              -- must be exactly those tips (written `*`)
              let repC : Report := ⟨steps.getD j 0, (siteSets j).map fun s => s.map (idxOf asrAlphabet)⟩
              let pC := reportProblemsK 6 (codeAsrTipVec m j) tO (algo == .downpass) true repC
              let un := pC.filter fun p =>
                !(match p.kind with
                  | .tip i => oddTips.contains i
                  | _ => false)
              if un.isEmpty then ([], true)
              else (pI.map fun p => "site " ++ toString j ++ ": " ++ p.msg, false)
          let probs := perSite.flatMap (·.1)
          let usedF59 := perSite.any (·.2)
          let probsRR := if rr.all (fun l => l.take len == steps.take len) then [] else ["steps depend on the root"]
          -- site by site agreement with the single-character implementation
          let probsAcr :=
            if acrCols.isEmpty then [] else
            if acrCols.length != len then ["acr columns"] else
            (List.range len).flatMap fun j =>
              let col := acrCols.getD j []
              let asteps := (col.headD "").toNat?.getD 0
              let asets := (col.drop 1).map (splitSet "|")
              if asteps != steps.getD j 0 then ["site " ++ toString j ++ ": ASR steps differ from ACR steps"]
              else if asets != siteSets0 j then ["site " ++ toString j ++ ": ASR states differ from ACR states"] else []
          let all := probs ++ probsRR ++ probsAcr
          let tags := tagIf tr "root-is-tip" ++ tags
          if !all.isEmpty then ⟨.oracle, tags, (if silentZero then rootTipClass ++ " — " else "") ++ showProblems all⟩ else
          -- only failures that a recorded finding explains completely: site level and kind level
          if usedF59 then ⟨.oracle, "known-F59" :: tags, "class=AsrNonIupacCharEmptySet a character without IupacCode entry at a tip: one more step at that site, tip written *"⟩ else
          match model with
          | none => ⟨.tie, tags, "model rejects"⟩
          | some mo =>
            if mo.steps.take len != steps.take len then ⟨.tie, tags, "model steps " ++ toString mo.steps⟩
            else if !((List.range len).all fun j => (mo.sets.getD j []).map sortStrings == siteSets0 j) then ⟨.tie, tags, "model sets differ"⟩
            else
              -- fidelity figures (decide nothing): the text of the comment character by character (order of the characters,
              -- braces, `*`), and the comments already on the tree kept in front of it
              let exact := (List.range perNode.length).all fun i =>
                asrComment ((List.range len).map fun j => (mo.sets.getD j []).getD i []) == (comments.getD i []).getLastD ""
              let kept := hasPrior al || comments.map (·.dropLast) == nodeComments t
              ⟨.pass, tags ++ tagIf exact "fidelity-exact-asr-comments" ++ tagIf kept "fidelity-asr-old-comments-kept", ""⟩
      | _, _, _ => bad "C12.asr outputs"
    | _, _, _, _, _ => bad "C12.asr fields"
  | _ => bad "C12.asr arity"

def withTag (t : String) (v : Verdict) : Verdict := { v with tags := t :: v.tags }

/-- ACR with `randomResolve = true`.  fields: dump, map keys, map values, algo, seed | outcome, steps, dump after,
    the next Int31() of the global source after the call, the first Int31() values of a source with that seed -/
def handleAcrR (f : List String) : Verdict :=
  match f with
  | [dump, ks, vs, al, _seed, outcome, stepsS, dumpAfter, nextS, streamS] =>
    match T.undump dump, parseStrList ks, parseStrList vs, parseAlgo al, parseNatList streamS with
    | some t, some keys, some vals, some algo, some stream =>
      let m := zipMap keys vals
      let tags0 := "random-resolve" :: shapeTags t ++ ["algo-" ++ algoStr algo]
      let tr := tipRooted t
      let tO := if tr then rootAtNeighbour t else t
      let tags0 := tagIf tr "root-is-tip" ++ tagIf (!(rootOk t) && !tr) "skip-root" ++ tags0
      if outcome != "ok" then ⟨if rootOk tO then .oracle else .tie, tags0, "random resolution failed: " ++ outcome⟩ else
      match stepsS.toNat?, T.undump dumpAfter, (if nextS == "" then some none else nextS.toNat?.map some) with
      | some steps, some ta, some next =>
        let isets0 : List (List String) := (nodeComments ta).map fun c => sortStrings (readAcrComment (c.headD ""))
        let isets := if tr then fwdOrder isets0 else isets0
        let silentZero := tr && steps == 0 && (isets0.drop 1).all (· == ["*"]) && isets0.length ≥ 2
        let tOrig := t
        let t := tO
        let tipStates := (leavesL t.kids).filterMap (lookup m)
        let alpha := dedup tipStates
        let k := alpha.length
        let tv : String → Vec := fun n => match lookup m n with
          | some st => tab k fun i => if i = idxOf alpha st then 1 else 0
          | none => vzero k
        let rep : Report := ⟨steps, isets.map fun s => s.map (idxOf alpha)⟩
        let up := acr t m .none
        let ndraws := match up with
          | some u => ((List.zip u.sets (leafFlags t)).filter fun (st, lf) => !lf && st.length > 1).length
          | none => 0
        let tags := tags0 ++ ["states-" ++ toString k] ++ tagIf (ndraws ≥ 1) "nontrivial" ++ tagIf (ndraws ≥ 3) "many-draws" ++
          tagIf (tipsOk k tv t) "hyp-tipsOk"
        let probs := if rootOk t then reportProblemsR k tv t false (algo != .none) true rep else []
        let unresolved := algo != .none && (List.zip isets (leafFlags t)).any fun (st, lf) => !lf && st.length != 1
        if !probs.isEmpty then ⟨.oracle, tags, (if silentZero then rootTipClass ++ " — " else "") ++ showProblems probs⟩ else
        if unresolved then ⟨.tie, tags, "an inner node is still ambiguous after random resolution"⟩ else
        match acrR tOrig m algo stream with
        | none => ⟨.tie, tags, "model rejects"⟩
        | some mo =>
          if mo.steps != steps then ⟨.tie, tags, "model steps " ++ toString mo.steps⟩
          else if mo.sets.map sortStrings != isets0 then ⟨.tie, tags, "model draws other states"⟩
          else if next.isSome && mo.next != next then ⟨.tie, tags, "model consumes another number of draws"⟩
          else ⟨.pass, tags, ""⟩
      | _, _, _ => bad "C12.acrr outputs"
    | _, _, _, _, _ => bad "C12.acrr fields"
  | _ => bad "C12.acrr arity"

def splitFirstComma (l : String) : String × String :=
  let cs := l.toList
  (String.ofList (cs.takeWhile (· != ',')), String.ofList ((cs.dropWhile (· != ',')).drop 1))

def linesOf (txt : String) : List String := (txt.splitOn "\n").filter (· != "")

/-- first verdict that is not PASS (ORACLE before TIE), tags merged -/
def worst (vs : List Verdict) (tags : List String) : Verdict :=
  let allTags := tags ++ (vs.flatMap (·.tags)).eraseDups
  match vs.find? (·.status == .oracle) with
  | some v => ⟨.oracle, allTags, v.detail⟩
  | none =>
    match vs.find? (·.status == .bad) with
    | some v => ⟨.bad, allTags, v.detail⟩
    | none =>
      match vs.find? (·.status == .tie) with
      | some v => ⟨.tie, allTags, v.detail⟩
      | none => ⟨.pass, allTags, ""⟩

/-- `gotree acr` with all its options.  fields: dumps of the input trees, lines of the states file, --algo as typed,
    options used | exit class, text of the steps output, dumps of the output trees, text of --out-states ("-" = not asked) -/
def handleAcrFull (f : List String) : Verdict :=
  match f with
  | [dumps, linesS, algoE, opts, outcome, stepsE, dumpsAfter, statesE] =>
    match (splitTerm "|" dumps).mapM T.undump, parseStrList linesS, unescape algoE, unescape stepsE,
      (if statesE == "-" then some none else (unescape statesE).map some) with
    | some trees, some lines, some algoS, some stepsTxt, some statesTxt =>
      -- `--algo` left out: the flag default
      let algoS := if (opts.splitOn ",").contains "algo-default" then cliDefaultAlgo else algoS
      let model := acrCli algoS lines trees
      let tags := ["cli", "cli-full", "trees-" ++ toString trees.length] ++ (opts.splitOn ",").filter (· != "") ++
        tagIf ((cliAlgo algoS).isNone) "algo-unknown" ++ tagIf (algoS != algoS.toLower) "algo-mixed-case" ++
        tagIf ((parseTipStates lines []).isNone) "states-malformed" ++ tagIf (trees.length ≥ 2) "nontrivial"
      if outcome.startsWith "panic" then ⟨.oracle, tags, "panic: " ++ outcome⟩ else
      match model, outcome with
      | .silent, "silent" => ⟨.pass, "outcome-silent" :: tags, ""⟩
      | .fail _, "fail" => ⟨.pass, "outcome-fail" :: tags, ""⟩
      | .ok recs, "ok" =>
        let afters := splitTerm "|" dumpsAfter
        if afters.length != recs.length then ⟨.tie, tags, "number of output trees"⟩ else
        let m := (parseTipStates lines []).getD []
        let ks := showStrList (m.map (·.1))
        let vs := showStrList (m.map (·.2))
        let stepsL := linesOf stepsTxt
        let implStates : List String := match statesTxt with | some t => linesOf t | none => []
        -- per tree: the same oracle and tie as the library tier
        let rec go (ts : List T) (rs : List AcrOut) (as : List String) (sl : List String) (il : List String) (acc : List Verdict) : List Verdict :=
          match ts, rs, as with
          | t :: ts', r :: rs', a :: as' =>
            let stepsI := ((sl.headD "").splitOn " ").getD 1 "?"
            let mine := il.take r.map.length
            let (mk, mv) := match statesTxt with
              | some _ => (mine.map fun l => (splitFirstComma l).1, mine.map fun l => (splitFirstComma l).2)
              | none => (r.map.map (·.1), r.map.map fun kv => ",".intercalate kv.2)
            let v := handleAcr0 [t.dump, ks, vs, algoS.toLower, "ok", stepsI, a, showStrList mk, showStrList mv, "", ""]
            go ts' rs' as' (sl.drop 1) (il.drop r.map.length) (v :: acc)
          | _, _, _ => acc.reverse
        let per := go trees recs afters stepsL implStates []
        let fmtV : List Verdict :=
          (if stepsTxt != String.join (recs.map fun r => stepsLine r.steps ++ "\n") then [⟨.tie, [], "text of the steps output differs from the model's"⟩] else []) ++
          (match statesTxt with
           | some t => if t != String.join (recs.flatMap fun r => (statesLines r).map (· ++ "\n")) then
               [⟨.tie, [], "text of --out-states differs from the model's"⟩] else []
           | none => [])
        worst (per ++ fmtV) ("outcome-ok" :: tags)
      | .ok _, _ => ⟨.oracle, tags, "valid input, but the command ended as: " ++ outcome⟩
      | .fail _, "ok" => ⟨.oracle, tags, "a bad states file or a tip without state was accepted"⟩
      | _, _ => ⟨.tie, tags, "exit class " ++ outcome ++ " differs from the model's"⟩
    | _, _, _, _, _ => bad "C12.acrfull fields"
  | _ => bad "C12.acrfull arity"

/-- `gotree asr` with all its options.  fields: dumps, names, sequences, --algo as typed, options | exit class,
    text of the log, dumps of the output trees -/
def handleAsrFull (f : List String) : Verdict :=
  match f with
  | [dumps, ns, sqs, algoE, opts, outcome, logE, dumpsAfter] =>
    match (splitTerm "|" dumps).mapM T.undump, parseStrList ns, parseStrList sqs, unescape algoE, unescape logE with
    | some trees, some names, some seqs, some algoS, some logTxt =>
      let algoS := if (opts.splitOn ",").contains "algo-default" then cliDefaultAlgo else algoS
      let m := zipMap names seqs
      let len := (seqs.headD "").length
      let tags := ["cli", "cli-full", "asr", "trees-" ++ toString trees.length] ++ (opts.splitOn ",").filter (· != "") ++
        tagIf ((cliAlgo algoS).isNone) "algo-unknown" ++ tagIf (algoS != algoS.toLower) "algo-mixed-case" ++
        tagIf (trees.length ≥ 2) "nontrivial"
      if outcome.startsWith "panic" then ⟨.oracle, tags, "panic: " ++ outcome⟩ else
      let recs : Option (List AsrOut) := match asrCliAlgo algoS with
        | none => none
        | some algo => trees.mapM fun t => asr t m len algo
      match recs, outcome with
      | none, "fail" => ⟨.pass, "outcome-fail" :: tags, ""⟩
      | some rs, "ok" =>
        let afters := splitTerm "|" dumpsAfter
        if afters.length != rs.length then ⟨.tie, tags, "number of output trees"⟩ else
        let logL := linesOf logTxt
        let per := (List.zip trees (List.zip afters logL)).map fun (t, a, l) =>
          let stepsI := joinTerm "," ((l.splitOn " ").drop 1)
          handleAsr0 false [t.dump, ns, sqs, algoS.toLower, "ok", stepsI, a, "", ""]
        let fmtV : List Verdict :=
          if logTxt != String.join (rs.map fun r => asrLogLine r.steps ++ "\n") then [⟨.tie, [], "text of the log differs from the model's"⟩] else []
        worst (per ++ fmtV) ("outcome-ok" :: tags)
      | some _, _ => ⟨.oracle, tags, "valid input, but the command ended as: " ++ outcome⟩
      | none, "ok" =>
        if (asrCliAlgo algoS).isSome then ⟨.oracle, tags, "a tip without sequence was accepted"⟩
        else ⟨.tie, tags, "unknown --algo accepted"⟩
      | _, _ => ⟨.tie, tags, "exit class " ++ outcome ++ " differs from the model's"⟩
    | _, _, _, _, _ => bad "C12.asrfull fields"
  | _ => bad "C12.asrfull arity"

/-- ASR with `randomResolve = true` (nucleotides).  fields: dump, names, sequences, algo, seed | outcome, steps, dump after,
    next Int31() of the global source ("" when not observable), first Int31() values of a source with that seed -/
def handleAsrR (f : List String) : Verdict :=
  match f with
  | [dump, ns, sqs, al, _seed, outcome, stepsS, dumpAfter, nextS, streamS] =>
    match T.undump dump, parseStrList ns, parseStrList sqs, parseAlgo al, parseNatList streamS with
    | some t, some names, some seqs, some algo, some stream =>
      let m := zipMap names seqs
      let len := (seqs.headD "").length
      let plain := seqs.all fun s => s.toList.all isPlain
      let tags0 := "random-resolve" :: "asr" :: shapeTags t ++ ["algo-" ++ algoStr algo] ++ tagIf (len ≥ 2) "multi-site" ++
        tagIf (!plain) "iupac-ambiguity"
      let tr := tipRooted t
      let tO := if tr then rootAtNeighbour t else t
      let tags0 := tagIf tr "root-is-tip" ++ tagIf (!(rootOk t) && !tr) "skip-root" ++ tags0
      if outcome != "ok" then ⟨if rootOk tO then .oracle else .tie, tags0, "random resolution failed: " ++ outcome⟩ else
      match parseNatList stepsS, T.undump dumpAfter, (if nextS == "" then some none else nextS.toNat?.map some) with
      | some steps, some ta, some next =>
        match (nodeComments ta).mapM (fun c => readSeqSets (c.getLastD "")) with
        | none => bad "C12.asrr comment"
        | some perNode =>
          if !(perNode.all (·.length == len) && steps.length ≥ len) then ⟨.oracle, tags0, "wrong number of sites in the output"⟩ else
          let siteSets (j : Nat) : List (List String) :=
            let l := perNode.map fun s => sortStrings (s.getD j [])
            if tr then fwdOrder l else l
          let silentZero := tr && (steps.take len).all (· == 0) && (perNode.drop 1).all (·.all (· == ["*"])) && perNode.length ≥ 2
          let probs := if !(rootOk tO) then [] else (List.range len).flatMap fun j =>
            let rep : Report := ⟨steps.getD j 0, (siteSets j).map fun s => s.map (idxOf asrUniverse)⟩
            (reportProblemsR 5 (specAsrTipVec m j) tO false true true rep).map fun p =>
              "site " ++ toString j ++ ": " ++ p
          let tags := tags0 ++ tagIf (steps.any (· ≥ 2)) "nontrivial"
          if !probs.isEmpty then ⟨.oracle, tags, (if silentZero then rootTipClass ++ " — " else "") ++ showProblems probs⟩ else
          match asrR t m len algo stream with
          | none => ⟨.tie, tags, "model rejects"⟩
          | some mo =>
            if mo.steps.take len != steps.take len then ⟨.tie, tags, "model steps differ"⟩
            else if mo.sets.map (·.map sortStrings) != perNode.map (·.map sortStrings) then ⟨.tie, tags, "model draws other states"⟩
            else if next.isSome && mo.next != next then ⟨.tie, tags, "model consumes another number of draws"⟩
            else ⟨.pass, tags, ""⟩
      | _, _, _ => bad "C12.asrr outputs"
    | _, _, _, _, _ => bad "C12.asrr fields"
  | _ => bad "C12.asrr arity"

/-- the flag default of `--algo`.  fields: command, dumps, list1, list2 | outcome, stdout without --algo, with --algo
    acctran, deltran, downpass (escaped; "exit" = the command failed).  The oracle is about the code's own outputs only:
    leaving --algo out must give what `--algo acctran` (the documented default, `cliDefaultAlgo`) gives. -/
def handleCliDef (f : List String) : Verdict :=
  match f with
  | [cmd, _dumps, _l1, _l2, outcome, o0, oA, oD, oP] =>
    let tags := ["cli", "cli-default", "cmd-" ++ cmd] ++ tagIf (oA != oD || oA != oP) "algos-differ" ++
      tagIf (oA != oD && oA != oP && oD != oP) "nontrivial" ++ tagIf (oA == "exit") "outcome-fail"
    if outcome.startsWith "panic" then ⟨.oracle, tags, "panic: " ++ outcome⟩ else
    if outcome != "ok" then bad "C12.clidef outcome" else
    if o0 != oA then
      ⟨.oracle, tags, "without --algo the command does not do what --algo " ++ cliDefaultAlgo ++ " does" ++
        (if o0 == oD then " (it does what --algo deltran does)" else if o0 == oP then " (it does what --algo downpass does)" else "")⟩
    else ⟨.pass, tags, ""⟩
  | _ => bad "C12.clidef arity"

def handle (op : String) (f : List String) : Verdict :=
  match op with
  | "acr" => handleAcr0 f
  | "asr" => handleAsr0 false f
  | "asrp" => handleAsr0 true f
  | "asrpcli" => withTag "cli" (handleAsr0 true f)
  | "acrcli" => withTag "cli" (handleAcr0 f)
  | "acrfull" => handleAcrFull f
  | "clidef" => handleCliDef f
  | "asrfull" => handleAsrFull f
  | "acrr" => handleAcrR f
  | "acrrcli" => withTag "cli" (handleAcrR f)
  | "asrr" => handleAsrR f
  | "asrrcli" => withTag "cli" (handleAsrR f)
  | "asrcli" => withTag "cli" (handleAsr0 false f)
  | _ => bad ("C12: unknown op " ++ op)

end Gotree.Driver.C12
