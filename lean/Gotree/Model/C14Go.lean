/-
  C14 — statement-level model of the anchored Go code, on the pointer graph.

  `Model/C14.lean` presents the walks on the rose tree (that is what the theorems are
  about).  This file follows the Go text statement by statement on the structure the
  code really walks: nodes with the parallel slices `neigh`/`br`, branches with
  `left`/`right`, `prev` pointers, `SetId`/`Id()`, the `visited` slice, `TipBag` as a map.
  The driver runs BOTH models on every case and compares each with the code.

    tree/tree.go   Tips/tipsRecur, Edges/edgesRecur, CutEdgesMaxLength, cutEdgesMaxLengthRecur
    tree/algo.go   ToDistanceMatrix, pathLengths, AvgDistanceMatrix
    tree/tipbags.go NewTipBag, AddTip, Tips, Size

  Core Lean only (linked into the driver).
-/
import Gotree.Model.C14

namespace Gotree.C14.Go
open Gotree

/-- outcome class of a library call -/
inductive Out (α : Type) where
  | ok (a : α)
  | err (msg : String)
  | panic (msg : String)
  deriving Repr, DecidableEq

def Out.cls {α : Type} : Out α → String
  | .ok _ => "ok" | .err _ => "err" | .panic _ => "panic"

/-- a Go `*Node`: its name and the parallel slices `neigh` / `br` (node index, branch index) -/
structure GNode where
  name : String
  neigh : List (Nat × Nat)
  deriving Repr

/-- a Go `*Edge` -/
structure GEdge where
  left : Nat
  right : Nat
  d : EdgeD
  deriving Repr

structure G where
  nodes : Array GNode
  edges : Array GEdge
  deriving Repr

def insAt {α : Type} (l : List α) (i : Nat) (x : α) : List α := l.take i ++ x :: l.drop i

/-- pre-order index of every child of a node whose first child has index `n` -/
def kidIdx : Nat → Kids → List Nat
  | _, [] => []
  | n, (_, t) :: r => n :: kidIdx (n + t.size) r

/- Nodes in pre-order (index 0 = root).  The branch above node `n ≥ 1` has index `n - 1`:
   `Edges()` is the same pre-order.  `neigh` of a non-root node is its children with the
   parent inserted at position `ppos` (DESIGN §3.1). -/
mutual
def flatT (par : Option Nat) (n : Nat) : T → List GNode
  | .node d pp k =>
    let nb := (kidIdx (n + 1) k).map fun c => (c, c - 1)
    let nb := match par with
      | none => nb
      | some p => insAt nb pp (p, n - 1)
    ⟨d.name, nb⟩ :: flatL n (n + 1) k
def flatL (par : Nat) : Nat → Kids → List GNode
  | _, [] => []
  | n, (_, t) :: r => flatT (some par) n t ++ flatL par (n + t.size) r
end

mutual
def gedgesT (n : Nat) : T → List GEdge
  | .node _ _ k => gedgesL n (n + 1) k
def gedgesL (par : Nat) : Nat → Kids → List GEdge
  | _, [] => []
  | n, (e, t) :: r => ⟨par, n, e⟩ :: (gedgesT n t ++ gedgesL par (n + t.size) r)
end

def G.ofT (t : T) : G := ⟨(flatT none 0 t).toArray, (gedgesT 0 t).toArray⟩

/-- `Node.Tip()`: `len(n.neigh) == 1` -/
def G.tip (g : G) (n : Nat) : Bool :=
  match g.nodes[n]? with
  | some nd => nd.neigh.length == 1
  | none => false

def G.name (g : G) (n : Nat) : String :=
  match g.nodes[n]? with
  | some nd => nd.name
  | none => ""

/-! ## tree/algo.go -/

/-- the `switch metric` of `pathLengths`: `l := 1.0`; BOOTS (1): support, 1 when absent;
    NONE (2): 1; `default` (BRLEN and every other integer): length, 0 when absent -/
def weight (metric : Int) (e : EdgeD) : Rat :=
  if metric == 1 then (if e.sup == NIL then 1 else e.sup)
  else if metric == 2 then 1
  else (if e.len == NIL then 0 else e.len)

/-- `pathLengths(cur, prev, lengths, curlength, metric)`; `none` = index out of range or
    fuel exhausted (fuel = number of nodes + 1 is never exhausted on a tree) -/
def pathLengths (g : G) (ids : Array Nat) (metric : Int) :
    Nat → Nat → Option Nat → Array Rat → Rat → Option (Array Rat)
  | 0, _, _, _, _ => none
  | fuel + 1, cur, prev, lengths, curlength =>
    match g.nodes[cur]? with
    | none => none
    | some nd =>
      if nd.neigh.length == 1 && prev.isSome then
        let id := ids.getD cur 0
        if id < lengths.size then some (lengths.set! id curlength) else none
      else
        nd.neigh.foldlM (init := lengths) fun lengths cb =>
          if some cb.1 != prev then
            match g.edges[cb.2]? with
            | none => none
            | some e => pathLengths g ids metric fuel cb.1 (some cur) lengths (curlength + weight metric e.d)
          else some lengths

/-- `Tips()` / `tipsRecur(tips, cur, prev)` -/
def tipsRecur (g : G) : Nat → Nat → Option Nat → List Nat
  | 0, _, _ => []
  | fuel + 1, cur, prev =>
    match g.nodes[cur]? with
    | none => []
    | some nd =>
      (if nd.neigh.length == 1 then [cur] else []) ++
      nd.neigh.flatMap fun cb => if some cb.1 != prev then tipsRecur g fuel cb.1 (some cur) else []

def G.tips (g : G) : List Nat := tipsRecur g (g.nodes.size + 1) 0 none

/-- `insertionSortLessFunc`: the element at `i` moves left while it is less than its left
    neighbour, i.e. it is placed before the first element of the sorted prefix it is less than -/
def insertLt {α : Type} (lt : α → α → Bool) (x : α) : List α → List α
  | [] => [x]
  | y :: r => if lt x y then x :: y :: r else y :: insertLt lt x r

def insSort {α : Type} (lt : α → α → Bool) (l : List α) : List α :=
  l.foldl (fun acc x => insertLt lt x acc) []

/-- `sort.Slice(tips, name(i) < name(j))`.  Go's pdqsort IS this stable insertion sort up to
    12 elements; beyond, it may order tips of EQUAL name differently (names unique: the
    result of any correct sort; the driver compares entries as a multiset otherwise). -/
def sortTips (g : G) (tips : List Nat) : List Nat :=
  insSort (fun a b => decide (g.name a < g.name b)) tips

/-- `tips[i].SetId(i)` -/
def setIds (n : Nat) (tips : List Nat) : Array Nat :=
  (tips.zipIdx).foldl (fun ids ti => ids.set! ti.1 ti.2) (Array.replicate n 0)

/-- `ToDistanceMatrix(metric)`: the matrix and the tips (node indices) in row order -/
def toDistanceMatrix (g : G) (metric : Int) : Option (List (List Rat) × List Nat) :=
  let tips := sortTips g g.tips
  let ids := setIds g.nodes.size tips
  match tips.mapM fun t =>
      pathLengths g ids metric (g.nodes.size + 1) t none (Array.replicate tips.length 0) 0 with
  | some rows => some (rows.map Array.toList, tips)
  | none => none

/-- the same with names, as the harness reports it -/
def matrixGo (metric : Int) (t : T) : Option (List String × List (List Rat)) :=
  let g := G.ofT t
  match toDistanceMatrix g metric with
  | some (m, tips) => some (tips.map g.name, m)
  | none => none

def oob (i n : Nat) : String := s!"runtime error: index out of range [{i}] with length {n}"

/-- `for i, tip := range tips { if tip.Name() != tips2[i].Name() { err } }` -/
def checkNames : List String → Nat → List String → Out Unit
  | [], _, _ => .ok ()
  | a :: r, i, tips2 =>
    match tips2[i]? with
    | none => .panic (oob i tips2.length)
    | some b => if a != b then .err "trees do not have the same sets of tip names" else checkNames r (i + 1) tips2

/-- `for j := range tips2 { row[j] += row2[j] }` -/
def addRow (row row2 : List Rat) : Nat → Nat → Out (List Rat)
  | 0, _ => .ok row
  | k + 1, j =>
    match row[j]?, row2[j]? with
    | none, _ => .panic (oob j row.length)
    | _, none => .panic (oob j row2.length)
    | some x, some y => addRow (row.set j (x + y)) row2 k (j + 1)

/-- `for i := range tips { for j := range tips2 { matrix[i][j] += matrix2[i][j] } }` -/
def addRows (m m2 : List (List Rat)) (n2 : Nat) : Nat → Nat → Out (List (List Rat))
  | 0, _ => .ok m
  | k + 1, i =>
    if n2 == 0 then addRows m m2 n2 k (i + 1) else
    match m[i]?, m2[i]? with
    | none, _ => .panic (oob i m.length)
    | _, none => .panic (oob i m2.length)
    | some r, some r2 =>
      match addRow r r2 n2 0 with
      | .ok r' => addRows (m.set i r') m2 n2 k (i + 1)
      | .err e => .err e
      | .panic e => .panic e

structure AvgState where
  matrix : Option (List (List Rat)) := none     -- `matrix == nil`
  tips : List String := []
  tips2 : List String := []
  ntrees : Nat := 0

/-- one turn of `for t := range treechan` (the `t.Err` test is in the CLI model: the library
    ops hand over trees only).  `pinned = true` is the code before fix 55aaa9d: no test of
    `len(tips2) != len(tips)`, so that the name check or the addition may index out of range. -/
def avgStepG (pinned : Bool) (metric : Int) (s : AvgState) (t : T) : Out AvgState :=
  match matrixGo metric t with
  | none => .panic "model: index"
  | some (names, m) =>
    match s.matrix with
    | none => .ok { s with matrix := some m, tips := names, ntrees := s.ntrees + 1 }
    | some acc =>
      if !pinned && names.length != s.tips.length then .err "trees do not have the same sets of tip names" else
      match checkNames s.tips 0 names with
      | .err e => .err e
      | .panic e => .panic e
      | .ok () =>
        match addRows acc m names.length s.tips.length 0 with
        | .err e => .err e
        | .panic e => .panic e
        | .ok acc' => .ok { s with matrix := some acc', tips2 := names, ntrees := s.ntrees + 1 }

def avgStep (metric : Int) (s : AvgState) (t : T) : Out AvgState := avgStepG false metric s t

def avgLoopG (pinned : Bool) (metric : Int) : AvgState → List T → Out AvgState
  | s, [] => .ok s
  | s, t :: r =>
    match avgStepG pinned metric s t with
    | .ok s' => avgLoopG pinned metric s' r
    | .err e => .err e
    | .panic e => .panic e

def avgLoop (metric : Int) : AvgState → List T → Out AvgState := avgLoopG false metric

/-- the loop after `for t := range treechan`: row `i < len(tips)`, column `j < len(tips2)` is
    divided by `ntrees` — `tips2` of the LAST later tree, `nil` when there was one tree
    (nothing is divided then: dividing by 1 would change nothing) -/
def avgFinish (s : AvgState) : List String × List (List Rat) :=
  let m := s.matrix.getD []
  let n := s.tips.length
  let n2 := s.tips2.length
  (s.tips, m.zipIdx.map fun ri =>
    if ri.2 < n then ri.1.zipIdx.map fun xj => if xj.2 < n2 then xj.1 / (s.ntrees : Rat) else xj.1
    else ri.1)

/-- `AvgDistanceMatrix(metric, treechan)` -/
def avgDistanceMatrix (metric : Int) (ts : List T) : Out (List String × List (List Rat)) :=
  match avgLoop metric {} ts with
  | .err e => .err e
  | .panic e => .panic e
  | .ok s => .ok (avgFinish s)

/-- `AvgDistanceMatrix` on the records of the channel (`Trees{Tree, Id, Err}` without `Err`): the
    code never reads `Id` (`ntrees++` counts the trees) -/
def avgDistanceMatrixIds (metric : Int) (items : List (Int × T)) : Out (List String × List (List Rat)) :=
  avgDistanceMatrix metric (items.map (·.2))

/-- the same before fix 55aaa9d (kept as a regression witness, see `avg_pinned_fails`) -/
def avgDistanceMatrixPinned (metric : Int) (ts : List T) : Out (List String × List (List Rat)) :=
  match avgLoopG true metric {} ts with
  | .err e => .err e
  | .panic e => .panic e
  | .ok s => .ok (avgFinish s)

/-! ## tree/tipbags.go and CutEdgesMaxLength -/

/-- `TipBag.tips : map[string]*Node` as an association list in insertion order -/
abbrev Bag := List (String × Nat)

/-- `AddTip` -/
def addTip (g : G) (bag : Bag) (t : Nat) : Except String Bag :=
  match g.nodes[t]? with
  | none => .error "Nil node given to TipBag.AddTip"
  | some nd =>
    if nd.neigh.length != 1 then .error "Internal node given to TipBag.AddTip" else
    match bag.lookup nd.name with
    | none => .ok (bag ++ [(nd.name, t)])
    | some n =>
      if n != t then .error "TipBag.AddTip: TipBag already contains another tip of the tree having the same name: May be several tips have the same name?"
      else .ok bag

/-- `TipBag.Tips()`: names sorted -/
def bagNames (b : Bag) : List String := insSort (fun a b => decide (a < b)) (b.map (·.1))

/-- `cutEdgesMaxLengthRecur(tipBag, cur, prev, maxlen, visited)` -/
def cutRecur (g : G) (maxlen : Rat) : Nat → Bag → Nat → Nat → Array Bool → Except String (Bag × Array Bool)
  | 0, _, _, _, _ => .error "model: fuel"
  | fuel + 1, bag, cur, prev, visited =>
    match g.nodes[cur]? with
    | none => .error "Nil node given to Tree.cutEdgesMaxLengthRecur"
    | some nd =>
      match (if nd.neigh.length == 1 then addTip g bag cur else .ok bag) with
      | .error e => .error e
      | .ok bag =>
        nd.neigh.foldlM (init := (bag, visited)) fun st nb =>
          match g.edges[nb.2]? with
          | none => .error "model: branch"
          | some b =>
            if nb.1 != prev && b.d.len < maxlen then
              cutRecur g maxlen fuel st.1 nb.1 cur (st.2.set! nb.2 true)
            else .ok st

/-- the body of `for _, e := range edges` in `CutEdgesMaxLength` -/
def cutStep (g : G) (maxlen : Rat) (st : List Bag × Array Bool) (i : Nat) :
    Except String (List Bag × Array Bool) :=
  let fuel := g.nodes.size + 1
  match g.edges[i]? with
  | none => Except.error "model: branch"
  | some e =>
    if st.2.getD i false then Except.ok st else
    let visited := st.2.set! i true
    if e.d.len < maxlen then
      match cutRecur g maxlen fuel [] e.left e.right visited with
      | Except.error m => Except.error m
      | Except.ok (bag, visited) =>
        match cutRecur g maxlen fuel bag e.right e.left visited with
        | Except.error m => Except.error m
        | Except.ok (bag, visited) => Except.ok (if bag.length > 0 then st.1 ++ [bag] else st.1, visited)
    else
      let bags := st.1
      let bags := if g.tip e.left then bags ++ [[(g.name e.left, e.left)]] else bags
      let bags := if g.tip e.right then bags ++ [[(g.name e.right, e.right)]] else bags
      Except.ok (bags, visited)

/-- `CutEdgesMaxLength(maxlen)`: the bags in the order they are appended -/
def cutEdgesMaxLength (g : G) (maxlen : Rat) : Except String (List Bag) :=
  match (List.range g.edges.size).foldlM (cutStep g maxlen) (([] : List Bag), Array.replicate g.edges.size false) with
  | Except.ok st => Except.ok st.1
  | Except.error m => Except.error m

/-- the same with names: bags in Go's order, each bag as `Tips()` lists it -/
def cutGo (maxlen : Rat) (t : T) : Out (List (List String)) :=
  match cutEdgesMaxLength (G.ofT t) maxlen with
  | .ok bags => .ok (bags.map bagNames)
  | .error m => .err m

end Gotree.C14.Go
