/-
  C02 — the two Newick models agree: `Gotree.C02.Newick.parseChars` (Model/C02Newick.lean, the one the
  C02 theorems are about) and `Gotree.Newick.parse` of C01 (Model/C01.lean) instantiated with the codec
  made of C02's transcription of `strconv.ParseFloat`.  C01's model stops with `unrep` as soon as a
  NaN/±Inf would have to be stored; wherever it does not, both models give the same outcome class and
  the same tree.
-/
import Gotree.Model.C01
import Gotree.Model.C02Newick
import Gotree.Lemmas.C02Newick
import Gotree.Lemmas.C02onC01

namespace Gotree.C02.NewickEq
open Gotree Gotree.C02

/-- C02's `ParseFloat` transcription as a codec of C01 (`fmt` is not used by the parser) -/
def myCodec : Gotree.Newick.Codec where
  fmt := fun _ => []
  isFloat := isFloat
  parse := fun s => match parseFloat s with | some (.fin q) => some q | _ => none

/-- token kinds of the two models -/
def ct : Newick.Tok → Gotree.Newick.Tok
  | .eof => .eof | .ws => .ws | .ident => .ident | .numeric => .numeric | .openpar => .openpar
  | .closepar => .closepar | .startlen => .startlen | .openbrack => .openbrack | .closebrack => .closebrack
  | .newsibling => .newsibling | .eot => .eot

theorem ct_inj {a b : Newick.Tok} (h : ct a = ct b) : a = b := by
  cases a <;> cases b <;> simp [ct] at h ⊢

theorem isWs_eq (c : Char) : Gotree.Newick.isWhitespace c = Newick.isWs c := rfl
theorem isIdent_eq (ign : Bool) (c : Char) : Gotree.Newick.isIdent ign c = Newick.isIdent ign c := rfl

/-- the scanners are the same function -/
theorem scan_eq (ign : Bool) (cs : List Char) :
    Gotree.Newick.scan myCodec ign cs = (ct (Newick.scan ign cs).tok, (Newick.scan ign cs).lit, (Newick.scan ign cs).rest) := by
  cases cs with
  | nil => rfl
  | cons c r =>
    have hw : Gotree.Newick.isWhitespace = Newick.isWs := rfl
    have hi : Gotree.Newick.isIdent ign = Newick.isIdent ign := rfl
    simp only [Gotree.Newick.scan, Newick.scan, Newick.identOf, hw, hi, myCodec]
    repeat' split
    all_goals first | rfl | simp_all [ct]

theorem skipWs_eq (cs : List Char) :
    Gotree.Newick.skipWs myCodec cs = if (Newick.scan false cs).tok = .ws then (Newick.scan false cs).rest else cs := by
  unfold Gotree.Newick.skipWs
  rw [scan_eq]
  simp only
  by_cases h : (Newick.scan false cs).tok = .ws
  · simp [h, ct]
  · have : ct (Newick.scan false cs).tok ≠ .ws := by
      intro h'; exact h (ct_inj (by rw [h']; rfl))
    simp [h, this]

theorem scanIW_eq (cs : List Char) :
    Gotree.Newick.scanIW myCodec cs = (ct (Newick.scanIW cs).tok, (Newick.scanIW cs).lit, (Newick.scanIW cs).rest) := by
  unfold Gotree.Newick.scanIW Newick.scanIW
  rw [skipWs_eq]
  simp only
  by_cases h : (Newick.scan false cs).tok = .ws
  · simp only [h, if_true]; rw [scan_eq]
  · simp only [h, if_false]; rw [scan_eq]

/- ## states -/

def convI (f : Newick.IFrame) : Gotree.Newick.Frame := ⟨f.d, f.e, f.kids⟩
def rootF (r : Newick.RFrame) : Gotree.Newick.Frame := ⟨r.d, EdgeD.blank, r.kids⟩

def convStk : Option (Newick.RFrame × List Newick.IFrame) → List Gotree.Newick.Frame
  | none => []
  | some (r, inner) => inner.map convI ++ [rootF r]

/-- a state of C02's machine as a state of C01's -/
def conv (s : Newick.PSt) : Gotree.Newick.PState :=
  ⟨convStk s.stk, s.level, s.prev.map ct, s.nedges, s.lastRoot, s.stale⟩

theorem nodeNil_eq (s : Newick.PSt) : (conv s).nodeNil = Newick.nodeNil s := by
  unfold Gotree.Newick.PState.nodeNil Newick.nodeNil conv convStk
  cases hs : s.stk with
  | none => rfl
  | some p => obtain ⟨r, inner⟩ := p; cases inner <;> simp

theorem edgeNil_eq (s : Newick.PSt) : (conv s).edgeNil = Newick.edgeNil s := by
  unfold Gotree.Newick.PState.edgeNil Newick.edgeNil conv convStk
  cases hs : s.stk with
  | none => simp
  | some p => obtain ⟨r, inner⟩ := p; cases inner <;> simp

theorem pop_eq (s : Newick.PSt) : (conv s).pop = (Newick.pop s).map conv := by
  unfold Gotree.Newick.PState.pop Newick.pop
  cases hs : s.stk with
  | none => simp [conv, convStk, hs]
  | some p =>
    obtain ⟨r, inner⟩ := p
    cases inner with
    | nil => simp [conv, convStk, hs, rootF, Gotree.Newick.Frame.toT, Newick.mkNode]
    | cons f rest =>
      cases rest with
      | nil => simp [conv, convStk, hs, rootF, convI, Gotree.Newick.Frame.toT, Newick.mkNode]
      | cons g rest' => simp [conv, convStk, hs, rootF, convI, Gotree.Newick.Frame.toT, Newick.mkNode]

theorem pushChild_eq (s : Newick.PSt) (name : String) (h : Newick.nodeNil s = false) :
    conv (Newick.pushInner s name) = (conv s).pushChild name := by
  unfold Newick.pushInner Gotree.Newick.PState.pushChild
  cases hs : s.stk with
  | none => simp [Newick.nodeNil, hs] at h
  | some p => obtain ⟨r, inner⟩ := p; simp [conv, convStk, hs, convI]

theorem mapTopNode_eq (s : Newick.PSt) (f : NodeD → NodeD) :
    conv (Newick.mapTopNode s f) = (conv s).modTop (fun fr => { fr with d := f fr.d }) := by
  unfold Newick.mapTopNode Gotree.Newick.PState.modTop
  cases hs : s.stk with
  | none => simp [conv, convStk, hs]
  | some p =>
    obtain ⟨r, inner⟩ := p
    cases inner with
    | nil => simp [conv, convStk, hs, rootF]
    | cons t rest => simp [conv, convStk, hs, convI]

theorem mapTopEdge_eq (s : Newick.PSt) (f : EdgeD → EdgeD) (h : Newick.edgeNil s = false) :
    conv (Newick.mapTopEdge s f) = (conv s).modTop (fun fr => { fr with e := f fr.e }) := by
  unfold Newick.mapTopEdge Gotree.Newick.PState.modTop
  cases hs : s.stk with
  | none => simp [Newick.edgeNil, hs] at h
  | some p =>
    obtain ⟨r, inner⟩ := p
    cases inner with
    | nil => simp [Newick.edgeNil, hs] at h
    | cons t rest => simp [conv, convStk, hs, convI]

theorem topLen_eq (s : Newick.PSt) (h : Newick.edgeNil s = false) :
    ∃ e, Newick.topEdge s = some e ∧ (conv s).topLen = e.len := by
  unfold Newick.topEdge Gotree.Newick.PState.topLen
  cases hs : s.stk with
  | none => simp [Newick.edgeNil, hs] at h
  | some p =>
    obtain ⟨r, inner⟩ := p
    cases inner with
    | nil => simp [Newick.edgeNil, hs] at h
    | cons t rest => exact ⟨t.e, rfl, by simp [conv, convStk, hs, convI]⟩

/-- what a step of C02's machine (`st`) and the same turn of C01's loop (`it`) must have in common;
    `unrep` (a non-finite number would be stored) is C01's way of giving up: nothing is claimed then -/
def StepRel (st : Newick.Step) (it : Gotree.Newick.Iter) (pos rest : List Char) : Prop :=
  match it with
  | .stop (.unrep _) => True
  | .stop (.panic _) => False
  | .stop (.err _) => (∃ m, st = .fail m) ∨ (∃ s', st = .finished s' ∧ s'.stale = true)
  | .stop (.ok (ps, p)) => ∃ s', st = .finished s' ∧ s'.stale = false ∧ s'.nonfinite = false ∧ s'.level = 0 ∧ ps = conv s' ∧ p = pos
  | .cont ps r => ∃ s', st = .cont s' ∧ s'.mode = .iter ∧ s'.nonfinite = false ∧ ps = conv s' ∧ r = rest

theorem pop_upd (s : Newick.PSt) (p : Option Newick.Tok) (l : Int) :
    Newick.pop { s with prev := p, level := l } = (Newick.pop s).map (fun s' => { s' with prev := p, level := l }) := by
  unfold Newick.pop
  cases hs : s.stk with
  | none => simp
  | some q =>
    obtain ⟨r, inner⟩ := q
    cases inner with
    | nil => simp
    | cons f rest => cases rest <;> simp

theorem pop_keeps (s s' : Newick.PSt) (h : Newick.pop s = some s') :
    s'.mode = s.mode ∧ s'.nonfinite = s.nonfinite ∧ s'.level = s.level ∧ s'.nedges = s.nedges ∧ s'.stale = s.stale ∧ s'.prev = s.prev := by
  unfold Newick.pop at h
  split at h
  · cases h
  all_goals (cases h; simp)

theorem pushInner_fields (s : Newick.PSt) (n : String) :
    (Newick.pushInner s n).mode = s.mode ∧ (Newick.pushInner s n).nonfinite = s.nonfinite ∧
    (Newick.pushInner s n).level = s.level ∧ (Newick.pushInner s n).prev = s.prev ∧
    (Newick.pushInner s n).stale = s.stale ∧ (Newick.pushInner s n).lastRoot = s.lastRoot := by
  unfold Newick.pushInner; cases s.stk <;> simp

theorem mapTopNode_fields (s : Newick.PSt) (f : NodeD → NodeD) :
    (Newick.mapTopNode s f).mode = s.mode ∧ (Newick.mapTopNode s f).nonfinite = s.nonfinite ∧
    (Newick.mapTopNode s f).level = s.level ∧ (Newick.mapTopNode s f).prev = s.prev ∧
    (Newick.mapTopNode s f).stale = s.stale ∧ (Newick.mapTopNode s f).nedges = s.nedges := by
  unfold Newick.mapTopNode
  split <;> simp

theorem mapTopEdge_fields (s : Newick.PSt) (f : EdgeD → EdgeD) :
    (Newick.mapTopEdge s f).mode = s.mode ∧ (Newick.mapTopEdge s f).nonfinite = s.nonfinite ∧
    (Newick.mapTopEdge s f).level = s.level ∧ (Newick.mapTopEdge s f).prev = s.prev ∧
    (Newick.mapTopEdge s f).stale = s.stale ∧ (Newick.mapTopEdge s f).nedges = s.nedges := by
  unfold Newick.mapTopEdge
  split <;> simp

/-- `conv` only looks at the stack, the level, prevTok, the branch counter, the last root and the stale flag -/
theorem conv_congr (a b : Newick.PSt) (h1 : a.stk = b.stk) (h2 : a.level = b.level) (h3 : a.prev = b.prev)
    (h4 : a.nedges = b.nedges) (h5 : a.lastRoot = b.lastRoot) (h6 : a.stale = b.stale) : conv a = conv b := by
  simp [conv, h1, h2, h3, h4, h5, h6]

theorem rel_openpar (s : Newick.PSt) (lit pos rest : List Char) (hm : s.mode = .iter) (hn : s.nonfinite = false) :
    StepRel (Newick.stepIter s .openpar lit) (Gotree.Newick.iter myCodec (conv s) .openpar lit pos rest) pos rest := by
  unfold Newick.stepIter Gotree.Newick.iter
  simp only [nodeNil_eq]
  by_cases h1 : Newick.nodeNil s = true
  · simp only [h1, if_true]
    by_cases h2 : s.level > 0
    · have : (conv s).level > 0 := h2
      simp [h2, this, StepRel]
    · have : ¬ (conv s).level > 0 := h2
      simp only [h2, this, if_false]
      refine ⟨_, rfl, hm, hn, ?_, rfl⟩
      have hs : s.stk = none := by
        unfold Newick.nodeNil at h1; cases h : s.stk <;> simp_all
      simp [conv, convStk, hs, Gotree.Newick.PState.pushRoot, rootF, ct]
  · have h1' : Newick.nodeNil s = false := by cases h : Newick.nodeNil s <;> simp_all
    simp only [h1', Bool.false_eq_true, if_false]
    by_cases h2 : s.level = 0
    · have : ((conv s).level == 0) = true := by simp [conv, h2]
      simp [h2, this, StepRel]
    · have : ((conv s).level == 0) = false := by simp [conv, h2]
      simp only [h2, this, if_false, Bool.false_eq_true]
      have pf := pushInner_fields s ""
      refine ⟨_, rfl, by simp [pf.1, hm], by simp [pf.2.1, hn], ?_, rfl⟩
      have := pushChild_eq s "" h1'
      rw [← this]
      simp [conv, pf, ct]

theorem rel_closepar (s : Newick.PSt) (lit pos rest : List Char) (hm : s.mode = .iter) (hn : s.nonfinite = false) :
    StepRel (Newick.stepIter s .closepar lit) (Gotree.Newick.iter myCodec (conv s) .closepar lit pos rest) pos rest := by
  unfold Newick.stepIter Gotree.Newick.iter
  simp only [pop_upd, pop_eq]
  cases hp : Newick.pop s with
  | none => simp [StepRel]
  | some s' =>
    have k := pop_keeps s s' hp
    simp only [Option.map_some]
    refine ⟨_, rfl, by simp [k.1, hm], by simp [k.2.1, hn], ?_, rfl⟩
    simp [conv, ct, k]

theorem rel_newsibling (s : Newick.PSt) (lit pos rest : List Char) (hm : s.mode = .iter) (hn : s.nonfinite = false) :
    StepRel (Newick.stepIter s .newsibling lit) (Gotree.Newick.iter myCodec (conv s) .newsibling lit pos rest) pos rest := by
  unfold Newick.stepIter Gotree.Newick.iter
  simp only [pop_eq]
  cases hp : Newick.pop s with
  | none => simp [StepRel]
  | some s' =>
    have k := pop_keeps s s' hp
    simp only [Option.map_some]
    refine ⟨_, rfl, by simp [k.1, hm], by simp [k.2.1, hn], ?_, rfl⟩
    simp [conv, ct, k]

theorem rel_closebrack (s : Newick.PSt) (lit pos rest : List Char) :
    StepRel (Newick.stepIter s .closebrack lit) (Gotree.Newick.iter myCodec (conv s) .closebrack lit pos rest) pos rest := by
  unfold Newick.stepIter Gotree.Newick.iter
  simp [StepRel]

theorem rel_ws (s : Newick.PSt) (lit pos rest : List Char) (hm : s.mode = .iter) (hn : s.nonfinite = false) :
    StepRel (Newick.stepIter s .ws lit) (Gotree.Newick.iter myCodec (conv s) .ws lit pos rest) pos rest := by
  unfold Newick.stepIter Gotree.Newick.iter
  exact ⟨s, rfl, hm, hn, rfl, rfl⟩

theorem rel_eot (s : Newick.PSt) (lit pos rest : List Char) (hn : s.nonfinite = false) :
    StepRel (Newick.stepIter s .eot lit) (Gotree.Newick.iter myCodec (conv s) .eot lit pos rest) pos rest := by
  unfold Newick.stepIter Gotree.Newick.iter
  by_cases h : s.level = 0
  · have h' : ((conv s).level != 0) = false := by simp [conv, h]
    simp only [h, h', ne_eq, not_true_eq_false, if_false, Bool.false_eq_true]
    by_cases hs : s.stale = true
    · have : (conv s).stale = true := hs
      simp only [this, if_true]
      exact Or.inr ⟨_, rfl, hs⟩
    · have hs' : s.stale = false := by cases h : s.stale <;> simp_all
      have : (conv s).stale = false := hs'
      simp only [this, Bool.false_eq_true, if_false]
      exact ⟨_, rfl, hs', hn, rfl, by simp [conv, ct, h, hs'], rfl⟩
  · have h' : ((conv s).level != 0) = true := by simp [conv, h]
    simp [h, h', StepRel]

theorem prev_beq (s : Newick.PSt) (t : Newick.Tok) :
    ((conv s).prevTok == some (ct t)) = decide (s.prev = some t) := by
  simp only [conv]
  cases h : s.prev with
  | none => simp
  | some x => cases x <;> cases t <;> simp [ct]

theorem prev_bne (s : Newick.PSt) (t : Newick.Tok) :
    ((conv s).prevTok != some (ct t)) = decide (s.prev ≠ some t) := by
  simp only [bne, prev_beq]; simp

theorem splitSlash_eq : ∀ l : List Char, Gotree.Newick.splitSlash l = Newick.splitSlash l
  | [] => rfl
  | c :: r => by
    unfold Gotree.Newick.splitSlash Newick.splitSlash
    rw [splitSlash_eq r]
    cases Newick.splitSlash r <;> rfl

theorem parse_fin (lit : List Char) (q : Rat) (h : parseFloat lit = some (.fin q)) : myCodec.parse lit = some q := by
  simp [myCodec, h]
theorem parse_none_of (lit : List Char) (h : parseFloat lit = none ∨ parseFloat lit = some .nonfinite) : myCodec.parse lit = none := by
  rcases h with h | h <;> simp [myCodec, h]

theorem rel_newTip (s : Newick.PSt) (tok : Newick.Tok) (lit pos rest : List Char) (hm : s.mode = .iter) (hn : s.nonfinite = false) :
    StepRel (Newick.newTip s tok lit)
      (if ((conv s).prevTok != some .openpar && (conv s).prevTok != some .newsibling) = true then
         Gotree.Newick.Iter.stop (.err "There should not be a tip name in this context")
       else if (conv s).nodeNil = true then .stop (.err "Cannot create a new tip with no parent")
       else .cont { (conv s).pushChild (String.ofList lit) with prevTok := some (ct tok) } rest) pos rest := by
  have e1 : ((conv s).prevTok != some .openpar) = decide (s.prev ≠ some .openpar) := prev_bne s .openpar
  have e2 : ((conv s).prevTok != some .newsibling) = decide (s.prev ≠ some .newsibling) := prev_bne s .newsibling
  unfold Newick.newTip
  rw [e1, e2, nodeNil_eq]
  by_cases h1 : (decide (s.prev ≠ some .openpar) && decide (s.prev ≠ some .newsibling)) = true
  · simp only [h1, if_true]; simp [StepRel]
  · simp only [h1, if_false]
    by_cases h2 : Newick.nodeNil s = true
    · simp [h2, StepRel]
    · have h2' : Newick.nodeNil s = false := by cases h : Newick.nodeNil s <;> simp_all
      simp only [h2', Bool.false_eq_true, if_false]
      have pf := pushInner_fields s (String.ofList lit)
      refine ⟨_, rfl, by simp [pf.1, hm], by simp [pf.2.1, hn], ?_, rfl⟩
      rw [← pushChild_eq s _ h2']
      simp [conv, pf]

theorem conv_edge_upd (s : Newick.PSt) (f : EdgeD → EdgeD) (hen : Newick.edgeNil s = false) (b n : Bool) :
    conv { Newick.mapTopEdge s f with stale := b, nonfinite := n } =
      { (conv s).modTop (fun fr => { fr with e := f fr.e }) with stale := b } := by
  rw [← mapTopEdge_eq s f hen]
  simp [conv]

theorem conv_edge_upd_prev (s : Newick.PSt) (f : EdgeD → EdgeD) (hen : Newick.edgeNil s = false) (b n : Bool) (p : Newick.Tok) :
    conv { Newick.mapTopEdge s f with stale := b, nonfinite := n, prev := some p } =
      { (conv s).modTop (fun fr => { fr with e := f fr.e }) with stale := b, prevTok := some (ct p) } := by
  rw [← mapTopEdge_eq s f hen]
  simp [conv]

theorem rel_numeric (s : Newick.PSt) (lit pos rest : List Char) (hm : s.mode = .iter) (hn : s.nonfinite = false) :
    StepRel (Newick.stepIter s .numeric lit) (Gotree.Newick.iter myCodec (conv s) .numeric lit pos rest) pos rest := by
  unfold Newick.stepIter Gotree.Newick.iter
  have e0 : ((conv s).prevTok == some .closepar) = decide (s.prev = some .closepar) := prev_beq s .closepar
  simp only [e0]
  by_cases hp : s.prev = some .closepar
  · simp only [hp, decide_true, if_true]
    unfold Newick.supportLabel
    rw [edgeNil_eq]
    have el : ((conv s).level == 0) = decide (s.level = 0) := rfl
    rw [el]
    by_cases hc : (decide (s.level = 0) || Newick.edgeNil s) = true
    · simp only [hc, if_true]
      have : (Gotree.Newick.Tok.numeric == Gotree.Newick.Tok.numeric) = true := rfl
      simp only [this, if_true]
      exact ⟨s, rfl, hm, hn, rfl, rfl⟩
    · have : (Gotree.Newick.Tok.numeric == Gotree.Newick.Tok.numeric) = true := rfl
      simp only [hc, this, if_true, if_false]
      have hen : Newick.edgeNil s = false := by
        cases h : Newick.edgeNil s <;> simp_all
      cases hf : parseFloat lit with
      | none => rw [parse_none_of lit (Or.inl hf)]; simp [StepRel]
      | some v =>
        cases v with
        | nonfinite => rw [parse_none_of lit (Or.inr hf)]; simp [StepRel]
        | fin q =>
          rw [parse_fin lit q hf]
          have mf := mapTopEdge_fields s (fun e => { e with sup := Newick.fvalRat (FVal.fin q) })
          refine ⟨_, rfl, by simp [mf.1, hm], by simp [hn, Newick.fvalNonfin], ?_, rfl⟩
          rw [conv_edge_upd s _ hen]
          rfl
  · simp only [hp, decide_false, Bool.false_eq_true, if_false]
    exact rel_newTip s .numeric lit pos rest hm hn


/-- C01's local function `named` -/
def namedC01 (lit rest : List Char) (st : Gotree.Newick.PState) : Gotree.Newick.Iter :=
  if st.nodeNil then .stop (.err "Cannot assign node name to nil node")
  else .cont (st.setName (String.ofList lit)) rest

theorem rel_named (s : Newick.PSt) (lit pos rest : List Char) (hm : s.mode = .iter) (hn : s.nonfinite = false) :
    StepRel (if Newick.nodeNil s then Newick.Step.fail "Newick Error: Cannot assign node name to nil node"
             else .cont (Newick.mapTopNode s (fun d => { d with name := String.ofList lit })))
      (namedC01 lit rest (conv s)) pos rest := by
  unfold namedC01
  rw [nodeNil_eq]
  by_cases h : Newick.nodeNil s = true
  · simp [h, StepRel]
  · have h' : Newick.nodeNil s = false := by cases hh : Newick.nodeNil s <;> simp_all
    simp only [h', Bool.false_eq_true, if_false]
    have mf := mapTopNode_fields s (fun d => { d with name := String.ofList lit })
    refine ⟨_, rfl, by simp [mf.1, hm], by simp [mf.2.1, hn], ?_, rfl⟩
    rw [mapTopNode_eq]; rfl

theorem rel_ident (s : Newick.PSt) (lit pos rest : List Char) (hm : s.mode = .iter) (hn : s.nonfinite = false) :
    StepRel (Newick.stepIter s .ident lit) (Gotree.Newick.iter myCodec (conv s) .ident lit pos rest) pos rest := by
  unfold Newick.stepIter Gotree.Newick.iter
  have e0 : ((conv s).prevTok == some .closepar) = decide (s.prev = some .closepar) := prev_beq s .closepar
  simp only [e0]
  by_cases hp : s.prev = some .closepar
  · simp only [hp, decide_true, if_true]
    have : (Gotree.Newick.Tok.ident == Gotree.Newick.Tok.numeric) = false := rfl
    simp only [this, Bool.false_eq_true, if_false]
    unfold Newick.nameLabel Newick.slashLabel
    rw [splitSlash_eq, edgeNil_eq]
    have named := fun (s' : Newick.PSt) (hm' : s'.mode = .iter) (hn' : s'.nonfinite = false) => rel_named s' lit pos rest hm' hn'
    unfold namedC01 at named
    generalize Newick.splitSlash lit = l
    rcases l with _ | ⟨a, _ | ⟨b, _ | ⟨c, t⟩⟩⟩
    · exact named s hm hn
    · exact named s hm hn
    · simp only
      by_cases he : Newick.edgeNil s = true
      · simp only [he, if_true]; exact named s hm hn
      · have he' : Newick.edgeNil s = false := by cases hh : Newick.edgeNil s <;> simp_all
        simp only [he', Bool.false_eq_true, if_false]
        have ia : myCodec.isFloat a = (parseFloat a).isSome := rfl
        have ib : myCodec.isFloat b = (parseFloat b).isSome := rfl
        cases hfa : parseFloat a with
        | none =>
          simp only [ia, hfa, Option.isSome_none, Bool.not_false, if_true]
          exact named { s with stale := true } hm hn
        | some va =>
          simp only [ia, hfa, Option.isSome_some, Bool.not_true, Bool.false_eq_true, if_false]
          cases hfb : parseFloat b with
          | none =>
            simp only [ib, hfb, Option.isSome_none, Bool.not_false, if_true]
            exact named { s with stale := true } hm hn
          | some vb =>
            simp only [ib, hfb, Option.isSome_some, Bool.not_true, Bool.false_eq_true, if_false]
            cases va with
            | nonfinite => rw [parse_none_of a (Or.inr hfa)]; simp [StepRel]
            | fin qa =>
              cases vb with
              | nonfinite => rw [parse_fin a qa hfa, parse_none_of b (Or.inr hfb)]; simp [StepRel]
              | fin qb =>
                rw [parse_fin a qa hfa, parse_fin b qb hfb]
                simp only
                have mf := mapTopEdge_fields s (fun e => { e with sup := Newick.fvalRat (FVal.fin qa), pval := Newick.fvalRat (FVal.fin qb) })
                refine ⟨_, rfl, by simp [mf.1, hm], by simp [hn, Newick.fvalNonfin], ?_, rfl⟩
                rw [conv_edge_upd s _ he']
                generalize conv s = ps
                rcases ps with ⟨stack, lv, pt, ne, dn, sb⟩
                cases stack <;>
                  simp [Gotree.Newick.PState.setSup, Gotree.Newick.PState.setPval, Gotree.Newick.PState.modTop, Newick.fvalRat]
    · exact named s hm hn
  · simp only [hp, decide_false, Bool.false_eq_true, if_false]
    exact rel_newTip s .ident lit pos rest hm hn

/-- the part of C01's `case OPENBRACK` that follows `consumeComment` -/
def afterCommentC01 (st : Gotree.Newick.PState) (c : List Char) (r2 : List Char) : Gotree.Newick.Iter :=
  let c := String.ofList c
  let st := { st with stale := false }
  if st.prevTok == some .startlen && !st.edgeNil then
    .cont { st.addEdgeComment c with prevTok := some .closebrack } r2
  else if st.prevTok == some .startlen && st.edgeNil && !st.nodeNil then
    .cont { st.addNodeComment c with prevTok := some .closebrack } r2
  else if (st.prevTok == some .closepar || st.prevTok == some .ident || st.prevTok == some .numeric ||
           st.prevTok == some .closebrack) && !st.nodeNil then
    .cont { st.addNodeComment c with prevTok := some .closebrack } r2
  else .stop (.err "comment should not be located here")

theorem iter_openbrack (st : Gotree.Newick.PState) (lit pos rest : List Char) :
    Gotree.Newick.iter myCodec st .openbrack lit pos rest =
      match Gotree.Newick.consumeComment myCodec rest [] with
      | none => .stop (.err "unmatched bracket")
      | some (c, r2) => afterCommentC01 st c r2 := by
  unfold Gotree.Newick.iter afterCommentC01
  rfl

theorem conv_node_upd (s : Newick.PSt) (f : NodeD → NodeD) (b n : Bool) (m : Newick.Mode) (p : Newick.Tok) :
    conv { Newick.mapTopNode s f with stale := b, nonfinite := n, mode := m, prev := some p } =
      { (conv s).modTop (fun fr => { fr with d := f fr.d }) with stale := b, prevTok := some (ct p) } := by
  rw [← mapTopNode_eq s f]
  simp [conv]

/-- the decision of `closeComment` once `err` has been overwritten -/
def core (st : Newick.PSt) (c : String) : Newick.Step :=
  if st.prev = some .startlen && !Newick.edgeNil st then
    .cont { Newick.mapTopEdge st (fun e => { e with comments := e.comments ++ [c] }) with prev := some .closebrack }
  else if st.prev = some .startlen && Newick.edgeNil st && !Newick.nodeNil st then
    .cont { Newick.mapTopNode st (fun d => { d with comments := d.comments ++ [c] }) with prev := some .closebrack }
  else if (st.prev = some .closepar || st.prev = some .ident || st.prev = some .numeric || st.prev = some .closebrack) && !Newick.nodeNil st then
    .cont { Newick.mapTopNode st (fun d => { d with comments := d.comments ++ [c] }) with prev := some .closebrack }
  else .fail "newick error: comment should not be located here"

def coreC01 (st : Gotree.Newick.PState) (c : String) (r2 : List Char) : Gotree.Newick.Iter :=
  if st.prevTok == some .startlen && !st.edgeNil then
    .cont { st.addEdgeComment c with prevTok := some .closebrack } r2
  else if st.prevTok == some .startlen && st.edgeNil && !st.nodeNil then
    .cont { st.addNodeComment c with prevTok := some .closebrack } r2
  else if (st.prevTok == some .closepar || st.prevTok == some .ident || st.prevTok == some .numeric ||
           st.prevTok == some .closebrack) && !st.nodeNil then
    .cont { st.addNodeComment c with prevTok := some .closebrack } r2
  else .stop (.err "comment should not be located here")

theorem closeComment_core (s : Newick.PSt) (c : List Char) :
    Newick.closeComment s c = core { s with stale := false, mode := .iter } (String.ofList c) := rfl

theorem afterComment_core (st : Gotree.Newick.PState) (c r2 : List Char) :
    afterCommentC01 st c r2 = coreC01 { st with stale := false } (String.ofList c) r2 := rfl

theorem conv_edge_prev (s : Newick.PSt) (f : EdgeD → EdgeD) (hen : Newick.edgeNil s = false) (p : Newick.Tok) :
    conv { Newick.mapTopEdge s f with prev := some p } =
      { (conv s).modTop (fun fr => { fr with e := f fr.e }) with prevTok := some (ct p) } := by
  rw [← mapTopEdge_eq s f hen]
  simp [conv]

theorem conv_node_prev (s : Newick.PSt) (f : NodeD → NodeD) (p : Newick.Tok) :
    conv { Newick.mapTopNode s f with prev := some p } =
      { (conv s).modTop (fun fr => { fr with d := f fr.d }) with prevTok := some (ct p) } := by
  rw [← mapTopNode_eq s f]
  simp [conv]

theorem rel_core (s : Newick.PSt) (c : String) (pos r2 : List Char) (hm : s.mode = .iter) (hn : s.nonfinite = false) :
    StepRel (core s c) (coreC01 (conv s) c r2) pos r2 := by
  unfold core coreC01
  have e1 : ((conv s).prevTok == some .startlen) = decide (s.prev = some .startlen) := prev_beq s .startlen
  have e2 : ((conv s).prevTok == some .closepar) = decide (s.prev = some .closepar) := prev_beq s .closepar
  have e3 : ((conv s).prevTok == some .ident) = decide (s.prev = some .ident) := prev_beq s .ident
  have e4 : ((conv s).prevTok == some .numeric) = decide (s.prev = some .numeric) := prev_beq s .numeric
  have e5 : ((conv s).prevTok == some .closebrack) = decide (s.prev = some .closebrack) := prev_beq s .closebrack
  rw [e1, e2, e3, e4, e5, edgeNil_eq, nodeNil_eq]
  have mfe := mapTopEdge_fields s (fun e => { e with comments := e.comments ++ [c] })
  have mfn := mapTopNode_fields s (fun d => { d with comments := d.comments ++ [c] })
  by_cases c1 : (decide (s.prev = some .startlen) && !Newick.edgeNil s) = true
  · simp only [c1, if_true]
    have hen : Newick.edgeNil s = false := by
      cases h : Newick.edgeNil s <;> simp_all
    refine ⟨_, rfl, by simp [mfe.1, hm], by simp [mfe.2.1, hn], ?_, rfl⟩
    rw [conv_edge_prev s _ hen]; rfl
  · simp only [c1, if_false]
    by_cases c2 : (decide (s.prev = some .startlen) && Newick.edgeNil s && !Newick.nodeNil s) = true
    · simp only [c2, if_true]
      refine ⟨_, rfl, by simp [mfn.1, hm], by simp [mfn.2.1, hn], ?_, rfl⟩
      rw [conv_node_prev]; rfl
    · simp only [c2, if_false]
      by_cases c3 : ((decide (s.prev = some .closepar) || decide (s.prev = some .ident) || decide (s.prev = some .numeric) || decide (s.prev = some .closebrack)) && !Newick.nodeNil s) = true
      · simp only [c3, if_true]
        refine ⟨_, rfl, by simp [mfn.1, hm], by simp [mfn.2.1, hn], ?_, rfl⟩
        rw [conv_node_prev]; rfl
      · simp only [c3, if_false]
        simp [StepRel]

theorem rel_closeComment (s : Newick.PSt) (c pos r2 : List Char) (hn : s.nonfinite = false) :
    StepRel (Newick.closeComment s c) (afterCommentC01 (conv s) c r2) pos r2 := by
  rw [closeComment_core, afterComment_core]
  exact rel_core { s with stale := false, mode := .iter } _ pos r2 rfl hn

theorem closeComment_mode (s : Newick.PSt) (m : Newick.Mode) (c : List Char) :
    Newick.closeComment { s with mode := m } c = Newick.closeComment s c := rfl

theorem tok_of_ct {t : Newick.Tok} {u : Gotree.Newick.Tok} (h : ct t = u) (t' : Newick.Tok) (hu : u = ct t') : t = t' :=
  ct_inj (h.trans hu)

theorem ct_ne_illegal (t : Newick.Tok) : ct t ≠ .illegal := by cases t <;> simp [ct]

/-- how `run` goes on after a step made inside a comment / after a colon -/
def contRun (x : Newick.Step) (r : List Char) : Res Newick.Parsed :=
  match x with
  | .cont s' => Newick.run s' r
  | .fail m => .err m
  | .finished _ => .err "unreachable"

/-- C02's loop inside a comment is C01's `consumeComment` -/
theorem run_comment (cs acc : List Char) : ∀ (s : Newick.PSt), s.mode = .comment acc →
    Newick.run s cs =
      match Gotree.Newick.consumeComment myCodec cs acc with
      | none => .err "unmatched bracket"
      | some (c, r) => contRun (Newick.closeComment s c) r := by
  fun_induction Gotree.Newick.consumeComment myCodec cs acc
  case case1 inp acc h =>
    intro s hm
    rw [scan_eq] at h
    have ht : (Newick.scan true inp).tok = .closebrack := ct_inj h
    rw [Newick.run]
    simp only [hm, Newick.inComment, ht, scan_eq, if_true]
    cases Newick.closeComment s acc <;> simp [contRun]
  case case2 inp acc h1 h2 =>
    intro s hm
    rw [scan_eq] at h2
    have ht : (Newick.scan true inp).tok = .eof := by
      rcases h2 with h | h
      · exact ct_inj h
      · exact absurd h (ct_ne_illegal _)
    rw [Newick.run]
    simp [hm, Newick.inComment, ht, Newick.atEOF]
  case case3 inp acc h1 h2 ih =>
    intro s hm
    rw [scan_eq] at h1 h2 ih
    have ht1 : (Newick.scan true inp).tok ≠ .closebrack := fun h => h1 (by rw [h]; rfl)
    have ht2 : (Newick.scan true inp).tok ≠ .eof := fun h => h2 (Or.inl (by rw [h]; rfl))
    rw [Newick.run]
    simp only [hm, Newick.inComment, if_true, ht1, ht2, dite_false, if_false]
    have := ih { s with mode := .comment (acc ++ (Newick.scan true inp).lit) } rfl
    simp only [closeComment_mode] at this
    rw [scan_eq]
    exact this


/-- the leading comment of `Parse` -/
theorem run_startComment (cs acc : List Char) : ∀ (s : Newick.PSt), s.mode = .startComment →
    Newick.run s cs =
      match Gotree.Newick.consumeComment myCodec cs acc with
      | none => .err "unmatched bracket"
      | some (_, r) => Newick.run { s with mode := .start2 } r := by
  fun_induction Gotree.Newick.consumeComment myCodec cs acc
  case case1 inp acc h =>
    intro s hm
    rw [scan_eq] at h
    have ht : (Newick.scan true inp).tok = .closebrack := ct_inj h
    rw [Newick.run]
    simp only [hm, Newick.inComment, ht, scan_eq, if_true]
    simp
  case case2 inp acc h1 h2 =>
    intro s hm
    rw [scan_eq] at h2
    have ht : (Newick.scan true inp).tok = .eof := by
      rcases h2 with h | h
      · exact ct_inj h
      · exact absurd h (ct_ne_illegal _)
    rw [Newick.run]
    simp [hm, Newick.inComment, ht, Newick.atEOF]
  case case3 inp acc h1 h2 ih =>
    intro s hm
    rw [scan_eq] at h1 h2 ih
    have ht1 : (Newick.scan true inp).tok ≠ .closebrack := fun h => h1 (by rw [h]; rfl)
    have ht2 : (Newick.scan true inp).tok ≠ .eof := fun h => h2 (Or.inl (by rw [h]; rfl))
    rw [Newick.run]
    simp only [hm, Newick.inComment, if_true, ht1, ht2, dite_false, if_false]
    rw [scan_eq]
    exact ih s hm

/-- C01's `case STARTLEN` once the next token is known -/
def afterColonC01 (st : Gotree.Newick.PState) (tok : Gotree.Newick.Tok) (lit r : List Char) : Gotree.Newick.Iter :=
  if tok ≠ .numeric then .stop (.err "no numeric value after ':'")
  else if !st.nodeNil && st.level != 0 then
    if st.edgeNil then .stop (.err "Edge length should not be located here")
    else if st.topLen != NIL then .stop (.err "More than one length is given")
    else match myCodec.parse lit with
      | none => .stop (.unrep "non-finite length")
      | some v => .cont { st.setLen v with prevTok := some .startlen, stale := false } r
  else if st.level == 0 then .cont { st with prevTok := some .startlen } r
  else .stop (.err "Cannot assign length to nil node")

theorem iter_startlen (st : Gotree.Newick.PState) (lit pos rest : List Char) :
    Gotree.Newick.iter myCodec st .startlen lit pos rest =
      afterColonC01 st (Gotree.Newick.scanIW myCodec rest).1 (Gotree.Newick.scanIW myCodec rest).2.1 (Gotree.Newick.scanIW myCodec rest).2.2 := by
  unfold Gotree.Newick.iter afterColonC01
  rfl

def colonCore (st : Newick.PSt) (tok : Newick.Tok) (lit : List Char) : Newick.Step :=
  if tok ≠ .numeric then .fail "newick error: no numeric value after ':'"
  else if !Newick.nodeNil st && st.level ≠ 0 then
    match Newick.topEdge st with
    | none => .fail "Newick Error: Edge length should not be located here"
    | some e =>
      if e.len ≠ NIL then .fail "Newick Error: More than one length is given"
      else
        match parseFloat lit with
        | none => .fail "Newick Error: Length is not a float value"
        | some v => .cont { Newick.mapTopEdge st (fun e => { e with len := (if Newick.fvalNonfin v then 0 else Newick.fvalRat v) }) with
                              stale := false, prev := some .startlen, nonfinite := st.nonfinite || Newick.fvalNonfin v }
  else if st.level = 0 then .cont { st with prev := some .startlen }
  else .fail "Newick Error: Cannot assign length to nil node"

theorem stepAfterColon_core (s : Newick.PSt) (tok : Newick.Tok) (lit : List Char) :
    Newick.stepAfterColon s tok lit = colonCore { s with mode := .iter } tok lit := rfl

theorem topEdge_none (s : Newick.PSt) (h : Newick.edgeNil s = true) : Newick.topEdge s = none := by
  unfold Newick.edgeNil at h
  unfold Newick.topEdge
  split at h <;> simp_all

theorem rel_colonCore (s : Newick.PSt) (tok : Newick.Tok) (lit pos r : List Char) (hm : s.mode = .iter) (hn : s.nonfinite = false) :
    StepRel (colonCore s tok lit) (afterColonC01 (conv s) (ct tok) lit r) pos r := by
  unfold colonCore afterColonC01
  by_cases ht : tok = .numeric
  · subst ht
    have : ¬ (ct Newick.Tok.numeric ≠ Gotree.Newick.Tok.numeric) := by simp [ct]
    simp only [this, if_false, ne_eq, not_true_eq_false]
    rw [nodeNil_eq, edgeNil_eq]
    have el2 : ((conv s).level == 0) = decide (s.level = 0) := rfl
    have el : ((conv s).level != 0) = decide (s.level ≠ 0) := by simp only [bne, el2]; simp
    rw [el, el2]
    by_cases c1 : (!Newick.nodeNil s && decide (s.level ≠ 0)) = true
    · have c1' : (!Newick.nodeNil s && decide ¬s.level = 0) = true := c1
      simp only [c1, c1', if_true]
      by_cases hen : Newick.edgeNil s = true
      · simp only [hen, if_true, topEdge_none s hen]
        simp [StepRel]
      · have hen' : Newick.edgeNil s = false := by cases h : Newick.edgeNil s <;> simp_all
        obtain ⟨e, he, hl⟩ := topLen_eq s hen'
        simp only [hen', Bool.false_eq_true, if_false, he, hl]
        by_cases hnil : e.len = NIL
        · have : (e.len != NIL) = false := by simp [hnil]
          simp only [this, hnil, not_true_eq_false, Bool.false_eq_true, if_false]
          cases hf : parseFloat lit with
          | none => rw [parse_none_of lit (Or.inl hf)]; simp [StepRel]
          | some v =>
            cases v with
            | nonfinite => rw [parse_none_of lit (Or.inr hf)]; simp [StepRel]
            | fin q =>
              rw [parse_fin lit q hf]
              simp only
              have mf := mapTopEdge_fields s (fun e => { e with len := (if Newick.fvalNonfin (FVal.fin q) then 0 else Newick.fvalRat (FVal.fin q)) })
              refine ⟨_, rfl, by simp [mf.1, hm], by simp [hn, Newick.fvalNonfin], ?_, rfl⟩
              rw [conv_edge_upd_prev s _ hen']
              rfl
        · have : (e.len != NIL) = true := by simp [hnil]
          simp [this, hnil, StepRel]
    · have c1' : ¬ (!Newick.nodeNil s && decide ¬s.level = 0) = true := c1
      simp only [c1, c1', if_false]
      by_cases h0 : s.level = 0
      · simp only [h0, decide_true, if_true]
        exact ⟨_, rfl, hm, hn, by simp [conv, ct, h0], rfl⟩
      · simp [h0, StepRel]
  · have : ct tok ≠ Gotree.Newick.Tok.numeric := fun h => ht (ct_inj (by rw [h]; rfl))
    simp [ht, this, StepRel]

theorem rel_afterColon (s : Newick.PSt) (tok : Newick.Tok) (lit pos r : List Char) (hn : s.nonfinite = false) :
    StepRel (Newick.stepAfterColon s tok lit) (afterColonC01 (conv s) (ct tok) lit r) pos r := by
  rw [stepAfterColon_core]
  exact rel_colonCore { s with mode := .iter } tok lit pos r rfl hn


/- ## the delivered tree -/

theorem isSpace_eq (c : Char) : Gotree.Newick.isSpaceGo c = Newick.goIsSpace c := by
  unfold Gotree.Newick.isSpaceGo Newick.goIsSpace
  simp only
  cases (c.toNat == 0x20) <;> cases (decide (0x09 ≤ c.toNat) && decide (c.toNat ≤ 0x0D)) <;> simp [Bool.or_comm, Bool.or_assoc, Bool.or_left_comm]

theorem trimSpace_eq (s : String) : Gotree.Newick.trimSpace s = Newick.trimSpace s := by
  have : Gotree.Newick.isSpaceGo = Newick.goIsSpace := funext isSpace_eq
  unfold Gotree.Newick.trimSpace Newick.trimSpace
  rw [this]

mutual
theorem trimLeaves_eq : ∀ t : T, Gotree.Newick.trimLeaves t = Newick.trimTips t
  | .node d p [] => by unfold Gotree.Newick.trimLeaves Newick.trimTips; rw [trimSpace_eq]
  | .node d p (k :: ks) => by
    unfold Gotree.Newick.trimLeaves Newick.trimTips
    rw [trimLeavesL_eq (k :: ks)]
theorem trimLeavesL_eq : ∀ k : Kids, Gotree.Newick.trimLeavesL k = Newick.trimTipsL k
  | [] => by unfold Gotree.Newick.trimLeavesL Newick.trimTipsL; rfl
  | (e, t) :: r => by
    unfold Gotree.Newick.trimLeavesL Newick.trimTipsL
    rw [trimLeaves_eq t, trimLeavesL_eq r]
end

theorem trimTips_eq (t : T) : Gotree.Newick.trimTips t = Newick.trimRoot t := by
  cases t with
  | node d p k =>
    show T.node (if (k.length == 1) = true then { d with name := Gotree.Newick.trimSpace d.name } else d) p (Gotree.Newick.trimLeavesL k) = _
    rw [trimLeavesL_eq, trimSpace_eq]
    match k with
    | [] => simp [Newick.trimRoot, Newick.trimTipsL]
    | [(e, t)] => simp [Newick.trimRoot, Newick.trimTipsL]
    | a :: b :: r => simp [Newick.trimRoot]

theorem unwind_some (r : Newick.RFrame) : ∀ (inner : List Newick.IFrame) (x : Newick.IFrame),
    Gotree.Newick.PState.unwind (inner.map convI ++ [rootF r]) (some (x.e, Newick.mkNode x.d x.kids)) =
      some (Newick.closeAll r (x :: inner))
  | [], x => by
    simp [Gotree.Newick.PState.unwind, rootF, Gotree.Newick.Frame.toT, Newick.closeAll, Newick.mkNode]
  | g :: rest, x => by
    have ih := unwind_some r rest { g with kids := g.kids ++ [(x.e, Newick.mkNode x.d x.kids)] }
    simp only [List.map_cons, List.cons_append, Gotree.Newick.PState.unwind]
    rw [Newick.closeAll]
    rw [← ih]
    rfl

theorem result_eq (s : Newick.PSt) :
    (conv s).result = match s.stk with
      | some (r, inner) => some (Newick.closeAll r inner)
      | none => s.lastRoot := by
  unfold Gotree.Newick.PState.result
  cases hs : s.stk with
  | none => simp [conv, convStk, hs]
  | some p =>
    obtain ⟨r, inner⟩ := p
    cases inner with
    | nil => simp [conv, convStk, hs, Gotree.Newick.PState.unwind, rootF, Gotree.Newick.Frame.toT, Newick.closeAll, Newick.mkNode]
    | cons f rest =>
      have := unwind_some r rest f
      simp only [conv, convStk, hs, List.map_cons, List.cons_append]
      simp only [Gotree.Newick.PState.unwind]
      exact this



/- ## one turn of each loop -/

theorem c01_run_cont (st : Gotree.Newick.PState) (inp : List Char) (st' : Gotree.Newick.PState) (r' : List Char)
    (h : Gotree.Newick.iter myCodec st (Gotree.Newick.scanIW myCodec inp).1 (Gotree.Newick.scanIW myCodec inp).2.1
          (Gotree.Newick.skipWs myCodec inp) (Gotree.Newick.scanIW myCodec inp).2.2 = .cont st' r')
    (hne : (Gotree.Newick.scanIW myCodec inp).1 ≠ .eof) :
    Gotree.Newick.run myCodec st inp = Gotree.Newick.run myCodec st' r' := by
  rw [Gotree.Newick.run]
  split
  · rename_i o ho; rw [h] at ho; cases ho
  · rename_i s2 r2 ho
    rw [h] at ho; cases ho
    simp [hne]

theorem c01_run_stop (st : Gotree.Newick.PState) (inp : List Char) (o : Gotree.Newick.Outcome (Gotree.Newick.PState × List Char))
    (h : Gotree.Newick.iter myCodec st (Gotree.Newick.scanIW myCodec inp).1 (Gotree.Newick.scanIW myCodec inp).2.1
          (Gotree.Newick.skipWs myCodec inp) (Gotree.Newick.scanIW myCodec inp).2.2 = .stop o) :
    Gotree.Newick.run myCodec st inp = o := by
  rw [Gotree.Newick.run]
  split
  · rename_i o' ho; rw [h] at ho; cases ho; rfl
  · rename_i s2 r2 ho
    rw [h] at ho; cases ho

/-- `Parse` consumes the `;`: the delivered value remembers where the parser stands -/
def withRest (x : Res Newick.Parsed) (r : List Char) : Res Newick.Parsed :=
  match x with
  | .ok p => .ok { p with rest := r }
  | .err m => .err m
  | .panic m => .panic m

/-- how C02's `run` goes on after a step of `parseIter` -/
def stepOut (x : Newick.Step) (r : List Char) : Res Newick.Parsed :=
  match x with
  | .cont s' => Newick.run s' r
  | .fail m => .err m
  | .finished s' => withRest (Newick.finish s') r

theorem run_iter (s : Newick.PSt) (hm : s.mode = .iter) (cs : List Char) :
    Newick.run s cs =
      if (Newick.scanIW cs).tok = .eof then Newick.atEOF s
      else stepOut (Newick.stepIter s (Newick.scanIW cs).tok (Newick.scanIW cs).lit) (Newick.scanIW cs).rest := by
  rw [Newick.run]
  simp only [hm, Newick.inComment, Bool.false_eq_true, if_false, Newick.stepTok]
  by_cases h : (Newick.scanIW cs).tok = .eof
  · simp [h]
  · simp only [h, dite_false, if_false]
    cases Newick.stepIter s (Newick.scanIW cs).tok (Newick.scanIW cs).lit with
    | cont s' => rfl
    | fail m => rfl
    | finished s' => simp only [stepOut, withRest]; cases Newick.finish s' <;> rfl

theorem run_afterColon (s : Newick.PSt) (hm : s.mode = .afterColon) (cs : List Char) :
    Newick.run s cs =
      if (Newick.scanIW cs).tok = .eof then .err "newick error: no numeric value after ':'"
      else stepOut (Newick.stepAfterColon s (Newick.scanIW cs).tok (Newick.scanIW cs).lit) (Newick.scanIW cs).rest := by
  rw [Newick.run]
  simp only [hm, Newick.inComment, Bool.false_eq_true, if_false, Newick.stepTok]
  by_cases h : (Newick.scanIW cs).tok = .eof
  · simp [h, Newick.atEOF, hm]
  · simp only [h, dite_false, if_false]
    cases Newick.stepAfterColon s (Newick.scanIW cs).tok (Newick.scanIW cs).lit with
    | cont s' => rfl
    | fail m => rfl
    | finished s' => simp only [stepOut, withRest]; cases Newick.finish s' <;> rfl

/- ## the end of `Parse` -/

/-- what C01's `parse` does with the result of `run` -/
def post (o : Gotree.Newick.Outcome (Gotree.Newick.PState × List Char)) : Gotree.Newick.Outcome (T × List Char) :=
  match o with
  | .err m => .err m
  | .panic m => .panic m
  | .unrep m => .unrep m
  | .ok (st, rest) =>
    if st.level != 0 then .err "mismatched parenthesis after parsing"
    else if (Gotree.Newick.scanIW myCodec rest).1 ≠ .eot then .err "found …, expected ;"
    else match st.result with
      | none => .panic "nil root in Tips()"
      | some t => .ok (Gotree.Newick.trimTips t, (Gotree.Newick.scanIW myCodec rest).2.2)

/-- agreement of the two outcomes (`unrep`: C01's model gives up on a non-finite number) -/
def RelOut (theirs : Gotree.Newick.Outcome (T × List Char)) (mine : Res Newick.Parsed) : Prop :=
  match theirs with
  | .ok (t, r) => mine = .ok ⟨t, false, r⟩
  | .err _ => ∃ m, mine = .err m
  | .panic _ => ∃ m, mine = .panic m
  | .unrep _ => True

theorem finish_rel (s : Newick.PSt) (pos : List Char) (hs : s.stale = false) (hn : s.nonfinite = false) (hl : s.level = 0)
    (hp : (Gotree.Newick.scanIW myCodec pos).1 = .eot) (rest : List Char) (hr : (Gotree.Newick.scanIW myCodec pos).2.2 = rest) :
    RelOut (post (.ok (conv s, pos))) (withRest (Newick.finish s) rest) := by
  unfold post Newick.finish withRest
  have l0 : ((conv s).level != 0) = false := by simp [conv, hl]
  simp only [l0, Bool.false_eq_true, if_false, hp, ne_eq, not_true_eq_false, hs, result_eq]
  cases hstk : s.stk with
  | some p =>
    obtain ⟨r, inner⟩ := p
    simp [RelOut, trimTips_eq, hn, hr]
  | none =>
    cases hl : s.lastRoot with
    | none => simp [RelOut]
    | some t => simp [RelOut, trimTips_eq, hn, hr]

/-- what C01's `run` does after `iter` -/
def theirsNext (it : Gotree.Newick.Iter) : Gotree.Newick.Outcome (Gotree.Newick.PState × List Char) :=
  match it with
  | .stop o => o
  | .cont ps r => Gotree.Newick.run myCodec ps r

theorem iter_eof_stop (st : Gotree.Newick.PState) (lit pos rest : List Char) :
    ∃ o, Gotree.Newick.iter myCodec st .eof lit pos rest = .stop o := by
  unfold Gotree.Newick.iter
  simp only
  split <;> exact ⟨_, rfl⟩

theorem c01_run_eq (st : Gotree.Newick.PState) (inp : List Char) :
    Gotree.Newick.run myCodec st inp =
      theirsNext (Gotree.Newick.iter myCodec st (Gotree.Newick.scanIW myCodec inp).1 (Gotree.Newick.scanIW myCodec inp).2.1
          (Gotree.Newick.skipWs myCodec inp) (Gotree.Newick.scanIW myCodec inp).2.2) := by
  cases h : Gotree.Newick.iter myCodec st (Gotree.Newick.scanIW myCodec inp).1 (Gotree.Newick.scanIW myCodec inp).2.1
          (Gotree.Newick.skipWs myCodec inp) (Gotree.Newick.scanIW myCodec inp).2.2 with
  | stop o => exact c01_run_stop st inp o h
  | cont st' r' =>
    by_cases hne : (Gotree.Newick.scanIW myCodec inp).1 = .eof
    · rw [hne] at h
      obtain ⟨o, ho⟩ := iter_eof_stop st (Gotree.Newick.scanIW myCodec inp).2.1 (Gotree.Newick.skipWs myCodec inp) (Gotree.Newick.scanIW myCodec inp).2.2
      rw [ho] at h; cases h
    · exact c01_run_cont st inp st' r' h hne

theorem finish_stale (s : Newick.PSt) (h : s.stale = true) : ∃ m, Newick.finish s = .err m := by
  unfold Newick.finish; simp [h]

/-- from the agreement of one step to the agreement of the outcomes, given the agreement on what follows -/
theorem sim_of_rel (x : Newick.Step) (it : Gotree.Newick.Iter) (pos rest : List Char)
    (hrel : StepRel x it pos rest)
    (hok : ∀ ps p, it = .stop (.ok (ps, p)) → (Gotree.Newick.scanIW myCodec p).1 = .eot ∧ (Gotree.Newick.scanIW myCodec p).2.2 = rest)
    (ih : ∀ s' : Newick.PSt, s'.mode = .iter → s'.nonfinite = false →
            RelOut (post (Gotree.Newick.run myCodec (conv s') rest)) (Newick.run s' rest)) :
    RelOut (post (theirsNext it)) (stepOut x rest) := by
  cases it with
  | cont ps r =>
    obtain ⟨s', hx, hm', hn', hps, hr⟩ := hrel
    subst hx hps hr
    exact ih s' hm' hn'
  | stop o =>
    cases o with
    | ok a =>
      obtain ⟨ps, p⟩ := a
      obtain ⟨s', hx, hs, hn, hl, hps, hp⟩ := hrel
      subst hx hps
      exact finish_rel s' p hs hn hl (hok _ _ rfl).1 rest (hok _ _ rfl).2
    | err m =>
      rcases hrel with ⟨m', hx⟩ | ⟨s', hx, hs⟩
      · subst hx; exact ⟨m', rfl⟩
      · subst hx
        obtain ⟨m', hm'⟩ := finish_stale s' hs
        exact ⟨m', by simp [stepOut, withRest, hm']⟩
    | panic m => exact absurd hrel id
    | unrep m => trivial


theorem rel_simple (s : Newick.PSt) (tok : Newick.Tok) (lit pos rest : List Char) (hm : s.mode = .iter) (hn : s.nonfinite = false)
    (h1 : tok ≠ .eof) (h2 : tok ≠ .openbrack) (h3 : tok ≠ .startlen) :
    StepRel (Newick.stepIter s tok lit) (Gotree.Newick.iter myCodec (conv s) (ct tok) lit pos rest) pos rest := by
  cases tok with
  | eof => exact absurd rfl h1
  | openbrack => exact absurd rfl h2
  | startlen => exact absurd rfl h3
  | ws => exact rel_ws s lit pos rest hm hn
  | ident => exact rel_ident s lit pos rest hm hn
  | numeric => exact rel_numeric s lit pos rest hm hn
  | openpar => exact rel_openpar s lit pos rest hm hn
  | closepar => exact rel_closepar s lit pos rest hm hn
  | closebrack => exact rel_closebrack s lit pos rest
  | newsibling => exact rel_newsibling s lit pos rest hm hn
  | eot => exact rel_eot s lit pos rest hn

theorem scanIW_eof_rest (cs : List Char) (h : (Newick.scanIW cs).tok = .eof) : (Newick.scanIW cs).rest = [] := by
  have key : ∀ l : List Char, (Newick.scan false l).tok = .eof → (Newick.scan false l).rest = [] := by
    intro l hl
    cases l with
    | nil => rfl
    | cons c r =>
      exfalso
      simp only [Newick.scan, Newick.identOf] at hl
      repeat' split at hl
      all_goals simp at hl
  unfold Newick.scanIW at h ⊢
  by_cases hw : (Newick.scan false cs).tok = .ws
  · simp only [hw, if_true] at h ⊢; exact key _ h
  · simp only [hw, if_false] at h ⊢; exact key _ h

/-- only `;` makes C01's `iter` stop with `ok` before the end of the input, and then `pos` is the place of that `;` -/
theorem iter_ok_tok (st : Gotree.Newick.PState) (tok : Gotree.Newick.Tok) (lit pos rest : List Char) (ps : Gotree.Newick.PState) (p : List Char)
    (h : Gotree.Newick.iter myCodec st tok lit pos rest = .stop (.ok (ps, p))) : (tok = .eot ∧ p = pos) ∨ tok = .eof := by
  unfold Gotree.Newick.iter at h
  split at h
  all_goals (try simp only [] at h)
  all_goals repeat' split at h
  all_goals first
    | (cases h; done)
    | (cases h; exact Or.inl ⟨rfl, rfl⟩)
    | (cases h; exact Or.inr rfl)


theorem iter_eof (st : Gotree.Newick.PState) (lit pos rest : List Char) :
    Gotree.Newick.iter myCodec st .eof lit pos rest =
      if st.stale then .stop (.err "strconv.ParseFloat: invalid syntax")
      else .stop (.ok ({ st with prevTok := some .eof }, rest)) := by
  unfold Gotree.Newick.iter; rfl

theorem post_eof (ps : Gotree.Newick.PState) : ∃ m, post (.ok (ps, [])) = .err m := by
  unfold post
  simp only
  split
  · exact ⟨_, rfl⟩
  · have : (Gotree.Newick.scanIW myCodec []).1 = .eof := rfl
    simp [this]

theorem contRun_eq_stepOut (x : Newick.Step) (r : List Char) (h : ∀ s', x ≠ .finished s') : contRun x r = stepOut x r := by
  cases x with
  | cont s' => rfl
  | fail m => rfl
  | finished s' => exact absurd rfl (h s')

theorem stepAfterColon_not_finished (s : Newick.PSt) (tok : Newick.Tok) (lit : List Char) (s' : Newick.PSt) :
    Newick.stepAfterColon s tok lit ≠ .finished s' := by
  unfold Newick.stepAfterColon
  simp only
  repeat' split
  all_goals simp

theorem sim_step (cs : List Char) (s : Newick.PSt) (hm : s.mode = .iter) (hn : s.nonfinite = false)
    (ih : ∀ r : List Char, r.length < cs.length → ∀ s' : Newick.PSt, s'.mode = .iter → s'.nonfinite = false →
            RelOut (post (Gotree.Newick.run myCodec (conv s') r)) (Newick.run s' r)) :
    RelOut (post (Gotree.Newick.run myCodec (conv s) cs)) (Newick.run s cs) := by
  rw [c01_run_eq, run_iter s hm cs]
  simp only [scanIW_eq]
  by_cases he : (Newick.scanIW cs).tok = .eof
  · -- end of the input
    simp only [he, if_true, ct, iter_eof]
    have hr := scanIW_eof_rest cs he
    rw [hr]
    have hat : ∃ m, Newick.atEOF s = .err m := by simp [Newick.atEOF, hm]
    obtain ⟨m, hm'⟩ := hat
    rw [hm']
    split
    · exact ⟨m, rfl⟩
    · obtain ⟨m2, h2⟩ := post_eof { conv s with prevTok := some .eof }
      simp only [theirsNext]
      rw [h2]; exact ⟨m, rfl⟩
  · simp only [he, if_false]
    have hlt : (Newick.scanIW cs).rest.length < cs.length := Newick.scanIW_rest_lt cs he
    by_cases hb : (Newick.scanIW cs).tok = .openbrack
    · -- a comment
      simp only [hb, ct, iter_openbrack]
      have hst : Newick.stepIter s .openbrack (Newick.scanIW cs).lit = .cont { s with mode := .comment [] } := rfl
      rw [hst]
      simp only [stepOut]
      rw [run_comment (Newick.scanIW cs).rest [] _ rfl]
      cases hc : Gotree.Newick.consumeComment myCodec (Newick.scanIW cs).rest [] with
      | none => exact ⟨_, rfl⟩
      | some p =>
        obtain ⟨c, r2⟩ := p
        simp only
        rw [closeComment_mode, contRun_eq_stepOut _ _ (fun s' => Newick.closeComment_not_finished)]
        have hr2 : r2.length ≤ (Newick.scanIW cs).rest.length :=
          Gotree.Newick.consumeComment_le myCodec _ _ _ c r2 (Nat.le_refl _) hc
        apply sim_of_rel _ _ (Gotree.Newick.skipWs myCodec cs) r2 (rel_closeComment s c _ r2 hn)
        · intro ps p h
          rw [afterComment_core] at h
          unfold coreC01 at h
          repeat' split at h
          all_goals cases h
        · intro s' hm' hn'
          exact ih r2 (by omega) s' hm' hn'
    · by_cases hcol : (Newick.scanIW cs).tok = .startlen
      · -- a length
        simp only [hcol, ct, iter_startlen]
        have hst : Newick.stepIter s .startlen (Newick.scanIW cs).lit = .cont { s with mode := .afterColon } := rfl
        rw [hst]
        simp only [stepOut]
        rw [run_afterColon _ rfl]
        simp only [scanIW_eq]
        have hsc : ∀ (t : Newick.Tok) (l : List Char), Newick.stepAfterColon { s with mode := .afterColon } t l = Newick.stepAfterColon s t l := fun _ _ => rfl
        rw [hsc]
        by_cases he2 : (Newick.scanIW (Newick.scanIW cs).rest).tok = .eof
        · simp only [he2, if_true, ct]
          unfold afterColonC01
          simp [theirsNext, post, RelOut]
        · simp only [he2, if_false]
          have hlt2 := Newick.scanIW_rest_lt _ he2
          apply sim_of_rel _ _ (Gotree.Newick.skipWs myCodec cs) _ (rel_afterColon s _ _ _ _ hn)
          · intro ps p h
            unfold afterColonC01 at h
            repeat' split at h
            all_goals cases h
          · intro s' hm' hn'
            exact ih _ (by omega) s' hm' hn'
      · -- every other token
        apply sim_of_rel _ _ (Gotree.Newick.skipWs myCodec cs) _ (rel_simple s _ _ _ _ hm hn he hb hcol)
        · intro ps p h
          rcases iter_ok_tok _ _ _ _ _ _ _ h with ⟨h1, h2⟩ | h1
          · subst h2
            -- the `;` is still the next token at `pos`
            have hs : (Gotree.Newick.scanIW myCodec cs).1 = .eot := by rw [scanIW_eq]; exact h1
            rw [OnC01.scanIW_skipWs myCodec cs (by rw [hs]; decide)]
            exact ⟨hs, by rw [scanIW_eq]⟩
          · exact absurd (ct_inj (h1.trans rfl : ct (Newick.scanIW cs).tok = ct .eof)) he
        · intro s' hm' hn'
          exact ih _ hlt s' hm' hn'
/-- the loops agree: from corresponding states, on every input -/
theorem run_sim_le : ∀ (n : Nat) (cs : List Char), cs.length ≤ n → ∀ (s : Newick.PSt), s.mode = .iter → s.nonfinite = false →
    RelOut (post (Gotree.Newick.run myCodec (conv s) cs)) (Newick.run s cs) := by
  intro n
  induction n with
  | zero =>
    intro cs hc s hm hn
    exact sim_step cs s hm hn (fun r hr => by omega)
  | succ k ih =>
    intro cs hc s hm hn
    exact sim_step cs s hm hn (fun r hr s' hm' hn' => ih r (by omega) s' hm' hn')

theorem run_sim (cs : List Char) (s : Newick.PSt) (hm : s.mode = .iter) (hn : s.nonfinite = false) :
    RelOut (post (Gotree.Newick.run myCodec (conv s) cs)) (Newick.run s cs) :=
  run_sim_le cs.length cs (Nat.le_refl _) s hm hn


theorem c01_run_skipWs (st : Gotree.Newick.PState) (inp : List Char) (h : (Gotree.Newick.scanIW myCodec inp).1 ≠ .ws) :
    Gotree.Newick.run myCodec st (Gotree.Newick.skipWs myCodec inp) = Gotree.Newick.run myCodec st inp := by
  rw [c01_run_eq st (Gotree.Newick.skipWs myCodec inp), c01_run_eq st inp,
      OnC01.scanIW_skipWs myCodec inp h, OnC01.skipWs_idem myCodec inp h]

theorem run_noncomment (s : Newick.PSt) (hm : Newick.inComment s.mode = false) (cs : List Char) :
    Newick.run s cs =
      if (Newick.scanIW cs).tok = .eof then Newick.atEOF s
      else stepOut (Newick.stepTok s (Newick.scanIW cs).tok (Newick.scanIW cs).lit) (Newick.scanIW cs).rest := by
  rw [Newick.run]
  simp only [hm, Bool.false_eq_true, if_false]
  by_cases h : (Newick.scanIW cs).tok = .eof
  · simp [h]
  · simp only [h, dite_false, if_false]
    cases Newick.stepTok s (Newick.scanIW cs).tok (Newick.scanIW cs).lit with
    | cont s' => rfl
    | fail m => rfl
    | finished s' => simp only [stepOut, withRest]; cases Newick.finish s' <;> rfl

/-- the state in which `parseIter` starts -/
def sIter : Newick.PSt := { mode := .iter }

/-- what C01's `parse` does once the place `inp1` of the first `(` is known -/
def tailC01 (inp1 : List Char) : Gotree.Newick.Outcome (T × List Char) :=
  if (Gotree.Newick.scanIW myCodec inp1).1 ≠ .openpar then .err "found …, expected ("
  else post (Gotree.Newick.run myCodec {} (Gotree.Newick.skipWs myCodec inp1))

/-- `Parse` from the token that must be `(` (after the optional leading comment) -/
theorem sim_from_open (cs : List Char) (s0 : Newick.PSt) (h0 : s0 = {} ∨ s0 = { mode := .start2 })
    (hnb : s0 = {} → (Newick.scanIW cs).tok ≠ .openbrack) :
    RelOut (tailC01 cs) (Newick.run s0 cs) := by
  have hm0 : Newick.inComment s0.mode = false := by rcases h0 with h | h <;> subst h <;> rfl
  rw [run_noncomment s0 hm0 cs]
  unfold tailC01
  rw [scanIW_eq]
  simp only
  by_cases he : (Newick.scanIW cs).tok = .eof
  · simp only [he, if_true, ct]
    have : ∃ m, Newick.atEOF s0 = .err m := by rcases h0 with h | h <;> subst h <;> exact ⟨_, rfl⟩
    simpa [RelOut] using this
  · simp only [he, if_false]
    by_cases hop : (Newick.scanIW cs).tok = .openpar
    · have h1 : ¬ (ct (Newick.scanIW cs).tok ≠ Gotree.Newick.Tok.openpar) := by rw [hop]; simp [ct]
      simp only [h1, if_false]
      have hws : (Gotree.Newick.scanIW myCodec cs).1 ≠ .ws := by rw [scanIW_eq, hop]; simp [ct]
      rw [c01_run_skipWs _ cs hws]
      have hst : Newick.stepTok s0 (Newick.scanIW cs).tok (Newick.scanIW cs).lit =
          Newick.stepIter sIter (Newick.scanIW cs).tok (Newick.scanIW cs).lit := by
        rw [hop]; rcases h0 with h | h <;> subst h <;> rfl
      rw [hst]
      have hrun := run_iter sIter rfl cs
      simp only [he, if_false] at hrun
      rw [← hrun]
      exact run_sim cs sIter rfl rfl
    · have h1 : ct (Newick.scanIW cs).tok ≠ Gotree.Newick.Tok.openpar := fun h => hop (ct_inj (h.trans rfl))
      simp only [h1, ne_eq, not_false_eq_true, if_true]
      have : ∃ m, Newick.stepTok s0 (Newick.scanIW cs).tok (Newick.scanIW cs).lit = .fail m := by
        rcases h0 with h | h
        · have hb := hnb h
          subst h
          simp [Newick.stepTok, hb, hop]
        · subst h
          simp [Newick.stepTok, hop]
      obtain ⟨m, hm⟩ := this
      rw [hm]
      exact ⟨m, rfl⟩

theorem tail_eq (inp1 : List Char) :
    (if (Gotree.Newick.scanIW myCodec inp1).1 ≠ .openpar then (Gotree.Newick.Outcome.err "found …, expected (" : Gotree.Newick.Outcome (T × List Char))
     else
      match Gotree.Newick.run myCodec {} (Gotree.Newick.skipWs myCodec inp1) with
      | .err m => .err m
      | .panic m => .panic m
      | .unrep m => .unrep m
      | .ok (st, rest) =>
        if st.level != 0 then .err "mismatched parenthesis after parsing"
        else if (Gotree.Newick.scanIW myCodec rest).1 ≠ .eot then .err "found …, expected ;"
        else match st.result with
          | none => .panic "nil root in Tips()"
          | some t => .ok (Gotree.Newick.trimTips t, (Gotree.Newick.scanIW myCodec rest).2.2)) = tailC01 inp1 := by
  unfold tailC01 post
  split
  · rfl
  · cases Gotree.Newick.run myCodec {} (Gotree.Newick.skipWs myCodec inp1) with
    | ok a => obtain ⟨st, rest⟩ := a; rfl
    | err m => rfl
    | panic m => rfl
    | unrep m => rfl

theorem c01_parse_eq (inp : List Char) :
    Gotree.Newick.parseR myCodec inp =
      if (Gotree.Newick.scanIW myCodec inp).1 = .openbrack then
        match Gotree.Newick.consumeComment myCodec (Gotree.Newick.scanIW myCodec inp).2.2 [] with
        | none => .err "unmatched bracket"
        | some (_, r) => tailC01 r
      else tailC01 inp := by
  unfold Gotree.Newick.parseR
  simp only
  by_cases hb : (Gotree.Newick.scanIW myCodec inp).1 = .openbrack
  · simp only [hb, if_true]
    cases hc : Gotree.Newick.consumeComment myCodec (Gotree.Newick.scanIW myCodec inp).2.2 [] with
    | none => rfl
    | some p =>
      obtain ⟨c, r⟩ := p
      exact tail_eq r
  · simp only [hb, if_false]
    exact tail_eq inp

/-- ★ the two Newick models agree on every input: same outcome class and same delivered tree, wherever
    C01's model does not give up on a non-finite number -/
theorem parseR_agree (cs : List Char) : RelOut (Gotree.Newick.parseR myCodec cs) (Newick.parseChars cs) := by
  rw [c01_parse_eq]
  unfold Newick.parseChars
  rw [scanIW_eq]
  simp only
  by_cases hb : (Newick.scanIW cs).tok = .openbrack
  · simp only [hb, ct, if_true]
    have hne : (Newick.scanIW cs).tok ≠ .eof := by rw [hb]; decide
    rw [run_noncomment {} rfl cs]
    simp only [hne, if_false]
    have hst : Newick.stepTok {} (Newick.scanIW cs).tok (Newick.scanIW cs).lit = .cont { mode := .startComment } := by
      rw [hb]; rfl
    rw [hst]
    simp only [stepOut]
    rw [run_startComment (Newick.scanIW cs).rest [] _ rfl]
    cases hc : Gotree.Newick.consumeComment myCodec (Newick.scanIW cs).rest [] with
    | none => exact ⟨_, rfl⟩
    | some p =>
      obtain ⟨c, r⟩ := p
      simp only
      exact sim_from_open r { mode := .start2 } (Or.inr rfl) (fun h => by cases h)
  · have : ct (Newick.scanIW cs).tok ≠ Gotree.Newick.Tok.openbrack := fun h => hb (ct_inj (h.trans rfl))
    simp only [this, if_false]
    exact sim_from_open cs {} (Or.inl rfl) (fun _ => hb)

/-- `parse` is `parseR` without the rest -/
theorem c01_parse_of_parseR (C : Gotree.Newick.Codec) (inp : List Char) :
    Gotree.Newick.parse C inp =
      match Gotree.Newick.parseR C inp with
      | .ok (t, _) => .ok t
      | .err m => .err m
      | .panic m => .panic m
      | .unrep m => .unrep m := by
  unfold Gotree.Newick.parse Gotree.Newick.parseR
  simp only
  split
  · rfl
  · split
    · rfl
    · split
      · rfl
      · rfl
      · rfl
      · split
        · rfl
        · split
          · rfl
          · split <;> rfl

/-- agreement of `parse` (no rest) with C02's model -/
def RelOutT (theirs : Gotree.Newick.Outcome T) (mine : Res Newick.Parsed) : Prop :=
  match theirs with
  | .ok t => ∃ r, mine = .ok ⟨t, false, r⟩
  | .err _ => ∃ m, mine = .err m
  | .panic _ => ∃ m, mine = .panic m
  | .unrep _ => True

theorem parse_agree (cs : List Char) : RelOutT (Gotree.Newick.parse myCodec cs) (Newick.parseChars cs) := by
  rw [c01_parse_of_parseR]
  have h := parseR_agree cs
  cases hp : Gotree.Newick.parseR myCodec cs with
  | ok a => obtain ⟨t, r⟩ := a; rw [hp] at h; exact ⟨r, h⟩
  | err m => rw [hp] at h; exact h
  | panic m => rw [hp] at h; exact h
  | unrep m => trivial

end Gotree.C02.NewickEq
