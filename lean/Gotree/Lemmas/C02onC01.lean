/-
  C02 — the Newick model of C01 (`Gotree.Newick`, Model/C01.lean) never panics: its only `panic` is the nil
  root dereferenced by `newtree.Tips()` at the end of `Parse`, and a root exists whenever `parseIter`
  returns normally after a first `(`.
-/
import Gotree.Model.C01
namespace Gotree.C02.OnC01
open Gotree Gotree.Newick

/-- `t.Root()` is not nil -/
def Rooted (st : PState) : Prop := st.stack ≠ [] ∨ st.done.isSome = true

theorem unwind_isSome : ∀ (s : List Frame) (acc : Option (EdgeD × T)), (s ≠ [] ∨ acc.isSome = true) → (PState.unwind s acc).isSome = true
  | [], acc, h => by
    rcases h with h | h
    · exact absurd rfl h
    · unfold PState.unwind; cases acc <;> simp_all
  | f :: rest, acc, _ => by
    unfold PState.unwind
    exact unwind_isSome rest _ (Or.inr rfl)

theorem result_isSome (st : PState) (h : Rooted st) : st.result.isSome = true := by
  unfold PState.result
  split
  · rename_i hs; rcases h with h | h
    · exact absurd hs h
    · exact h
  · rename_i s hs; exact unwind_isSome _ none (Or.inl (by intro h'; exact hs h'))

theorem rooted_modTop (st : PState) (f : Frame → Frame) (h : Rooted st) : Rooted (st.modTop f) := by
  unfold PState.modTop
  split
  · exact h
  · simp [Rooted]

theorem rooted_pop (st st' : PState) (h : st.pop = some st') : Rooted st' := by
  unfold PState.pop at h
  split at h
  · cases h
  · cases h; simp [Rooted]
  · cases h; simp [Rooted]

theorem rooted_pushChild (st : PState) (n : String) : Rooted (st.pushChild n) := by simp [Rooted, PState.pushChild]
theorem rooted_pushRoot (st : PState) : Rooted st.pushRoot := by simp [Rooted, PState.pushRoot]

theorem rooted_congr {st st' : PState} (h1 : st'.stack = st.stack) (h2 : st'.done = st.done) (h : Rooted st) : Rooted st' := by
  unfold Rooted at *; rw [h1, h2]; exact h

theorem iter_rooted (C : Codec) (st : PState) (tok : Tok) (lit pos rest : List Char)
    (hr : Rooted st ∨ tok = .openpar) :
    (∀ st' r, iter C st tok lit pos rest = .cont st' r → Rooted st') ∧
    (∀ st' r, iter C st tok lit pos rest = .stop (.ok (st', r)) → Rooted st') := by
  constructor
  all_goals
    intro st' r h
    unfold iter at h
    split at h
    all_goals (try simp only [] at h)
    all_goals repeat' split at h
    all_goals first
      | (cases h; done)
      | skip
  all_goals first
    | (cases h; exact rooted_congr rfl rfl (rooted_pushRoot _))
    | (cases h; exact rooted_congr rfl rfl (rooted_pushChild _ _))
    | (cases h; rename_i hp; exact rooted_congr rfl rfl (rooted_pop _ _ hp))
    | (cases h; exact rooted_congr rfl rfl (hr.resolve_right (by decide)))
    | (cases h; exact hr.resolve_right (by decide))
    | (cases h; exact rooted_congr rfl rfl (rooted_modTop _ _ (rooted_congr rfl rfl (hr.resolve_right (by decide)))))
    | (cases h; exact rooted_congr rfl rfl (rooted_modTop _ _ (rooted_modTop _ _ (hr.resolve_right (by decide)))))
    | (cases h; exact rooted_modTop _ _ (rooted_congr rfl rfl (hr.resolve_right (by decide))))
    | (cases h; exact rooted_modTop _ _ (hr.resolve_right (by decide)))
    | (cases h; exact rooted_congr (st := st.pushRoot) rfl rfl (rooted_pushRoot _))
    | (cases h; rename_i s2 hp; exact rooted_congr (st := s2) rfl rfl (rooted_pop _ _ hp))

/-- the loop of `parseIter`: if it returns normally, a root has been set — provided the state already has
    one or the first token is `(` -/
theorem run_rooted (C : Codec) (st : PState) (inp : List Char) (hr : Rooted st ∨ (scanIW C inp).1 = .openpar)
    (st' : PState) (r : List Char) (h : run C st inp = .ok (st', r)) : Rooted st' := by
  fun_induction run C st inp
  case case1 st inp o hi =>
    subst h
    exact (iter_rooted C st _ _ _ _ hr).2 st' r hi
  case case2 st inp st2 r2 hi he => cases h
  case case3 st inp st2 r2 hi he ih =>
    exact ih (Or.inl ((iter_rooted C st _ _ _ _ hr).1 st2 r2 hi)) h

theorem skipWs_idem (C : Codec) (inp : List Char) (h : (scanIW C inp).1 ≠ .ws) : skipWs C (skipWs C inp) = skipWs C inp := by
  have h' : ¬ (scan C false (skipWs C inp)).1 = .ws := h
  generalize hy : skipWs C inp = y at h'
  unfold skipWs
  rw [if_neg h']

theorem scanIW_skipWs (C : Codec) (inp : List Char) (h : (scanIW C inp).1 ≠ .ws) : scanIW C (skipWs C inp) = scanIW C inp := by
  unfold scanIW
  rw [skipWs_idem C inp h]

theorem iter_stop_not_panic (C : Codec) (st : PState) (tok : Tok) (lit pos rest : List Char) (m : String) :
    iter C st tok lit pos rest ≠ .stop (.panic m) := by
  intro h
  unfold iter at h
  split at h
  all_goals (try simp only [] at h)
  all_goals repeat' split at h
  all_goals cases h

theorem run_no_panic (C : Codec) (st : PState) (inp : List Char) (m : String) : run C st inp ≠ .panic m := by
  fun_induction run C st inp
  case case1 st inp o hi => intro h; subst h; exact iter_stop_not_panic C st _ _ _ _ m hi
  case case2 st inp st2 r2 hi he => simp
  case case3 st inp st2 r2 hi he ih => exact ih

/-- ★ on the Newick model of C01 (`Gotree.Newick.parse`, any codec): `Parse` never panics -/
theorem parse_no_panic (C : Codec) (inp : List Char) (m : String) : parse C inp ≠ .panic m := by
  unfold parse
  simp only
  split
  · simp
  · rename_i inp1 hs
    split
    · simp
    · rename_i hop
      have hop' : (scanIW C inp1).1 = .openpar := by
        cases hh : (scanIW C inp1).1 <;> simp_all
      split
      · simp
      · -- run itself has no panic outcome … it could in principle: handled by run_no_panic below
        rename_i m' hrun
        exact absurd hrun (run_no_panic C _ _ m')
      · simp
      · rename_i st rest hrun
        split
        · simp
        · split
          · simp
          · have hroot : Rooted st := run_rooted C {} _ (Or.inr (by rw [scanIW_skipWs C inp1 (by rw [hop']; decide)]; exact hop')) st rest hrun
            have := result_isSome st hroot
            split
            · rename_i hres; rw [hres] at this; simp at this
            · simp
end Gotree.C02.OnC01
