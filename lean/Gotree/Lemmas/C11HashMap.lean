/-
  C11 — what `hashmap.HashMap` (Model/C11HashMap.lean) computes.

  `WF` is the representation invariant (one bucket per capacity unit, every entry in the bucket its hash
  code selects, no key twice, `total` = number of entries).  Under it no call panics, `Value` is the lookup
  in the association list `entries`, `PutValue` is the association-list update (rehash included), `Keys`
  has no nil cell; a list of `PutValue` calls leaves for every key the LAST value put, so two
  interleavings of goroutines that own disjoint keys leave maps that answer every `Value` alike.
-/
import Gotree.Model.C11HashMap

namespace Gotree.C11.HM

variable {κ ν : Type} [DecidableEq κ]

/-- the association list a map stands for -/
def entries (m : HMap κ ν) : List (κ × ν) := m.arr.flatten

def lookup (l : List (κ × ν)) (k : κ) : Option ν := (l.find? (fun kv => decide (k = kv.1))).map (·.2)

structure WF (hash : κ → Nat) (m : HMap κ ν) : Prop where
  len : m.arr.length = m.capacity
  cap : 1 ≤ m.capacity
  idx : ∀ i b, m.arr[i]? = some b → ∀ kv ∈ b, indexFor (hash kv.1) m.capacity = i
  nodup : ((entries m).map Prod.fst).Nodup
  tot : m.total = (entries m).length

theorem indexFor_lt (h cap : Nat) (hc : 1 ≤ cap) : indexFor h cap < cap := by
  have : h &&& (cap - 1) ≤ cap - 1 := Nat.and_le_right
  unfold indexFor; omega

/-! ### lists of buckets -/

theorem split_at {α : Type} {arr : List α} {i : Nat} {b : α} (h : arr[i]? = some b) :
    arr = arr.take i ++ b :: arr.drop (i + 1) ∧ ∀ b', arr.set i b' = arr.take i ++ b' :: arr.drop (i + 1) := by
  obtain ⟨hi, hb⟩ := List.getElem?_eq_some_iff.mp h
  constructor
  · have := List.take_append_drop i arr
    rw [← List.getElem_cons_drop hi, hb] at this
    exact this.symm
  · intro b'
    rw [List.set_eq_take_append_cons_drop, if_pos hi]

theorem flatten_set {α : Type} {arr : List (List α)} {i : Nat} {b : List α} (h : arr[i]? = some b) (b' : List α) :
    arr.flatten = (arr.take i).flatten ++ b ++ (arr.drop (i + 1)).flatten ∧
    (arr.set i b').flatten = (arr.take i).flatten ++ b' ++ (arr.drop (i + 1)).flatten := by
  obtain ⟨h1, h2⟩ := split_at h
  constructor
  · conv => lhs; rw [h1]
    simp [List.flatten_append]
  · rw [h2 b']; simp [List.flatten_append]

theorem getElem?_set_cases {α : Type} {arr : List α} {i j : Nat} {b b' c : α} (h : arr[i]? = some b)
    (hj : (arr.set i b')[j]? = some c) : (j = i ∧ c = b') ∨ (j ≠ i ∧ arr[j]? = some c) := by
  by_cases hji : j = i
  · subst hji
    have hi := (List.getElem?_eq_some_iff.mp h).1
    rw [List.getElem?_set_self hi] at hj
    exact Or.inl ⟨rfl, (Option.some.inj hj).symm⟩
  · rw [List.getElem?_set_ne (Ne.symm hji)] at hj
    exact Or.inr ⟨hji, hj⟩

/-- an entry of another bucket is found through `take`/`drop` -/
theorem mem_take_flatten {α : Type} {arr : List (List α)} {i : Nat} {x : α} (hx : x ∈ (arr.take i).flatten) :
    ∃ j b, j < i ∧ arr[j]? = some b ∧ x ∈ b := by
  obtain ⟨b, hb, hxb⟩ := List.mem_flatten.mp hx
  obtain ⟨j, hj, hjb⟩ := List.mem_iff_getElem.mp hb
  have hj' : j < i ∧ j < arr.length := by
    have := hj; simp only [List.length_take] at this; omega
  refine ⟨j, b, hj'.1, ?_, hxb⟩
  rw [List.getElem_take] at hjb
  rw [List.getElem?_eq_getElem hj'.2, hjb]

theorem mem_drop_flatten {α : Type} {arr : List (List α)} {i : Nat} {x : α} (hx : x ∈ (arr.drop (i + 1)).flatten) :
    ∃ j b, i < j ∧ arr[j]? = some b ∧ x ∈ b := by
  obtain ⟨b, hb, hxb⟩ := List.mem_flatten.mp hx
  obtain ⟨j, hj, hjb⟩ := List.mem_iff_getElem.mp hb
  have hj' : i + 1 + j < arr.length := by simp [List.length_drop] at hj; omega
  refine ⟨i + 1 + j, b, by omega, ?_, hxb⟩
  rw [List.getElem_drop] at hjb
  rw [List.getElem?_eq_getElem hj', hjb]

/-! ### lookup in association lists -/

theorem lookup_none_iff (l : List (κ × ν)) (k : κ) : lookup l k = none ↔ k ∉ l.map Prod.fst := by
  induction l with
  | nil => simp [lookup]
  | cons a r ih =>
    by_cases h : k = a.1
    · simp [lookup, List.find?_cons, h]
    · have : lookup (a :: r) k = lookup r k := by simp [lookup, List.find?_cons, h]
      rw [this, ih]; simp [h]

theorem lookup_some_iff (l : List (κ × ν)) (hn : (l.map Prod.fst).Nodup) (k : κ) (v : ν) :
    lookup l k = some v ↔ (k, v) ∈ l := by
  induction l with
  | nil => simp [lookup]
  | cons a r ih =>
    have hn' : a.1 ∉ r.map Prod.fst ∧ (r.map Prod.fst).Nodup := by simpa using hn
    by_cases h : k = a.1
    · have : lookup (a :: r) k = some a.2 := by simp [lookup, List.find?_cons, h]
      rw [this]
      constructor
      · intro hv
        have : a.2 = v := Option.some.inj hv
        subst this; subst h; simp
      · intro hm
        rcases List.mem_cons.mp hm with he | hr
        · rw [← he]
        · exfalso; apply hn'.1; subst h
          exact List.mem_map.mpr ⟨(a.1, v), hr, rfl⟩
    · have : lookup (a :: r) k = lookup r k := by simp [lookup, List.find?_cons, h]
      rw [this, ih hn'.2]
      constructor
      · intro hm; exact List.mem_cons_of_mem _ hm
      · intro hm
        rcases List.mem_cons.mp hm with he | hr
        · exfalso; apply h; rw [← he]
        · exact hr

theorem lookup_perm {l1 l2 : List (κ × ν)} (hp : l1.Perm l2) (hn : (l1.map Prod.fst).Nodup) (k : κ) :
    lookup l1 k = lookup l2 k := by
  have hn2 : (l2.map Prod.fst).Nodup := (hp.map Prod.fst).nodup_iff.mp hn
  cases h : lookup l1 k with
  | none =>
    have := (lookup_none_iff l1 k).mp h
    have h2 : k ∉ l2.map Prod.fst := fun hm => this ((hp.map Prod.fst).mem_iff.mpr hm)
    exact ((lookup_none_iff l2 k).mpr h2).symm
  | some v =>
    have := (lookup_some_iff l1 hn k v).mp h
    exact ((lookup_some_iff l2 hn2 k v).mpr (hp.mem_iff.mp this)).symm

theorem lookup_append (l1 l2 : List (κ × ν)) (k : κ) :
    lookup (l1 ++ l2) k = (lookup l1 k).or (lookup l2 k) := by
  simp only [lookup, List.find?_append]
  cases List.find? (fun kv => decide (k = kv.1)) l1 <;> simp

/-! ### `NewHashMap` -/

theorem flatten_replicate_nil {α : Type} (n : Nat) : (List.replicate n ([] : List α)).flatten = [] := by
  induction n with
  | zero => rfl
  | succ n ih => simp [List.replicate_succ, ih]

theorem new_wf (hash : κ → Nat) (size lfNum lfDen : Nat) : WF hash (new size lfNum lfDen : HMap κ ν) := by
  refine ⟨by simp [new], by simp only [new]; split <;> omega, ?_, ?_, ?_⟩
  · intro i b hb kv hkv
    simp only [new] at hb
    obtain ⟨_, hb'⟩ := List.getElem?_eq_some_iff.mp hb
    simp at hb'
    subst hb'; simp at hkv
  · simp [entries, new, flatten_replicate_nil]
  · simp [entries, new, flatten_replicate_nil]

theorem new_entries (size lfNum lfDen : Nat) : entries (new size lfNum lfDen : HMap κ ν) = [] := by
  simp [entries, new, flatten_replicate_nil]

/-! ### `Value` -/

theorem value_eq (hash : κ → Nat) (m : HMap κ ν) (hw : WF hash m) (k : κ) :
    value hash m k = .ok (lookup (entries m) k) := by
  have hi : indexFor (hash k) m.capacity < m.arr.length := by rw [hw.len]; exact indexFor_lt _ _ hw.cap
  unfold value
  rw [List.getElem?_eq_getElem hi]
  have hb : m.arr[indexFor (hash k) m.capacity]? = some m.arr[indexFor (hash k) m.capacity] := List.getElem?_eq_getElem hi
  obtain ⟨hf, _⟩ := flatten_set hb []
  simp only
  congr 1
  unfold entries
  rw [hf, lookup_append, lookup_append]
  have hP : lookup (m.arr.take (indexFor (hash k) m.capacity)).flatten k = none := by
    rw [lookup_none_iff]
    intro hm
    obtain ⟨kv, hkv, hk⟩ := List.mem_map.mp hm
    obtain ⟨j, b, hj, hjb, hx⟩ := mem_take_flatten hkv
    have := hw.idx j b hjb kv hx
    rw [hk] at this; omega
  have hQ : lookup (m.arr.drop (indexFor (hash k) m.capacity + 1)).flatten k = none := by
    rw [lookup_none_iff]
    intro hm
    obtain ⟨kv, hkv, hk⟩ := List.mem_map.mp hm
    obtain ⟨j, b, hj, hjb, hx⟩ := mem_drop_flatten hkv
    have := hw.idx j b hjb kv hx
    rw [hk] at this; omega
  rw [hP, hQ]
  simp [lookup]

/-! ### `rehash` -/

theorem putAt_flatten {arr : List (List (κ × ν))} {i : Nat} {b : List (κ × ν)} (h : arr[i]? = some b) (x : κ × ν) :
    (arr.set i (b ++ [x])).flatten.Perm (x :: arr.flatten) := by
  obtain ⟨h1, h2⟩ := flatten_set h (b ++ [x])
  rw [h1, h2]
  simp only [List.append_assoc]
  refine (List.perm_append_left_iff _).mpr ?_ |>.trans List.perm_middle
  refine (List.perm_append_left_iff _).mpr ?_ |>.trans List.perm_middle
  simp

theorem rehashLoop_spec (hash : κ → Nat) (n : Nat) (hn : 1 ≤ n) :
    ∀ (l : List (κ × ν)) (nm : List (List (κ × ν))), nm.length = n →
      (∀ i b, nm[i]? = some b → ∀ kv ∈ b, indexFor (hash kv.1) n = i) →
      ∃ nm', rehashLoop hash n l nm = some nm' ∧ nm'.length = n ∧
        (∀ i b, nm'[i]? = some b → ∀ kv ∈ b, indexFor (hash kv.1) n = i) ∧
        nm'.flatten.Perm (nm.flatten ++ l) := by
  intro l
  induction l with
  | nil => intro nm hl hi; exact ⟨nm, rfl, hl, hi, by simp⟩
  | cons kv r ih =>
    intro nm hl hi
    have hj : indexFor (hash kv.1) n < nm.length := by rw [hl]; exact indexFor_lt _ _ hn
    have hb : nm[indexFor (hash kv.1) n]? = some nm[indexFor (hash kv.1) n] := List.getElem?_eq_getElem hj
    have hput : putAt nm (indexFor (hash kv.1) n) kv = some (nm.set (indexFor (hash kv.1) n) (nm[indexFor (hash kv.1) n] ++ [kv])) := by
      simp [putAt, hb]
    obtain ⟨nm', h1, h2, h3, h4⟩ := ih (nm.set (indexFor (hash kv.1) n) (nm[indexFor (hash kv.1) n] ++ [kv]))
      (by simp [hl]) (by
        intro i b hib x hx
        rcases getElem?_set_cases hb hib with ⟨hji, hc⟩ | ⟨_, hold⟩
        · subst hc
          rcases List.mem_append.mp hx with hx | hx
          · rw [hji]; exact hi _ _ hb x hx
          · simp at hx; subst hx; exact hji.symm
        · exact hi i b hold x hx)
    refine ⟨nm', ?_, h2, h3, ?_⟩
    · simp only [rehashLoop, hput]; exact h1
    · refine h4.trans ?_
      refine ((putAt_flatten hb kv).append_right r).trans ?_
      simp only [List.cons_append]
      exact List.perm_middle.symm

/-- `rehash` keeps the invariant and the entries (as a multiset) -/
theorem rehash_spec (hash : κ → Nat) (m : HMap κ ν) (hw : WF hash m) :
    ∃ m', rehash hash m = .ok m' ∧ WF hash m' ∧ (entries m').Perm (entries m) := by
  unfold rehash
  split
  · obtain ⟨nm', h1, h2, h3, h4⟩ := rehashLoop_spec hash (m.capacity * 2) (by have := hw.cap; omega) m.arr.flatten
      (List.replicate (m.capacity * 2) []) (by simp) (by
        intro i b hb kv hkv
        obtain ⟨_, hb'⟩ := List.getElem?_eq_some_iff.mp hb
        simp at hb'
        subst hb'; simp at hkv)
    simp only [h1]
    have hp : nm'.flatten.Perm m.arr.flatten := by simpa [flatten_replicate_nil] using h4
    refine ⟨_, rfl, ⟨h2, by have := hw.cap; simp only; omega, h3, ?_, ?_⟩, hp⟩
    · exact ((hp.map Prod.fst).nodup_iff).mpr hw.nodup
    · simp only [entries]; rw [hp.length_eq]; exact hw.tot
  · exact ⟨m, rfl, hw, List.Perm.refl _⟩

/-! ### `PutValue` -/

theorem replaceFirst_none (k : κ) (v : ν) (b : List (κ × ν)) : replaceFirst k v b = none ↔ k ∉ b.map Prod.fst := by
  induction b with
  | nil => simp [replaceFirst]
  | cons a r ih =>
    by_cases h : k = a.1
    · simp [replaceFirst, h]
    · simp [replaceFirst, h, ih]

theorem replaceFirst_some (k : κ) (v : ν) (b b' : List (κ × ν)) (h : replaceFirst k v b = some b') :
    b'.map Prod.fst = b.map Prod.fst ∧ ∀ k', lookup b' k' = if k' = k then some v else lookup b k' := by
  induction b generalizing b' with
  | nil => simp [replaceFirst] at h
  | cons a r ih =>
    by_cases hk : k = a.1
    · simp [replaceFirst, hk] at h
      subst h
      refine ⟨by simp, ?_⟩
      intro k'
      by_cases hk' : k' = a.1
      · simp [lookup, List.find?_cons, hk', hk]
      · have : ¬ k' = k := by rw [hk]; exact hk'
        simp [lookup, List.find?_cons, hk', this]
    · simp only [replaceFirst, hk, if_false] at h
      cases hr : replaceFirst k v r with
      | none => simp [hr] at h
      | some r' =>
        simp [hr] at h
        subst h
        obtain ⟨i1, i2⟩ := ih r' hr
        refine ⟨by simp [i1], ?_⟩
        intro k'
        by_cases hk' : k' = a.1
        · subst hk'
          have hne : ¬ a.1 = k := fun e => hk e.symm
          simp [lookup, hne]
        · have e1 : lookup (a :: r') k' = lookup r' k' := by simp [lookup, List.find?_cons, hk']
          have e2 : lookup (a :: r) k' = lookup r k' := by simp [lookup, List.find?_cons, hk']
          rw [e1, e2, i2 k']

/-- the update a `PutValue` performs on the association list -/
def assocPut (l : List (κ × ν)) (k : κ) (v : ν) : κ → Option ν := fun k' => if k' = k then some v else lookup l k'

theorem putValue_spec (hash : κ → Nat) (m : HMap κ ν) (hw : WF hash m) (k : κ) (v : ν) :
    ∃ m', putValue hash m k v = .ok m' ∧ WF hash m' ∧
      (∀ k', lookup (entries m') k' = assocPut (entries m) k v k') ∧
      ((entries m').map Prod.fst).Perm
        (if k ∈ (entries m).map Prod.fst then (entries m).map Prod.fst else k :: (entries m).map Prod.fst) := by
  have hi : indexFor (hash k) m.capacity < m.arr.length := by rw [hw.len]; exact indexFor_lt _ _ hw.cap
  have hb : m.arr[indexFor (hash k) m.capacity]? = some m.arr[indexFor (hash k) m.capacity] := List.getElem?_eq_getElem hi
  generalize hbe : m.arr[indexFor (hash k) m.capacity] = b at hb
  -- the entries outside the bucket of `k` do not bear `k`
  have hP : k ∉ (m.arr.take (indexFor (hash k) m.capacity)).flatten.map Prod.fst := by
    intro hm
    obtain ⟨kv, hkv, hk⟩ := List.mem_map.mp hm
    obtain ⟨j, b, hj, hjb, hx⟩ := mem_take_flatten hkv
    have := hw.idx j b hjb kv hx
    rw [hk] at this; omega
  have hQ : k ∉ (m.arr.drop (indexFor (hash k) m.capacity + 1)).flatten.map Prod.fst := by
    intro hm
    obtain ⟨kv, hkv, hk⟩ := List.mem_map.mp hm
    obtain ⟨j, b, hj, hjb, hx⟩ := mem_drop_flatten hkv
    have := hw.idx j b hjb kv hx
    rw [hk] at this; omega
  -- the branch that appends (an empty bucket is the same branch with b = [])
  have happ : replaceFirst k v b = none →
      ∃ m', rehash hash { m with arr := m.arr.set (indexFor (hash k) m.capacity) (b ++ [(k, v)]), total := m.total + 1 } = .ok m' ∧
        WF hash m' ∧ (∀ k', lookup (entries m') k' = assocPut (entries m) k v k') ∧
        ((entries m').map Prod.fst).Perm
          (if k ∈ (entries m).map Prod.fst then (entries m).map Prod.fst else k :: (entries m).map Prod.fst) := by
    intro hnone
    have hkb : k ∉ b.map Prod.fst := (replaceFirst_none k v b).mp hnone
    obtain ⟨hf, hf'⟩ := flatten_set hb (b ++ [(k, v)])
    have hknot : k ∉ (entries m).map Prod.fst := by
      unfold entries; rw [hf]; simp only [List.map_append, List.mem_append]
      rintro ((h | h) | h)
      · exact hP h
      · exact hkb h
      · exact hQ h
    have hperm : (m.arr.set (indexFor (hash k) m.capacity) (b ++ [(k, v)])).flatten.Perm ((k, v) :: entries m) :=
      putAt_flatten hb (k, v)
    have hw1 : WF hash { m with arr := m.arr.set (indexFor (hash k) m.capacity) (b ++ [(k, v)]), total := m.total + 1 } := by
      refine ⟨by simp [hw.len], hw.cap, ?_, ?_, ?_⟩
      · intro i c hic x hx
        rcases getElem?_set_cases hb hic with ⟨hji, hc⟩ | ⟨_, hold⟩
        · subst hc
          rcases List.mem_append.mp hx with hx | hx
          · rw [hji]; exact hw.idx _ _ hb x hx
          · simp at hx; subst hx; exact hji.symm
        · exact hw.idx i c hold x hx
      · simp only [entries]
        refine ((hperm.map Prod.fst).nodup_iff).mpr ?_
        simp only [List.map_cons, List.nodup_cons]
        exact ⟨hknot, hw.nodup⟩
      · simp only [entries]; rw [hperm.length_eq]; simp [hw.tot, entries]
    obtain ⟨m', h1, h2, h3⟩ := rehash_spec hash _ hw1
    refine ⟨m', h1, h2, ?_, ?_⟩
    · intro k'
      rw [lookup_perm h3 h2.nodup k']
      simp only [entries]
      rw [lookup_perm hperm hw1.nodup k']
      by_cases hk' : k' = k
      · simp [assocPut, lookup, List.find?_cons, hk']
      · simp [assocPut, lookup, List.find?_cons, hk', entries]
    · rw [if_neg hknot]
      exact ((h3.map Prod.fst).trans (hperm.map Prod.fst))
  unfold putValue
  simp only [hb]
  split
  · rename_i hemp
    have hbnil : b = [] := by simpa using hemp
    subst hbnil
    simpa using happ (by simp [replaceFirst])
  · cases hr : replaceFirst k v b with
    | none => simpa using happ hr
    | some b' =>
      obtain ⟨hkeys, hlook⟩ := replaceFirst_some k v b b' hr
      obtain ⟨hf, hf'⟩ := flatten_set hb b'
      have hkin : k ∈ b.map Prod.fst := by
        by_cases h : k ∈ b.map Prod.fst
        · exact h
        · rw [(replaceFirst_none k v b).mpr h] at hr; cases hr
      have hkeysAll : (m.arr.set (indexFor (hash k) m.capacity) b').flatten.map Prod.fst = (entries m).map Prod.fst := by
        unfold entries; rw [hf, hf']; simp [hkeys]
      refine ⟨_, rfl, ⟨by simp [hw.len], hw.cap, ?_, ?_, ?_⟩, ?_, ?_⟩
      · intro i c hic x hx
        rcases getElem?_set_cases hb hic with ⟨hji, hc⟩ | ⟨_, hold⟩
        · subst hc
          have : x.1 ∈ b.map Prod.fst := by rw [← hkeys]; exact List.mem_map.mpr ⟨x, hx, rfl⟩
          obtain ⟨y, hy, hxy⟩ := List.mem_map.mp this
          rw [hji, ← hxy]; exact hw.idx _ _ hb y hy
        · exact hw.idx i c hold x hx
      · simp only [entries]; rw [hkeysAll]; exact hw.nodup
      · have : (m.arr.set (indexFor (hash k) m.capacity) b').flatten.length = (entries m).length := by
          have := congrArg List.length hkeysAll; simp only [List.length_map] at this; exact this
        simp only [entries]; rw [this]; exact hw.tot
      · intro k'
        simp only [entries]
        rw [hf', lookup_append, lookup_append, hlook k']
        unfold assocPut
        rw [hf, lookup_append, lookup_append]
        by_cases hk' : k' = k
        · subst hk'
          rw [(lookup_none_iff _ _).mpr hP]; simp
        · simp [hk']
      · have hkinAll : k ∈ (entries m).map Prod.fst := by
          unfold entries; rw [hf]; simp only [List.map_append, List.mem_append]
          exact Or.inl (Or.inr hkin)
        rw [if_pos hkinAll]
        simp only [entries] at hkeysAll ⊢
        rw [hkeysAll]

/-! ### `Keys`, `KeyValues` -/

theorem cells_eq (hash : κ → Nat) (m : HMap κ ν) (hw : WF hash m) : cells m = .ok ((entries m).map some) := by
  unfold cells
  have := hw.tot
  simp only [entries] at this ⊢
  rw [if_neg (by omega), this]; simp

theorem keys_eq (hash : κ → Nat) (m : HMap κ ν) (hw : WF hash m) : keys m = .ok ((entries m).map (fun kv => some kv.1)) := by
  unfold keys; rw [cells_eq hash m hw]; simp

/-! ### lists of `PutValue` calls -/

/-- the last value put for `k` -/
def lastPut : List (κ × ν) → κ → Option ν
  | [], _ => none
  | (k', v) :: r, k =>
    match lastPut r k with
    | some x => some x
    | none => if k = k' then some v else none

theorem lastPut_filter (ops : List (κ × ν)) (k : κ) : lastPut ops k = lastPut (ops.filter (fun o => decide (o.1 = k))) k := by
  induction ops with
  | nil => rfl
  | cons a r ih =>
    obtain ⟨k', v⟩ := a
    by_cases h : k' = k
    · have e : ((k', v) :: r).filter (fun o => decide (o.1 = k)) = (k', v) :: r.filter (fun o => decide (o.1 = k)) := by
        simp [List.filter_cons, h]
      rw [e]; simp only [lastPut]; rw [← ih]
    · have h' : ¬ k = k' := fun e => h e.symm
      have e : ((k', v) :: r).filter (fun o => decide (o.1 = k)) = r.filter (fun o => decide (o.1 = k)) := by
        simp [List.filter_cons, h]
      rw [e, ← ih]; simp only [lastPut, h', if_false]; cases lastPut r k <;> rfl

theorem putAll_spec (hash : κ → Nat) (ops : List (κ × ν)) :
    ∀ (m : HMap κ ν), WF hash m →
      ∃ m', putAll hash m ops = some m' ∧ WF hash m' ∧
        ∀ k, lookup (entries m') k = (lastPut ops k).or (lookup (entries m) k) := by
  induction ops with
  | nil => intro m hw; exact ⟨m, rfl, hw, by intro k; simp [lastPut]⟩
  | cons a r ih =>
    intro m hw
    obtain ⟨k1, v1⟩ := a
    obtain ⟨m1, h1, hw1, hl1, _⟩ := putValue_spec hash m hw k1 v1
    obtain ⟨m', h2, hw2, hl2⟩ := ih m1 hw1
    refine ⟨m', by simp only [putAll, h1]; exact h2, hw2, ?_⟩
    intro k
    rw [hl2 k, hl1 k]
    simp only [lastPut, assocPut]
    cases lastPut r k <;> by_cases hk : k = k1 <;> simp [hk]

end Gotree.C11.HM
