/-
  C13 — the decimal number codec `decCodec` (FormatFloat 'f' -1 on values with a finite decimal expansion,
  decimal ParseFloat) satisfies the law `parse (trim (fmt q)) = some q` on EVERY rational whose expansion
  ends within the printer's bound.
-/
import Gotree.Lemmas.C13
import Gotree.Model.C13Codec

namespace Gotree.C13
open Gotree

/-- the expansion of `rem/den` ends within `f` digits -/
def fracEnds : Nat → Nat → Nat → Bool
  | 0, rem, _ => rem == 0
  | f + 1, rem, den => rem == 0 || fracEnds f (rem * 10 % den) den

/-- the values the decimal codec represents: finite decimal expansion (within the printer's bound) -/
def decDom (q : Rat) : Bool := fracEnds 1100 (q.num.natAbs % q.den) q.den

theorem digitChar_facts : ∀ k : Nat, k < 10 →
    (Char.ofNat (48 + k)).isDigit = true ∧ (Char.ofNat (48 + k)).toNat - 48 = k := by decide

theorem digitsVal_eq (l : List Char) : digitsVal l = Nat.ofDigitChars 10 l 0 := rfl

theorem digitsVal_cons (c : Char) (r : List Char) : digitsVal (c :: r) = (c.toNat - 48) * 10 ^ r.length + digitsVal r := by
  rw [digitsVal_eq, digitsVal_eq, Nat.ofDigitChars_cons, Nat.ofDigitChars_eq_ofDigitChars_zero]
  simp [Nat.mul_comm]

theorem digitsVal_append (a b : List Char) : digitsVal (a ++ b) = digitsVal a * 10 ^ b.length + digitsVal b := by
  rw [digitsVal_eq, digitsVal_eq, digitsVal_eq, Nat.ofDigitChars_append, Nat.ofDigitChars_eq_ofDigitChars_zero]
  simp [Nat.mul_comm]

theorem fracDigits_spec (f rem den : Nat) (hlt : rem < den) (h : fracEnds f rem den = true) :
    (∀ c ∈ fracDigits f rem den, c.isDigit = true) ∧
    digitsVal (fracDigits f rem den) * den = rem * 10 ^ (fracDigits f rem den).length := by
  induction f generalizing rem with
  | zero =>
    simp only [fracEnds, beq_iff_eq] at h
    simp [fracDigits, h, digitsVal]
  | succ f ih =>
    by_cases h0 : rem = 0
    · simp [fracDigits, h0, digitsVal]
    · have hne : (rem == 0) = false := by simpa using h0
      simp only [fracEnds, hne, Bool.false_or] at h
      have hden : 0 < den := by omega
      have hlt' : rem * 10 % den < den := Nat.mod_lt _ hden
      obtain ⟨ih1, ih2⟩ := ih (rem * 10 % den) hlt' h
      have hk : rem * 10 / den < 10 := by
        apply Nat.div_lt_of_lt_mul
        calc rem * 10 < den * 10 := by omega
          _ = den * 10 := rfl
      obtain ⟨d1, d2⟩ := digitChar_facts (rem * 10 / den) hk
      simp only [fracDigits, hne, Bool.false_eq_true, if_false]
      constructor
      · intro c hc
        rcases List.mem_cons.1 hc with h1 | h1
        · rw [h1]; exact d1
        · exact ih1 c h1
      · rw [digitsVal_cons, d2, List.length_cons, Nat.add_mul, ih2]
        have hdm := Nat.div_add_mod (rem * 10) den
        generalize (fracDigits f (rem * 10 % den) den).length = L at *
        calc rem * 10 / den * 10 ^ L * den + rem * 10 % den * 10 ^ L
            = (den * (rem * 10 / den) + rem * 10 % den) * 10 ^ L := by
              rw [Nat.add_mul]; congr 1; rw [Nat.mul_comm den, Nat.mul_right_comm]
          _ = rem * 10 * 10 ^ L := by rw [hdm]
          _ = rem * 10 ^ (L + 1) := by rw [Nat.pow_succ, Nat.mul_assoc, Nat.mul_comm 10]

theorem span_loop_digits (ip rest acc : List Char) (h : ∀ c ∈ ip, c.isDigit = true)
    (hr : ∀ c r, rest = c :: r → c.isDigit = false) :
    List.span.loop Char.isDigit (ip ++ rest) acc = (acc.reverse ++ ip, rest) := by
  induction ip generalizing acc with
  | nil =>
    cases rest with
    | nil => simp [List.span.loop]
    | cons c r => simp [List.span.loop, hr c r rfl]
  | cons a ip ih =>
    have ha := h a (by simp)
    simp only [List.cons_append, List.span.loop, ha]
    rw [ih (a :: acc) (fun c hc => h c (by simp [hc]))]
    simp

theorem span_digits (ip rest : List Char) (h : ∀ c ∈ ip, c.isDigit = true)
    (hr : ∀ c r, rest = c :: r → c.isDigit = false) : (ip ++ rest).span Char.isDigit = (ip, rest) := by
  unfold List.span
  rw [span_loop_digits ip rest [] h hr]; simp

/-- the decimal parser on `[-] digits [. digits]` -/
theorem parseDec_plain (neg : Bool) (ip fp : List Char) (hip : ∀ c ∈ ip, c.isDigit = true) (hne : ip ≠ [])
    (hfp : ∀ c ∈ fp, c.isDigit = true) :
    parseDec ((if neg then ['-'] else []) ++ ip ++ (if fp.isEmpty then [] else '.' :: fp)) =
      some (if neg then -(((digitsVal (ip ++ fp) : Nat) : Rat) / ((10 ^ fp.length : Nat) : Rat))
            else ((digitsVal (ip ++ fp) : Nat) : Rat) / ((10 ^ fp.length : Nat) : Rat)) := by
  obtain ⟨c0, r0, hc0⟩ : ∃ c r, ip = c :: r := by
    cases ip with
    | nil => exact absurd rfl hne
    | cons c r => exact ⟨c, r, rfl⟩
  have hd0 : c0.isDigit = true := hip c0 (by rw [hc0]; simp)
  have hsplit : splitSign ((if neg then ['-'] else []) ++ ip ++ (if fp.isEmpty then [] else '.' :: fp)) =
      (neg, ip ++ (if fp.isEmpty then [] else '.' :: fp)) := by
    cases neg with
    | true => simp [splitSign]
    | false =>
      simp only [Bool.false_eq_true, if_false, List.nil_append, hc0, List.cons_append]
      unfold splitSign
      split
      · rename_i heq; injection heq with h1 _; rw [h1] at hd0; simp [Char.isDigit] at hd0
      · rename_i heq; injection heq with h1 _; rw [h1] at hd0; simp [Char.isDigit] at hd0
      · rfl
  have hdot : ('.' : Char).isDigit = false := by decide
  by_cases hfe : fp = []
  · subst hfe
    have hspan : (ip ++ ([] : List Char)).span Char.isDigit = (ip, []) := span_digits ip [] hip (by intro c r h; cases h)
    have hipe : ip.isEmpty = false := by rw [hc0]; rfl
    simp only [List.isEmpty_nil, if_true, List.append_nil] at hsplit hspan ⊢
    simp only [parseDec, hsplit, hspan, hipe, Bool.false_and, Bool.false_eq_true, if_false]
    simp
  · have hfe' : fp.isEmpty = false := by
      cases fp with
      | nil => exact absurd rfl hfe
      | cons _ _ => rfl
    have hspan : (ip ++ '.' :: fp).span Char.isDigit = (ip, '.' :: fp) :=
      span_digits ip ('.' :: fp) hip (by intro c r h; injection h with h1 _; rw [← h1]; exact hdot)
    have hspan2 : fp.span Char.isDigit = (fp, []) := by
      have := span_digits fp [] hfp (by intro c r h; cases h)
      simpa using this
    have hipe : ip.isEmpty = false := by rw [hc0]; rfl
    simp only [hfe', Bool.false_eq_true, if_false] at hsplit ⊢
    simp only [parseDec, hsplit, hspan, hspan2, hipe, Bool.false_and, Bool.false_eq_true, if_false]
    simp

theorem dropWhile_head_false {α} (p : α → Bool) (l : List α) (h : ∀ a r, l = a :: r → p a = false) :
    l.dropWhile p = l := by
  cases l with
  | nil => rfl
  | cons a r => simp [List.dropWhile_cons, h a r rfl]

theorem trim_id (s : Txt) (h : ∀ c ∈ s, (c == ' ' || c == '\t' || c == '\n' || c == '\r') = false) : Px.trim s = s := by
  unfold Px.trim
  simp only []
  rw [dropWhile_head_false _ s (fun a r e => h a (by rw [e]; simp))]
  rw [dropWhile_head_false _ s.reverse (fun a r e => h a (by
    have : a ∈ s.reverse := by rw [e]; simp
    simpa using this))]
  simp

theorem digit_not_ws {c : Char} (h : c.isDigit = true) : (c == ' ' || c == '\t' || c == '\n' || c == '\r') = false := by
  simp only [Char.isDigit, Bool.and_eq_true, decide_eq_true_eq, ge_iff_le] at h
  have h1 : '0'.val ≤ c.val := h.1
  simp only [Bool.or_eq_false_iff, beq_eq_false_iff_ne, ne_eq]
  refine ⟨⟨⟨?_, ?_⟩, ?_⟩, ?_⟩ <;> (intro hc; subst hc; revert h1; decide)

/-- the value side: `A / 10^k = n / d` when `A * d = n * 10^k` -/
theorem rat_of_scaled (A k n d : Nat) (hd : d ≠ 0) (h : A * d = n * 10 ^ k) :
    ((A : Nat) : Rat) / ((10 ^ k : Nat) : Rat) = Rat.divInt (n : Int) (d : Int) := by
  have h10 : ((10 ^ k : Nat) : Int) ≠ 0 := by
    have : 0 < 10 ^ k := Nat.pow_pos (by decide)
    omega
  have hd' : (d : Int) ≠ 0 := by omega
  have e : ((A : Nat) : Rat) / ((10 ^ k : Nat) : Rat) = Rat.divInt (A : Int) ((10 ^ k : Nat) : Int) := by
    rw [Rat.divInt_eq_div]; rfl
  rw [e, Rat.divInt_eq_divInt_iff h10 hd']
  have := congrArg (fun x : Nat => (x : Int)) h
  simpa using this

/-- THE LAW of the decimal codec, for every rational with a finite decimal expansion -/
theorem decCodec_parse_fmt (q : Rat) (h : decDom q = true) : parseDec (Px.trim (fmtRat q)) = some q := by
  have hden : q.den ≠ 0 := q.den_nz
  have hdpos : 0 < q.den := Nat.pos_of_ne_zero hden
  have hlt : q.num.natAbs % q.den < q.den := Nat.mod_lt _ hdpos
  obtain ⟨f1, f2⟩ := fracDigits_spec 1100 (q.num.natAbs % q.den) q.den hlt h
  have hip : ∀ c ∈ Nat.toDigits 10 (q.num.natAbs / q.den), c.isDigit = true :=
    fun c hc => Nat.isDigit_of_mem_toDigits (by decide) (by decide) hc
  have hipne : Nat.toDigits 10 (q.num.natAbs / q.den) ≠ [] := Nat.toDigits_ne_nil
  have hform : fmtRat q = (if decide (q.num < 0) then ['-'] else []) ++ Nat.toDigits 10 (q.num.natAbs / q.den) ++
      (if (fracDigits 1100 (q.num.natAbs % q.den) q.den).isEmpty then [] else
        '.' :: fracDigits 1100 (q.num.natAbs % q.den) q.den) := by
    simp [fmtRat]
  have htrim : Px.trim (fmtRat q) = fmtRat q := by
    apply trim_id
    intro c hc
    rw [hform] at hc
    simp only [List.mem_append] at hc
    rcases hc with (hc | hc) | hc
    · split at hc
      · simp at hc; subst hc; decide
      · simp at hc
    · exact digit_not_ws (hip c hc)
    · split at hc
      · simp at hc
      · rcases List.mem_cons.1 hc with h1 | h1
        · subst h1; decide
        · exact digit_not_ws (f1 c h1)
  rw [htrim, hform, parseDec_plain _ _ _ hip hipne f1]
  -- the value
  have hA : digitsVal (Nat.toDigits 10 (q.num.natAbs / q.den) ++ fracDigits 1100 (q.num.natAbs % q.den) q.den) * q.den =
      q.num.natAbs * 10 ^ (fracDigits 1100 (q.num.natAbs % q.den) q.den).length := by
    rw [digitsVal_append, Nat.add_mul, f2]
    have e1 : digitsVal (Nat.toDigits 10 (q.num.natAbs / q.den)) = q.num.natAbs / q.den := by
      rw [digitsVal_eq]; exact Nat.ofDigitChars_ten_toDigits
    rw [e1]
    have hdm := Nat.div_add_mod q.num.natAbs q.den
    generalize (fracDigits 1100 (q.num.natAbs % q.den) q.den).length = L
    calc q.num.natAbs / q.den * 10 ^ L * q.den + q.num.natAbs % q.den * 10 ^ L
        = (q.den * (q.num.natAbs / q.den) + q.num.natAbs % q.den) * 10 ^ L := by
          rw [Nat.add_mul]; congr 1; rw [Nat.mul_comm q.den, Nat.mul_right_comm]
      _ = q.num.natAbs * 10 ^ L := by rw [hdm]
  have hv := rat_of_scaled _ _ _ _ hden hA
  rw [hv]
  have hq := Rat.num_divInt_den q
  by_cases hneg : q.num < 0
  · have : ((q.num.natAbs : Nat) : Int) = -q.num := by omega
    simp only [hneg, decide_true, if_true, this]
    rw [Rat.neg_divInt, Int.neg_neg, hq]
  · have : ((q.num.natAbs : Nat) : Int) = q.num := by omega
    simp only [hneg, decide_false, Bool.false_eq_true, if_false, this]
    rw [hq]

/-- the decimal codec with its law on the whole domain -/
def decNumLaws : NumLaws decCodec where
  dom := decDom
  parse_fmt := decCodec_parse_fmt

end Gotree.C13
