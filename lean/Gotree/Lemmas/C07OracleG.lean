/-
  C07 — the collapse oracle holds of the model on EVERY tree whose root is not a tip, without
  `removeRoot` (single-child nodes allowed): protected branches that meet the criterion are the
  OPTIONAL part of the oracle, and the model keeps all of them.
-/
import Gotree.Lemmas.C07Oracle
import Gotree.Lemmas.C07Single

namespace Gotree.C07
open Gotree

theorem filterMap_split_perm {α γ : Type} (g m o : α → Option γ)
    (h : ∀ x, (g x).toList = (m x).toList ++ (o x).toList) :
    ∀ l : List α, (l.filterMap g).Perm (l.filterMap m ++ l.filterMap o)
  | [] => by simp
  | a :: r => by
    have ih := filterMap_split_perm g m o h r
    have ha := h a
    cases hg : g a <;> cases hm : m a <;> cases ho : o a <;> simp [hg, hm, ho] at ha
    · simpa [List.filterMap_cons, hg, hm, ho] using ih
    · subst ha
      simp only [List.filterMap_cons, hg, hm, ho]
      exact (ih.cons _).trans List.perm_middle.symm
    · subst ha
      simp only [List.filterMap_cons, hg, hm, ho, List.cons_append]
      exact ih.cons _

/-- tuple of an entry, with the protection flag -/
def Ent.tupP (e : Ent) : Tup × Bool := (e.tup, e.prot)
def obsTupP (x : Obs FB × Bool) : Tup × Bool := (obsTup x.1, x.2)

theorem entsT_tupP (all : List String) (c : T) :
    (entsT all c).map Ent.tupP = ((obsT (FF all) c).map (fun x => (x, false))).map obsTupP := by
  have h1 := entsT_tup all c
  have hp := entsT_prot all c
  rw [List.map_map]
  have : (entsT all c).map Ent.tupP = ((entsT all c).map Ent.tup).map (fun u => (u, false)) := by
    rw [List.map_map]
    apply List.map_congr_left
    intro e he
    simp [Ent.tupP, hp e he]
  rw [this, h1, List.map_map]
  rfl

theorem entsL_tupP (all : List String) (top pd : Bool) :
    ∀ k : Kids, (entsL all top false pd k).map Ent.tupP = (obsGL (FF all) pd k).map obsTupP
  | [] => by simp [entsL, obsGL]
  | (e, c) :: r => by
    have h1 := entsT_tupP all c
    have h2 := entsL_tupP all top pd r
    simp only [entsL, obsGL, List.map_cons, List.map_append, h1, h2]
    congr 1
    simp [Ent.tupP, Ent.tup, obsTupP, obsTup, FF, T.name]

theorem ents_tupP (all : List String) (t : T) (h1 : t.kids.length ≠ 1) :
    (ents all t).map Ent.tupP = (obsGRoot (FF all) t).map obsTupP := by
  unfold ents obsGRoot
  have : (t.kids.length == 1) = false := by simpa using h1
  rw [this]
  exact entsL_tupP all true _ t.kids

/-- OPTIONAL part on flagged tuples -/
def optT (crit : Crit) (u : Tup × Bool) : Option Key :=
  if !u.1.2.2.2.1 && holdsT crit u.1 && u.2 then some (keyT u.1) else none

theorem split_keepG (crit : Crit) (rt : Bool) (x : Obs FB × Bool) :
    ((keepG (critV crit) rt x).map (fun y => keyT (obsTup y.1))).toList =
      (mandT crit rt (obsTup x.1)).toList ++ (optT crit (obsTupP x)).toList := by
  obtain ⟨⟨fb, e, tip, d⟩, prot⟩ := x
  unfold keepG mandT optT obsTupP
  rw [holdsT_obsTup]
  cases hc : critV crit (fb, e, tip) <;> cases tip <;> cases prot <;> cases rt <;> simp [keyT, obsTup, zeroLen]

theorem collapseOK_of_obsG (crit : Crit) (rt : Bool) (b a : T)
    (hb1 : b.kids.length ≠ 1) (ha1 : a.kids.length ≠ 1)
    (htips : a.tipNames.Perm b.tipNames) (hname : a.d = b.d)
    (hobs : (obsGRoot (FF b.tipNames) a).Perm ((obsGRoot (FF b.tipNames) b).filterMap (keepG (critV crit) rt))) :
    collapseOK crit rt b a = true := by
  rw [collapseOK_eq]
  have hm : (ents b.tipNames b).filterMap (mandE crit rt) =
      (obsGRoot (FF b.tipNames) b).filterMap (fun x => mandT crit rt (obsTup x.1)) := by
    have h0 : (ents b.tipNames b).filterMap (mandE crit rt) =
        ((ents b.tipNames b).map Ent.tupP).filterMap (fun u => mandT crit rt u.1) := by
      have := mand_eq crit rt (ents b.tipNames b)
      unfold mandE
      rw [this, List.filterMap_map, List.filterMap_map]; rfl
    rw [h0, ents_tupP _ b hb1, List.filterMap_map]; rfl
  have ho : (ents b.tipNames b).filterMap (optE crit) =
      (obsGRoot (FF b.tipNames) b).filterMap (fun x => optT crit (obsTupP x)) := by
    have h0 : (ents b.tipNames b).filterMap (optE crit) =
        ((ents b.tipNames b).map Ent.tupP).filterMap (optT crit) := by
      rw [List.filterMap_map]
      congr 1
      funext e
      simp only [Function.comp, optE, optT, Ent.tupP, holds_tup]
      rfl
    rw [h0, ents_tupP _ b hb1, List.filterMap_map]; rfl
  have hkeys : (ents b.tipNames a).map Ent.key = (obsGRoot (FF b.tipNames) a).map (fun y => keyT (obsTup y.1)) := by
    have := ents_tupP b.tipNames a ha1
    have h2 : (ents b.tipNames a).map Ent.key = ((ents b.tipNames a).map Ent.tupP).map (fun u => keyT u.1) := by
      rw [List.map_map]; rfl
    rw [h2, this, List.map_map]; rfl
  rw [hm, ho, hkeys]
  have hperm : ((obsGRoot (FF b.tipNames) a).map (fun y => keyT (obsTup y.1))).Perm
      ((obsGRoot (FF b.tipNames) b).filterMap (fun x => mandT crit rt (obsTup x.1)) ++
       (obsGRoot (FF b.tipNames) b).filterMap (fun x => optT crit (obsTupP x))) := by
    refine (hobs.map _).trans ?_
    rw [List.map_filterMap]
    exact filterMap_split_perm _ _ _ (split_keepG crit rt) _
  have h3 := msub_append_of_perm _ _ _ hperm
  have h4 := msub_of_perm _ _ (mdiff_perm_append _ _ _ hperm)
  have h1 : (sortS a.tipNames == sortS b.tipNames) = true := by
    rw [sortS_perm_eq htips]; exact beq_self_eq_true _
  have h2 : (a.name == b.name) = true := by
    unfold T.name; rw [hname]; exact beq_self_eq_true _
  simp only [h1, h2, h3, h4, Bool.and_self]

end Gotree.C07
