package c14

// GenTables: the facts about the anchored source that the hand-written models of C14 silently
// assume, regenerated from the working tree on every run (go/parser only, no type checking) and
// written to lean/Gotree/Gen/C14Sites.lean.  Proofs/C14.lean re-decides them (`sitesCheck…`).
//
//   - constants and sentinels: DISTANCE_METRIC_* (position in their iota block), NIL_LENGTH, NIL_SUPPORT
//   - pathLengths: the initial weight, and per case of the `switch metric` which accessor of the branch
//     is read, which sentinel it is compared with and which literal replaces it; where a distance is written
//   - ToDistanceMatrix: the `less` of sort.Slice, the numbering of the tips, the arguments of the walk
//   - AvgDistanceMatrix: every write of the tree counter, the divisor, the comparisons
//   - CutEdgesMaxLength / cutEdgesMaxLengthRecur: every comparison with the threshold (operator
//     included, operands normalised so that the threshold is on the right), the tip tests
//   - TipBag.AddTip: its tests; TipBag.Tips: the sort it calls
//   - cmd/matrix.go, cmd/brlencut.go: the metric switch (spelling -> constant), flag names / short
//     names / defaults, format strings, the library functions called and their arguments
//
// Local variables and parameters are renamed by order of declaration (v0, v1, …) before an
// expression is printed, so that renaming a variable changes nothing; package-level names stay.

import (
	"bytes"
	"fmt"
	"go/ast"
	"go/parser"
	"go/printer"
	"go/token"
	"os"
	"path/filepath"
	"regexp"
	"sort"
	"strconv"
	"strings"
)

type c14fact struct {
	key  string
	vals []string
}

type c14ex struct {
	fset  *token.FileSet
	facts []c14fact
}

func (x *c14ex) add(key string, vals ...string) {
	if vals == nil {
		vals = []string{}
	}
	x.facts = append(x.facts, c14fact{key, vals})
}

var c14local = regexp.MustCompile(`\bL_\d+\b`)

// str prints a node on one line; the locals (renamed L_<k> by c14rename) are renumbered x0, x1, … by
// first occurrence inside the printed text, so that a fact does not depend on how many other locals exist
func (x *c14ex) raw(n ast.Node) string {
	var b bytes.Buffer
	printer.Fprint(&b, x.fset, n)
	return strings.Join(strings.Fields(b.String()), " ")
}

func (x *c14ex) str(n ast.Node) string { return x.strSeen(n, map[string]string{}) }

// strSeen: the same with a numbering shared by several prints (the leaves of one path condition)
func (x *c14ex) strSeen(n ast.Node, seen map[string]string) string {
	s := x.raw(n)
	return c14local.ReplaceAllStringFunc(s, func(m string) string {
		if _, ok := seen[m]; !ok {
			seen[m] = "x" + strconv.Itoa(len(seen))
		}
		return seen[m]
	})
}

func c14parse(x *c14ex, repo string, rel ...string) (*ast.File, error) {
	return parser.ParseFile(x.fset, filepath.Join(append([]string{repo}, rel...)...), nil, 0)
}

// c14func finds a function (recv == "" for a plain function) and renames its parameters and locals.
func c14func(f *ast.File, recv, name string) *ast.FuncDecl {
	for _, d := range f.Decls {
		fd, ok := d.(*ast.FuncDecl)
		if !ok || fd.Name.Name != name || fd.Body == nil {
			continue
		}
		r := ""
		if fd.Recv != nil && len(fd.Recv.List) == 1 {
			t := fd.Recv.List[0].Type
			if s, ok := t.(*ast.StarExpr); ok {
				t = s.X
			}
			if id, ok := t.(*ast.Ident); ok {
				r = id.Name
			}
		}
		if r == recv {
			c14rename(fd)
			return fd
		}
	}
	return nil
}

// c14rename renames every variable declared inside n (parameters, receiver, :=, var, range) to
// v<k>, k = rank of the position of its declaration.  Uses the parser's object resolution.
func c14rename(n ast.Node) {
	objs := map[*ast.Object]bool{}
	ast.Inspect(n, func(m ast.Node) bool {
		if id, ok := m.(*ast.Ident); ok && id.Obj != nil && id.Obj.Kind == ast.Var &&
			id.Obj.Pos() >= n.Pos() && id.Obj.Pos() < n.End() && id.Name != "_" {
			objs[id.Obj] = true
		}
		return true
	})
	var l []*ast.Object
	for o := range objs {
		l = append(l, o)
	}
	sort.Slice(l, func(i, j int) bool { return l[i].Pos() < l[j].Pos() })
	// parameters (receiver first, then arguments, then named results) keep a stable name p<k>
	params := map[token.Pos]bool{}
	var ft *ast.FuncType
	switch fn := n.(type) {
	case *ast.FuncDecl:
		ft = fn.Type
		if fn.Recv != nil {
			for _, f := range fn.Recv.List {
				for _, nm := range f.Names {
					params[nm.Pos()] = true
				}
			}
		}
	case *ast.FuncLit:
		ft = fn.Type
	}
	if ft != nil {
		for _, fl := range []*ast.FieldList{ft.Params, ft.Results} {
			if fl == nil {
				continue
			}
			for _, f := range fl.List {
				for _, nm := range f.Names {
					params[nm.Pos()] = true
				}
			}
		}
	}
	names := map[*ast.Object]string{}
	np := 0
	for i, o := range l {
		if params[o.Pos()] {
			names[o] = "p" + strconv.Itoa(np)
			np++
		} else {
			names[o] = "L_" + strconv.Itoa(i)
		}
	}
	ast.Inspect(n, func(m ast.Node) bool {
		if id, ok := m.(*ast.Ident); ok && id.Obj != nil {
			if nm, ok := names[id.Obj]; ok {
				id.Name = nm
			}
		}
		return true
	})
}

var c14mirror = map[token.Token]token.Token{token.LSS: token.GTR, token.GTR: token.LSS, token.LEQ: token.GEQ, token.GEQ: token.LEQ, token.EQL: token.EQL, token.NEQ: token.NEQ}

func c14isCmp(t token.Token) bool { _, ok := c14mirror[t]; return ok }

// comparisons of n in source order; those mentioning `right` are turned so that it is the right operand
func (x *c14ex) comparisons(n ast.Node, right string, only bool) []string {
	out := []string{}
	ast.Inspect(n, func(m ast.Node) bool {
		be, ok := m.(*ast.BinaryExpr)
		if !ok || !c14isCmp(be.Op) {
			return true
		}
		e := be
		if right != "" && x.raw(be.X) == right && x.raw(be.Y) != right {
			e = &ast.BinaryExpr{X: be.Y, Op: c14mirror[be.Op], Y: be.X}
		}
		if only && x.raw(e.Y) != right {
			return true
		}
		out = append(out, x.str(e))
		return true
	})
	return out
}

// calls of n whose printed function ends with one of the suffixes, as `fun(args)`
func (x *c14ex) calls(n ast.Node, suffixes ...string) []string {
	out := []string{}
	ast.Inspect(n, func(m ast.Node) bool {
		ce, ok := m.(*ast.CallExpr)
		if !ok {
			return true
		}
		fn := x.str(ce.Fun)
		for _, s := range suffixes {
			if fn == s || strings.HasSuffix(fn, "."+s) {
				out = append(out, x.str(ce))
				break
			}
		}
		return true
	})
	return out
}

func (x *c14ex) ifConds(n ast.Node) []string {
	out := []string{}
	ast.Inspect(n, func(m ast.Node) bool {
		if s, ok := m.(*ast.IfStmt); ok {
			c := x.str(s.Cond)
			if be, ok := s.Cond.(*ast.BinaryExpr); ok && be.Op == token.NEQ && x.str(be.Y) == "nil" {
				if _, ok := be.X.(*ast.Ident); ok {
					return true // `err != nil`: plumbing
				}
			}
			out = append(out, c)
		}
		return true
	})
	return out
}

// every statement that writes the variable printed as `name` (assignment, op-assignment, ++/--)
func (x *c14ex) writes(n ast.Node, name string) []string {
	out := []string{}
	ast.Inspect(n, func(m ast.Node) bool {
		switch s := m.(type) {
		case *ast.AssignStmt:
			for _, l := range s.Lhs {
				if ls := x.raw(l); ls == name || (strings.HasSuffix(name, "[") && strings.HasPrefix(ls, name)) {
					out = append(out, x.str(s))
				}
			}
		case *ast.IncDecStmt:
			if x.raw(s.X) == name {
				out = append(out, x.str(s))
			}
		}
		return true
	})
	return out
}

func (x *c14ex) formats(n ast.Node) []string {
	out := []string{}
	ast.Inspect(n, func(m ast.Node) bool {
		if bl, ok := m.(*ast.BasicLit); ok && bl.Kind == token.STRING && strings.Contains(bl.Value, "%") {
			if s, err := strconv.Unquote(bl.Value); err == nil {
				out = append(out, s)
			}
		}
		return true
	})
	return out
}

// flag registrations `X.PersistentFlags().TVar[P](&v, name[, short], default, usage)` -> "v name short default"
func (x *c14ex) flags(n ast.Node) []string {
	out := []string{}
	ast.Inspect(n, func(m ast.Node) bool {
		ce, ok := m.(*ast.CallExpr)
		if !ok {
			return true
		}
		se, ok := ce.Fun.(*ast.SelectorExpr)
		if !ok || !strings.Contains(se.Sel.Name, "Var") || !strings.Contains(x.str(se.X), "Flags()") {
			return true
		}
		a := ce.Args
		if strings.HasSuffix(se.Sel.Name, "VarP") && len(a) == 5 {
			out = append(out, fmt.Sprintf("%s %s %s %s %s", se.Sel.Name, x.str(a[0]), x.str(a[1]), x.str(a[2]), x.str(a[3])))
		} else if len(a) == 4 {
			out = append(out, fmt.Sprintf("%s %s %s \"\" %s", se.Sel.Name, x.str(a[0]), x.str(a[1]), x.str(a[2])))
		} else {
			out = append(out, "?"+x.str(ce))
		}
		return true
	})
	return out
}

// the cases of the first `switch <tag>`: per clause its labels, then — in source order — the accessors
// called on anything, the NIL_* / DISTANCE_* names, the numeric literals and whether it returns
func (x *c14ex) switchOn(n ast.Node, tag string) []string {
	var sw *ast.SwitchStmt
	ast.Inspect(n, func(m ast.Node) bool {
		if s, ok := m.(*ast.SwitchStmt); ok && sw == nil && s.Tag != nil && x.str(s.Tag) == tag {
			sw = s
		}
		return sw == nil
	})
	if sw == nil {
		return []string{"no switch on " + tag}
	}
	out := []string{}
	for _, st := range sw.Body.List {
		cc := st.(*ast.CaseClause)
		var lab []string
		for _, e := range cc.List {
			lab = append(lab, x.str(e))
		}
		if cc.List == nil {
			lab = []string{"default"}
		}
		var toks []string
		for _, b := range cc.Body {
			ast.Inspect(b, func(m ast.Node) bool {
				switch y := m.(type) {
				case *ast.CallExpr:
					if se, ok := y.Fun.(*ast.SelectorExpr); ok && len(y.Args) == 0 {
						toks = append(toks, se.Sel.Name+"()")
					}
				case *ast.Ident:
					if strings.HasPrefix(y.Name, "NIL_") || strings.HasPrefix(y.Name, "DISTANCE_") {
						toks = append(toks, y.Name)
					}
				case *ast.BasicLit:
					if y.Kind == token.FLOAT || y.Kind == token.INT {
						toks = append(toks, y.Value)
					}
				case *ast.ReturnStmt:
					toks = append(toks, "return")
				case *ast.BinaryExpr:
					if c14isCmp(y.Op) {
						toks = append(toks, y.Op.String())
					}
				}
				return true
			})
		}
		out = append(out, strings.Join(lab, ",")+": "+strings.Join(toks, " "))
	}
	return out
}

// constants of a file: name -> value (a literal, a negated literal, or the position in an iota block)
func (x *c14ex) consts(f *ast.File, want ...string) []string {
	vals := map[string]string{}
	for _, d := range f.Decls {
		gd, ok := d.(*ast.GenDecl)
		if !ok || gd.Tok != token.CONST {
			continue
		}
		iota := false
		for i, sp := range gd.Specs {
			vs := sp.(*ast.ValueSpec)
			if len(vs.Values) > 0 {
				iota = x.str(vs.Values[0]) == "iota"
			}
			for j, nm := range vs.Names {
				switch {
				case j < len(vs.Values) && x.str(vs.Values[j]) != "iota":
					vals[nm.Name] = x.str(vs.Values[j])
				case iota:
					vals[nm.Name] = strconv.Itoa(i)
				default:
					vals[nm.Name] = "?"
				}
			}
		}
	}
	out := []string{}
	for _, w := range want {
		v, ok := vals[w]
		if !ok {
			v = "missing"
		}
		out = append(out, w+" = "+v)
	}
	return out
}


// ---- path conditions (semantic rows) -------------------------------------------------------------------------

type c14cond struct {
	e   ast.Expr
	neg bool
}

func c14contains(n ast.Node, target ast.Node) bool {
	found := false
	ast.Inspect(n, func(m ast.Node) bool {
		if m == target {
			found = true
		}
		return !found
	})
	return found
}

// a block that always leaves: its last statement is continue / break / return
func c14leaves(b *ast.BlockStmt) bool {
	if b == nil || len(b.List) == 0 {
		return false
	}
	switch b.List[len(b.List)-1].(type) {
	case *ast.BranchStmt, *ast.ReturnStmt:
		return true
	}
	return false
}

// pathTo: the conditions under which `target` (a node inside stmts) is reached: enclosing ifs, negated elses,
// negated guards met before it in the same statement lists.  Loop conditions and case labels are not conditions.
func c14pathTo(stmts []ast.Stmt, target ast.Node, acc []c14cond) ([]c14cond, bool) {
	for _, st := range stmts {
		if !c14contains(st, target) {
			if is, ok := st.(*ast.IfStmt); ok && is.Else == nil && c14leaves(is.Body) {
				acc = append(acc, c14cond{is.Cond, true})
			}
			continue
		}
		switch s := st.(type) {
		case *ast.IfStmt:
			if (s.Init != nil && c14contains(s.Init, target)) || c14contains(s.Cond, target) {
				return acc, true
			}
			if c14contains(s.Body, target) {
				return c14pathTo(s.Body.List, target, append(acc, c14cond{s.Cond, false}))
			}
			acc2 := append(acc, c14cond{s.Cond, true})
			switch e := s.Else.(type) {
			case *ast.BlockStmt:
				return c14pathTo(e.List, target, acc2)
			case *ast.IfStmt:
				return c14pathTo([]ast.Stmt{e}, target, acc2)
			}
			return acc2, true
		case *ast.ForStmt:
			return c14pathTo(s.Body.List, target, acc)
		case *ast.RangeStmt:
			return c14pathTo(s.Body.List, target, acc)
		case *ast.BlockStmt:
			return c14pathTo(s.List, target, acc)
		case *ast.SwitchStmt:
			for _, c := range s.Body.List {
				if c14contains(c, target) {
					return c14pathTo(c.(*ast.CaseClause).Body, target, acc)
				}
			}
			return acc, true
		default:
			return acc, true
		}
	}
	return acc, false
}

func (x *c14ex) exOf(e ast.Expr, seen map[string]string) string {
	switch y := e.(type) {
	case *ast.ParenExpr:
		return x.exOf(y.X, seen)
	case *ast.UnaryExpr:
		if y.Op == token.NOT {
			return "(.not " + x.exOf(y.X, seen) + ")"
		}
	case *ast.BinaryExpr:
		switch {
		case y.Op == token.LAND:
			return "(.and " + x.exOf(y.X, seen) + " " + x.exOf(y.Y, seen) + ")"
		case y.Op == token.LOR:
			return "(.or " + x.exOf(y.X, seen) + " " + x.exOf(y.Y, seen) + ")"
		case c14isCmp(y.Op):
			return "(.cmp " + c14lean(y.Op.String()) + " " + c14lean(x.strSeen(y.X, seen)) + " " + c14lean(x.strSeen(y.Y, seen)) + ")"
		}
	}
	return "(.atom " + c14lean(x.strSeen(e, seen)) + ")"
}

type c14row struct{ key, ex string }

// condTo: the path condition of the k-th node of fn that satisfies pick (source order), as a Lean `Ex`
func (x *c14ex) condTo(rows *[]c14row, key string, fn ast.Node, body *ast.BlockStmt, pick func(ast.Node) bool) {
	var targets []ast.Node
	ast.Inspect(fn, func(m ast.Node) bool {
		if m != nil && pick(m) {
			targets = append(targets, m)
		}
		return true
	})
	if len(targets) == 0 {
		*rows = append(*rows, c14row{key, "(.atom \"<statement not found>\")"})
		return
	}
	for i, t := range targets {
		conds, _ := c14pathTo(body.List, t, nil)
		seen := map[string]string{}
		ex := ".tt"
		for j, c := range conds {
			e := x.exOf(c.e, seen)
			if c.neg {
				e = "(.not " + e + ")"
			}
			if j == 0 {
				ex = e
			} else {
				ex = "(.and " + ex + " " + e + ")"
			}
		}
		k := key
		if len(targets) > 1 {
			k = key + "#" + strconv.Itoa(i)
		}
		*rows = append(*rows, c14row{k, ex})
	}
}

// a call whose printed function is / ends with name
func (x *c14ex) isCall(m ast.Node, name string) bool {
	ce, ok := m.(*ast.CallExpr)
	if !ok {
		return false
	}
	fn := x.raw(ce.Fun)
	return fn == name || strings.HasSuffix(fn, "."+name)
}

func c14lean(s string) string {
	var b strings.Builder
	b.WriteByte('"')
	for _, r := range s {
		switch {
		case r == '"':
			b.WriteString("\\\"")
		case r == '\\':
			b.WriteString("\\\\")
		case r == '\n':
			b.WriteString("\\n")
		case r == '\t':
			b.WriteString("\\t")
		case r < 32 || r > 126:
			b.WriteString("?")
		default:
			b.WriteRune(r)
		}
	}
	b.WriteByte('"')
	return b.String()
}

// the `RunE` literal of a cobra command variable, renamed
func c14runE(f *ast.File) ast.Node {
	var out ast.Node
	ast.Inspect(f, func(m ast.Node) bool {
		if kv, ok := m.(*ast.KeyValueExpr); ok && out == nil {
			if id, ok := kv.Key.(*ast.Ident); ok && id.Name == "RunE" {
				out = kv.Value
			}
		}
		return out == nil
	})
	if out != nil {
		c14rename(out)
	}
	return out
}

// GenTables is called by `vh gen-tables`.
func GenTables(repo, out string) error {
	x := &c14ex{fset: token.NewFileSet()}
	algo, err := c14parse(x, repo, "tree", "algo.go")
	if err != nil {
		return err
	}
	edge, err := c14parse(x, repo, "tree", "edge.go")
	if err != nil {
		return err
	}
	tr, err := c14parse(x, repo, "tree", "tree.go")
	if err != nil {
		return err
	}
	bags, err := c14parse(x, repo, "tree", "tipbags.go")
	if err != nil {
		return err
	}
	cm, err := c14parse(x, repo, "cmd", "matrix.go")
	if err != nil {
		return err
	}
	cc, err := c14parse(x, repo, "cmd", "brlencut.go")
	if err != nil {
		return err
	}
	need := func(f *ast.File, recv, name string) (*ast.FuncDecl, error) {
		fd := c14func(f, recv, name)
		if fd == nil {
			return nil, fmt.Errorf("c14 extractor: function %s.%s not found", recv, name)
		}
		return fd, nil
	}

	x.add("consts", append(x.consts(algo, "DISTANCE_METRIC_BRLEN", "DISTANCE_METRIC_BOOTS", "DISTANCE_METRIC_NONE"), x.consts(edge, "NIL_LENGTH", "NIL_SUPPORT")...)...)

	pl, err := need(algo, "", "pathLengths")
	if err != nil {
		return err
	}
	// parameters: p0 cur, p1 prev, p2 lengths, p3 curlength, p4 metric
	x.add("pathLengths.switch", x.switchOn(pl, "p4")...)
	x.add("pathLengths.writes", x.writes(pl, "p2[")...)
	x.add("pathLengths.recur", x.calls(pl, "pathLengths")...)
	var inits []string
	ast.Inspect(pl, func(m ast.Node) bool {
		if as, ok := m.(*ast.AssignStmt); ok && as.Tok == token.DEFINE && len(as.Rhs) == 1 {
			if _, ok := as.Rhs[0].(*ast.BasicLit); ok {
				inits = append(inits, x.str(as))
			}
		}
		return true
	})
	x.add("pathLengths.define", inits...)

	dm, err := need(algo, "Tree", "ToDistanceMatrix")
	if err != nil {
		return err
	}
	x.add("ToDistanceMatrix.compare", x.comparisons(dm, "", false)...)
	x.add("ToDistanceMatrix.calls", x.calls(dm, "SetId", "pathLengths")...)

	av, err := need(algo, "", "AvgDistanceMatrix")
	if err != nil {
		return err
	}
	// p0 metric, p1 treechan, p2 matrix, p3 tips, p4 err; locals matrix2, tips2, ntrees
	// the divisor of the final `/=` and every write of the variable(s) it reads
	ast.Inspect(av, func(m ast.Node) bool {
		if as, ok := m.(*ast.AssignStmt); ok && as.Tok == token.QUO_ASSIGN && len(as.Rhs) == 1 {
			x.add("AvgDistanceMatrix.divisor", x.str(as.Rhs[0]))
			ast.Inspect(as.Rhs[0], func(k ast.Node) bool {
				if id, ok := k.(*ast.Ident); ok && strings.HasPrefix(id.Name, "L_") {
					x.add("AvgDistanceMatrix.divisor.writes", x.writes(av, id.Name)...)
				}
				return true
			})
		}
		return true
	})
	var opassign []string
	ast.Inspect(av, func(m ast.Node) bool {
		if as, ok := m.(*ast.AssignStmt); ok && (as.Tok == token.ADD_ASSIGN || as.Tok == token.QUO_ASSIGN || as.Tok == token.SUB_ASSIGN || as.Tok == token.MUL_ASSIGN) {
			opassign = append(opassign, x.str(as))
		}
		return true
	})
	x.add("AvgDistanceMatrix.arith", opassign...)
	x.add("AvgDistanceMatrix.calls", x.calls(av, "ToDistanceMatrix")...)

	ce, err := need(tr, "Tree", "CutEdgesMaxLength")
	if err != nil {
		return err
	}
	// p0 t, p1 maxlen
	x.add("CutEdgesMaxLength.calls", x.calls(ce, "cutEdgesMaxLengthRecur")...)
	cr, err := need(tr, "Tree", "cutEdgesMaxLengthRecur")
	if err != nil {
		return err
	}
	// p0 t, p1 tipBag, p2 cur, p3 prev, p4 maxlen, p5 visited
	x.add("cutEdgesMaxLengthRecur.calls", x.calls(cr, "cutEdgesMaxLengthRecur")...)

	at, err := need(bags, "TipBag", "AddTip")
	if err != nil {
		return err
	}
	x.add("AddTip.writes", x.writes(at, "p0.tips[")...)
	tp, err := need(bags, "TipBag", "Tips")
	if err != nil {
		return err
	}
	x.add("TipBag.Tips.calls", x.calls(tp, "Strings", "Slice", "Sort")...)

	mr := c14runE(cm)
	if mr == nil {
		return fmt.Errorf("c14 extractor: RunE of cmd/matrix.go not found")
	}
	x.add("matrix.switch", x.switchOn(mr, "metric")...)
	x.add("matrix.calls", x.calls(mr, "AvgDistanceMatrix", "ToDistanceMatrix", "openWriteFile", "readTrees")...)
	var avgTests []string
	for _, c := range x.ifConds(mr) {
		if !strings.ContainsAny(c, " .(") {
			avgTests = append(avgTests, c)
		}
	}
	x.add("matrix.avgTest", avgTests...)
	x.add("matrix.formats", x.formats(mr)...)
	for _, d := range cm.Decls {
		if fd, ok := d.(*ast.FuncDecl); ok && fd.Name.Name == "init" {
			x.add("matrix.flags", x.flags(fd)...)
		}
	}
	cu := c14runE(cc)
	if cu == nil {
		return fmt.Errorf("c14 extractor: RunE of cmd/brlencut.go not found")
	}
	x.add("cut.calls", x.calls(cu, "CutEdgesMaxLength", "openWriteFile", "readTrees")...)
	x.add("cut.formats", x.formats(cu)...)
	for _, d := range cc.Decls {
		if fd, ok := d.(*ast.FuncDecl); ok && fd.Name.Name == "init" {
			x.add("cut.flags", x.flags(fd)...)
		}
	}


	// semantic rows: path conditions
	var rows []c14row
	x.condTo(&rows, "pathLengths.write", pl, pl.Body, func(m ast.Node) bool {
		as, ok := m.(*ast.AssignStmt)
		return ok && len(as.Lhs) == 1 && strings.HasPrefix(x.raw(as.Lhs[0]), "p2[")
	})
	x.condTo(&rows, "pathLengths.recur", pl, pl.Body, func(m ast.Node) bool { return x.isCall(m, "pathLengths") })
	x.condTo(&rows, "avg.reject", av, av.Body, func(m ast.Node) bool {
		as, ok := m.(*ast.AssignStmt)
		return ok && len(as.Rhs) == 1 && x.isCall(as.Rhs[0], "Errorf")
	})
	x.condTo(&rows, "avg.add", av, av.Body, func(m ast.Node) bool {
		as, ok := m.(*ast.AssignStmt)
		return ok && as.Tok == token.ADD_ASSIGN
	})
	x.condTo(&rows, "cut.flood", ce, ce.Body, func(m ast.Node) bool { return x.isCall(m, "cutEdgesMaxLengthRecur") })
	x.condTo(&rows, "cut.keepBag", ce, ce.Body, func(m ast.Node) bool {
		as, ok := m.(*ast.AssignStmt)
		return ok && len(as.Rhs) == 1 && x.isCall(as.Rhs[0], "append")
	})
	x.condTo(&rows, "cut.tipEnd", ce, ce.Body, func(m ast.Node) bool { return x.isCall(m, "AddTip") })
	x.condTo(&rows, "recur.addTip", cr, cr.Body, func(m ast.Node) bool { return x.isCall(m, "AddTip") })
	x.condTo(&rows, "recur.cross", cr, cr.Body, func(m ast.Node) bool { return x.isCall(m, "cutEdgesMaxLengthRecur") })
	x.condTo(&rows, "recur.mark", cr, cr.Body, func(m ast.Node) bool {
		as, ok := m.(*ast.AssignStmt)
		return ok && len(as.Lhs) == 1 && strings.HasPrefix(x.raw(as.Lhs[0]), "p5[")
	})
	x.condTo(&rows, "addTip.store", at, at.Body, func(m ast.Node) bool {
		as, ok := m.(*ast.AssignStmt)
		return ok && len(as.Lhs) == 1 && strings.HasPrefix(x.raw(as.Lhs[0]), "p0.tips[")
	})
	x.condTo(&rows, "addTip.reject", at, at.Body, func(m ast.Node) bool {
		r, ok := m.(*ast.ReturnStmt)
		return ok && len(r.Results) == 1 && x.raw(r.Results[0]) != "nil"
	})

	var b strings.Builder
	b.WriteString("-- GENERATED by harness/c14/extract.go (vh gen-tables) from tree/algo.go, tree/edge.go, tree/tree.go,\n")
	b.WriteString("-- tree/tipbags.go, cmd/matrix.go, cmd/brlencut.go of the working tree; do not edit.\n")
	b.WriteString("-- Parameters and locals are renamed: receiver, arguments and named results p0, p1, …; locals x0, x1, … by first occurrence in each fact.\n")
	b.WriteString("import Gotree.Model.C14Sites\n\nnamespace Gotree.Gen.C14Sites\nopen Gotree.C14.Sites\n\n")
	b.WriteString("def facts : List (String × List String) := [\n")
	for i, f := range x.facts {
		var vs []string
		for _, v := range f.vals {
			vs = append(vs, c14lean(v))
		}
		sep := ","
		if i == len(x.facts)-1 {
			sep = ""
		}
		b.WriteString("  (" + c14lean(f.key) + ", [" + strings.Join(vs, ", ") + "])" + sep + "\n")
	}
	b.WriteString("]\n\n/-- path conditions: under which condition the named statement is reached -/\ndef conds : List (String × Ex) := [\n")
	for i, r := range rows {
		sep := ","
		if i == len(rows)-1 {
			sep = ""
		}
		b.WriteString("  (" + c14lean(r.key) + ", " + r.ex + ")" + sep + "\n")
	}
	b.WriteString("]\n\nend Gotree.Gen.C14Sites\n")
	return os.WriteFile(filepath.Join(out, "C14Sites.lean"), []byte(b.String()), 0644)
}
