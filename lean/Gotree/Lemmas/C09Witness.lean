/-
  C09 — witnesses for the hypotheses of the round-2 theorems.  `C09S.keysOK`, `canonSide`,
  `T.usplitsAll` go through `List.mergeSort`, which the kernel does not unfold: `keysOK_of_sidesN`
  reduces `keysOK` to the same statement over the structural insertion sort `sortN`, which
  `decide +kernel` evaluates.  `exCollRe` is `exColl` re-rooted tree by tree with C05's `reroot`.
-/
import Gotree.Lemmas.C09Reroot
import Gotree.Lemmas.C09Float

namespace Gotree.C09
open Gotree

theorem sortS_eq_sortN (l : List String) : sortS l = sortN l := by
  apply List.Perm.eq_of_pairwise (le := fun a b => decide (a ≤ b) = true) _ (sortS_sorted l) _
    ((sortS_perm l).trans (sortN_perm l).symm)
  · intro x y _ _ h1 h2
    simp only [decide_eq_true_eq] at h1 h2
    exact String.le_antisymm h1 h2
  · exact (sortN_sorted l).imp (fun h => by simpa using h)

/-- `canonSide` with the structural sort (what the kernel can evaluate) -/
def canonSideN (all side : List String) : List String :=
  let s := sortN (side.filter all.contains)
  match minS all with
  | none => s
  | some m => if s.contains m then sortN (complS all s) else s

theorem canonSide_eq_N (all side : List String) : canonSide all side = canonSideN all side := by
  unfold canonSide canonSideN
  simp only [sortS_eq_sortN]
  rfl

/-- all canonical sides of a collection, computed without `List.mergeSort` -/
def sidesN (ts : List T) : List (List String) :=
  ts.flatMap fun t => t.splits.map fun s => canonSideN t.tipNames s.below

theorem mem_allSides_iff (ts : List T) (c : List String) : c ∈ C09S.allSides ts ↔ c ∈ (sidesN ts).eraseDups := by
  unfold C09S.allSides sidesN
  rw [List.mem_eraseDups, List.mem_eraseDups, List.mem_flatMap, List.mem_flatMap]
  constructor
  · rintro ⟨t, ht, h⟩
    refine ⟨t, ht, ?_⟩
    obtain ⟨u, hu, rfl⟩ := List.mem_map.1 h
    have : t.usplitsAll.any (·.side == u.side) = true := List.any_eq_true.2 ⟨u, hu, by simp⟩
    obtain ⟨s, hs, e⟩ := (usplitsAll_any t u.side).1 this
    exact List.mem_map.2 ⟨s, hs, by rw [← canonSide_eq_N]; exact e⟩
  · rintro ⟨t, ht, h⟩
    refine ⟨t, ht, ?_⟩
    obtain ⟨s, hs, rfl⟩ := List.mem_map.1 h
    have := (usplitsAll_any t (canonSideN t.tipNames s.below)).2 ⟨s, hs, canonSide_eq_N _ _⟩
    obtain ⟨u, hu, e⟩ := List.any_eq_true.1 this
    exact List.mem_map.2 ⟨u, hu, by simpa using e⟩

/-- `keysOK` evaluated without `List.mergeSort` -/
theorem keysOK_of_sidesN (ts : List T) (h : (((sidesN ts).eraseDups).map fun s => toString s).Nodup) :
    C09S.keysOK ts = true := by
  unfold C09S.keysOK
  rw [decide_eq_true_eq]
  have hp : (C09S.allSides ts).Perm (sidesN ts).eraseDups :=
    (List.perm_ext_iff_of_nodup (C05.nodup_eraseDups_gen _ _ (Nat.le_refl _)) (C05.nodup_eraseDups_gen _ _ (Nat.le_refl _))).2
      (mem_allSides_iff ts)
  exact (hp.map _).nodup_iff.2 h

theorem lensGood_of_lensOK (ts : List T) (h : lensOK ts = true) : ∀ t ∈ ts, LensGood t.splits := by
  intro t ht s hs
  unfold lensOK at h
  rw [List.all_eq_true] at h
  have := h t ht
  rw [List.all_eq_true] at this
  have := this s hs
  unfold GoodL
  simpa using this

def rr (t : T) (p : List Nat) : T := (C05.rerootP t p none []).1

theorem reroot_ok_of (t : T) (p : List Nat)
    (h : (match C05.nodeAt t p with
          | none => false
          | some n => !decide ((if p.isEmpty then n.kids.length else n.kids.length + 1) < 2)) = true) :
    C05.reroot t p = .ok (rr t p) := by
  unfold C05.reroot rr
  cases hn : C05.nodeAt t p with
  | none => rw [hn] at h; cases h
  | some n =>
    rw [hn] at h
    simp only [Bool.not_eq_true', decide_eq_false_iff_not] at h
    simp only [if_neg h]

/-- `exColl` with every tree re-rooted on an inner node along a path of child indices -/
def exCollRe : List T := [rr exU1 [0], rr exR2 [1], rr exR3 [1, 0]]

theorem exCollRe_hyp : F2 (fun t t' => t.tipNames.Nodup ∧ LensGood t.splits ∧ ∃ p, C05.reroot t p = .ok t') exColl exCollRe := by
  have hg := lensGood_of_lensOK exColl (by decide +kernel)
  refine F2.cons ⟨by decide +kernel, hg _ (by simp [exColl]), [0], reroot_ok_of _ _ (by decide +kernel)⟩
    (F2.cons ⟨by decide +kernel, hg _ (by simp [exColl]), [1], reroot_ok_of _ _ (by decide +kernel)⟩
      (F2.cons ⟨by decide +kernel, hg _ (by simp [exColl]), [1, 0], reroot_ok_of _ _ (by decide +kernel)⟩ F2.nil))

end Gotree.C09
