/-
  C13 — Nextstrain: the reader model on the document that describes a tree.
-/
import Gotree.Model.C13NsSpec
import Gotree.Lemmas.C13Px

namespace Gotree.C13
open Gotree

mutual
theorem ns_tipsNamed : ∀ (div : Rat) (t : T), nsNodeOK t = true → (nsOf div t).tipsNamed = true
  | div, .node d p k, h => by
    simp only [nsNodeOK, Bool.and_eq_true] at h
    simp only [nsOf, Ns.Node.tipsNamed, Bool.and_eq_true]
    refine ⟨?_, ns_tipsNamedL div k h.2⟩
    cases k with
    | nil => simpa [nsKids] using h.1
    | cons x r => obtain ⟨e, t⟩ := x; simp [nsKids]
theorem ns_tipsNamedL : ∀ (div : Rat) (k : Kids), nsKidsOK k = true → Ns.tipsNamedL (nsKids div k) = true
  | _, [], _ => rfl
  | div, (e, t) :: r, h => by
    simp only [nsKidsOK, Bool.and_eq_true] at h
    simp only [nsKids, Ns.tipsNamedL, Bool.and_eq_true]
    exact ⟨ns_tipsNamed _ t h.1.2, ns_tipsNamedL div r h.2⟩
end

mutual
theorem ns_strip : ∀ (div : Rat) (t : T), nsNodeOK t = true → strip (nsOf div t).toT = strip t
  | div, .node d p k, h => by
    simp only [nsNodeOK, Bool.and_eq_true] at h
    simp only [nsOf, Ns.Node.toT, strip]
    rw [ns_stripL div k h.2]
theorem ns_stripL : ∀ (div : Rat) (k : Kids), nsKidsOK k = true → stripL (Ns.toKids div (nsKids div k)) = stripL k
  | _, [], _ => rfl
  | div, (e, .node d p kk) :: r, h => by
    simp only [nsKidsOK, Bool.and_eq_true, beq_iff_eq] at h
    have h1 := ns_strip (div + e.len) (.node d p kk) h.1.2
    have h2 := ns_stripL div r h.2
    simp only [nsOf] at h1
    have e1 : div + e.len - div = e.len := by rw [Rat.add_comm, Rat.add_sub_cancel]
    simp only [nsKids, nsOf, Ns.toKids, stripL, h1, h2, e1, h.1.1]
end

end Gotree.C13
