/-
  C16 — round-3 lemmas: documented minimum, root-position-free balanced shape, model-free
  rejection predicates of the other constructors.
-/
import Gotree.Spec.C16Doc
import Gotree.Lemmas.C16Extra

namespace Gotree.C16
open Gotree

theorem mem_pathsT_nil (t : T) : [] ∈ pathsT t := by
  cases t; simp [pathsT]

theorem balancedShapeU_of_rootView (d : Nat) (t : T) (h : balancedShape false d t = true) :
    balancedShapeU d t = true := by
  unfold balancedShapeU
  rw [List.any_eq_true]
  exact ⟨[], mem_pathsT_nil t, by simp [rerootPath, rerootGo, h]⟩

theorem genTreeOK2_of_genTreeOK (g : GenKind) (n : Nat) (rooted : Bool) (t : T) (h : genTreeOK g n rooted t = true) :
    genTreeOK2 g n rooted t = true := by
  unfold genTreeOK at h
  unfold genTreeOK2
  cases g <;> try exact h
  -- balanced
  cases rooted with
  | true => simpa using h
  | false =>
    simp only [Bool.and_eq_true] at h ⊢
    refine ⟨h.1, h.2.1, ?_⟩
    simpa using balancedShapeU_of_rootView n t h.2.2

theorem hasDup_true_of_not_nodup : ∀ (l : List String), ¬ l.Nodup → hasDup l = true
  | [], h => absurd List.nodup_nil h
  | a :: r, h => by
    rw [List.nodup_cons] at h
    simp only [hasDup, Bool.or_eq_true, List.contains_eq_mem, decide_eq_true_eq]
    by_cases ha : a ∈ r
    · exact Or.inl ha
    · exact Or.inr (hasDup_true_of_not_nodup r (fun hn => h ⟨ha, hn⟩))

theorem hasDup_iff (l : List String) : hasDup l = false ↔ l.Nodup := by
  constructor
  · intro h
    apply Classical.byContradiction
    intro hn
    rw [hasDup_true_of_not_nodup l hn] at h; cases h
  · exact hasDup_false_of_nodup l

theorem hasDup_perm {a b : List String} (h : a.Perm b) : hasDup a = hasDup b := by
  cases ha : hasDup a <;> cases hb : hasDup b <;> try rfl
  · rw [hasDup_iff] at ha
    have := (hasDup_iff b).mpr (h.nodup_iff.mp ha)
    rw [this] at hb; cases hb
  · rw [hasDup_iff] at hb
    have := (hasDup_iff a).mpr (h.nodup_iff.mpr hb)
    rw [this] at ha; cases ha

/-- StarTreeFromName rejects exactly what the inputs say -/
theorem starFromNames_isErr_iff (names : List String) : (starFromNames names).isErr = starnMustReject names := by
  unfold starFromNames starnMustReject
  split <;> simp_all [Res.isErr]

/-- StarTreeFromTree rejects exactly what the inputs say -/
theorem starFromTree_isErr_iff (tin : T) : (starFromTree tin).isErr = startMustReject tin := by
  have hlen : (tin.splits.filter (·.tip)).length = (tipEdgesOf tin).length := by simp [tipEdgesOf]
  unfold startMustReject
  by_cases h2 : (tipEdgesOf tin).length < 2
  · have : (tin.splits.filter (·.tip)).length < 2 := hlen ▸ h2
    simp [starFromTree, this, h2, Res.isErr]
  · have h2' : ¬ (tin.splits.filter (·.tip)).length < 2 := hlen ▸ h2
    have ht := starOf_tipNames ((tin.splits.filter (·.tip)).map fun s => (s.e.len, s.below.headD "")) (by simp; omega)
    have ht' : (starOf ((tin.splits.filter (·.tip)).map fun s => (s.e.len, s.below.headD ""))).tipNames =
        (tipEdgesOf tin).map (·.1) := by
      simpa [tipEdgesOf, List.map_map, Function.comp_def] using ht
    simp only [starFromTree, h2', if_false, finishChecked, updateTipIndex, ht', h2, decide_false, Bool.false_or]
    cases hasDup ((tipEdgesOf tin).map (·.1)) <;> simp [Res.isErr]

/-- BipartitionTree rejects exactly what the inputs say -/
theorem bipartitionTree_isErr_iff (left right : List String) :
    (bipartitionTree left right).isErr = bipartMustReject left right := by
  unfold bipartMustReject
  by_cases hl : left.length ≤ 1
  · simp [bipartitionTree, hl, Res.isErr]
  · by_cases hr : right.length ≤ 1
    · simp [bipartitionTree, hr, Res.isErr]
    · have hlen : (decide (left.length ≤ 1) || decide (right.length ≤ 1)) = false := by simp [hl, hr]
      by_cases hany : right.any left.contains = true
      · -- a common name: a duplicate of left ++ right
        have hd : hasDup (left ++ right) = true := by
          apply hasDup_true_of_not_nodup
          intro hn
          obtain ⟨x, hx, hc⟩ := List.any_eq_true.mp hany
          simp only [List.contains_eq_mem, decide_eq_true_eq] at hc
          exact (List.nodup_append.mp hn).2.2 x hc x hx rfl
        simp [bipartitionTree, hlen, hany, hd, hl, hr, Res.isErr]
      · have hany' : right.any left.contains = false := by simpa using hany
        have ht := twoStar_tipNames left right (by omega) (by omega)
        have hp : hasDup (right ++ left) = hasDup (left ++ right) := hasDup_perm List.perm_append_comm
        simp only [bipartitionTree, hlen, hany', Bool.false_eq_true, if_false, finishChecked, updateTipIndex, ht, hp,
          hl, hr, decide_false, Bool.false_or]
        cases hasDup (left ++ right) <;> simp [Res.isErr]

/-- EdgeTree never rejects a branch of the tree -/
theorem edgeTree_isOk (tin : T) (k : Nat) (hk : k < tin.splits.length) : (edgeTree tin k).isOk = true := by
  simp [edgeTree, List.getElem?_eq_getElem hk, Res.isOk]

/-! ### the documented minimum -/

theorem docMin_eq_min (g : GenKind) (rooted : Bool) : g.docMin rooted = g.min rooted := by
  cases g <;> cases rooted <;> rfl

/-- since f417e91 the documentation and the code agree: no size is documented as valid and rejected -/
theorem docGap_false (g : GenKind) (n : Int) (rooted : Bool) : docGap g n rooted = false := by
  unfold docGap
  rw [docMin_eq_min]
  by_cases h : ((g.min rooted : Nat) : Int) ≤ n
  · have : ¬ n < ((g.min rooted : Nat) : Int) := by omega
    simp [h, this]
  · simp [h]

end Gotree.C16
