/-
  C02 — the property theorems (DESIGN §6 C02, Appendix B).

  Everything is about the model functions the driver runs against the code:
  `Readers.newickOne / multiNewick / nexusOne / nexusMulti / phyloxml* / nextstrain*`
  (Model/C02Readers.lean), `reinit`, `walkAll` (Model/C02.lean).  The readers are
  defined without fuel: that Lean accepted `Newick.run`, `Nexus.tokens`,
  `Readers.multiLoop` (well-founded recursion on the remaining input) and the
  structural folds is the termination part of the property; what remains is stated
  here.  `crashed` = the model's outcome is `panic` or `hang`.
-/
import Gotree.Lemmas.C02Readers
import Gotree.Lemmas.C02Chan
import Gotree.Lemmas.C02onC01
import Gotree.Lemmas.C02NewickEq
import Gotree.Gen.C02Goroutine
import Gotree.Gen.C02Dispatch
import Gotree.Model.C02Dispatch
import Gotree.Model.C02Files
import Gotree.Lemmas.C02Writers
import Gotree.Lemmas.C02WritersP

namespace Gotree.C02
open Gotree

/-! ### ★ the readers never panic, for every byte string -/

/-- ★ `newick.NewParser(r).Parse()` -/
theorem newick_no_panic (b : List UInt8) : (Readers.newickOne b).crashed = false := by
  unfold Readers.newickOne
  split
  · rename_i m h; exact absurd h (Newick.parse_no_panic b m)
  · rfl
  · rfl

/-- ★ the same for the Newick model of C01 (`Gotree.Newick.parse`, used by C01/C13; the driver of C02 runs it
    next to its own model against the code): no panic for any codec and any input -/
theorem newick_no_panic_C01 (C : Gotree.Newick.Codec) (b : List UInt8) (m : String) :
    Gotree.Newick.parse C (decodeLossy b) ≠ .panic m := OnC01.parse_no_panic C _ m

/-- ★ the two Newick models are observationally equal: C01's `Gotree.Newick.parse` (with the codec made of
    C02's `ParseFloat` transcription) and C02's `Newick.parse` give, on every byte string, the same outcome
    class and the same delivered tree — `ok t` ↦ `ok ⟨t, false⟩`, `err` ↦ `err`, `panic` ↦ `panic` — wherever
    C01's model does not give up with `unrep` (a NaN/±Inf would have to be stored in a `Rat` field). -/
theorem newick_models_agree (b : List UInt8) :
    NewickEq.RelOutT (Gotree.Newick.parse NewickEq.myCodec (decodeLossy b)) (Newick.parse b) :=
  NewickEq.parse_agree (decodeLossy b)

/-- … and they stand at the same place of the input afterwards (`parseR`: one `Parser` reused for the next
    tree of the line, 3850fd2): `ok (t, rest)` ↦ `ok ⟨t, false, rest⟩` -/
theorem newick_models_agree_rest (b : List UInt8) :
    NewickEq.RelOut (Gotree.Newick.parseR NewickEq.myCodec (decodeLossy b)) (Newick.parse b) :=
  NewickEq.parseR_agree (decodeLossy b)

/-- … in particular the outcome classes agree -/
theorem newick_models_same_class (b : List UInt8) :
    (∀ t, Gotree.Newick.parse NewickEq.myCodec (decodeLossy b) = .ok t → (Newick.parse b).cls = .ok) ∧
    (∀ m, Gotree.Newick.parse NewickEq.myCodec (decodeLossy b) = .err m → (Newick.parse b).cls = .err) := by
  have h := newick_models_agree b
  constructor
  · intro t ht; rw [ht] at h; obtain ⟨r, h'⟩ := h; rw [h']; rfl
  · intro m hm; rw [hm] at h; obtain ⟨m', h'⟩ := h; rw [h']; rfl

/-- the Nexus parser neither panics nor hangs, whatever the Newick parser it is given does short of panicking -/
theorem nexus_parse_total (b : List UInt8) : (∀ m, Nexus.parse b ≠ .panic m) ∧ Nexus.parse b ≠ .hang :=
  ⟨fun m => Nexus.parseCharsWith_no_panic _ (fun cs m => Newick.run_no_panic {} cs (Or.inl rfl) m) _ m,
   Nexus.parseCharsWith_halts _ _⟩

/-- ★ `ReadTreeReader(FORMAT_NEXUS)` and `ReadMultiTrees(FORMAT_NEXUS)` -/
theorem nexus_no_panic (b : List UInt8) :
    (Readers.nexusOne b).crashed = false ∧ (Readers.nexusMulti b).crashed = false := by
  have h := nexus_parse_total b
  constructor
  · unfold Readers.nexusOne
    split
    · rename_i hh; exact absurd hh h.2
    · rename_i m hh; exact absurd hh (h.1 m)
    all_goals rfl
  · unfold Readers.nexusMulti
    split
    · rename_i hh; exact absurd hh h.2
    · rename_i m hh; exact absurd hh (h.1 m)
    all_goals rfl

/-- "every loop leaves on EOF": whatever the control point of the Nexus parser, the EOF token the
    scanner returns at the end of the input halts it within three deliveries -/
theorem nexus_eof_halts (s : Nexus.St) : (Nexus.atEOF {} s).halt.isSome = true := Nexus.eof_halts s

/-- the scanner yields at most one token per character of the input (the parser, a fold over the tokens,
    then makes one control step per token and three more at the end of the input: `Nexus.runToks`) -/
theorem nexus_steps_linear (b : List UInt8) : (Nexus.tokens (decodeLossy b)).length ≤ (decodeLossy b).length :=
  Nexus.tokens_length_le _

/-- `ReadMultiTrees(FORMAT_NEWICK)`, for EVERY sequence of chunks `bufio.ReadLine` may return
    (any buffer size, any splitting): the reader goroutine never panics and always closes the channel -/
theorem multi_no_panic (chunks : List Readers.Chunk) : (Readers.multiNewick chunks).crashed = false :=
  Readers.multiNewickWith_not_crashed chunks

/-- the records sent by the reader goroutine are numbered 0, 1, 2, …, there is at least one, and only the
    last one may carry an error (the reader stops at the first error) -/
theorem multi_records_shape (chunks : List Readers.Chunk) (rs : List Readers.Rec) (h : Readers.multiNewick chunks = .ok rs) :
    Readers.ids rs = List.range rs.length ∧ Readers.errOnlyLast rs = true ∧ rs ≠ [] :=
  Readers.multiNewick_shape chunks rs h

/-- the reader goroutine and the consumer's `range` (channel of capacity 10): whatever the schedule, the
    range ends and the consumer has received exactly the records of the reader model, in order -/
theorem channel_delivers_all (sched : List Chan.Actor) (recs : List Readers.Rec) :
    Chan.done (Chan.simulate sched recs) = true ∧ (Chan.simulate sched recs).got = recs :=
  Chan.simulate_correct sched recs

/-- the shape of the goroutine of `utils.ReadMultiTrees`, extracted from the working tree on every run
    (harness/c02/extract.go → Gen/C02Goroutine.lean), is the one the channel model assumes: a channel of that
    capacity, every send on it, no `return` and no `panic` inside the goroutine, one `close`, as last statement;
    a change of that shape (e.g. a `return` before the `close`) makes this decision fail -/
theorem reader_goroutine_shape :
    Gen.C02.chanCap = Chan.cap ∧ Gen.C02.goStatements = 1 ∧ Gen.C02.returnsInGoroutine = 0 ∧ Gen.C02.panicCalls = 0 ∧
    Gen.C02.closeCalls = 1 ∧ Gen.C02.lastStmtIsClose = true ∧ Gen.C02.sendsElsewhere = 0 ∧ Gen.C02.returnsTheChannel = true := by
  decide

/-- no deadlock: unless the range has ended, the producer or the consumer can move -/
theorem channel_progress (s : Chan.Sys Readers.Rec) (h : Chan.done s = false) :
    (Chan.step true .producer s).isSome = true ∨ (Chan.step true .consumer s).isSome = true :=
  Chan.progress s h

/-- every step decreases `2·|to send| + |buffer| + [not closed]`: no infinite run under any schedule -/
theorem channel_no_infinite_run (a : Chan.Actor) (s s' : Chan.Sys Readers.Rec) (h : Chan.step true a s = some s') :
    Chan.mu s' < Chan.mu s := Chan.step_mu true a s s' h

/-- `fileutils.Readln` in a `for err == nil` loop: it returns at most one line per chunk of `ReadLine`
    (the loop ends; defined without fuel) -/
theorem readLines_bounded (cs : List Readers.Chunk) : (Readers.readLines cs).length ≤ cs.length := by
  induction h : cs.length using Nat.strongRecOn generalizing cs with
  | _ n ih =>
    rw [Readers.readLines]
    split
    · rename_i hf
      have hlt := Readers.readln_rest_lt cs hf
      have := ih _ (by omega) (Readers.readln cs).2.2 rfl
      simp only [List.length_cons]; omega
    · simp

/-- `cladeToTree` of PhyloXML on every decoded clade structure: the two pointer fields (`*(c.BranchLength)`,
    `*(c.Confidence)`) are dereferenced in the model where the Go code dereferences them, and the tests the code
    makes protect every dereference.  (Only from the DECODED structure: encoding/xml is outside the model, see
    `partial_theorems`.)  `nextstrain.cladeToTree` has no pointer, index or map expression at all: its model has no
    panic site, so the last two conjuncts hold by the shape of the definitions and say no more than that. -/
theorem clades_no_panic (ps : List Readers.Clade) (v : String) (n : Readers.NsNode) :
    (Readers.phyloxmlOne ps).crashed = false ∧ (Readers.phyloxmlMulti ps).crashed = false ∧
    (Readers.nextstrainOne v n).crashed = false ∧ (Readers.nextstrainMulti v n).crashed = false := by
  refine ⟨?_, ?_, ?_, ?_⟩
  · unfold Readers.phyloxmlOne; split
    · rfl
    · split
      · rename_i m h; exact absurd h (Readers.pxTree_no_panic _ m)
      · rfl
      · rfl
  · unfold Readers.phyloxmlMulti; split
    · rfl
    · split
      · rfl
      · rfl
      · rename_i m h; exact absurd h (Readers.pxRecs_no_panic _ 0 m)
  · unfold Readers.nextstrainOne; split
    · rfl
    · split <;> rfl
  · unfold Readers.nextstrainMulti; split <;> rfl

/-! ### ★ every delivered tree is usable -/

/-- `ReinitIndexes` never panics, on ANY tree value (roots with 0 or 1 neighbours,
    single-child nodes, duplicate names included). -/
theorem reinit_no_panic (t : T) : reinit t ≠ .panic := by
  unfold reinit reinitWith
  split
  · simp
  · split
    · simp
    · rw [hashRight_false_ok]; simp

/-- indexing succeeds exactly when there is at least one tip and no two tips share a name -/
theorem reinit_ok_characterised (t : T) : reinit t = .ok ↔ (hasDup t.tipNames = false ∧ t.tipNames.length ≠ 0) :=
  reinit_ok_iff t

/-- the traversals are consistent on any tree: #branches + 1 = #nodes, #tips ≤ #nodes -/
theorem traversals_consistent (t : T) : nEdges t + 1 = nNodes t ∧ t.tipNames.length ≤ nNodes t :=
  ⟨edges_nodes t, tipNames_le_nodes t⟩

/-- ★ every tree VALUE can be traversed and indexed without a crash — whatever produced it.  This is all
    `delivered_usable` ever said: usability does not depend on which reader delivered the tree (the readers'
    outputs are tree values), so no hypothesis about the reader is needed.  Writing a tree back is not
    modelled here: the harness calls `Newick()`, `Nexus()` and `WritePhyloXML` on every delivered tree and the
    oracle requires that they return. -/
theorem delivered_usable (t : T) : reinit t ≠ .panic ∧ walkAll t = .ok :=
  ⟨reinit_no_panic t, walkAll_ok t⟩

/-- … instantiated at the readers, in the words of the property -/
theorem newick_delivered_usable (b : List UInt8) (rs : List Readers.Rec) (_h : Readers.newickOne b = .ok rs) :
    ∀ r ∈ rs, ∀ t nf, r.tree = some (t, nf) → reinit t ≠ .panic ∧ walkAll t = .ok :=
  fun _ _ t _ _ => delivered_usable t

/-- "either reports an error or delivers trees", multi-tree Newick: the reader never ends without a record
    (oracle clause `reportsOrDelivers`; the other stream readers: `nexus_multi_reports_or_delivers` …) -/
theorem multi_reports_or_delivers (chunks : List Readers.Chunk) (rs : List Readers.Rec) (h : Readers.multiNewick chunks = .ok rs) :
    rs ≠ [] := (Readers.multiNewick_shape chunks rs h).2.2

/-- … the Nexus stream reader (since 78cdd07 a document without any tree is reported as an error record) -/
theorem nexus_multi_reports_or_delivers (b : List UInt8) (rs : List Readers.Rec) (h : Readers.nexusMulti b = .ok rs) : rs ≠ [] := by
  unfold Readers.nexusMulti at h
  split at h
  · cases h
  · cases h
  · cases h; simp
  · cases h; simp
  · rename_i ts hne _
    cases h
    cases ts with
    | nil => exact absurd rfl (hne)
    | cons t r => simp [Readers.ofNTrees]

/-- … the PhyloXML stream reader -/
theorem phyloxml_multi_reports_or_delivers (ps : List Readers.Clade) (rs : List Readers.Rec) (h : Readers.phyloxmlMulti ps = .ok rs) : rs ≠ [] := by
  unfold Readers.phyloxmlMulti at h
  split at h
  · cases h; simp
  · rename_i p tl
    split at h
    · rename_i rs' hr
      cases h
      unfold Readers.pxRecs at hr
      split at hr
      · cases hr
      · split at hr
        · cases hr; simp
        · rename_i hne; exact absurd hr (by intro h'; exact hne _ h')
      · split at hr
        · cases hr; simp
        · rename_i hne; exact absurd hr (by intro h'; exact hne _ h')
    · cases h
    · cases h

/-- … the Nextstrain stream reader (always exactly one record) -/
theorem nextstrain_multi_reports_or_delivers (v : String) (n : Readers.NsNode) (rs : List Readers.Rec)
    (h : Readers.nextstrainMulti v n = .ok rs) : rs ≠ [] := by
  unfold Readers.nextstrainMulti at h
  split at h <;> (cases h; simp)

/-- "never kills the process": the packages of the readers (io/newick, io/nexus, io/fileutils, io/utils, io/phyloxml,
    io/nextstrain) hold no call of os.Exit / log.Fatal* / log.Panic* / ExitWithMessage — counted in the working tree on
    every run (harness/c02/extract.go → Gen/C02Goroutine.lean) -/
theorem readers_never_exit : Gen.C02.exitCalls = 0 := by decide

/-- "either reports an error or delivers trees", single-tree entry points: `ok` always comes with a record -/
theorem single_reports_or_delivers (b : List UInt8) (ps : List Readers.Clade) (v : String) (n : Readers.NsNode) :
    (∀ rs, Readers.newickOne b = .ok rs → rs ≠ []) ∧ (∀ rs, Readers.nexusOne b = .ok rs → rs ≠ []) ∧
    (∀ rs, Readers.phyloxmlOne ps = .ok rs → rs ≠ []) ∧ (∀ rs, Readers.nextstrainOne v n = .ok rs → rs ≠ []) := by
  refine ⟨?_, ?_, ?_, ?_⟩
  · intro rs h; unfold Readers.newickOne at h; split at h <;> (try cases h) <;> simp
  · intro rs h; unfold Readers.nexusOne at h; split at h <;> (try cases h) <;> simp
  · intro rs h; unfold Readers.phyloxmlOne at h
    split at h
    · cases h
    · split at h <;> (try cases h) <;> simp
  · intro rs h; unfold Readers.nextstrainOne at h
    split at h
    · cases h
    · split at h <;> (try cases h) <;> simp

/-! ### the entry points with their `switch format` (Model/C02Dispatch.lean) -/

/-- ★ the two entry points of io/utils/readtrees.go, for EVERY format code (the four constants and anything else:
    the `default` branch) and every input: no panic, no hang -/
theorem entry_points_total (inp : Readers.Input) (format : Int) :
    (Readers.readTreeReader inp format).crashed = false ∧ (Readers.readMultiTrees inp format).crashed = false := by
  constructor
  · unfold Readers.readTreeReader
    split
    · exact newick_no_panic _
    · split
      · exact (nexus_no_panic _).1
      · split
        · split
          · rfl
          · exact (clades_no_panic _ "" default).1
        · split
          · split
            · rfl
            · exact (clades_no_panic [] _ _).2.2.1
          · rfl
  · unfold Readers.readMultiTrees
    split
    · exact multi_no_panic _
    · split
      · exact (nexus_no_panic _).2
      · split
        · split
          · rfl
          · exact (clades_no_panic _ "" default).2.1
        · split
          · split
            · rfl
            · exact (clades_no_panic [] _ _).2.2.2
          · rfl

/-- "either reports an error or delivers trees", at the entry points and for every format code: an `ok` outcome
    always comes with at least one record (for a code that is none of the four constants: `ReadTreeReader` returns
    an error, `ReadMultiTrees` sends exactly one record, which carries the error) -/
theorem entry_points_report_or_deliver (inp : Readers.Input) (format : Int) :
    (∀ rs, Readers.readTreeReader inp format = .ok rs → rs ≠ []) ∧
    (∀ rs, Readers.readMultiTrees inp format = .ok rs → rs ≠ []) := by
  constructor
  · intro rs h
    unfold Readers.readTreeReader at h
    split at h
    · exact (single_reports_or_delivers inp.bytes [] "" default).1 rs h
    · split at h
      · exact (single_reports_or_delivers inp.bytes [] "" default).2.1 rs h
      · split at h
        · split at h
          · cases h
          · rename_i ps _; exact (single_reports_or_delivers [] ps "" default).2.2.1 rs h
        · split at h
          · split at h
            · cases h
            · rename_i v n _; exact (single_reports_or_delivers [] [] v n).2.2.2 rs h
          · cases h
  · intro rs h
    unfold Readers.readMultiTrees at h
    split at h
    · exact multi_reports_or_delivers _ rs h
    · split at h
      · exact nexus_multi_reports_or_delivers _ rs h
      · split at h
        · split at h
          · cases h; simp
          · exact phyloxml_multi_reports_or_delivers _ rs h
        · split at h
          · split at h
            · cases h; simp
            · exact nextstrain_multi_reports_or_delivers _ _ rs h
          · cases h; simp

/-- the `default` branches: a format code outside 0..3 is reported, by an error resp. by one error record -/
theorem unsupported_format_reported (inp : Readers.Input) (format : Int) (h : format < 0 ∨ format > 3) :
    (Readers.readTreeReader inp format).cls = "err" ∧
    (match Readers.readMultiTrees inp format with | .ok [r] => r.tree.isNone && r.id == 0 | _ => false) = true := by
  have h0 : (format == 0) = false := by simp; omega
  have h1 : (format == 1) = false := by simp; omega
  have h2 : (format == 2) = false := by simp; omega
  have h3 : (format == 3) = false := by simp; omega
  constructor
  · simp [Readers.readTreeReader, h0, h1, h2, h3, Readers.ROut.cls]
  · simp [Readers.readMultiTrees, h0, h1, h2, h3]

/-- the command line never reaches those `default` branches: whatever word follows `--format`, PersistentPreRun
    leaves one of the four constants in `treeformat`; and the driver's `formatOfFlag` names that constant -/
theorem cmd_format_in_range (v : String) :
    0 ≤ Readers.formatCode v ∧ Readers.formatCode v ≤ 3 ∧ Readers.formatName (Readers.formatCode v) = Readers.formatOfFlag v := by
  unfold Readers.formatCode Readers.formatOfFlag
  by_cases a : v = "newick"
  · subst a; decide
  · by_cases b : v = "nexus"
    · subst b; decide
    · by_cases c : v = "phyloxml"
      · subst c; decide
      · by_cases d : v = "nextstrain"
        · subst d; decide
        · simp [a, b, c, d, Readers.formatName]

/-- the shape of the three switches, regenerated from the working tree on every run (harness/c02/extract2.go →
    Gen/C02Dispatch.lean): the four constants in iota order, the case labels of `switch format` in ReadTreeReader and
    in ReadMultiTrees with the parser package each case calls and a `default`, the words of `switch rootInputFormat`
    in cmd/root.go with the constant each selects, the default of the `--format` flag -/
theorem reader_dispatch_shape :
    Gen.C02.formatConsts = Readers.formatConsts ∧ Gen.C02.singleSwitch = Readers.dispatchTable ∧
    Gen.C02.multiSwitch = Readers.dispatchTable ∧ Gen.C02.cmdFormatSwitch = Readers.cmdFormatTable ∧
    Gen.C02.cmdFormatFlagDefault = "newick" := by decide

/-- … and `formatCode` is that table read with the constants numbered by `formatConsts` -/
theorem formatCode_is_the_table :
    Readers.cmdFormatTable.all (fun p =>
      (if p.1 == "default" then Readers.formatCode "anything else" else Readers.formatCode p.1) ==
        (Readers.formatConsts.idxOf p.2 : Int)) = true := by decide

/-- a comparison `x <op> lit` extracted from the source, evaluated -/
def evalCmp (g : String × Int) (x : Int) : Option Bool :=
  if g.1 == ">" then some (decide (x > g.2)) else if g.1 == ">=" then some (decide (x ≥ g.2))
  else if g.1 == "<" then some (decide (x < g.2)) else if g.1 == "<=" then some (decide (x ≤ g.2))
  else if g.1 == "==" then some (x == g.2) else if g.1 == "!=" then some (x != g.2) else none

/-- the guards of the two index expressions of `ReadUntilSemiColon` in the working tree MEAN what the model
    transcribes (`i > 0` for the scan back, `len(ln) > 0` around it): every comparison of `i` / of `len(ln)` with a
    literal found in the function is evaluated on probes and must agree with `> 0` — so `i >= 1` stays green, the
    pinned `i >= 0` of F5 (`readUntilSemiColon_pinned_fails`) does not -/
theorem readUntilSemiColon_guards :
    Gen.C02.rusIndexGuards ≠ [] ∧ Gen.C02.rusLenGuards ≠ [] ∧
    (Gen.C02.rusIndexGuards.all fun g => ([-2, -1, 0, 1, 2, 3, 17] : List Int).all fun x => evalCmp g x == some (decide (x > 0))) = true ∧
    (Gen.C02.rusLenGuards.all fun g => ([0, 1, 2, 3, 17] : List Int).all fun x => evalCmp g x == some (decide (x > 0))) = true := by
  decide

/-! ### the file-level entry points (Model/C02Files.lean): GetReader, ReadTree, cmd readTrees / readTree -/

/-- `utils.GetReader` never panics, whatever the name leads to (nothing, a directory, an empty or one-byte file,
    the standard input, a network source) and whatever gzip makes of the content -/
theorem getReader_total (f : Files.FileIn) (m : String) : Files.getReader f ≠ .panic m := by
  unfold Files.getReader
  split
  · simp
  · split
    · split <;> simp
    · simp

/-- a missing file, and a `.gz` name whose content gzip refuses (an empty file, a one-byte file, a directory, text),
    are reported as errors by `GetReader` -/
theorem getReader_refusals (f : Files.FileIn) :
    (Files.rawSource f = none → ∃ m, Files.getReader f = .err m) ∧
    (Files.hasSuffix f.name ".gz" = true → f.gz = none → ∃ m, Files.getReader f = .err m) := by
  constructor
  · intro h; exact ⟨"open", by simp [Files.getReader, h]⟩
  · intro hs hg
    unfold Files.getReader
    split
    · exact ⟨_, rfl⟩
    · simp [hs, hg]

/-- ★ `utils.ReadTree`, cmd `readTrees`, cmd `readTree`: total for every file case, every format code, and every
    way the decoded structures are attached to the bytes -/
theorem file_entry_points_total (f : Files.FileIn) (mk : List UInt8 → Readers.Input) (format : Int) :
    (Files.readTree f mk format).crashed = false ∧ (Files.readTrees f mk format).crashed = false ∧
    (Files.cmdReadTree f mk format).crashed = false := by
  have hp := getReader_total f
  have h1 : (Files.readTree f mk format).crashed = false := by
    unfold Files.readTree
    split
    · rfl
    · rename_i m h; exact absurd h (hp m)
    · exact (entry_points_total _ format).1
  refine ⟨h1, ?_, ?_⟩
  · unfold Files.readTrees
    split
    · rfl
    · rename_i m h; exact absurd h (hp m)
    · exact (entry_points_total _ format).2
  · unfold Files.cmdReadTree
    split
    · exact h1
    · rfl

/-- … and an `ok` outcome always comes with a record -/
theorem file_entry_points_report_or_deliver (f : Files.FileIn) (mk : List UInt8 → Readers.Input) (format : Int) :
    (∀ rs, Files.readTree f mk format = .ok rs → rs ≠ []) ∧ (∀ rs, Files.readTrees f mk format = .ok rs → rs ≠ []) := by
  constructor
  · intro rs h
    unfold Files.readTree at h
    split at h
    · cases h
    · cases h
    · exact (entry_points_report_or_deliver _ format).1 rs h
  · intro rs h
    unfold Files.readTrees at h
    split at h
    · cases h
    · cases h
    · exact (entry_points_report_or_deliver _ format).2 rs h

/-- the cases the round-7b brief names, on concrete names -/
example : (match Files.getReader { name := "t.nw.gz", entry := .file [], gz := none } with | .err _ => true | _ => false) = true := by decide
example : (match Files.getReader { name := "t.nw.gz", entry := .file [0x1f], gz := none } with | .err _ => true | _ => false) = true := by decide
example : (match Files.getReader { name := "t.nw", entry := .dir } with | .ok [] => true | _ => false) = true := by decide
example : (match Files.getReader { name := "t.nw", entry := .missing } with | .err _ => true | _ => false) = true := by decide
example : Files.sourceOf "-" = .stdin ∧ Files.sourceOf "https://x" = .http ∧ Files.sourceOf "itol://1" = .itol ∧ Files.sourceOf "a/b.nw" = .path := by decide

/-- `fileutils.Readln` before fix 34f70d2 (`readlnRaw`): an unterminated last line that fills the buffer exactly came
    with the error and was dropped by the callers' `for err == nil` loop; the current model returns it -/
theorem readln_pinned_drops_last_line :
    (Readers.readlnRaw [⟨[97, 98], true⟩]).2.1 = true ∧ Readers.readln [⟨[97, 98], true⟩] = ([97, 98], false, []) := by
  constructor <;> rfl

/-! ### written back (Model/C02Writers.lean) -/

/-- what `phyloxml.WritePhyloXML` writes for ANY tree value: its `<clade>` / `</clade>` lines are well nested, every
    other line stands inside a clade, and there is exactly one clade per node of the tree -/
theorem phyloxml_written_well_nested (t : T) :
    Writers.wellNested (Writers.phylogenyLines t) 0 = true ∧ Writers.nOpen (Writers.phylogenyLines t) = nNodes t := by
  constructor
  · have h := Writers.wellNested_node 1 none t [] 0
    simpa [Writers.phylogenyLines, Writers.wellNested] using h
  · exact Writers.nOpen_node 1 none t

/-- ★ "written back without crashing", with the index expressions of the writers as explicit panic sites
    (Model/C02WritersP.lean: `n.br[i]` of Node.Newick, `n.Edges()[i]` of phyloxml.writeClade, on nodes that keep
    their neighbours and their branches in two separate lists): on the structure `ConnectNodes` builds for ANY tree
    value the writers do not panic, and they write what the tree-value models write (`Tree.Nexus()` adds no index
    expression to `Tree.Newick()`: it ranges over `Tips()`) -/
theorem written_back_no_panic (t : T) :
    Writers.newickP (Writers.P.ofT t) = .ok (Writers.newickText t).toList ∧
    Writers.pxNodeP 1 none (Writers.P.ofT t) = .ok (Writers.phylogenyLines t) :=
  ⟨Writers.newickP_ofT t, Writers.pxNodeP_ofT 1 none t⟩

/-- … in the words of the property: every tree value can be traversed, indexed and written back without a crash -/
theorem delivered_usable_and_written (t : T) :
    reinit t ≠ .panic ∧ walkAll t = .ok ∧
    (∀ m, Writers.newickP (Writers.P.ofT t) ≠ .panic m) ∧ (∀ m, Writers.pxNodeP 1 none (Writers.P.ofT t) ≠ .panic m) := by
  refine ⟨reinit_no_panic t, walkAll_ok t, ?_, ?_⟩
  · intro m; rw [(written_back_no_panic t).1]; simp
  · intro m; rw [(written_back_no_panic t).2]; simp

/-- the panic sites are live: a node with one child and no branch (a structure `ConnectNodes` never builds) -/
theorem writers_misaligned_panic :
    Writers.newickP (.node ⟨"", []⟩ [.node ⟨"a", []⟩ [] []] []) = .panic Writers.idxPanic ∧
    Writers.pxNodeP 1 none (.node ⟨"", []⟩ [.node ⟨"a", []⟩ [] []] []) = .panic Writers.idxPanic := by
  constructor <;> rfl

/-- `Tree.Nexus()` declares as many taxa as it lists, and no more than the tree has nodes -/
theorem nexus_written_ntax (t : T) : t.tipNames.length ≤ nNodes t := tipNames_le_nodes t

example : Writers.nexusText (.node ⟨"", []⟩ 0 [(EdgeD.blank, T.leaf "a"), (EdgeD.blank, T.leaf "b")]) =
    "#NEXUS\nBEGIN TAXA;\n DIMENSIONS NTAX=2;\n TAXLABELS a b;\nEND;\nBEGIN TREES;\n  TREE tree1 = (a,b);\nEND;\n" := by decide

/-! ### the behaviours before the fixes (negative theorems on the pinned variants) -/

/-- F3, before fix 214ace7: at the end of the input inside a `[` comment the loop of `consumeComment`
    neither consumes input nor leaves — no amount of fuel is enough. -/
theorem nexus_comment_diverges_pinned (fuel : Nat) (s : Nexus.St) (hc : s.ctl = .mainComment) (hh : s.halt = none) :
    Nexus.eofFuel { f3 := true } fuel s = none := Nexus.comment_diverges_pinned fuel s hc hh

/-- F4, before fix b145a71: `FORMAT MISSING=` followed by the end of the input indexes an empty literal -/
theorem nexus_missing_pinned_fails :
    (Nexus.step { f4 := true } { ctl := .dFmtMsVal {} false } Nexus.eofTok).halt =
      some (.panic "index out of range [0] with length 0") := rfl

/-- F5, before fix b11db41: a blank-only line makes `ReadUntilSemiColon` index `ln[-1]` -/
theorem readUntilSemiColon_pinned_fails :
    (Readers.readUntilSemiColon true [⟨[32], false⟩] []).isPanic = true := by decide

/-- F6, before fix 6e33baa: `(a);` — a root with a single neighbour — panics in `ComputeEdgeHashes`. -/
theorem reinit_pinned_fails :
    reinitPinned (.node ⟨"", []⟩ 0 [(EdgeD.blank, T.leaf "a")]) = .panic := by decide

/-- F1, before fix 6ae5e49: the lexers used NUL as end-of-input sentinel, so a NUL character ended the input -/
theorem scan_nul_pinned_truncates :
    (Newick.scanNulPinned false ['\x00', 'a']).tok = .eof ∧ (Newick.scan false ['\x00', 'a']).tok = .ident := by
  constructor <;> rfl

/-- a producer that returns without `close` (own breakage B5): under every schedule the consumer's range
    never ends -/
theorem channel_without_close_never_ends (recs : List Readers.Rec) (sched : List Chan.Actor) :
    Chan.done (Chan.run false sched (Chan.init recs)) = false := Chan.no_close_deadlocks recs sched

/-- own breakage B4: without the `if c.Confidence != nil` test an inner clade without confidence crashes -/
theorem phyloxml_conf_unchecked_fails :
    (Readers.pxTreeWith { confUnchecked := true }
      (.mk "" "" "" none none [.mk "" "" "" none none [.mk "a" "" "" none none []], .mk "b" "" "" none none []])).isPanic = true := by
  decide

/-! ### the hypotheses / witnesses are not vacuous -/

/-- the pinned machine really is in the comment loop, not halted, after the tokens of `#NEXUS\n[x` -/
example :
    let s := ([⟨.nexus, "#NEXUS".toList⟩, ⟨.endofline, []⟩, ⟨.openbrack, ['[']⟩, ⟨.ident, ['x']⟩] : List Nexus.Token).foldl
      (Nexus.deliver { f3 := true }) {}
    s.halt.isNone = true ∧ (match s.ctl with | .mainComment => true | _ => false) = true := by
  constructor <;> rfl

/-- the current machine halts with an error on the same input -/
example :
    (match (Nexus.runToks {} [⟨.nexus, "#NEXUS".toList⟩, ⟨.endofline, []⟩, ⟨.openbrack, ['[']⟩, ⟨.ident, ['x']⟩]).halt with
     | some (.err _) => true | _ => false) = true := rfl

/-- the current code on the F5 and F6 witnesses -/
example : (Readers.readUntilSemiColon false [⟨[32], false⟩] []).isPanic = false := by decide
example : reinit (.node ⟨"", []⟩ 0 [(EdgeD.blank, T.leaf "a")]) = .ok := by decide

/-- hypotheses of `delivered_usable` / `multi_records_shape` on concrete deliveries (the readers defined by
    well-founded recursion do not reduce in the kernel; that they deliver several trees on real streams is
    what the driver reports under the tags `delivered`, `delivered-many`) -/
def exClade (a b : String) : Readers.Clade :=
  .mk "" "" "" none none [.mk a "" "" (some 1) none [], .mk "" b "" (some (1/2)) (some 1) [.mk "x" "" "" none none [], .mk "" "" "y" none none []]]

example :
    (match Readers.phyloxmlMulti [exClade "a" "b", exClade "c" "d", .mk "" "" "" none none []] with
     | .ok rs => rs.length == 3 && (rs.map (·.tree.isSome)) == [true, true, false]
     | _ => false) = true := by decide

example : (match Readers.multiNewick [] with | .ok [r] => r.tree.isNone && r.id == 0 | _ => false) = true := by decide

example : reinit (.node ⟨"", []⟩ 0 [(EdgeD.blank, T.leaf "a"), (EdgeD.blank, T.leaf "b")]) = .ok := by decide
example : reinit (.node ⟨"", []⟩ 0 [(EdgeD.blank, T.leaf "a"), (EdgeD.blank, T.leaf "a")]) = .err := by decide
example : reinit (.node ⟨"r", []⟩ 0 []) = .err := by decide


end Gotree.C02
