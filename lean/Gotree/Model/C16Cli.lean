/-
  C16 — what `gotree generate startree` does on top of `tree.StarTree` (cmd/startree.go:33-36):
  every branch, in `Edges()` order, gets a length drawn with `gostats.Exp`.  Core Lean only.
-/
import Gotree.Model.C16

namespace Gotree.C16
open Gotree

/-- the star of the command: `StarTree(n)`, then `e.SetLength(Exp(...))` for the branches in order
    (the j-th Exp value on the j-th tip); the tip index is the one `StarTree` left -/
def starCli (n : Int) (lens : List Rat) : Res Out :=
  if n < 2 then .err errStar
  else .ok (finishOut (.node newNodeD 0 ((List.range n.toNat).map fun i => (newEdge (lenAt lens i), T.leaf (tipName i)))))

end Gotree.C16
