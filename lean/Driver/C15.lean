import Driver.Proto
import Gotree.Spec.C15
import Gotree.Model.C15HeapEdits
import Gotree.Model.C15Cmd
import Gotree.Model.C15Gen

namespace Gotree.Driver.C15
open Gotree Gotree.Driver Gotree.C15

/-- `obs_C15` (DESIGN §4.2): tip set and distance matrix -/
def obs (t : T) : List String × List (List Rat) := t.distMatrix

def obsEq (a b : T) : Bool := obs a == obs b

def flag (s : String) : Bool := s == "1"

def disjoint (a b : List String) : Bool := !(a.any (b.contains ·))

def shapeTags (t : T) : List String :=
  tagIf t.rooted "rooted" ++ tagIf (t.kids.length ≥ 3) "unrooted" ++ tagIf (t.kids.length == 1) "roottip" ++
  tagIf (!t.noSingle) "singles" ++ tagIf (t.edges.any (·.len == NIL)) "absent-len" ++
  tagIf (t.edges.any (·.len == 0)) "zero-len" ++ tagIf (!t.binary) "multif"

/-- branch data as a key: length, support, p-value, id, comments -/
def edgeKey (e : EdgeD) : String :=
  showRat e.len ++ "," ++ showRat e.sup ++ "," ++ showRat e.pval ++ "," ++ toString e.id ++ "," ++ showStrList e.comments

mutual
def nodeKeys : T → List String
  | .node d _ k => (escape d.name ++ "," ++ showStrList d.comments) :: nodeKeysL k
def nodeKeysL : Kids → List String
  | [] => []
  | (_, t) :: r => nodeKeys t ++ nodeKeysL r
end

/-- the part of `obs_C15` beyond the distances (DESIGN §4.2 as widened in round 3, backing the `*_edges`
    theorems and "exactly the requested tips"): the unrooted split map with length and support, the tip
    branch lengths, the multiset of branch data (length, support, p-value, id, comments) and the multiset
    of node data (name, comments).  Child order and parent positions stay outside (fidelity tag `exact`). -/
def obs2 (t : T) : List USplit × List (List String × Rat) × List String × List String :=
  (t.usplits, t.tipLens, sortStrings (t.edges.map edgeKey), sortStrings (nodeKeys t))

def obs2Eq (a b : T) : Bool := obs2 a == obs2 b

/-- compare model result and implementation on obs_C15; tag `exact` when the whole dumps agree.
    In the CLI tier only the distances and tips are compared (Newick drops ids, supports above named nodes). -/
def tie (cli : Bool) (tags : List String) (model after : T) : Verdict :=
  if !(obsEq model after) then ⟨.tie, tags, "model " ++ model.dump⟩
  else if !cli && !(obs2Eq model after) then
    ⟨.tie, tags, "same distances, but the split map (length, support), the branch data or the node data differ from the model " ++ model.dump⟩
  else ⟨.pass, tagIf (model == after) "exact" ++ tags, ""⟩

/-- "root[,root];id:data=p.p.p;id:data=…" → (roots, cells with their hashed content) -/
def parseHeapM (s : String) : Option (List Nat × List (Nat × Nat × List Nat)) :=
  match splitTerm ";" s with
  | [] => none
  | r :: cs =>
    match (r.splitOn ",").mapM (·.toNat?), cs.mapM (fun c => match c.splitOn "=" with
        | [idd, ps] =>
          match idd.splitOn ":" with
          | [i, d] => match i.toNat?, d.toNat?, (if ps == "" then some [] else (ps.splitOn ".").mapM (·.toNat?)) with
            | some i, some d, some l => some (i, d, l)
            | _, _, _ => none
          | _ => none
        | _ => none) with
    | some roots, some cells => some (roots, cells)
    | _, _ => none

def parseHeap (s : String) : Option (Nat × List (Nat × Nat × List Nat)) :=
  match parseHeapM s with
  | some ([r], cells) => some (r, cells)
  | _ => none

/- child-index path of the first (pre-order) non-root leaf with the given name -/
mutual
def findLeaf (name : String) : T → Option (List Nat)
  | .node _ _ k => findLeafL name k 0
def findLeafL (name : String) : Kids → Nat → Option (List Nat)
  | [], _ => none
  | (_, t) :: r, i =>
    if t.isLeaf && t.name == name then some [i]
    else match findLeaf name t with
      | some p => some (i :: p)
      | none => findLeafL name r (i + 1)
end

def shapeOnly (cells : List (Nat × Nat × List Nat)) : List (Nat × List Nat) := cells.map fun c => (c.1, c.2.2)

def panicked (o : String) : Bool := o.startsWith "panic"

/-- the tip index answers for exactly the tips of the tree (each by the node that carries the name) -/
def indexOK (ia : String) (after : T) : Bool :=
  match parseStrList ((ia.splitOn "|").headD "") with
  | some l => l == sortStrings after.tipNames
  | none => false

/-- the branch bitsets (derived state the operation promises to refresh) describe the tips below
    every branch; absent when the harness did not look -/
def bitsOK (ia : String) : Bool :=
  match ia.splitOn "|" with
  | [_, st] => st == "ok"
  | [_, st, _] => st == "ok" || st == ""
  | _ => true

def showBits (b : List Bool) : String := String.ofList (b.map fun x => if x then '1' else '0')

/-- the derived state the harness read (tip names by tip id / bitset of every branch in `Edges()`
    order) against the model's `tipIndex` and `bitsets` of the same tree -/
def derivedPartOK (part : String) (after : T) (withBits : Bool) : Bool :=
  if part == "" then true else
  match part.splitOn "/" with
  | [ns, bs] =>
    match parseStrList ns, parseStrList bs with
    | some names, some bits => names == (tipIndex after).1 && (!withBits || bits == (bitsets after).map showBits)
    | _, _ => false
  | _ => false

def derivedOK (ia : String) (after : T) (withBits : Bool) : Bool :=
  match ia.splitOn "|" with
  | [_, _, part] => derivedPartOK part after withBits
  | _ => true

def handleCore (cli : Bool) (op : String) (f : List String) : Verdict :=
  match op, f with
  | "graft", [idx, dT, tipE, dG, outcome, dA, wf, ia] =>
    match T.undump dT, unescape tipE, T.undump dG with
    | some t, some tip, some g =>
      let valid := t.uniqueTips && (asGraft g).leaves.eraseDups.length == (asGraft g).leaves.length &&
        disjoint (t.tipNames.erase tip) (graftLeaves g)
      let m := graft (flag idx) t tip g
      let tags := tagIf valid "uniq" ++ shapeTags t ++ tagIf (g.kids.length ≤ 1) "graft-degenerate" ++
        tagIf (flag idx) "indexed" ++ tagIf (t.kids.length == 1 && t.name == tip) "tip-is-root"
      if panicked outcome then ⟨.oracle, tags, "GraftTreeOnTip panicked: " ++ outcome⟩
      else if outcome == "ok" then
        match T.undump dA with
        | none => bad "C15.graft after dump"
        | some after =>
          if wf != "" then ⟨.oracle, tags, "malformed heap after graft: " ++ wf⟩
          else if !valid then
            -- host and graft share names (the code accepts it; distances by name mean nothing then): no oracle,
            -- but the result is compared with the model, cell by cell
            (match m with
             | .ok mt => if zeroPpos mt == zeroPpos after then ⟨.pass, "dupnames-compared" :: tags, ""⟩
                         else ⟨.tie, tags, "graft with shared names: model " ++ mt.dump⟩
             | .error _ => ⟨.pass, "skip-dupnames" :: tags, ""⟩)
          else if !(graftOK t tip g after) then ⟨.oracle, tags, "graft: tips or distances of pre-existing tips changed"⟩
          else if !(indexOK ia after) then ⟨.tie, tags, "graft: the tip index does not answer for exactly the tips: " ++ ia⟩
          else if !(derivedOK ia after false) then ⟨.tie, tags, "graft: tip ids differ from the model's UpdateTipIndex: " ++ ia⟩
          else match m with
            | .ok mt => tie cli ("effective" :: "ok" :: tags) mt after
            | .error e => ⟨.tie, tags, "model rejects: " ++ e⟩
      else match m with
        | .error _ =>
          if valid && dA != dT then ⟨.tie, tags, "the refused graft changed the tree"⟩ else ⟨.pass, "rejected" :: tags, ""⟩
        | .ok _ =>
          if valid then ⟨.oracle, tags, "graft refused at an existing non-root tip of an indexed tree"⟩ else ⟨.pass, "skip-dupnames" :: tags, ""⟩
    | _, _, _ => bad "C15.graft fields"
  | "graftins", [dT, tipE, dG, gs, oc1, oc2, dA, wf] =>
    -- two steps of the property in a row: graft, then identical tips next to tips of the result
    match T.undump dT, unescape tipE, T.undump dG, parseStrLists gs with
    | some t, some tip, some g, some groups =>
      let valid := t.uniqueTips && (asGraft g).leaves.eraseDups.length == (asGraft g).leaves.length &&
        disjoint (t.tipNames.erase tip) (graftLeaves g) && !(groups.flatten.contains "") &&
        !((t.tipNames ++ graftLeaves g).contains "")
      let tags := ["two-step"] ++ tagIf valid "uniq" ++ tagIf (groups.any fun gr => gr.any (graftLeaves g).contains) "next-to-grafted" ++
        tagIf (groups.any (·.contains tip)) "next-to-replaced"
      if panicked oc1 || panicked oc2 then ⟨.oracle, tags, "graft + insert identical panicked: " ++ oc1 ++ " " ++ oc2⟩
      else if !valid then ⟨.pass, "skip-dupnames" :: tags, ""⟩
      else match graft true t tip g with
        | .error _ => if oc1 == "ok" then ⟨.tie, tags, "model rejects the graft"⟩ else ⟨.pass, "rejected" :: tags, ""⟩
        | .ok m1 =>
          if oc1 != "ok" then ⟨.oracle, tags, "graft refused at an existing non-root tip of an indexed tree"⟩ else
          let (m2, merr) := insertIdentical true m1 groups
          match merr, T.undump dA with
          | none, some after =>
            if wf != "" then ⟨.oracle, tags, "malformed heap after graft + insert identical: " ++ wf⟩
            else if oc2 != "ok" then
              ⟨.oracle, tags, "identical tips next to tips of the grafted tree were refused: the tips added by the graft are not the tips the tree answers for"⟩
            else if !(insertOK m1 groups after) then
              ⟨.oracle, tags, "after a graft, insert identical: tips, distances of pre-existing tips, or distance 0 to the model"⟩
            else tie cli ("effective" :: tags) m2 after
          | some _, some after =>
            if oc2 == "ok" then
              (if groups.any (·.contains tip) && !(graftLeaves g).contains tip then
                 ⟨.oracle, tags, "a group naming the tip that the graft replaced was accepted: the tree still answers for a tip it no longer has"⟩
               else ⟨.tie, tags, "model rejects the groups, implementation accepts"⟩)
            else tie cli ("rejected" :: tags) m2 after
          | _, none => bad "C15.graftins after dump"
    | _, _, _, _ => bad "C15.graftins fields"
  | "merge", [i1, i2, dT, dT2, outcome, dA, wf, ia] =>
    match T.undump dT, T.undump dT2 with
    | some t, some t2 =>
      let valid := t.uniqueTips && t2.uniqueTips
      let m := merge (flag i1) (flag i2) t t2
      let tags := tagIf valid "uniq" ++ shapeTags t ++ tagIf (t.rooted && t2.rooted) "both-rooted" ++
        tagIf (disjoint t.tipNames t2.tipNames) "disjoint" ++ tagIf (flag i1 && flag i2) "indexed" ++
        tagIf (t2.tipNames.any (fun x => x != "" && (nodeNamesL t.kids).contains x && !t.tipNames.contains x) ||
               t.tipNames.any (fun x => x != "" && (t2.name :: nodeNamesL t2.kids).contains x && !t2.tipNames.contains x)) "inner-label-is-other-tip" ++
        tagIf (hasDup ((t2.nodeNames.filter (· != "")))) "dup-label-in-second" ++ tagIf (hasDup ((t.nodeNames.filter (· != "")))) "dup-label-in-first"
      if panicked outcome then ⟨.oracle, tags, "Merge panicked: " ++ outcome⟩
      else if outcome == "ok" then
        match T.undump dA with
        | none => bad "C15.merge after dump"
        | some after =>
          if wf != "" then ⟨.oracle, tags, "malformed heap after merge: " ++ wf⟩
          else if !valid then ⟨.pass, "skip-dupnames" :: tags, ""⟩
          else if !(disjoint t.tipNames t2.tipNames) then ⟨.oracle, tags, "merge accepted trees sharing a tip name"⟩
          else if !(mergeOK t t2 after) then ⟨.oracle, tags, "merge: tips or distances of pre-existing tips changed"⟩
          else if !(indexOK ia after) then ⟨.tie, tags, "merge: the tip index does not answer for exactly the tips: " ++ ia⟩
          else match m with
            | .ok mt =>
              if !(bitsOK ia) then ⟨.tie, tags, "merge: the branch bitsets were not refreshed (ReinitIndexes): " ++ ia⟩
              else if !(derivedOK ia after true) then ⟨.tie, tags, "merge: tip ids / bitsets differ from the model's ReinitIndexes: " ++ ia⟩
              else tie cli ("effective" :: "ok" :: tags) mt after
            | .error e => ⟨.tie, tags, "model rejects: " ++ e⟩
      else match m with
        | .error _ =>
          if valid && dA != dT then ⟨.tie, tags, "the refused merge changed the tree"⟩ else ⟨.pass, "rejected" :: tags, ""⟩
        | .ok _ =>
          -- "merging two rooted trees with disjoint tips": refusing such a pair violates the property itself
          if valid then ⟨.oracle, tags, "merge refused two rooted, indexed trees with disjoint tips"⟩ else ⟨.pass, "skip-dupnames" :: tags, ""⟩
    | _, _ => bad "C15.merge fields"
  | "insid", [idx, dT, gs, outcome, dA, wf, ia] =>
    match T.undump dT, parseStrLists gs with
    | some t, some groups =>
      let valid := t.uniqueTips && !(t.tipNames.contains "") && !(groups.flatten.contains "")
      let (mt, merr) := insertIdentical (flag idx) t groups
      let oneOld := groups.all fun g => (g.filter t.tipNames.contains).length == 1
      let tags := tagIf valid "uniq" ++ shapeTags t ++ tagIf (flag idx) "indexed" ++ tagIf oneOld "one-existing-each" ++ tagIf (nondegB t) "nondeg" ++ tagIf (dupInnerLabels t) "dup-inner-labels" ++ tagIf (dupLabels t && !dupInnerLabels t) "inner-label-is-tip" ++
        tagIf (groups.any (·.length ≥ 3)) "group>=3" ++
        tagIf (t.splits.any fun s => s.tip && s.e.len == 0 && groups.flatten.contains (s.below.headD "")) "zero-tip-branch" ++
        tagIf (t.splits.any fun s => s.tip && s.e.len == NIL && groups.flatten.contains (s.below.headD "")) "absent-tip-branch"
      if panicked outcome then ⟨.oracle, tags, "InsertIdenticalTips panicked: " ++ outcome⟩
      else match T.undump dA with
        | none => bad "C15.insid after dump"
        | some after =>
          if wf != "" then ⟨.oracle, tags, "malformed heap after InsertIdenticalTips: " ++ wf⟩
          else if !t.uniqueTips then ⟨.pass, "skip-dupnames" :: tags, ""⟩
          else if !valid then
            -- an empty name among the tips or in a group: outside the theorems' hypotheses (the code
            -- uses "" as "no existing tip yet"); the model must still do what the code does
            (match outcome == "ok", merr with
             | true, none => tie cli ("empty-name" :: tags) mt after
             | false, some _ => tie cli ("empty-name" :: "rejected" :: tags) mt after
             | true, some e => ⟨.tie, "empty-name" :: tags, "model rejects: " ++ e⟩
             | false, none => ⟨.tie, "empty-name" :: tags, "model accepts, implementation fails"⟩)
          else if outcome == "ok" then
            if !(insertOK t groups after) then ⟨.oracle, tags, "insert identical: tips, distances of pre-existing tips, or distance 0 to the model"⟩
            else if !(indexOK ia after) then ⟨.tie, tags, "insert identical: the tip index does not answer for exactly the tips: " ++ ia⟩
            else if !(bitsOK ia) then ⟨.tie, tags, "insert identical: the branch bitsets were not refreshed (ReinitIndexes): " ++ ia⟩
            else if !(derivedOK ia after true) then ⟨.tie, tags, "insert identical: tip ids / bitsets differ from the model's ReinitIndexes: " ++ ia⟩
            else match merr with
              | none => tie cli (tagIf (after != t) "effective" ++ "ok" :: tags) mt after
              | some e => ⟨.tie, tags, "model rejects: " ++ e⟩
          else if flag idx && groupsAcceptable t groups then
            -- acceptable groups refused: a violation; the recorded one is the duplicate-inner-label refusal (F79)
            ⟨.oracle, tags, (if dupLabels t && (outcome.splitOn "NewNodeIndex").length ≥ 2 && (outcome.splitOn "several%20node%20with%20the%20same%20name").length ≥ 2
                              then "class=InsertIdenticalDuplicateInnerLabels " else "") ++
              "groups with exactly one existing member each were refused on a tree with unique tip names: " ++ outcome⟩
          else match merr with
            | some _ =>
              -- the insertions made before the failure stay: pre-existing distances still may not move
              if !(distAgree t after t.tipNames) then ⟨.oracle, tags, "failed insert changed distances of pre-existing tips"⟩
              else tie cli ("rejected" :: tags) mt after
            | none => ⟨.tie, tags, "model accepts, implementation fails"⟩
    | _, _ => bad "C15.insid fields"
  | "rmsingle", [idx, dT, outcome, dA, wf, dd] =>
    match T.undump dT with
    | some t =>
      let valid := t.uniqueTips && lengthsOK t
      let tags := tagIf valid "uniq" ++ shapeTags t ++ tagIf (flag idx) "indexed" ++ tagIf (hasChain t) "single-chain" ++
        tagIf (t.kids.any fun (_, c) => c.kids.length == 1) "single-under-root" ++ tagIf (!allPposZero t) "ppos-nonzero"
      if panicked outcome then ⟨.oracle, tags, "RemoveSingleNodes panicked: " ++ outcome⟩
      else match T.undump dA with
        | none => bad "C15.rmsingle after dump"
        | some after =>
          if wf != "" then ⟨.oracle, tags, "malformed heap after RemoveSingleNodes: " ++ wf⟩
          else if !valid then ⟨.pass, "skip-dupnames" :: tags, ""⟩
          else if !(removeSingleOK t after) then ⟨.oracle, tags, "remove single nodes: tips, distances, or a single-child node left"⟩
          else if !cli && !(t.usplits.length == after.usplits.length && t.usplits.all (after.usplits.contains ·)) then
            -- Spec-level, no model (theorem removeSingle_usplits): every bipartition keeps its length (sum of the
            -- fused branches) and its support (the larger of the two); not in the CLI tier (Newick cannot carry
            -- the support of a branch above a named node or a tip)
            ⟨.oracle, tags, "remove single nodes: the unrooted split map (length and support of each bipartition) changed"⟩
          else if !(derivedPartOK dd after true) then
            ⟨.tie, tags, "remove single nodes: tip ids / bitsets differ from the model's ReinitInternalIndexes: " ++ dd⟩
          else if !cli && (removeSingle t).usplits != after.usplits then
            -- beyond obs_C15 (DESIGN §4.2): length and support per unrooted split of the fused branches
            -- (not in the CLI tier: Newick cannot carry the support of a branch above a named node or a tip)
            ⟨.tie, tags, "per-split length/support differ from the model: " ++ (removeSingle t).dump⟩
          else tie cli (tagIf (!t.noSingle) "effective" ++ tags) (removeSingle t) after
    | none => bad "C15.rmsingle fields"
  | "subtree", [dT, pathS, outcome, dS, wf, dTa, txt0, txt1, ia, sh] =>
    match T.undump dT, parseNatList pathS with
    | some t, some path =>
      let valid := t.uniqueTips
      let tags := tagIf valid "uniq" ++ shapeTags t ++ tagIf path.isEmpty "at-root" ++ tagIf (hasComments t) "comments"
      if panicked outcome then ⟨.oracle, tags, "SubTree panicked: " ++ outcome⟩
      else match T.undump dS, nodeAt t path, subTree t path with
        | some sub, some n, some m =>
          let tags := tags ++ tagIf n.isLeaf "at-leaf" ++ tagIf (n.kids.length == 1) "at-single"
          if wf != "" then ⟨.oracle, tags, "malformed subtree: " ++ wf⟩
          else if dTa != dT || txt0 != txt1 then ⟨.oracle, tags, "SubTree changed its source"⟩
          else if sh != "" then ⟨.oracle, tags, "the subtree shares heap cells with its source: " ++ sh⟩
          else if hasComments n && !(allRefFieldsFresh Gotree.Gen.C15.fields Gotree.Gen.C15.recurFacts) then
            ⟨.tie, tags, "table (d) says a reference field is shared, no shared cell was observed"⟩
          else if !valid then ⟨.pass, "skip-dupnames" :: tags, ""⟩
          else if !(subTreeOK t n sub) then ⟨.oracle, tags, "subtree: tips or distances differ from the source"⟩
          else if sub.uniqueTips && !(indexOK ia sub) then ⟨.tie, tags, "subtree: the tip index does not answer for exactly the tips: " ++ ia⟩
          else if sub.uniqueTips && !(bitsOK ia) then ⟨.tie, tags, "subtree: the branch bitsets do not describe the subtree (ReinitIndexes): " ++ ia⟩
          else if sub.uniqueTips && !(derivedOK ia sub true) then ⟨.tie, tags, "subtree: tip ids / bitsets differ from the model's ReinitIndexes: " ++ ia⟩
          else tie cli (tagIf (!n.isLeaf) "effective" ++ tags) m sub
        | _, _, _ => bad "C15.subtree dump/path"
    | _, _ => bad "C15.subtree fields"
  | "clone", [idx, dT, outcome, dC, wf, dTa, txtT, txtC, idsT, idsC, ia, sh] =>
    match T.undump dT with
    | some t =>
      let tags := tagIf t.uniqueTips "uniq" ++ shapeTags t ++ tagIf (flag idx) "indexed" ++ tagIf (hasComments t) "comments" ++
        tagIf (!allPposZero t) "ppos-nonzero"
      if panicked outcome then ⟨.oracle, tags, "Clone panicked: " ++ outcome⟩
      else match T.undump dC with
        | none => bad "C15.clone dump"
        | some c =>
          if wf != "" then ⟨.oracle, tags, "malformed clone: " ++ wf⟩
          else if dTa != dT then ⟨.oracle, tags, "Clone changed its source"⟩
          else if sh != "" then ⟨.oracle, tags, "the clone shares heap cells with its source: " ++ sh⟩
          else if txtT != txtC then ⟨.oracle, tags, "text of the clone differs from the text of the source"⟩
          else if !(cloneOK t c) then ⟨.oracle, tags, "clone differs from its source (names, comments, branch data, order)"⟩
          else if idsT != idsC then ⟨.oracle, tags, "clone is not an exact copy: node ids / depths, tip counts / hash codes of the branches, or the stats row of a branch (depth to the root) differ"⟩
          else if t.uniqueTips && !(indexOK ia c) then ⟨.tie, tags, "clone: the tip index does not answer for exactly the tips: " ++ ia⟩
          else if t.uniqueTips && !(bitsOK ia) then ⟨.tie, tags, "clone: the copied branch bitsets do not describe the clone: " ++ ia⟩
          else if t.uniqueTips && !(derivedOK ia c true) then ⟨.tie, tags, "clone: tip ids / copied bitsets differ from the model: " ++ ia⟩
          else if clone t == c then ⟨.pass, "exact" :: "effective" :: tags, ""⟩
          else if obsEq (clone t) c then ⟨.pass, "effective" :: tags, ""⟩
          else ⟨.tie, tags, "model clone " ++ (clone t).dump⟩
    | none => bad "C15.clone fields"
  | "hist", [kind, side, dT, pathS, script, outcomes, nchanged, twin0, txt0, twins, txts, wfs] =>
    match T.undump dT, parseNatList pathS, T.undump twin0 with
    | some t, some path, some tw =>
      let steps := (splitTerm "," script).length
      let tws := splitTerm "|" twins
      let tx := splitTerm "," txts
      let nch := nchanged.toNat?.getD 0
      let oks := (splitTerm "," outcomes).filter (· == "ok")
      let tags := [kind, "edit-" ++ side] ++ tagIf (nch ≥ 2) "nontrivial" ++ tagIf (hasComments t) "comments" ++
        tagIf t.rooted "rooted" ++ tagIf (oks.length ≥ 3) "ok>=3" ++
        (((splitTerm "," script).map fun s =>
          let h := (s.splitOn "%3A").headD ""
          "op-" ++ (if h.startsWith "c%7E" || h.startsWith "o%7E" then String.ofList (h.toList.drop 4) else h)).eraseDups)
      -- relation of the twin to the source at the start
      let start : Bool :=
        if side == "copy" then twin0 == dT
        else match (if kind == "clone" then some (clone t) else subTree t path) with
          | some m => zeroPpos tw == zeroPpos m
          | none => false
      if side == "both" then
        -- alternating history: (before, after) readings of the tree that was NOT edited at each step
        let rec pairsOK : List String → Bool
          | a :: b :: r => a == b && pairsOK r
          | [] => true
          | _ => false
        let rec firstBad : List String → Nat → Nat
          | a :: b :: r, i => if a == b then firstBad r (i + 1) else i
          | _, i => i
        let start2 := match (if kind == "clone" then some (clone t) else subTree t path), tws with
          | some m, first :: _ => (match T.undump first with | some u => zeroPpos u == zeroPpos m || zeroPpos u == zeroPpos t | none => false)
          | _, _ => true
        if tws.length != 2 * steps || tx.length != 2 * steps then bad "C15.hist lengths (both)"
        else if wfs != "" then ⟨.oracle, tags, "twin heap malformed after an edit of the other tree: " ++ wfs⟩
        else if !(pairsOK tws) then ⟨.oracle, tags, "the tree that was not edited changed (dump) at step " ++ toString (firstBad tws 1) ++ " of the alternating history"⟩
        else if !(pairsOK tx) then ⟨.oracle, tags, "the tree that was not edited changed (text) at step " ++ toString (firstBad tx 1) ++ " of the alternating history"⟩
        else if !start2 then ⟨.tie, tags, "the copy is not the model's copy at the start of the history"⟩
        else ⟨.pass, tags, ""⟩
      else if tws.length != steps || tx.length != steps then bad "C15.hist lengths"
      else if wfs != "" then ⟨.oracle, tags, "twin heap malformed after an edit of the other tree: " ++ wfs⟩
      else if !(tws.all (· == twin0)) then
        ⟨.oracle, tags, "twin changed (dump) after step " ++ toString ((tws.takeWhile (· == twin0)).length + 1) ++ " of the history"⟩
      else if !(tx.all (· == txt0)) then
        ⟨.oracle, tags, "twin changed (text) after step " ++ toString ((tx.takeWhile (· == txt0)).length + 1) ++ " of the history"⟩
      else if !start then ⟨.tie, tags, "the copy is not the model's copy at the start of the history"⟩
      else ⟨.pass, tags, ""⟩
    | _, _, _ => bad "C15.hist fields"
  | "heap", [kind, dT, pathS, outcome, before, after] =>
    -- the heap model of Clone / SubTree (Lemmas/C15HeapCopy.lean: `cloneOpsAt` driven by the regenerated
    -- table) is RUN on the pointer graph of the real source, and the structure it builds is compared,
    -- up to renaming of cells, with the pointer graph of the real copy
    match T.undump dT, parseNatList pathS, parseHeap before with
    | some t, some path, some (root, cells) =>
      let tags := ["heap-" ++ kind] ++ tagIf (hasComments t) "comments" ++ tagIf (!allPposZero t) "ppos-nonzero"
      if panicked outcome then ⟨.oracle, tags, kind ++ " panicked: " ++ outcome⟩ else
      match parseHeap after, Heap.heapPath t path [0] true with
      | some (croot, ccells), some (sp, n, isRoot) =>
        -- the Tree struct of the source: one more cell, whose first reference is the root node
        let base := (Heap.ofCellsD cells).next + 1
        let h0 : Heap.H := Heap.ofCellsD ((base, 0, [root, base - 1]) :: (base - 1, 0, []) :: cells)   -- Tree [root, tip index]
        let src := base
        let h1 := Heap.exec src h0.next (Heap.cloneOpsAt Gotree.Gen.C15.fields n sp isRoot) h0
        -- the path must lead, in the real source, to a node cell (3 reference fields)
        let okPath := match Heap.follow h0 src sp with
          | some a => (h0.ptrs a).length == 3
          | none => false
        if !okPath then ⟨.tie, tags, "heap path of the node does not resolve in the pointer graph of the source"⟩
        else if !(Heap.isoFromD h1 h0.next ccells croot) then
          ⟨.tie, tags, "the heap model of the copy differs (shape or copied content) from the pointer graph of the real copy"⟩
        else ⟨.pass, "effective" :: tags, ""⟩
      | _, _ => bad "C15.heap dump/path"
    | _, _, _ => bad "C15.heap fields"
  | "heapedit", ["reroot", dT, pathS, outcome, before, after] =>
    -- the heap program of Reroot (Lemmas/C15HeapEdits.lean: `rerootProgs` = Inverse on the branches of the
    -- path, then t.root = n) run on the pointer graph of the real tree, against the graph after the real call
    match T.undump dT, parseNatList pathS, parseHeap before, parseHeap after with
    | some t, some path, some (root, cells), some (aroot, acells) =>
      let tags := ["heapedit-reroot"] ++ tagIf (!allPposZero t) "ppos-nonzero" ++ tagIf path.isEmpty "at-root"
      if panicked outcome then ⟨.oracle, tags, "Reroot panicked: " ++ outcome⟩
      else if outcome != "ok" then ⟨.pass, "rejected" :: tags, ""⟩
      else match Heap.heapPath t path [0] true with
        | none => bad "C15.heapedit path"
        | some (sp, _, _) =>
          -- sp = [0, 1, s1, 1, s2, …]: keep the slots
          let rec slotsOf : List Nat → List Nat
            | 1 :: s :: r => s :: slotsOf r
            | _ => []
          let slots := slotsOf (sp.drop 1)
          let base := (Heap.ofCellsD cells).next + 1
          let h0 : Heap.H := Heap.ofCellsD ((base, 0, [root, base - 1]) :: (base - 1, 0, []) :: cells)   -- Tree [root, tip index]
          let h1 := Heap.run ((Heap.rerootProgs slots).map (Heap.runProg base)) h0
          let abase := (Heap.ofCellsD acells).next + 1
          if Heap.isoFromD h1 base ((abase, 0, [aroot, abase - 1]) :: (abase - 1, 0, []) :: acells) abase then ⟨.pass, tagIf (!path.isEmpty) "effective" ++ tags, ""⟩
          else ⟨.tie, tags, "the heap program of Reroot yields another pointer graph than the real Reroot"⟩
    | _, _, _, _ => bad "C15.heapedit fields"
  | "heapedit", [hop, dT, argE, outcome, before, after, dT2] =>
    -- GraftTreeOnTip / Merge / InsertIdenticalTip statement by statement as heap programs
    -- (Lemmas/C15HeapEdits.lean), run on the real pointer graph, compared in shape with the real result
    match T.undump dT, unescape argE, parseHeapM before, parseHeap after with
    | some t, some arg, some (roots, cells), some (aroot, acells) =>
      let tags := ["heapedit-" ++ hop] ++ tagIf (t.kids.length == 1) "roottip"
      if outcome != "ok" then ⟨.pass, "rejected" :: tags, ""⟩ else
      let cs := shapeOnly cells
      let m := (Heap.ofCells cs).next
      -- tip index and Tree struct of each tree, then the frame holding receiver and argument
      let trees := roots.zipIdx.flatMap fun (r, i) => [(m + 2 * i, ([] : List Nat)), (m + 2 * i + 1, [r, m + 2 * i])]
      let frame := m + 2 * roots.length
      let h0 : Heap.H := Heap.ofCells ((frame, (List.range roots.length).map fun i => m + 2 * i + 1) :: trees ++ cs)
      let acs := shapeOnly acells
      let am := (Heap.ofCells acs).next
      let check (prog : Heap.H → List Heap.Op) (extra : List String) : Verdict :=
        let h1 := Heap.runProg frame prog h0
        if Heap.isoFrom h1 (m + 1) ((am + 1, [aroot, am]) :: (am, []) :: acs) (am + 1) then ⟨.pass, "effective" :: extra ++ tags, ""⟩
        else ⟨.tie, extra ++ tags, "the heap program of " ++ hop ++ " yields another pointer graph than the real call"⟩
      -- the tip's parent in the heap: path, number of neighbours, slot of the tip
      let locate : Option (List Nat × Nat × Nat × EdgeD × Bool) :=
        match findLeaf arg t with
        | none => none
        | some p =>
          let q := p.dropLast
          let i := p.getLastD 0
          match Heap.heapPath t q [0, 0] true with
          | some (parN, .node _ pp kids, isRoot) =>
            (match kids[i]? with
             | some (e, _) => some (parN, kids.length + (if isRoot then 0 else 1), Heap.slot isRoot pp i, e, isRoot && kids.length == 1)
             | none => none)
          | none => none
      let checkL (progs : List (Heap.H → List Heap.Op)) (extra : List String) : Verdict :=
        let h1 := Heap.run (progs.map (Heap.runProg frame)) h0
        if Heap.isoFrom h1 (m + 1) ((am + 1, [aroot, am]) :: (am, []) :: acs) (am + 1) then
          ⟨.pass, tagIf (!progs.isEmpty) "effective" ++ extra ++ tags, ""⟩
        else ⟨.tie, extra ++ tags, "the heap programs of " ++ hop ++ " yield another pointer graph than the real call"⟩
      match hop with
      | "prune" =>
        -- transcribed: the tip's parent is not the root, has no single-child node around, and keeps its
        -- parent and one child (case 2, oriented) or more (case 3); the other cases of removeTip are not
        (match findLeaf arg t with
         | some p =>
           let q := p.dropLast
           let i := p.getLastD 0
           if q.isEmpty then ⟨.pass, "not-transcribed" :: tags, ""⟩ else
           (match Heap.heapPath t q.dropLast [0, 0] true with
            | some (ppath, .node _ ppP kidsP, isRootP) =>
              (match kidsP[q.getLastD 0]? with
               | some (_, .node _ ppI kidsI) =>
                 let kP := kidsP.length + (if isRootP then 0 else 1)
                 let sI := Heap.slot isRootP ppP (q.getLastD 0)
                 let kI := kidsI.length + 1
                 let sTip := Heap.slot false ppI i
                 if kidsI.length < 2 then ⟨.pass, "not-transcribed" :: tags, ""⟩
                 else if kidsI.length ≥ 3 then checkL (Heap.removeTipProgs ppath kP sI kI sTip 0 0 0) ["case3"]
                 else
                   -- the other child of I, and its slot after the tip has been deleted
                   let j := if i == 0 then 1 else 0
                   let sj := Heap.slot false ppI j
                   let sc := if sTip < sj then sj - 1 else sj
                   (match kidsI[j]? with
                    | some (_, .node _ ppC kidsC) =>
                      checkL (Heap.removeTipProgs ppath kP sI kI sTip sc (kidsC.length + 1) ppC) ["case2"]
                    | none => bad "C15.heapedit prune child")
               | none => bad "C15.heapedit prune parent")
            | none => bad "C15.heapedit prune path")
         | none => bad "C15.heapedit prune: tip not found")
      | "rmsingle" => checkL (Heap.rsProgs t [0, 0] true) (tagIf (hasChain t) "single-chain" ++ tagIf (!allPposZero t) "ppos-nonzero")
      | "merge" => check Heap.mergeProg []
      | "graft" =>
        (match locate, T.undump dT2 with
         | some (parN, kn, idx, _, _), some g => check (Heap.graftProg parN kn idx [1, 0] g.kids.length) []
         | _, _ => bad "C15.heapedit graft: tip not found")
      | "insid" =>
        (match locate with
         | some (parN, kn, idx, e, lone) =>
           if e.len == 0 && !lone then check (Heap.insertZeroProg parN kn) ["zero-branch"]
           else check (Heap.insertCherryProg parN kn idx) ["cherry"]
         | none => bad "C15.heapedit insid: tip not found")
      | _ => bad ("C15.heapedit: " ++ hop)
    | _, _, _, _ => bad "C15.heapedit fields"
  | "glue", [cmd, a, b, c, outcome, out] =>
    -- CLI glue (DESIGN §4.3): the command as a pure function of its inputs; `out` = α of the printed
    -- tree re-read, "-" when nothing was printed
    let got : Option T := if out == "-" then none else T.undump out
    let cmp (tags : List String) (expect : Option T) (expOutcome : String) : Verdict :=
      if outcome.startsWith "panic" then ⟨.oracle, tags, "gotree " ++ cmd ++ " crashed: " ++ outcome⟩
      else if outcome != expOutcome then ⟨.tie, tags, "gotree " ++ cmd ++ ": exit " ++ outcome ++ ", model says " ++ expOutcome⟩
      else match expect, got with
        | none, none => ⟨.pass, "effective" :: tags, ""⟩
        | some m, some g => if obsEq m g then ⟨.pass, "effective" :: tagIf (zeroPpos m == zeroPpos g) "exact" ++ tags, ""⟩
                            else ⟨.tie, tags, "gotree " ++ cmd ++ " printed another tree than the model: " ++ m.dump⟩
        | none, some _ => ⟨.tie, tags, "gotree " ++ cmd ++ " printed a tree, the model prints none"⟩
        | some m, none => ⟨.tie, tags, "gotree " ++ cmd ++ " printed nothing, the model prints " ++ m.dump⟩
    match cmd, T.undump a with
    | "graft", some host =>
      (match unescape b, T.undump c with
       | some tip, some g =>
         let refused := match graft true host tip g with | .ok _ => false | .error _ => true
         cmp (["glue-graft"] ++ tagIf refused "graft-error-ignored") (some (cliGraft host tip g)) "ok"
       | _, _ => bad "C15.glue graft fields")
    | "merge", some t1 =>
      (match T.undump b with
       | some t2 => let e := cliMerge t1 t2
                    cmp (["glue-merge"] ++ tagIf e.isNone "refused") e (if e.isSome then "ok" else "err")
       | none => bad "C15.glue merge fields")
    | "repopulate", some t =>
      (match parseStrLists b with
       | some gs => let e := cliRepopulate t gs
                    cmp (["glue-repopulate"] ++ tagIf e.isNone "refused") e (if e.isSome then "ok" else "err")
       | none => bad "C15.glue repopulate fields")
    | "collapsesingle", some t => cmp ["glue-collapsesingle"] (some (cliCollapseSingle t)) "ok"
    | "subtree", some t =>
      (match unescape b with
       | some name => let e := cliSubtree t name
                      cmp (["glue-subtree", "matches-" ++ toString (nodesNamed t name).length] ++ tagIf e.isNone "nothing-printed") e "ok"
       | none => bad "C15.glue subtree fields")
    | _, _ => bad ("C15.glue: " ++ cmd)
  | "repop", [gmode, gtextE, intendedS, treesS, outcome, outsS] =>
    -- `gotree repopulate` as a whole (round 7): the group file as raw text, the three states of -g, several
    -- trees in the input.  Oracle (no model): groups that are acceptable for EVERY tree of the input are
    -- accepted for every tree, one tree is printed per input tree and each meets insertOK.
    match unescape gtextE, (splitTerm "|" treesS).mapM T.undump, (splitTerm "|" outsS).mapM T.undump with
    | some gtext, some trees, some outs =>
      let ga : Option GroupArg := match gmode with
        | "none" => some .absent | "missing" => some .missing | "file" => some (.file gtext)
        | "gz" => some (.gzfile gtext) -- the .gz branch: gtext is the decompressed content (gzip.Reader is trusted)
        | "fakegz" => some .missing    -- a .gz name on plain text: gzip.NewReader fails, the error is overwritten
        | _ => none
      (match ga with
       | none => bad "C15.repop mode"
       | some ga =>
        let m := cliRepopulateFile ga trees
        let intended : Option (List (List String)) := if intendedS == "-" then none else parseStrLists intendedS
        let read := readGroupFile gtext
        let isFile := gmode == "file" || gmode == "gz"
        let lastLine := ((splitC '\n' gtext.toList).getLast?).getD []
        let fullLast := gmode == "file" && !lastLine.isEmpty && lastLine.length % bufSize == 0
        let tags := ["repop", "g-" ++ gmode] ++ tagIf (trees.length ≥ 2) "multi-tree" ++
          tagIf (gtext.toList.contains '\r') "crlf" ++
          tagIf (isFile && gtext != "" && gtext.toList.getLast? != some '\n') "no-final-newline" ++
          tagIf (isFile && (readLines gtext.toList).any (·.length > 4096)) "line>4096" ++
          tagIf (read.contains [""]) "blank-line" ++ tagIf (read.any (·.length == 1)) "single-name-line" ++
          tagIf (isFile && read.isEmpty) "empty-file" ++ tagIf fullLast "unterminated-last-line-fills-buffer" ++
          tagIf (gmode == "gz" && !lastLine.isEmpty && lastLine.length % bufSize == 0) "gz-last-line-fills-buffer" ++
          tagIf (!m.2) "refused" ++ tagIf (!m.2 && !m.1.isEmpty) "refused-after-printing" ++
          tagIf (m.2 && m.1 != trees) "effective" ++
          tagIf (isFile && intended == some read) "parse=written"
        let validFor (gs : List (List String)) (t : T) : Bool :=
          t.uniqueTips && !(t.tipNames.contains "") && !(gs.flatten.contains "") && !(dupLabels t) &&
          groupsAcceptable t gs
        let tieAll (tags : List String) : Verdict :=
          if outcome != (if m.2 then "ok" else "err") then
            ⟨.tie, tags, "gotree repopulate: exit " ++ outcome ++ ", model says " ++ (if m.2 then "ok" else "err")⟩
          else if outs.length != m.1.length then
            ⟨.tie, tags, "gotree repopulate printed " ++ toString outs.length ++ " trees, the model " ++ toString m.1.length⟩
          else if !((m.1.zip outs).all fun p => obsEq p.1 p.2) then
            ⟨.tie, tags, "gotree repopulate printed another tree than the model"⟩
          else ⟨.pass, tagIf ((m.1.zip outs).all fun p => zeroPpos p.1 == zeroPpos p.2) "exact" ++ tags, ""⟩
        if panicked outcome then ⟨.oracle, tags, "gotree repopulate crashed: " ++ outcome⟩
        else match intended with
          | some gs =>
            if isFile && trees.all (validFor gs) then
              let tags := "valid" :: tags
              if outcome != "ok" then
                ⟨.oracle, tags, "gotree repopulate failed although every group has exactly one existing member in every tree of the input (" ++
                  toString outs.length ++ " of " ++ toString trees.length ++ " trees printed)"⟩
              else if outs.length != trees.length then
                ⟨.oracle, tags, "gotree repopulate printed " ++ toString outs.length ++ " trees for " ++ toString trees.length⟩
              else if !((trees.zip outs).all fun p => insertOK p.1 gs p.2) then
                ⟨.oracle, tags, "gotree repopulate: tips, distances of pre-existing tips, or distance 0 to the model (some tree of the input)"⟩
              else tieAll tags
            else tieAll tags
          | none => tieAll tags)
    | _, _, _ => bad "C15.repop fields"
  | "gluem", [cmd, argE, treesS, outcome, outsS] =>
    -- `collapse single` / `subtree` on an input of several trees
    match unescape argE, (splitTerm "|" treesS).mapM T.undump, (splitTerm "|" outsS).mapM T.undump with
    | some arg, some trees, some outs =>
      let expect : Option (List T) := match cmd with
        | "collapsesingle" => some (cliCollapseSingleAll trees)
        | "subtree" => some (cliSubtreeAll trees arg)
        | _ => none
      (match expect with
       | none => bad ("C15.gluem: " ++ cmd)
       | some m =>
        let tags := ["gluem-" ++ cmd] ++ tagIf (trees.length ≥ 2) "multi-tree" ++
          tagIf (m.length < trees.length) "some-print-nothing" ++ tagIf (m.length > 0 && m != trees) "effective"
        if panicked outcome then ⟨.oracle, tags, "gotree " ++ cmd ++ " crashed: " ++ outcome⟩
        else if cmd == "collapsesingle" && trees.all (fun t => t.uniqueTips && lengthsOK t) &&
            (outcome != "ok" || outs.length != trees.length || !((trees.zip outs).all fun p => removeSingleOK p.1 p.2)) then
          ⟨.oracle, tags, "gotree collapse single on several trees: a tree is missing, or tips, distances, or a single-child node left"⟩
        else if outcome != "ok" then ⟨.tie, tags, "gotree " ++ cmd ++ ": exit " ++ outcome ++ ", model says ok"⟩
        else if outs.length != m.length then
          ⟨.tie, tags, "gotree " ++ cmd ++ " printed " ++ toString outs.length ++ " trees, the model " ++ toString m.length⟩
        else if !((m.zip outs).all fun p => obsEq p.1 p.2) then ⟨.tie, tags, "gotree " ++ cmd ++ " printed another tree than the model"⟩
        else ⟨.pass, tagIf ((m.zip outs).all fun p => zeroPpos p.1 == zeroPpos p.2) "exact" ++ tags, ""⟩)
    | _, _, _ => bad "C15.gluem fields"
  | _, _ => bad ("C15: unknown op " ++ op)

/-- CLI-tier cases (DESIGN §4.3) carry one more field, `cli`: same oracle, same tie -/
def handle (op : String) (f : List String) : Verdict :=
  if f.getLast? == some "cli" then
    let v := handleCore true op f.dropLast
    { v with tags := "cli" :: v.tags }
  else handleCore false op f

end Gotree.Driver.C15
