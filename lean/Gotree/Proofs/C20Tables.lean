/-
  C20 — the theorems that depend on the regenerated source table (`Gotree/Gen/C20Sites.lean`, written by
  harness/c20/extract.go on every run).  They live apart from `Proofs/C20.lean` so that a change of the
  code that breaks a table row leaves the property theorems building; nothing may import this module.
-/
import Gotree.Proofs.C20
import Gotree.Lemmas.C20Table
import Gotree.Gen.C20Sites

namespace Gotree.C20
open Gotree

/-! ## facts about the source, regenerated on every run (`harness/c20/extract.go` → `Gotree/Gen/C20Sites.lean`)

   The model was written by reading cmd/sample.go, cmd/prune.go, tree/tree.go, tree/node.go and
   tree/treegen.go.  What it took from them — which bound every `rand.Intn` has relative to its loop
   counter, the comparison operators of the fill / store tests, the order of the option tests of
   `prune`, which slices are swapped, what is appended to `edges`, the option defaults, the seed
   sentinel — is extracted again from the working tree and re-decided here.  When the decision fails
   the check still runs the fibre enumeration on the real code to look for a concrete biased input. -/

/-- the extracted facts are the ones the model was written from (`tableOK`, Model/C20Table.lean) -/
theorem sourceSitesCheck : tableOK Gotree.Gen.C20.sites Gotree.Gen.C20.options Gotree.Gen.C20.consumers = true := by decide

/-- what the extracted draw sites MEAN is the model's draw script: the single `Intn` of an iteration of
    each reservoir / rotation loop, read from the source with the counter steps that precede it,
    gives exactly `sampleCmdScript` (both modes), the script of `prune --random` and `rotScript` -/
theorem source_scripts_as_model (k n : Nat) :
    let nr := siteEvs Gotree.Gen.C20.sites "sample.noreplace"
    let rp := siteEvs Gotree.Gen.C20.sites "sample.replace"
    let rt := siteEvs Gotree.Gen.C20.sites "randomTips"
    let rn := siteEvs Gotree.Gen.C20.sites "RotateNeighbors"
    sampleCmdScript k false n = resScript (scriptBound (drawsOf (counterOf nr) nr 0)) k n ∧
    sampleCmdScript k true n
      = (List.range n).flatMap (fun t => List.replicate k (scriptBound (drawsOf (counterOf rp) rp 0) t)) ∧
    (∀ t : T, pruneSelectionScript false false (k + 1) t.tipNames.length
      = resScript (scriptBound (drawsOf (counterOf rt) rt 0)) (k + 1) t.tipNames.length) ∧
    rotScript n = (List.range n).map (scriptBound (drawsOf (counterOf rn) rn 0)) := by
  intro nr rp rt rn
  have h1 : drawsOf (counterOf nr) nr 0 = [("Intn", .counter 1)] := by decide
  have h2 : drawsOf (counterOf rp) rp 0 = [("Intn", .counter 1)] := by decide
  have h3 : drawsOf (counterOf rt) rt 0 = [("Intn", .counter 1)] := by decide
  have h4 : drawsOf (counterOf rn) rn 0 = [("Intn", .counter 1)] := by decide
  rw [h1, h2, h3, h4, scriptBound_counter]
  refine ⟨?_, ?_, ?_, ?_⟩
  · simp [sampleCmdScript]
  · simp [sampleCmdScript, replScript]
  · intro t; simp [pruneSelectionScript]
  · simp [rotScript]

/-- the draws of RandomUniformBinaryTree in source order, 0 standing for one `gostats.Exp` (one Float64), are the
    model's script: the first iteration and one later iteration -/
theorem source_utree_script :
    let ut := siteEvs Gotree.Gen.C20.sites "RandomUniformBinaryTree"
    (drawsOf "" ut 0).map (fun d => if d.1 == "Intn" then 1 else 0) = [0, 0] ++ [1, 0, 0, 0] ∧
    utreeScript true 3 = [0, 0] ++ [2, 0, 0, 0] ∧ utreeScript false 4 = [0] ++ [1, 0, 0, 0] ++ [3, 0, 0, 0] := by
  decide

/-- the option defaults of the model (`gotree sample` without `-n`, `gotree prune` without `--random`) are the
    ones registered in the source -/
theorem source_defaults :
    optIs Gotree.Gen.C20.options "cmd/sample.go" "nbtrees" "Int" (toString sampleDefaultN) = true ∧
    optIs Gotree.Gen.C20.options "cmd/prune.go" "random" "Int" (toString pruneDefaultRandom) = true ∧
    (∀ (args : List String) (t : T) (d : List Nat), pruneSelection none none pruneDefaultRandom args t d = args) := by
  refine ⟨by decide, by decide, ?_⟩
  intro args t d
  simp [pruneSelection, pruneDefaultRandom]

/-- `Intn(len(edges))`: the appends of the source (one in the first iteration, one more when `rooted`,
    two per grafted tip) give the bounds `2i-3` / `2i-2` of `utreeBounds` -/
theorem source_utree_bounds (rooted : Bool) (n : Nat) :
    utreeBounds rooted n = (List.range' 2 (n - 2)).map fun i =>
      initAppends (siteEvs Gotree.Gen.C20.sites "RandomUniformBinaryTree") rooted
        + graftAppends (siteEvs Gotree.Gen.C20.sites "RandomUniformBinaryTree") * (i - 2) := by
  have h : initAppends (siteEvs Gotree.Gen.C20.sites "RandomUniformBinaryTree") false = 1 ∧
      initAppends (siteEvs Gotree.Gen.C20.sites "RandomUniformBinaryTree") true = 2 ∧
      graftAppends (siteEvs Gotree.Gen.C20.sites "RandomUniformBinaryTree") = 2 := by decide
  rw [utreeBounds_eq]
  cases rooted <;> simp [h.1, h.2.1, h.2.2]

end Gotree.C20
