/-
  C12 — helper lemmas: slices, maxima/minima over the states, the counting
  identity of Fitch/Hartigan (key lemma of DESIGN Appendix F), labellings.
-/
import Gotree.Spec.C12

namespace Gotree.C12
open Gotree

/- ## slices -/

theorem at_tab (k : Nat) (h : Nat → Nat) (i : Nat) : (tab k h).at i = if i < k then h i else 0 := by
  unfold tab Vec.at
  by_cases hi : i < k
  · simp [hi, List.getD_eq_getElem?_getD]
  · simp [hi, List.getD_eq_getElem?_getD]

theorem at_vzero (k i : Nat) : (vzero k).at i = 0 := by
  unfold vzero; rw [at_tab]; split <;> rfl

theorem at_vadd (k : Nat) (a b : Vec) (i : Nat) : (vadd k a b).at i = if i < k then a.at i + b.at i else 0 := by
  unfold vadd; rw [at_tab]

/- ## maxima (the loops of computeParsimony / parsimonyUPPASS) -/

theorem le_maxTo (h : Nat → Nat) : ∀ n i, i < n → h i ≤ maxTo h n
  | 0, _, hi => by omega
  | n + 1, i, hi => by
    unfold maxTo
    by_cases hin : i = n
    · subst hin; split <;> omega
    · have := le_maxTo h n i (by omega)
      split <;> omega

theorem argTo_snd (h : Nat → Nat) : ∀ n, (argTo h n).2 = maxTo h n
  | 0 => rfl
  | n + 1 => by
    unfold argTo maxTo
    rw [argTo_snd h n]
    split
    · rfl
    · exact argTo_snd h n

theorem argTo_fst (h : Nat → Nat) : ∀ n, 0 < n → (argTo h n).1 < n ∧ h (argTo h n).1 = maxTo h n
  | 0, hn => by omega
  | n + 1, _ => by
    unfold argTo maxTo
    rw [argTo_snd h n]
    by_cases hgt : h n > maxTo h n
    · simp [hgt]
    · simp [hgt]
      by_cases hn0 : n = 0
      · subst hn0
        simp [argTo, maxTo] at *
        omega
      · have := argTo_fst h n (by omega)
        omega

/- ## minima (Sankoff) -/

theorem minTo_le (h : Nat → Nat) : ∀ n i, i ≤ n → minTo h n ≤ h i
  | 0, i, hi => by
    have : i = 0 := by omega
    subst this; unfold minTo; omega
  | n + 1, i, hi => by
    unfold minTo
    by_cases hin : i = n + 1
    · subst hin; split <;> omega
    · have := minTo_le h n i (by omega)
      split <;> omega

theorem minTo_attained (h : Nat → Nat) : ∀ n, ∃ i, i ≤ n ∧ h i = minTo h n
  | 0 => ⟨0, by omega, rfl⟩
  | n + 1 => by
    unfold minTo
    obtain ⟨i, hi, he⟩ := minTo_attained h n
    by_cases hlt : h (n + 1) < minTo h n
    · exact ⟨n + 1, by omega, by simp [hlt]⟩
    · exact ⟨i, by omega, by simp [hlt, he]⟩

theorem minOver_le (k : Nat) (h : Nat → Nat) (t : Nat) (ht : t < k) : minOver k h ≤ h t :=
  minTo_le h (k - 1) t (by omega)

theorem minOver_attained (k : Nat) (hk : 0 < k) (h : Nat → Nat) : ∃ t, t < k ∧ h t = minOver k h := by
  obtain ⟨i, hi, he⟩ := minTo_attained h (k - 1)
  exact ⟨i, by omega, he⟩

theorem minOver_congr (k : Nat) (hk : 0 < k) (h h' : Nat → Nat) (e : ∀ t, t < k → h t = h' t) :
    minOver k h = minOver k h' := by
  obtain ⟨a, ha, hea⟩ := minOver_attained k hk h
  obtain ⟨b, hb, heb⟩ := minOver_attained k hk h'
  have h1 := minOver_le k h b hb
  have h2 := minOver_le k h' a ha
  have := e a ha
  have := e b hb
  omega

/-- DESIGN Appendix F: seen through one more branch, a cost function becomes
    "its minimum, plus one off its argmin". -/
theorem minOver_through (k : Nat) (hk : 0 < k) (h : Nat → Nat) (s : Nat) (hs : s < k) :
    minOver k (fun t => h t + (if s = t then 0 else 1)) = minOver k h + (if h s = minOver k h then 0 else 1) := by
  obtain ⟨t0, ht0, he0⟩ := minOver_attained k hk (fun t => h t + (if s = t then 0 else 1))
  obtain ⟨t1, ht1, he1⟩ := minOver_attained k hk h
  have hs' := minOver_le k (fun t => h t + (if s = t then 0 else 1)) s hs
  have ht1' := minOver_le k (fun t => h t + (if s = t then 0 else 1)) t1 ht1
  have hm0 := minOver_le k h t0 ht0
  have hms := minOver_le k h s hs
  simp only [] at he0 hs' ht1'
  simp at hs'
  by_cases hst0 : s = t0
  · subst hst0
    simp at he0
    by_cases hst1 : s = t1
    · subst hst1; simp [he1]; omega
    · simp [hst1] at ht1'
      split <;> omega
  · simp [hst0] at he0
    by_cases hst1 : s = t1
    · subst hst1; simp [he1]; omega
    · simp [hst1] at ht1'
      split <;> omega

/- ## the counting identity -/

theorem leaves_mem_kids : ∀ (ks : Kids) (et : EdgeD × T), et ∈ ks → ∀ n, n ∈ et.2.leaves → n ∈ leavesL ks
  | [], _, h, _, _ => by cases h
  | (e, c) :: r, et, h, n, hn => by
    simp only [leavesL, List.mem_append]
    cases h with
    | head => exact Or.inl hn
    | tail _ h' => exact Or.inr (leaves_mem_kids r et h' n hn)

theorem leaves_node_cons (d : NodeD) (p : Nat) (x : EdgeD × T) (xs : Kids) :
    (T.node d p (x :: xs)).leaves = leavesL (x :: xs) := by
  simp [T.leaves]

section counting
variable (k : Nat) (tv : String → Vec)

/-- the slice of the tip is a set (entries 0 or 1) -/
def leaf01 (n : String) : Prop := ∀ i, i < k → (tv n).at i ≤ 1

theorem upS_le_one (c : T) (h : ∀ n ∈ c.leaves, leaf01 k tv n) (i : Nat) (hi : i < k) :
    (upS k tv c).at i ≤ 1 := by
  match c with
  | .node d p [] =>
    simp only [upS]
    exact h d.name (by simp [T.leaves]) i hi
  | .node d p (x :: xs) =>
    simp only [upS, cp]
    rw [at_tab]
    split <;> (try split) <;> omega

theorem sum_miss (s : Nat) (hs : s < k) : ∀ (ks : Kids),
    (∀ et ∈ ks, (upS k tv et.2).at s ≤ 1) → (sumL k tv ks).at s + miss k tv s ks = ks.length
  | [], _ => by simp [sumL, miss, at_vzero]
  | (e, c) :: r, h => by
    have ih := sum_miss s hs r (fun et het => h et (List.mem_cons_of_mem _ het))
    have hc := h (e, c) (List.mem_cons_self ..)
    simp only [sumL, miss, at_vadd, hs, if_true, List.length_cons]
    simp only [] at hc
    split <;> omega

theorem fL_eq (t : Nat) (ht : t < k) : ∀ (ks : Kids),
    (∀ et ∈ ks, (gv k tv et.2).at t = upN k tv et.2 + (if (upS k tv et.2).at t = 0 then 1 else 0)) →
    (fL k tv ks).at t = upNL k tv ks + miss k tv t ks
  | [], _ => by simp [fL, upNL, miss, at_vzero]
  | (e, c) :: r, h => by
    have ih := fL_eq t ht r (fun et het => h et (List.mem_cons_of_mem _ het))
    have hc := h (e, c) (List.mem_cons_self ..)
    simp only [fL, upNL, miss, at_vadd, ht, if_true]
    simp only [] at hc
    omega

/-- what one node does: the minimum of the Sankoff vector is "steps below + children
    lacking the state the code picked", and its argmin is the set kept by computeParsimony -/
theorem node_min (hk : 0 < k) (ks : Kids)
    (h01 : ∀ et ∈ ks, ∀ i, i < k → (upS k tv et.2).at i ≤ 1)
    (hkey : ∀ et ∈ ks, ∀ s, s < k →
      (gv k tv et.2).at s = upN k tv et.2 + (if (upS k tv et.2).at s = 0 then 1 else 0)) :
    minOver k (fL k tv ks).at = upNL k tv ks + miss k tv (maxState k (sumL k tv ks)) ks ∧
    ∀ s, s < k → ((sumL k tv ks).at s = maxTo (sumL k tv ks).at k ↔
                  (fL k tv ks).at s = minOver k (fL k tv ks).at) := by
  obtain ⟨hms, hmax⟩ := argTo_fst (sumL k tv ks).at k hk
  have hsm : ∀ t, t < k → (sumL k tv ks).at t + miss k tv t ks = ks.length :=
    fun t ht => sum_miss k tv t ht ks (fun et het => h01 et het t ht)
  have hf : ∀ t, t < k → (fL k tv ks).at t = upNL k tv ks + miss k tv t ks :=
    fun t ht => fL_eq k tv t ht ks (fun et het => hkey et het t ht)
  have hle : ∀ t, t < k → (sumL k tv ks).at t ≤ maxTo (sumL k tv ks).at k :=
    fun t ht => le_maxTo _ k t ht
  obtain ⟨t1, ht1, he1⟩ := minOver_attained k hk (fL k tv ks).at
  have hmle := minOver_le k (fL k tv ks).at (maxState k (sumL k tv ks)) hms
  have a1 := hsm _ hms
  have a2 := hsm _ ht1
  have a3 := hf _ hms
  have a4 := hf _ ht1
  have a5 := hle _ ht1
  have hm : minOver k (fL k tv ks).at = upNL k tv ks + miss k tv (maxState k (sumL k tv ks)) ks := by
    unfold maxState at *
    omega
  refine ⟨hm, ?_⟩
  intro s hs
  have b1 := hsm _ hs
  have b2 := hf _ hs
  have b3 := hle _ hs
  unfold maxState at *
  constructor <;> intro hh <;> omega

/-- DESIGN Appendix F, key lemma: g_child s = m_child + [s ∉ VU_child] -/
theorem key (hk : 0 < k) : ∀ c : T, (∀ n ∈ c.leaves, leaf01 k tv n) → ∀ s, s < k →
    (gv k tv c).at s = upN k tv c + (if (upS k tv c).at s = 0 then 1 else 0) := by
  intro c
  induction c using T.induct with
  | h d p ks ih =>
    intro hl s hs
    match ks, ih, hl with
    | [], _, _ =>
      simp only [gv, upN, upS]
      rw [at_tab]
      simp only [hs, if_true]
      split <;> simp_all
    | x :: xs, ih, hl =>
      rw [leaves_node_cons] at hl
      have hl' : ∀ et ∈ x :: xs, ∀ n ∈ et.2.leaves, leaf01 k tv n :=
        fun et het n hn => hl n (leaves_mem_kids (x :: xs) et het n hn)
      obtain ⟨hm, hiff⟩ := node_min k tv hk (x :: xs)
        (fun et het i hi => upS_le_one k tv et.2 (hl' et het) i hi)
        (fun et het s hs => ih et het (hl' et het) s hs)
      have hthr := minOver_through k hk (fL k tv (x :: xs)).at s hs
      simp only [gv, through, upN, upS, cp, at_tab, hs, if_true]
      rw [hthr, hm]
      have := hiff s hs
      by_cases hmx : (sumL k tv (x :: xs)).at s = maxTo (sumL k tv (x :: xs)).at k
      · have := this.mp hmx
        simp [hmx, this, hm]
      · have hne : ¬ (fL k tv (x :: xs)).at s = minOver k (fL k tv (x :: xs)).at := fun h => hmx (this.mpr h)
        rw [hm] at hne
        simp [hmx, hne]

end counting

/- ## labellings: the Sankoff vectors bound every labelling from below and are attained -/

@[simp] theorem LT.s_node (r : Nat) (ls : List LT) : (LT.node r ls).s = r := rfl

section labellings
variable (k : Nat) (tv : String → Vec)

theorem lb_list (t : Nat) (ht : t < k) : ∀ (ks : Kids) (ls : List LT),
    (∀ et ∈ ks, ∀ l, fits k tv et.2 l = true →
      (gv k tv et.2).at t ≤ (if l.s = t then 0 else 1) + l.changes) →
    fitsL k tv ks ls = true → (fL k tv ks).at t ≤ LT.changesL t ls
  | [], [], _, _ => by simp [fL, at_vzero]
  | [], _ :: _, _, h => by simp [fitsL] at h
  | _ :: _, [], _, h => by simp [fitsL] at h
  | (e, c) :: r, l :: lr, hc, h => by
    simp only [fitsL, Bool.and_eq_true] at h
    have ih := lb_list t ht r lr (fun et het => hc et (List.mem_cons_of_mem _ het)) h.2
    have h1 := hc (e, c) (List.mem_cons_self ..) l h.1
    simp only [fL, at_vadd, ht, if_true, LT.changesL]
    simp only [] at h1
    omega

theorem lb : ∀ c : T, ∀ l, fits k tv c l = true → ∀ s, s < k →
    (gv k tv c).at s ≤ (if l.s = s then 0 else 1) + l.changes := by
  intro c
  induction c using T.induct with
  | h d p ks ih =>
    intro l hf s hs
    match ks, ih, l, hf with
    | [], _, .node r ls, hf =>
      simp only [fits, Bool.and_eq_true, decide_eq_true_eq] at hf
      simp only [gv, at_tab, hs, if_true, LT.s_node]
      by_cases h0 : (tv d.name).at s = 0
      · have : r ≠ s := fun e => hf.2 (e ▸ h0)
        simp [h0, this]
      · simp [h0]
    | x :: xs, ih, .node r ls, hf =>
      simp only [fits, Bool.and_eq_true, decide_eq_true_eq] at hf
      have h1 := lb_list k tv r hf.1 (x :: xs) ls (fun et het l hl => ih et het l hl r hf.1) hf.2
      have h2 := minOver_le k (fun t => (fL k tv (x :: xs)).at t + (if s = t then 0 else 1)) r hf.1
      simp only [gv, through, at_tab, hs, if_true, LT.s_node, LT.changes]
      by_cases hrs : r = s
      · subst hrs; simp at h2 ⊢; omega
      · have : ¬ s = r := fun e => hrs e.symm
        simp [this] at h2
        simp [hrs]; omega

theorem minCost_le (t : T) (hne : t.kids ≠ []) (l : LT) (hf : fits k tv t l = true) :
    minCost k tv t ≤ l.changes := by
  match t, l, hne, hf with
  | .node d p [], _, hne, _ => simp at hne
  | .node d p (x :: xs), .node r ls, _, hf =>
    simp only [fits, Bool.and_eq_true, decide_eq_true_eq] at hf
    have h1 := lb_list k tv r hf.1 (x :: xs) ls (fun et _ l hl => lb k tv et.2 l hl r hf.1) hf.2
    have h2 := minOver_le k (fL k tv (x :: xs)).at r hf.1
    simp only [minCost, T.kids_node, LT.changes]
    omega

theorem att_list (t : Nat) (ht : t < k) : ∀ (ks : Kids),
    (∀ et ∈ ks, ∃ l, fits k tv et.2 l = true ∧
      (if l.s = t then 0 else 1) + l.changes = (gv k tv et.2).at t) →
    ∃ ls, fitsL k tv ks ls = true ∧ LT.changesL t ls = (fL k tv ks).at t
  | [], _ => ⟨[], by simp [fitsL], by simp [LT.changesL, fL, at_vzero]⟩
  | (e, c) :: r, h => by
    obtain ⟨ls, hls, hcs⟩ := att_list t ht r (fun et het => h et (List.mem_cons_of_mem _ het))
    obtain ⟨l, hl, hc⟩ := h (e, c) (List.mem_cons_self ..)
    refine ⟨l :: ls, by simp [fitsL, hl, hls], ?_⟩
    simp only [fL, at_vadd, ht, if_true, LT.changesL]
    simp only [] at hc
    omega

/-- every tip set is non-empty -/
def leafNonempty (n : String) : Prop := ∃ i, i < k ∧ (tv n).at i ≠ 0

theorem att (hk : 0 < k) : ∀ c : T, (∀ n ∈ c.leaves, leafNonempty k tv n) → ∀ s, s < k →
    ∃ l, fits k tv c l = true ∧ (if l.s = s then 0 else 1) + l.changes = (gv k tv c).at s := by
  intro c
  induction c using T.induct with
  | h d p ks ih =>
    intro hl s hs
    match ks, ih, hl with
    | [], _, hl =>
      obtain ⟨i, hi, hne⟩ := hl d.name (by simp [T.leaves])
      by_cases h0 : (tv d.name).at s = 0
      · refine ⟨.node i [], by simp [fits, hi, hne], ?_⟩
        have : i ≠ s := fun e => hne (e ▸ h0)
        simp [gv, at_tab, hs, h0, LT.changes, LT.changesL, this]
      · refine ⟨.node s [], by simp [fits, hs, h0], ?_⟩
        simp [gv, at_tab, hs, h0, LT.changes, LT.changesL]
    | x :: xs, ih, hl =>
      rw [leaves_node_cons] at hl
      obtain ⟨t0, ht0, he0⟩ := minOver_attained k hk (fun t => (fL k tv (x :: xs)).at t + (if s = t then 0 else 1))
      obtain ⟨ls, hls, hcs⟩ := att_list k tv t0 ht0 (x :: xs)
        (fun et het => ih et het (fun n hn => hl n (leaves_mem_kids (x :: xs) et het n hn)) t0 ht0)
      refine ⟨.node t0 ls, by simp [fits, ht0, hls], ?_⟩
      simp only [gv, through, at_tab, hs, if_true, LT.s_node, LT.changes]
      rw [← he0, hcs]
      by_cases hts : t0 = s
      · subst hts; simp
      · have : ¬ s = t0 := fun e => hts e.symm
        simp [hts, this]; omega

theorem minCost_attained (hk : 0 < k) (t : T) (hne : t.kids ≠ [])
    (hl : ∀ n ∈ leavesL t.kids, leafNonempty k tv n) :
    ∃ l, fits k tv t l = true ∧ l.changes = minCost k tv t := by
  match t, hne, hl with
  | .node d p [], hne, _ => simp at hne
  | .node d p (x :: xs), _, hl =>
    simp only [T.kids_node] at hl
    obtain ⟨t0, ht0, he0⟩ := minOver_attained k hk (fL k tv (x :: xs)).at
    obtain ⟨ls, hls, hcs⟩ := att_list k tv t0 ht0 (x :: xs)
      (fun et het => att k tv hk et.2 (fun n hn => hl n (leaves_mem_kids (x :: xs) et het n hn)) t0 ht0)
    exact ⟨.node t0 ls, by simp [fits, ht0, hls], by simp [LT.changes, minCost, hcs, he0]⟩

end labellings

theorem tipsOk_spec (k : Nat) (tv : String → Vec) (t : T) (h : tipsOk k tv t = true) :
    ∀ n ∈ leavesL t.kids, leaf01 k tv n ∧ leafNonempty k tv n := by
  intro n hn
  simp only [tipsOk, List.all_eq_true, Bool.and_eq_true, List.any_eq_true, decide_eq_true_eq,
    List.mem_range] at h
  obtain ⟨h1, i, hi, hne⟩ := h n hn
  exact ⟨fun i hi => h1 i hi, i, hi, hne⟩

/-- the number of steps of the up-pass is the Sankoff minimum -/
theorem upN_eq_minCost (k : Nat) (tv : String → Vec) (hk : 0 < k) (t : T) (hne : t.kids ≠ [])
    (hl : ∀ n ∈ leavesL t.kids, leaf01 k tv n) : upN k tv t = minCost k tv t := by
  match t, hne, hl with
  | .node d p [], hne, _ => simp at hne
  | .node d p (x :: xs), _, hl =>
    simp only [T.kids_node] at hl
    have hl' : ∀ et ∈ x :: xs, ∀ n ∈ et.2.leaves, leaf01 k tv n :=
      fun et het n hn => hl n (leaves_mem_kids (x :: xs) et het n hn)
    obtain ⟨hm, _⟩ := node_min k tv hk (x :: xs)
      (fun et het i hi => upS_le_one k tv et.2 (hl' et het) i hi)
      (fun et het s hs => key k tv hk et.2 (hl' et het) s hs)
    simp only [upN, minCost, T.kids_node]
    omega

end Gotree.C12
