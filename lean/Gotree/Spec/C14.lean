/-
  C14 — what the property means, from the split list only (DESIGN §3.1).
-/
import Gotree.Model.C14

namespace Gotree.C14
open Gotree

/-- path sum of the metric between two tips: sum over the separating entries -/
def pathSum (m : Metric) (t : T) (a b : String) : Rat := distW m.w t.splits a b

/-- every branch on the path joining `a` and `b` is shorter than `thr` -/
def pathShort (thr : Rat) (t : T) (a b : String) : Bool :=
  t.splits.all fun s => !(s.sep a b) || decide (s.e.len < thr)

def sameBag (bags : List (List String)) (a b : String) : Bool :=
  bags.any fun g => g.contains a && g.contains b

/-- Spec of the distance matrix for a tree with unique tip names. -/
def matrixOK (m : Metric) (t : T) (tips : List String) (mat : List (List Rat)) : Bool :=
  tips == sortNames t.tipNames &&
  mat == tips.map fun a => tips.map fun b => if a == b then 0 else pathSum m t a b

/-- Spec of the cut: the bags partition the tips, and two tips share a bag iff
    every branch between them is shorter than the threshold. -/
def cutOK (thr : Rat) (t : T) (bags : List (List String)) : Bool :=
  let tips := t.tipNames
  (bags.flatten.mergeSort (fun a b => decide (a ≤ b)) == sortNames tips) &&
  bags.all (fun g => !g.isEmpty) &&
  tips.all fun a => tips.all fun b => sameBag bags a b == pathShort thr t a b

end Gotree.C14
