/-
  C05 — what the property means, from the split list only (DESIGN §3.1, §6 C05).
  Every predicate takes the tree *before* the operation and a tree *after* it
  (the implementation's own output for the oracle, the model's for the theorems).
-/
import Gotree.Model.C05
import Gotree.Spec.Splits

namespace Gotree.C05
open Gotree

/-- same tip set -/
def sameTips (t u : T) : Bool := sortS u.tipNames == sortS t.tipNames

/-- same unrooted splits with lengths and supports (the two root branches of a rooted
    tree counting as one), same tip branch lengths -/
def sameSplits (t u : T) : Bool := u.usplits == t.usplits && u.tipLens == t.tipLens

/-- same tip-to-tip path lengths -/
def sameDists (t u : T) : Bool := u.distMatrix == t.distMatrix

/-- "the operation did not change the tree itself" -/
def preserved (t u : T) : Bool := sameTips t u && sameSplits t u && sameDists t u

/-- the outgroup as the property sees it: the given names that are tips, once each -/
def outTips (t : T) (S : List String) : List String := (S.filter t.tipNames.contains).eraseDups

/-- the outgroup is one side of a split of the tree (trivial splits included), and
    neither empty nor everything -/
def isSide (t : T) (S : List String) : Bool :=
  let all := t.tipNames
  let s := outTips t S
  !s.isEmpty && all.any (fun x => !s.contains x) &&
    (t.usplitsAll.map (·.side)).contains (canonSide all s)

/-- the branch separating `s` from the rest, fused (`none`: no such branch) -/
def sideSplit (t : T) (s : List String) : Option USplit :=
  t.usplitsAll.find? (fun sp => sp.side == canonSide t.tipNames s)

/-- fused length of the branch separating `s` from the rest (`none`: no such branch) -/
def sideLen (t : T) (s : List String) : Option Rat := (sideSplit t s).map (·.len)

/-- after a successful outgroup rooting on a side: two root clades, one is exactly the
    outgroup, the separating branch is cut into two equal halves (absent stays absent),
    each half carrying the support of the branch when that branch is not a tip branch -/
def cladeOK (t : T) (S : List String) (u : T) : Bool :=
  let s := outTips t S
  match u.kids with
  | [(e1, c1), (e2, c2)] =>
    (sortS c1.leaves == sortS s || sortS c2.leaves == sortS s) &&
    (match sideSplit t s with
     | some sp => e1.len == (if sp.len == NIL then NIL else sp.len / 2) && e2.len == e1.len &&
         (lightSize t.tipNames sp.side ≤ 1 || (e1.sup == sp.sup && e2.sup == sp.sup))
     | none => false)
  | _ => false

/-- the same without the reference to "the" separating branch: when some node has exactly two
    neighbours a split is carried by several branches and the code cuts one of them; what remains
    required is two root clades, one exactly the outgroup, on two equal root branches (the fused
    length and support of the split are still checked by `preserved`) -/
def cladeWeak (t : T) (S : List String) (u : T) : Bool :=
  let s := outTips t S
  match u.kids with
  | [(e1, c1), (e2, c2)] =>
    (sortS c1.leaves == sortS s || sortS c2.leaves == sortS s) && e2.len == e1.len && e2.sup == e1.sup
  | _ => false

/-- non-strict rooting on a non-monophyletic outgroup: it ends up inside one root clade -/
def insideOK (t : T) (S : List String) (u : T) : Bool :=
  let s := outTips t S
  match u.kids with
  | [(_, c1), (_, c2)] => s.all c1.leaves.contains || s.all c2.leaves.contains
  | _ => false

/-- outgroup removed: the rest is the restriction of the tree to the other tips -/
def removedOK (t : T) (S : List String) (u : T) : Bool :=
  let keep := t.tipNames.filter (fun x => !S.contains x)
  sortS u.tipNames == sortS keep &&
  keep.all (fun a => keep.all fun b => a == b || u.dist a b == t.dist a b) &&
  canonSet u.usplitSet == restrictSplits t.tipNames keep t.usplitSet

/-- The unrooted split map of the tree restricted to the taxa `keep` (every branch with its length and
    support; branches that restrict to the same split are fused: lengths added, larger support; branches
    with nothing or everything of `keep` on one side disappear).  Same definition as `C06.restrictU`,
    copied so that this Spec does not depend on another property's file. -/
def restrictData (before : T) (keep : List String) : List USplit :=
  let k := before.tipNames.filter keep.contains
  let l := before.splits.foldl (fun acc s =>
      let side := s.below.filter k.contains
      if side.isEmpty || side.length == k.length then acc
      else insertU ⟨canonSide k side, s.e.len, s.e.sup⟩ acc) []
  l.mergeSort (fun a b => decide (toString a.side ≤ toString b.side))

/-- the surviving branches keep their lengths and supports: the non-trivial splits of `u` with
    (length, support) and its tip branch lengths are those of the restriction of `t` to the tips of `u` -/
def survivorsDataOK (t u : T) : Bool :=
  let k := t.tipNames.filter u.tipNames.contains
  let exp := restrictData t u.tipNames
  u.usplits == exp.filter (fun s => 2 ≤ lightSize k s.side) &&
  u.tipLens == (exp.filter (fun s => lightSize k s.side ≤ 1)).map (fun s => (s.side, s.len))

/-- Outgroup removed, any outgroup (in particular one that is NOT a side of a split, non-strict mode:
    the code then removes every tip below the ancestor of the outgroup): the outgroup is absent; what
    was removed is exactly one side of a split of the tree (one root clade) and contains the outgroup;
    what is left is the restriction of the tree to the surviving tips — their distances, their splits,
    the lengths and supports of the surviving branches. -/
def removedAnyOK (t : T) (s : List String) (u : T) : Bool :=
  let keep := u.tipNames
  let gone := t.tipNames.filter (fun x => !keep.contains x)
  keep.all (fun x => t.tipNames.contains x && !s.contains x) &&
  !keep.isEmpty && s.all gone.contains &&
  (t.usplitsAll.map (·.side)).contains (canonSide t.tipNames gone) &&
  keep.all (fun a => keep.all fun b => a == b || u.dist a b == t.dist a b) &&
  canonSet u.usplitSet == restrictSplits t.tipNames keep t.usplitSet &&
  survivorsDataOK t u

/-- largest tip-to-tip distance -/
def diam (t : T) : Rat :=
  t.tipNames.foldl (fun m a => t.tipNames.foldl (fun m b => if a != b && t.dist a b > m then t.dist a b else m) m) 0

/-- the root lies halfway along a longest tip-to-tip path -/
def halfwayOK (t u : T) : Bool :=
  let tips := t.tipNames
  let D := diam t
  u.kids.length == 2 &&
  tips.any fun a => tips.any fun b => a != b && u.dist a b == D && u.rootDist a == D / 2 && u.rootDist b == D / 2

/-- unique tip names (hypothesis of every theorem; evaluated by the driver) -/
def uniq (t : T) : Bool := decide t.tipNames.Nodup

/-- every length absent or not negative (hypothesis of the split-map theorems) -/
def lensOK (t : T) : Bool := t.splits.all fun s => s.e.len == NIL || decide (0 ≤ s.e.len)

/-- every support absent or not negative (hypothesis of the unrooting theorems) -/
def supsOK (t : T) : Bool := t.splits.all fun s => s.e.sup == NIL || decide (0 ≤ s.e.sup)

/-- the printing by which `usplitsAll` is sorted distinguishes the sides present (hypothesis of the
    literal-equality theorems; fails only for names containing ", ") -/
def keysOK (t : T) : Bool := decide ((t.usplitsAll.map fun s => toString s.side).Nodup)

/-- no two branches of the unrooted tree carry the same split (true when no node has exactly two
    neighbours; hypothesis of the link between `outgroup_clade` and the oracle `cladeOK`) -/
def branchesDistinct (t : T) : Bool :=
  decide (((unroot t).splits.map fun s => canonSide (unroot t).tipNames s.below).Nodup)

def allLens (t : T) : Bool := t.edges.all fun e => e.len ≥ 0

end Gotree.C05
