/-
  C02 — the two `switch format` of io/utils/readtrees.go (ReadTreeReader, ReadMultiTrees) with their `default`
  branch, and the `switch rootInputFormat` of cmd/root.go (PersistentPreRun) that chooses the format code every
  command hands to them.  The shape of the three switches (labels, which parser a label calls, the default) is
  regenerated from the source on every run (harness/c02/extract2.go → Gen/C02Dispatch.lean) and decided equal to
  the tables below in `Proofs/C02.lean` (`reader_dispatch_shape`).
-/
import Gotree.Model.C02Readers

namespace Gotree.C02.Readers
open Gotree Gotree.C02

/-- `const ( FORMAT_NEWICK = iota … )`: the names in the order of the declaration; the code of a name is its index -/
def formatConsts : List String := ["FORMAT_NEWICK", "FORMAT_NEXUS", "FORMAT_PHYLOXML", "FORMAT_NEXTSTRAIN"]

/-- the case labels of `switch format` (both functions) and the package whose `NewParser` the case calls -/
def dispatchTable : List (String × List String) :=
  [("FORMAT_NEWICK", ["newick"]), ("FORMAT_NEXUS", ["nexus"]), ("FORMAT_PHYLOXML", ["phyloxml"]),
   ("FORMAT_NEXTSTRAIN", ["nextstrain"]), ("default", [])]

/-- what an entry point is given: the bytes, the chunks `ReadLine` cuts them into, and — for the two formats
    whose decoders are outside the model — what encoding/xml / encoding/json made of the bytes (`none`: refused) -/
structure Input where
  bytes : List UInt8 := []
  chunks : List Chunk := []
  px : Option (List Clade) := none
  ns : Option (String × NsNode) := none

/-- `utils.ReadTreeReader(reader, format)` -/
def readTreeReader (inp : Input) (format : Int) : ROut :=
  if format == 0 then newickOne inp.bytes
  else if format == 1 then nexusOne inp.bytes
  else if format == 2 then
    match inp.px with
    | none => .err "xml"                       -- `phyloxml.NewParser(reader).Parse()` returns the decoder's error
    | some ps => phyloxmlOne ps
  else if format == 3 then
    match inp.ns with
    | none => .err "json"
    | some (v, n) => nextstrainOne v n
  else .err "Unsupported tree format"          -- default:

/-- `utils.ReadMultiTrees(reader, format)`: the records the goroutine sends before it closes the channel -/
def readMultiTrees (inp : Input) (format : Int) : ROut :=
  if format == 0 then multiNewick inp.chunks
  else if format == 1 then nexusMulti inp.bytes
  else if format == 2 then
    match inp.px with
    | none => .ok [⟨0, none⟩]
    | some ps => phyloxmlMulti ps
  else if format == 3 then
    match inp.ns with
    | none => .ok [⟨0, none⟩]
    | some (v, n) => nextstrainMulti v n
  else .ok [⟨0, none⟩]                         -- default: one error record "Unsupported tree format"

/-- cmd/root.go PersistentPreRun: `switch rootInputFormat { case "newick": treeformat = utils.FORMAT_NEWICK … }`;
    the last entry is the `default:` -/
def cmdFormatTable : List (String × String) :=
  [("newick", "FORMAT_NEWICK"), ("nexus", "FORMAT_NEXUS"), ("phyloxml", "FORMAT_PHYLOXML"),
   ("nextstrain", "FORMAT_NEXTSTRAIN"), ("default", "FORMAT_NEWICK")]

/-- the value of `treeformat` after PersistentPreRun for `--format v` -/
def formatCode (v : String) : Int :=
  if v == "newick" then 0 else if v == "nexus" then 1 else if v == "phyloxml" then 2
  else if v == "nextstrain" then 3 else 0

/-- the name the driver uses for a format code -/
def formatName (c : Int) : String :=
  if c == 0 then "newick" else if c == 1 then "nexus" else if c == 2 then "phyloxml" else if c == 3 then "nextstrain" else "unsupported"

end Gotree.C02.Readers
