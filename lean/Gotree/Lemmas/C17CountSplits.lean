/-
  C17 — the number of non-trivial splits of a binary tree is at most the number of its
  branches whose lower end is not a tip (a tip branch defines a trivial split).
-/
import Gotree.Lemmas.C17Canon
import Gotree.Lemmas.C17OneSplit

namespace Gotree.C17
open Gotree

/-- the tips below a tip branch: one name -/
theorem tip_entry_singleton : ∀ (k : Kids), ∀ s ∈ splitsL k, s.tip = true → ∃ x, s.below = [x] := by
  have main : ∀ (t : T), ∀ s ∈ splitsL t.kids, s.tip = true → ∃ x, s.below = [x] := by
    intro t
    induction t using T.induct with
    | h d p k ih =>
      simp only [T.kids_node]
      have : ∀ (r : Kids), (∀ et ∈ r, et ∈ k) → ∀ s ∈ splitsL r, s.tip = true → ∃ x, s.below = [x] := by
        intro r
        induction r with
        | nil => intro _ s hs; simp [splitsL] at hs
        | cons et r ihr =>
          obtain ⟨e, c⟩ := et
          intro hsub s hs htip
          rw [splitsL_cons] at hs
          simp only [List.mem_cons, List.mem_append] at hs
          rcases hs with rfl | hs | hs
          · simp only at htip
            obtain ⟨dc, pc, kc⟩ := c
            cases kc with
            | nil => exact ⟨dc.name, by simp [T.leaves]⟩
            | cons _ _ => simp [T.isLeaf] at htip
          · exact ih (e, c) (hsub _ (by simp)) s (by simpa [splitsBelow_eq] using hs) htip
          · exact ihr (fun et het => hsub et (by simp [het])) s hs htip
      exact this k (fun _ h => h)
  intro k
  exact main (.node default 0 k)

theorem length_le_one_of {α : Type} {l : List α} {a : α} (hn : l.Nodup) (h : ∀ b ∈ l, b = a) : l.length ≤ 1 := by
  match l, hn, h with
  | [], _, _ => simp
  | [_], _, _ => simp
  | x :: y :: r, hn, h =>
    have hx := h x (by simp)
    have hy := h y (by simp)
    simp only [List.nodup_cons, List.mem_cons, not_or] at hn
    exact absurd (hx.trans hy.symm) hn.1.1

/-- a side with one taxon is trivial -/
theorem lightSize_singleton {all : List String} (ha : all.Nodup) (x : String) :
    lightSize all (canonSide all [x]) ≤ 1 := by
  cases hm : minS all with
  | none =>
    have : all = [] := minS_eq_none.1 hm
    subst this
    unfold lightSize
    have : (canonSide [] [x]).filter ([] : List String).contains = [] := by
      apply List.filter_eq_nil_iff.2
      intro a _
      simp
    rw [this]
    simp
  | some m =>
    have hmem := mem_canonSide (X := [x]) hm
    have hY := canonSide_nodup (X := [x]) ha (by simp)
    have hsub : ∀ z ∈ canonSide all [x], z ∈ all := fun z hz => ((hmem z).mp hz).1
    have hfil : (canonSide all [x]).filter all.contains = canonSide all [x] :=
      List.filter_eq_self.2 (fun z hz => by simpa using hsub z hz)
    have hlen := length_split ha hY hsub
    unfold lightSize
    rw [hfil]
    show min (canonSide all [x]).length (all.length - (canonSide all [x]).length) ≤ 1
    by_cases hmx : m = x
    · -- the side is everything but `x`: its complement has at most one member
      have : (all.filter fun z => !(canonSide all [x]).contains z).length ≤ 1 := by
        apply length_le_one_of (ha.sublist List.filter_sublist) (a := x)
        intro b hb
        simp only [List.mem_filter, Bool.not_eq_true', List.contains_eq_mem, decide_eq_false_iff_not, hmem] at hb
        obtain ⟨hb1, hb2⟩ := hb
        apply Classical.byContradiction
        intro hne
        apply hb2
        refine ⟨hb1, ?_⟩
        simp [hne, hmx]
      omega
    · have : (canonSide all [x]).length ≤ 1 := by
        apply length_le_one_of hY (a := x)
        intro b hb
        have := ((hmem b).mp hb).2
        simp only [List.mem_singleton] at this
        exact this.mpr hmx
      omega

/-- at most as many non-trivial splits as branches whose lower end is not a tip -/
theorem usplitSet_length_le (t : T) (hu : t.tipNames.Nodup) : t.usplitSet.length ≤ t.internalEdges.length := by
  have h1 : t.internalEdges.length = ((t.splits.filter (fun s => !s.tip)).map fun s => canonSide t.tipNames s.below).length := by
    simp [T.internalEdges]
  rw [h1]
  apply List.Nodup.length_le_of_subset (usplitSet_nodup t)
  intro a ha
  obtain ⟨⟨s, hs, heq⟩, hl⟩ := (mem_usplitSet t a).mp ha
  simp only [List.mem_map, List.mem_filter, Bool.not_eq_eq_eq_not, Bool.not_true]
  refine ⟨s, ⟨hs, ?_⟩, heq⟩
  cases htip : s.tip with
  | false => rfl
  | true =>
    exfalso
    obtain ⟨x, hx⟩ := tip_entry_singleton t.kids s (by simpa [T.splits] using hs) htip
    rw [hx] at heq
    have := lightSize_singleton hu x
    rw [heq] at this
    omega

theorem filter_and_lt {α : Type} (p q : α → Bool) : ∀ (l : List α) (x : α), x ∈ l → p x = true → q x = false →
    (l.filter (fun a => p a && q a)).length + 1 ≤ (l.filter p).length := by
  intro l
  induction l with
  | nil => intro x hx; simp at hx
  | cons y l ih =>
    intro x hx hp hq
    have hle : (l.filter (fun a => p a && q a)).length ≤ (l.filter p).length := by
      have : l.filter (fun a => p a && q a) = (l.filter p).filter q := by rw [List.filter_filter]; congr 1; funext a; exact Bool.and_comm _ _
      rw [this]
      exact List.filter_sublist.length_le
    rcases List.mem_cons.mp hx with rfl | hx
    · simp only [List.filter_cons, hp, hq, Bool.and_false, Bool.false_eq_true, if_false, if_true, List.length_cons]
      omega
    · have := ih x hx hp hq
      simp only [List.filter_cons]
      cases hpy : p y <;> cases hqy : q y <;> simp <;> omega

/-- sharper: only the non-trivial ones among the branches whose lower end is not a tip count -/
theorem usplitSet_length_le' (t : T) (hu : t.tipNames.Nodup) :
    t.usplitSet.length ≤ (t.splits.filter fun s => !s.tip &&
      decide (2 ≤ lightSize t.tipNames (canonSide t.tipNames s.below))).length := by
  rw [← List.length_map (f := fun s : SplitE => canonSide t.tipNames s.below)]
  apply List.Nodup.length_le_of_subset (usplitSet_nodup t)
  intro a ha
  obtain ⟨⟨s, hs, heq⟩, hl⟩ := (mem_usplitSet t a).mp ha
  simp only [List.mem_map, List.mem_filter, Bool.and_eq_true, Bool.not_eq_eq_eq_not, Bool.not_true, decide_eq_true_eq]
  refine ⟨s, ⟨hs, ?_, by rw [heq]; exact hl⟩, heq⟩
  cases htip : s.tip with
  | false => rfl
  | true =>
    exfalso
    obtain ⟨x, hx⟩ := tip_entry_singleton t.kids s (by simpa [T.splits] using hs) htip
    rw [hx] at heq
    have := lightSize_singleton hu x
    rw [heq] at this
    omega

/-- rooted tree with exactly one tip at the root: the branch to the other child of the root is
    not a tip branch, but its split is trivial -/
theorem usplitSet_length_lt_rooted_tip (t : T) (hu : t.tipNames.Nodup) (hr : t.rooted = true)
    (h1 : (t.kids.filter (fun et => !et.2.isLeaf)).length = 1) :
    t.usplitSet.length + 1 ≤ t.internalEdges.length := by
  have hle := usplitSet_length_le' t hu
  have hint : t.internalEdges.length = (t.splits.filter fun s => !s.tip).length := by simp [T.internalEdges]
  rw [hint]
  suffices ∃ s ∈ t.splits, (!s.tip) = true ∧
      decide (2 ≤ lightSize t.tipNames (canonSide t.tipNames s.below)) = false by
    obtain ⟨s, hs, hp, hq⟩ := this
    have := filter_and_lt (fun s : SplitE => !s.tip)
      (fun s : SplitE => decide (2 ≤ lightSize t.tipNames (canonSide t.tipNames s.below))) t.splits s hs hp hq
    omega
  obtain ⟨d, p, k⟩ := t
  simp only [T.rooted, T.kids_node, beq_iff_eq] at hr h1
  clear hle hint
  match k, hr, hu, h1 with
  | [(e1, a), (e2, b)], _, hu, h1 =>
    have hall : (T.node d p [(e1, a), (e2, b)]).tipNames = a.leaves ++ b.leaves := by
      simp [T.tipNames, leavesL]
    rw [hall] at hu ⊢
    simp only [List.filter_cons, List.filter_nil] at h1
    cases ha : a.isLeaf <;> cases hb : b.isLeaf <;> simp [ha, hb] at h1
    · -- `b` is the tip: the branch to `a`
      obtain ⟨db, pb, kb⟩ := b
      have hkb : kb = [] := by simpa [T.isLeaf] using hb
      subst hkb
      refine ⟨⟨a.leaves, e1, a.isLeaf⟩, by simp [T.splits, splitsL], by simp [ha], ?_⟩
      have hc : canonSide (a.leaves ++ (T.node db pb []).leaves) a.leaves =
          canonSide (a.leaves ++ (T.node db pb []).leaves) (T.node db pb []).leaves :=
        canonSide_compl hu (List.Perm.refl _)
      simp only [decide_eq_false_iff_not, Nat.not_le]
      rw [hc]
      have := lightSize_singleton hu db.name
      simp only [T.leaves] at this ⊢
      omega
    · -- `a` is the tip: the branch to `b`
      obtain ⟨da, pa, ka⟩ := a
      have hka : ka = [] := by simpa [T.isLeaf] using ha
      subst hka
      refine ⟨⟨b.leaves, e2, b.isLeaf⟩, by simp [T.splits, splitsL], by simp [hb], ?_⟩
      have hc : canonSide ((T.node da pa []).leaves ++ b.leaves) (T.node da pa []).leaves =
          canonSide ((T.node da pa []).leaves ++ b.leaves) b.leaves :=
        canonSide_compl hu (List.Perm.refl _)
      simp only [decide_eq_false_iff_not, Nat.not_le]
      rw [← hc]
      have := lightSize_singleton hu da.name
      simp only [T.leaves] at this ⊢
      omega

/-- the root is a tip and its only child an inner node: the branch between them is not a tip
    branch in the split list, but its split is trivial (the root alone on one side) -/
theorem usplitSet_length_lt_tip_rooted (t : T) (hu : t.tipNames.Nodup) (h1 : t.kids.length = 1)
    (hin : t.kids.all (fun et => !et.2.isLeaf) = true) :
    t.usplitSet.length + 1 ≤ t.internalEdges.length := by
  have hle := usplitSet_length_le' t hu
  have hint : t.internalEdges.length = (t.splits.filter fun s => !s.tip).length := by simp [T.internalEdges]
  rw [hint]
  suffices ∃ s ∈ t.splits, (!s.tip) = true ∧
      decide (2 ≤ lightSize t.tipNames (canonSide t.tipNames s.below)) = false by
    obtain ⟨s, hs, hp, hq⟩ := this
    have := filter_and_lt (fun s : SplitE => !s.tip)
      (fun s : SplitE => decide (2 ≤ lightSize t.tipNames (canonSide t.tipNames s.below))) t.splits s hs hp hq
    omega
  obtain ⟨d, p, k⟩ := t
  simp only [T.kids_node] at h1 hin
  clear hle hint
  match k, h1, hu, hin with
  | [(e, c)], _, hu, hin =>
    have hc : c.isLeaf = false := by simpa using hin
    have hall : (T.node d p [(e, c)]).tipNames = [d.name] ++ c.leaves := by
      simp [T.tipNames, leavesL, T.name]
    rw [hall] at hu ⊢
    refine ⟨⟨c.leaves, e, c.isLeaf⟩, by simp [T.splits, splitsL], by simp [hc], ?_⟩
    have hcs : canonSide ([d.name] ++ c.leaves) [d.name] = canonSide ([d.name] ++ c.leaves) c.leaves :=
      canonSide_compl hu (List.Perm.refl _)
    simp only [decide_eq_false_iff_not, Nat.not_le]
    rw [← hcs]
    have := lightSize_singleton hu d.name
    omega

/-- rooted tree whose root has two inner children: the two branches at the root define the
    same split -/
theorem usplitSet_length_lt_rooted_inner (t : T) (hu : t.tipNames.Nodup) (hr : t.rooted = true)
    (h2 : (t.kids.filter (fun et => !et.2.isLeaf)).length = 2) :
    t.usplitSet.length + 1 ≤ t.internalEdges.length := by
  obtain ⟨d, p, k⟩ := t
  simp only [T.rooted, T.kids_node, beq_iff_eq] at hr h2
  match k, hr, hu, h2 with
  | [(e1, a), (e2, b)], _, hu, h2 =>
    have hall : (T.node d p [(e1, a), (e2, b)]).tipNames = a.leaves ++ b.leaves := by
      simp [T.tipNames, leavesL]
    simp only [List.filter_cons, List.filter_nil] at h2
    have ha : a.isLeaf = false := by
      cases ha : a.isLeaf <;> cases hb : b.isLeaf <;> simp [ha, hb] at h2 ⊢
    have hb : b.isLeaf = false := by
      cases ha : a.isLeaf <;> cases hb : b.isLeaf <;> simp [ha, hb] at h2 ⊢
    have hc : canonSide (a.leaves ++ b.leaves) a.leaves = canonSide (a.leaves ++ b.leaves) b.leaves :=
      canonSide_compl (hall ▸ hu) (List.Perm.refl _)
    -- the inner entries, and the same list without the branch to `b`
    have hsplits : (T.node d p [(e1, a), (e2, b)]).splits =
        ⟨a.leaves, e1, a.isLeaf⟩ :: (a.splitsBelow ++ (⟨b.leaves, e2, b.isLeaf⟩ :: b.splitsBelow)) := by
      simp [T.splits, splitsL]
    have hint : (T.node d p [(e1, a), (e2, b)]).internalEdges.length =
        ((⟨a.leaves, e1, a.isLeaf⟩ :: (a.splitsBelow.filter (fun s => !s.tip) ++ b.splitsBelow.filter (fun s => !s.tip)) : List SplitE).map
          fun s => canonSide (a.leaves ++ b.leaves) s.below).length + 1 := by
      simp [T.internalEdges, hsplits, List.filter_append, ha, hb]
      omega
    rw [hint]
    apply Nat.succ_le_succ
    apply List.Nodup.length_le_of_subset (usplitSet_nodup _)
    intro x hx
    obtain ⟨⟨s, hs, heq⟩, hl⟩ := (mem_usplitSet _ x).mp hx
    rw [hall] at heq hl
    have htip : s.tip = false := by
      cases htip : s.tip with
      | false => rfl
      | true =>
        exfalso
        obtain ⟨y, hy⟩ := tip_entry_singleton _ s (by simpa [T.splits] using hs) htip
        rw [hy] at heq
        have := lightSize_singleton (hall ▸ hu) y
        rw [heq] at this
        omega
    rw [hsplits] at hs
    simp only [List.mem_cons, List.mem_append] at hs
    simp only [List.map_cons, List.map_append, List.mem_cons, List.mem_append, List.mem_map, List.mem_filter,
      Bool.not_eq_eq_eq_not, Bool.not_true]
    rcases hs with rfl | hs | rfl | hs
    · exact Or.inl heq.symm
    · exact Or.inr (Or.inl ⟨s, ⟨hs, htip⟩, heq⟩)
    · exact Or.inl (by rw [← heq]; exact hc.symm ▸ rfl)
    · exact Or.inr (Or.inr ⟨s, ⟨hs, htip⟩, heq⟩)

end Gotree.C17
