/-
  C05 — the command-line glue of `gotree reroot outgroup|midpoint`, `gotree unroot`,
  `gotree rotate rand|sort` (cmd/outgroup.go, midpoint.go, unroot.go, rotate_rand.go,
  rotate_sort.go, root.go:parseStringFile) as small pure functions of the flags.
-/
import Gotree.Model.C05

namespace Gotree.C05
open Gotree

/-- `parseTipsFile` / `parseStringFile`: every line is split at commas, nothing is trimmed -/
def parseTipsFile (lines : List String) : List String := lines.flatMap (fun l => l.splitOn ",")

/-- the outgroup `reroot outgroup` uses: the tip file (-l) wins over the arguments; with neither
    the command fails before reading any tree -/
def cliTips (file : Option (List String)) (args : List String) : Res (List String) :=
  match file with
  | some ls => .ok (parseTipsFile ls)
  | none => if args.isEmpty then .err "Not group given" else .ok args

/-- `for t := range treechan { err = op(t); if err != nil { return }; write(t) }`: the trees are
    processed in order, the results written one by one, the first failure ends the run -/
def cliLoop (op : T → Res T) : List T → List T × String
  | [] => ([], "ok")
  | t :: ts =>
    match op t with
    | .ok u => let r := cliLoop op ts; (u :: r.1, r.2)
    | .err _ => ([], "err")
    | .panic _ => ([], "panic")

/-- `rotate rand`: one random source (seeded once by --seed) serves the trees in order -/
def cliRotate : List T → List Nat → List T
  | [], _ => []
  | t :: ts, draws =>
    let k := (drawBounds true t).length
    rotate t (draws.take k) :: cliRotate ts (draws.drop k)

inductive CliKind | outgroup | midpoint | unroot | rotateRand | rotateSort
  deriving DecidableEq, Repr

/-- the whole command: what is written and how it ends -/
def cliRun (kind : CliKind) (remove strict : Bool) (file : Option (List String)) (args : List String)
    (draws : List Nat) (trees : List T) : List T × String :=
  match kind with
  | .outgroup =>
    match cliTips file args with
    | .ok tips => cliLoop (rerootOutGroup remove strict tips) trees
    | _ => ([], "err")
  | .midpoint => cliLoop rerootMidPoint trees
  | .unroot => (trees.map unroot, "ok")
  | .rotateRand => (cliRotate trees draws, "ok")
  | .rotateSort => (trees.map sortT, "ok")

end Gotree.C05
