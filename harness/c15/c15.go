// Package c15: local edits keep the rest of the tree; copies are independent.
//
// Per-operation cases (GraftTreeOnTip, Merge, InsertIdenticalTips, RemoveSingleNodes,
// SubTree, Clone) and aliasing histories (edit scripts applied to a copy / to the
// original while the other one is re-read after every step).
package c15

import (
	"fmt"
	"math/rand"
	"reflect"
	"sort"
	"strconv"
	"strings"

	"verifharness/core"

	"github.com/evolbioinfo/gotree/tree"
)

func b2s(b bool) string {
	if b {
		return "1"
	}
	return "0"
}

// build constructs the Go tree of n; indexed = ReinitIndexes is called (what the parsers do).
func build(n *core.N, indexed bool) *tree.Tree {
	t, err := core.Build(n)
	if err != nil {
		panic(err)
	}
	if indexed {
		if p, msg := core.Safe(func() { t.ReinitIndexes() }); p {
			panic("ReinitIndexes panicked on a generated tree: " + msg)
		}
	}
	return t
}

// read returns the α dump of t and the problems the checker found ("" = none).
func read(t *tree.Tree) (string, string) {
	var n *core.N
	var wf *core.WF
	if p, msg := core.Safe(func() { n, wf = core.Alpha(t) }); p {
		return "", core.Escape("alpha panicked: " + msg)
	}
	d := ""
	if n != nil {
		d = n.Dump()
	}
	if !wf.OK() {
		return d, core.Escape(strings.Join(wf.Problems, "; "))
	}
	return d, ""
}

func text(t *tree.Tree) string {
	var s string
	if p, msg := core.Safe(func() { s = t.Newick() }); p {
		return core.Escape("PANIC " + msg)
	}
	return core.Escape(s)
}

func outcome(p bool, msg string, err error) string {
	if p {
		return "panic:" + core.Escape(msg)
	}
	if err != nil {
		return "err"
	}
	return "ok"
}

// indexAnswers lists (sorted) the current tips that the tip index answers for: TipNode(name) must
// return the very node that Tips() enumerates under that name; "!" + names the index knows
// although no such tip exists (stale entries) are appended.
func indexAnswers(t *tree.Tree, extra []string) string {
	var out []string
	p, _ := core.Safe(func() {
		seen := map[string]bool{}
		for _, tip := range t.Tips() {
			seen[tip.Name()] = true
			if n, err := t.TipNode(tip.Name()); err == nil && n == tip {
				out = append(out, tip.Name())
			}
		}
		for _, nm := range extra {
			if !seen[nm] {
				if ok, err := t.ExistsTip(nm); err == nil && ok {
					out = append(out, "!"+nm)
				}
			}
		}
	})
	if p {
		return "PANIC,"
	}
	sort.Strings(out)
	return core.StrList(out)
}

// sharedCells reports which kinds of heap cells two trees have in common: node and branch
// structs, the backing arrays of the comment slices (when they have capacity: zero-capacity
// slices all point at the runtime's zero base), bitsets.
func sharedCells(a, b *tree.Tree) string {
	var kinds []string
	p, _ := core.Safe(func() {
		nodes := map[*tree.Node]bool{}
		edges := map[*tree.Edge]bool{}
		arrs := map[uintptr]bool{}
		bits := map[uintptr]bool{}
		for _, n := range a.Nodes() {
			nodes[n] = true
			if c := n.Comments(); cap(c) > 0 {
				arrs[reflect.ValueOf(c).Pointer()] = true
			}
		}
		for _, e := range a.Edges() {
			edges[e] = true
			if c := e.Comments(); cap(c) > 0 {
				arrs[reflect.ValueOf(c).Pointer()] = true
			}
			if bs := e.Bitset(); bs != nil {
				bits[reflect.ValueOf(bs).Pointer()] = true
			}
		}
		found := map[string]bool{}
		for _, n := range b.Nodes() {
			if nodes[n] {
				found["node"] = true
			}
			if c := n.Comments(); cap(c) > 0 && arrs[reflect.ValueOf(c).Pointer()] {
				found["nodecomment"] = true
			}
		}
		for _, e := range b.Edges() {
			if edges[e] {
				found["edge"] = true
			}
			if c := e.Comments(); cap(c) > 0 && arrs[reflect.ValueOf(c).Pointer()] {
				found["edgecomment"] = true
			}
			if bs := e.Bitset(); bs != nil && bits[reflect.ValueOf(bs).Pointer()] {
				found["bitset"] = true
			}
		}
		for k := range found {
			kinds = append(kinds, k)
		}
	})
	if p {
		return "PANIC,"
	}
	sort.Strings(kinds)
	return core.StrList(kinds)
}

// bitsetState compares every branch bitset with the tips actually below the branch (through the
// tip index): "ok", "nil" (some branch has no bitset), "stale" (some bit is wrong), "noindex".
func bitsetState(t *tree.Tree) string {
	state := "ok"
	p, _ := core.Safe(func() {
		var below func(n, prev *tree.Node, acc map[int]bool) bool
		below = func(n, prev *tree.Node, acc map[int]bool) bool {
			if n.Tip() {
				id, err := t.TipIndex(n.Name())
				if err != nil {
					return false
				}
				acc[id] = true
				return true
			}
			for _, c := range n.Neigh() {
				if c != prev {
					if !below(c, n, acc) {
						return false
					}
				}
			}
			return true
		}
		ntips := len(t.Tips())
		for _, e := range t.Edges() {
			bs := e.Bitset()
			if bs == nil {
				state = "nil"
				return
			}
			acc := map[int]bool{}
			if !below(e.Right(), e.Left(), acc) {
				state = "noindex"
				return
			}
			for i := 0; i < ntips; i++ {
				if bs.Test(uint(i)) != acc[i] {
					state = "stale"
					return
				}
			}
		}
	})
	if p {
		return "panic"
	}
	return state
}

func pathStr(p []int) string { return core.IntList(p) }

func parsePath(s string) []int {
	var out []int
	for _, f := range strings.Split(s, ",") {
		if f == "" {
			continue
		}
		v, _ := strconv.Atoi(f)
		out = append(out, v)
	}
	return out
}

func parseStrList(s string) []string {
	var out []string
	f := strings.Split(s, ",")
	for _, x := range f[:len(f)-1] {
		u, err := core.Unescape(x)
		if err != nil {
			panic(err)
		}
		out = append(out, u)
	}
	return out
}

func parseStrLists(s string) [][]string {
	out := [][]string{}
	f := strings.Split(s, ";")
	for _, x := range f[:len(f)-1] {
		out = append(out, parseStrList(x))
	}
	return out
}

func mustDump(s string) *core.N {
	n, err := core.ParseDump(s)
	if err != nil {
		panic(err)
	}
	return n
}

/* ---------- generators ---------- */

func opts(g *core.G) core.TreeOpts {
	o := core.DefaultOpts()
	o.MinTips, o.MaxTips = 3, 9
	o.Lengths = 2
	o.Supports = 2
	o.Comments = 0.15
	if g.Chance(0.15) {
		o.MinTips, o.MaxTips = 2, 3
	}
	if g.Chance(0.2) {
		o.InnerNames = 0.4
	}
	return o
}

// rerooted passes the tree through the real Reroot so that parent positions differ from 0.
func rerooted(g *core.G, n *core.N) *core.N {
	t, err := core.Build(n)
	if err != nil {
		panic(err)
	}
	var inner []*tree.Node
	for _, x := range t.Nodes() {
		if x.Nneigh() >= 2 && x != t.Root() {
			inner = append(inner, x)
		}
	}
	if len(inner) == 0 {
		return n
	}
	if p, _ := core.Safe(func() { t.Reroot(inner[g.Intn(len(inner))]) }); p {
		return n
	}
	m, wf := core.Alpha(t)
	if !wf.OK() {
		return n
	}
	return m
}

// rootTip hangs the tree below a new named root that has a single neighbour.
func rootTip(g *core.G, n *core.N, o *core.TreeOpts, name string) *core.N {
	n.E = core.NewE()
	n.E.Len = g.Length(o)
	return &core.N{Name: name, Kids: []*core.N{n}}
}

func addSingles(g *core.G, o *core.TreeOpts, n *core.N, p float64) {
	for i, k := range n.Kids {
		addSingles(g, o, k, p)
		for g.Chance(p) { // chains
			mid := &core.N{E: core.NewE(), Kids: []*core.N{n.Kids[i]}}
			mid.E.Len = g.Length(o)
			if g.Chance(0.5) {
				mid.E.Sup = g.Support(o)
			}
			if g.Chance(0.3) {
				mid.Name = fmt.Sprintf("S%d", g.Intn(1000))
			}
			if g.Chance(0.2) {
				mid.E.Comments = []string{"s"}
			}
			n.Kids[i] = mid
		}
	}
}

// genTree draws a tree with the decorations C15 needs; prefix keeps tip sets disjoint.
func genTree(g *core.G, prefix string, rooted int) *core.N {
	o := opts(g)
	o.TipPrefix = prefix
	o.Rooted = rooted
	n, _ := g.Tree(o)
	if rooted == 2 && g.Chance(0.25) {
		n = rerooted(g, n)
	}
	core.NumberEdges(n)
	return n
}

func tipsBelowRoot(n *core.N) []string {
	var out []string
	for _, k := range n.Kids {
		out = append(out, k.Leaves()...)
	}
	return out
}

/* ---------- operations on the real code ---------- */

func doGraft(c *core.Ctx, indexed bool, n *core.N, tip string, gn *core.N) {
	t := build(n, indexed)
	gt := build(gn, true)
	var err error
	p, msg := core.Safe(func() { err = t.GraftTreeOnTip(tip, gt) })
	oc := outcome(p, msg, err)
	d, wf := "", ""
	if !p { // also after a refusal: the tree must then be untouched
		d, wf = read(t)
	}
	ia := ""
	if oc == "ok" {
		ia = indexAnswers(t, append(n.TipNames(), gn.TipNames()...))
	}
	c.Emit("C15.graft", b2s(indexed), n.Dump(), core.Escape(tip), gn.Dump(), oc, d, wf, ia)
}

func doMerge(c *core.Ctx, i1, i2 bool, n1, n2 *core.N) {
	t := build(n1, i1)
	t2 := build(n2, i2)
	var err error
	p, msg := core.Safe(func() { err = t.Merge(t2) })
	oc := outcome(p, msg, err)
	d, wf := "", ""
	if !p { // also after a refusal: the tree must then be untouched
		d, wf = read(t)
	}
	ia := ""
	if oc == "ok" {
		ia = indexAnswers(t, append(n1.TipNames(), n2.TipNames()...)) + "|" + bitsetState(t)
	}
	c.Emit("C15.merge", b2s(i1), b2s(i2), n1.Dump(), n2.Dump(), oc, d, wf, ia)
}

func doInsid(c *core.Ctx, indexed bool, n *core.N, groups [][]string) {
	t := build(n, indexed)
	var err error
	p, msg := core.Safe(func() { err = t.InsertIdenticalTips(groups) })
	oc := outcome(p, msg, err)
	d, wf := "", ""
	if !p {
		d, wf = read(t)
	}
	ia := ""
	if oc == "ok" {
		ia = indexAnswers(t, n.TipNames()) + "|" + bitsetState(t)
	}
	c.Emit("C15.insid", b2s(indexed), n.Dump(), core.StrLists(groups), oc, d, wf, ia)
}

func doRmSingle(c *core.Ctx, indexed bool, n *core.N) {
	t := build(n, indexed)
	p, msg := core.Safe(func() { t.RemoveSingleNodes() })
	oc := outcome(p, msg, nil)
	d, wf := "", ""
	if !p {
		d, wf = read(t)
	}
	c.Emit("C15.rmsingle", b2s(indexed), n.Dump(), oc, d, wf)
}

func doSubTree(c *core.Ctx, n *core.N, path []int) {
	t := build(n, true)
	txt0 := text(t)
	node, _, err := core.NodeAt(t, path)
	if err != nil {
		panic(err)
	}
	var sub *tree.Tree
	p, msg := core.Safe(func() { sub = t.SubTree(node) })
	oc := outcome(p, msg, nil)
	d, wf := "", ""
	if !p {
		d, wf = read(sub)
	}
	da, _ := read(t)
	ia, sh := "", ""
	if !p {
		ia = indexAnswers(sub, n.TipNames()) + "|" + bitsetState(sub)
		sh = sharedCells(t, sub)
	}
	c.Emit("C15.subtree", n.Dump(), pathStr(path), oc, d, wf, da, txt0, text(t), ia, sh)
}

func nodeIds(t *tree.Tree) string {
	var ids []int
	for _, x := range t.Nodes() {
		ids = append(ids, x.Id())
	}
	return core.IntList(ids)
}

func doClone(c *core.Ctx, indexed bool, setIds bool, n *core.N) {
	t := build(n, indexed)
	if setIds {
		for i, x := range t.Nodes() {
			x.SetId(i + 7)
		}
	}
	var cl *tree.Tree
	p, msg := core.Safe(func() { cl = t.Clone() })
	oc := outcome(p, msg, nil)
	d, wf, tc, ic := "", "", "", ""
	if !p {
		d, wf = read(cl)
		tc = text(cl)
		ic = nodeIds(cl)
	}
	da, _ := read(t)
	ia, sh := "", ""
	if !p {
		ia = indexAnswers(cl, n.TipNames())
		if indexed {
			ia += "|" + bitsetState(cl)
		}
		sh = sharedCells(t, cl)
	}
	c.Emit("C15.clone", b2s(indexed), n.Dump(), oc, d, wf, da, text(t), tc, nodeIds(t), ic, ia, sh)
}

/* ---------- case generators ---------- */

func graftTree(g *core.G) *core.N {
	switch g.Intn(8) {
	case 0: // a single node
		return &core.N{Name: "g0"}
	case 1: // root with one child
		o := opts(g)
		return rootTip(g, &core.N{Name: "g1"}, &o, "gr")
	case 2: // root tip above a tree
		o := opts(g)
		return rootTip(g, genTree(g, "g", 2), &o, "gr")
	case 3:
		return genTree(g, "g", 1)
	default:
		return genTree(g, "g", 2)
	}
}

func graftCases(c *core.Ctx) {
	g := c.G
	n := genTree(g, "t", 2)
	if g.Chance(0.15) {
		o := opts(g)
		n = rootTip(g, n, &o, "rt")
		core.NumberEdges(n)
	}
	tips := n.TipNames()
	var pick []string
	if len(tips) <= 5 || !c.Quick() {
		pick = tips // all graft positions
	} else {
		pick = []string{tips[g.Intn(len(tips))], tips[g.Intn(len(tips))]}
	}
	for _, tip := range pick {
		doGraft(c, true, n, tip, graftTree(g))
	}
	if g.Chance(0.1) {
		doGraft(c, true, n, "nosuchtip", graftTree(g))
	}
	if g.Chance(0.1) {
		doGraft(c, false, n, tips[0], graftTree(g))
	}
	if g.Chance(0.1) { // graft sharing names with the host
		doGraft(c, true, n, tips[0], genTree(g, "t", 2))
	}
}

func mergeCases(c *core.Ctx) {
	g := c.G
	r1, r2 := 1, 1
	if g.Chance(0.12) {
		r1 = 0
	}
	if g.Chance(0.12) {
		r2 = 0
	}
	p2 := "u"
	if g.Chance(0.12) {
		p2 = "t" // common tip names: must be refused
	}
	n1 := genTree(g, "t", r1)
	n2 := genTree(g, p2, r2)
	// the generator's "rooted" trees may have a multifurcating root: make it a real root
	binRoot := func(n *core.N) {
		if len(n.Kids) > 2 {
			o := opts(g)
			in := &core.N{E: core.NewE(), Kids: n.Kids[1:]}
			in.E.Len = g.Length(&o)
			n.Kids = []*core.N{n.Kids[0], in}
			core.NumberEdges(n)
		}
	}
	if r1 == 1 {
		binRoot(n1)
	}
	if r2 == 1 {
		binRoot(n2)
	}
	if g.Chance(0.3) {
		addSingles(g, &core.TreeOpts{Lengths: 2, LenDenom: 8, LenMax: 40, Supports: 2}, n1, 0.15)
		core.NumberEdges(n1)
	}
	doMerge(c, !g.Chance(0.06), !g.Chance(0.06), n1, n2)
}

func insidCases(c *core.Ctx) {
	g := c.G
	n := genTree(g, "t", 2)
	if g.Chance(0.1) {
		o := opts(g)
		n = rootTip(g, n, &o, "rt")
		core.NumberEdges(n)
	}
	if g.Chance(0.04) { // the two-node tree: a root that is a tip above one leaf
		n = &core.N{Name: "rt", Kids: []*core.N{{Name: "t0", E: core.NewE()}}}
		n.Kids[0].E.Len = []float64{0, -1, 1.5}[g.Intn(3)]
		n.Kids[0].E.Id = 0
	}
	tips := n.TipNames()
	perm := g.R.Perm(len(tips))
	ng := 1 + g.Intn(3)
	if ng > len(tips) {
		ng = len(tips)
	}
	var groups [][]string
	fresh := 0
	// force zero / absent tip branch lengths on the chosen tips now and then
	var setLen func(x *core.N, name string, l float64)
	setLen = func(x *core.N, name string, l float64) {
		for _, k := range x.Kids {
			if len(k.Kids) == 0 && k.Name == name {
				k.E.Len = l
			}
			setLen(k, name, l)
		}
	}
	for i := 0; i < ng; i++ {
		old := tips[perm[i]]
		switch g.Intn(4) {
		case 0:
			setLen(n, old, 0)
		case 1:
			setLen(n, old, -1)
		}
		grp := []string{}
		k := g.Intn(4)
		pos := g.Intn(k + 1)
		for j := 0; j <= k; j++ {
			if j == pos {
				grp = append(grp, old)
			}
			if j < k {
				grp = append(grp, fmt.Sprintf("n%d", fresh))
				fresh++
			}
		}
		groups = append(groups, grp)
	}
	switch g.Intn(14) {
	case 0: // two existing members
		groups[0] = append(groups[0], tips[perm[len(tips)-1]])
	case 1: // no existing member
		groups = append(groups, []string{"z1", "z2"})
	case 2: // the same new name twice in a group
		groups[0] = append(groups[0], "dup", "dup")
	case 3: // a new name reused by a later group
		if len(groups) >= 2 {
			groups[0] = append(groups[0], "shared")
			groups[1] = append(groups[1], "shared")
		}
	case 4:
		groups = append(groups, []string{})
	case 5:
		groups = [][]string{}
	case 6, 7: // a later group whose existing member was inserted by an earlier group
		if fresh > 0 {
			groups = append(groups, []string{"late1", "n0", "late2"})
		}
	}
	doInsid(c, !g.Chance(0.05), n, groups)
}

func rmSingleCases(c *core.Ctx) {
	g := c.G
	n := genTree(g, "t", 2)
	o := opts(g)
	addSingles(g, &o, n, 0.25)
	if g.Chance(0.2) { // single-child nodes right below a root that is itself a tip
		n = rootTip(g, n, &o, "rt")
		if g.Chance(0.5) {
			mid := &core.N{E: core.NewE(), Kids: []*core.N{n.Kids[0]}}
			mid.E.Len = g.Length(&o)
			n.Kids[0] = mid
		}
	}
	core.NumberEdges(n)
	if g.Chance(0.3) {
		n = rerooted(g, n)
	}
	doRmSingle(c, !g.Chance(0.1), n)
}

func subTreeCases(c *core.Ctx) {
	g := c.G
	n := genTree(g, "t", 2)
	if g.Chance(0.3) {
		o := opts(g)
		addSingles(g, &o, n, 0.15)
		core.NumberEdges(n)
	}
	paths := n.Paths()
	if c.Quick() && len(paths) > 8 {
		g.R.Shuffle(len(paths), func(i, j int) { paths[i], paths[j] = paths[j], paths[i] })
		paths = paths[:8]
	}
	for _, p := range paths { // every node as subtree root
		doSubTree(c, n, p)
	}
}

func cloneCases(c *core.Ctx) {
	g := c.G
	n := genTree(g, "t", 2)
	o := opts(g)
	if g.Chance(0.3) {
		addSingles(g, &o, n, 0.15)
	}
	if g.Chance(0.1) {
		n = rootTip(g, n, &o, "rt")
	}
	core.NumberEdges(n)
	if g.Chance(0.3) {
		n = rerooted(g, n)
	}
	doClone(c, !g.Chance(0.2), g.Chance(0.5), n)
}

// Replay re-executes the requests of a corpus / replay file on the real code.
func Replay(c *core.Ctx, lines []string) {
	for _, l := range lines {
		f := strings.Split(l, "\t")
		switch {
		case f[0] == "C15.graft" && len(f) >= 5:
			tip, _ := core.Unescape(f[3])
			doGraft(c, f[1] == "1", mustDump(f[2]), tip, mustDump(f[4]))
		case f[0] == "C15.merge" && len(f) >= 5:
			doMerge(c, f[1] == "1", f[2] == "1", mustDump(f[3]), mustDump(f[4]))
		case f[0] == "C15.insid" && len(f) >= 4:
			doInsid(c, f[1] == "1", mustDump(f[2]), parseStrLists(f[3]))
		case f[0] == "C15.rmsingle" && len(f) >= 3:
			doRmSingle(c, f[1] == "1", mustDump(f[2]))
		case f[0] == "C15.subtree" && len(f) >= 3:
			doSubTree(c, mustDump(f[1]), parsePath(f[2]))
		case f[0] == "C15.clone" && len(f) >= 3:
			doClone(c, f[1] == "1", true, mustDump(f[2]))
		case f[0] == "C15.hist" && len(f) >= 6:
			runHistory(c, f[1], f[2], mustDump(f[3]), parsePath(f[4]), parseStrList(f[5]), 0)
		default:
			panic("C15: cannot replay " + f[0])
		}
	}
}

// Run generates the cases of C15.
func Run(c *core.Ctx) {
	if c.Arg != "" {
		Replay(c, core.ReadRequests(c.Arg))
		return
	}
	rand.Seed(c.Seed)
	if c.Quick() {
		enumCases(c, 3)
	} else if c.Seed%1000 == 0 { // first shard of the thorough tier
		enumCases(c, 5)
	}
	n := c.Scale(70, 2500)
	for i := 0; i < n; i++ {
		graftCases(c)
		mergeCases(c)
		mergeCases(c)
		insidCases(c)
		insidCases(c)
		rmSingleCases(c)
		rmSingleCases(c)
		subTreeCases(c)
		cloneCases(c)
		cloneCases(c)
	}
	h := c.Scale(400, 7500)
	for i := 0; i < h; i++ {
		historyCase(c)
	}
	if c.Gotree != "" {
		m := c.Scale(60, 1000)
		for i := 0; i < m; i++ {
			cliCases(c)
		}
	}
}
