/-
  C01 — the property theorems (every `theorem` here is audited with `#print axioms`).

  All statements are about the model functions the driver runs against the Go code
  (`Newick.parse`, `Newick.write`, at CHARACTER level: the lexer is inside), for an arbitrary
  `FloatCodec` (no axiom; `decCodec` below is a lawful instance, i.e. the hypotheses are satisfiable).
-/
import Gotree.Lemmas.C01
import Gotree.Lemmas.C01Codec
import Gotree.Lemmas.C01GoCodec
import Gotree.Lemmas.C01Lit
import Gotree.Lemmas.C01GoRead
import Gotree.Lemmas.C01Witness
import Gotree.Lemmas.C01Sep
import Gotree.Lemmas.C01Buf

namespace Gotree.C01
open Gotree Gotree.Newick

/-- The round trip with ANY input following the text: the parser stops right after the `;` (this is what a
    second `Parse()` on the same Parser starts from).  For every tree of the quantifier, and also for a
    root with a single child (`WF01r`). -/
theorem parseR_write (C : FloatCodec) (t : T) (tail : List Char) (h : WF01r C.isFloat C.dom t = true) :
    Newick.parseR C.toCodec (Newick.write C.toCodec t ++ tail) = .ok (t.normIds, tail) := by
  cases t with
  | node d pp ks =>
    simp only [WF01r, Bool.and_eq_true, decide_eq_true_eq] at h
    obtain ⟨⟨⟨⟨hlen, hroot1⟩, hin⟩, hcs⟩, hkids⟩ := h
    cases ks with
    | nil => simp at hlen
    | cons k ks =>
      have hkid : ∀ et ∈ k :: ks, KidOK C et.1 et.2 := fun et hm => kid_ok C et.2 et.1 (wfKids_mem _ _ _ hkids et hm)
      have htrim := trimL_ok (k :: ks) (fun et hm => trim_ok _ _ et.2 et.1 (wfKids_mem _ _ _ hkids et hm)) 0
      have hlen' := normFromL_length (k :: ks) 0
      -- the text
      have htxt : Newick.write C.toCodec (.node d pp (k :: ks)) ++ tail =
          '(' :: (writeKids C.toCodec true (k :: ks) ++ ')' :: (d.name.toList ++ (writeComments d.comments ++ ';' :: tail))) := by
        simp [Newick.write, writeNode]
      have hsd : StartsDelim (writeComments d.comments ++ ';' :: tail) :=
        startsDelim_comments _ _ ⟨';', tail, rfl, by decide⟩
      -- the machine
      have hrun : run C.toCodec {} ('(' :: (writeKids C.toCodec true (k :: ks) ++ ')' :: (d.name.toList ++ (writeComments d.comments ++ ';' :: tail)))) =
          .ok (⟨[⟨d, EdgeD.blank, (normFromL 0 (k :: ks)).1⟩], 0, some .eot, (normFromL 0 (k :: ks)).2, none, false⟩, ';' :: tail) := by
        have h0 : ({} : PState) = ⟨[], 0, none, 0, none, false⟩ := rfl
        rw [h0, run_open_root, kids_all C k ks hkid _ [] 1 0 none false _ (by omega)]
        have h10 : (1 : Int) - 1 = 0 := by omega
        rw [h10]
        -- the root's name
        have hname : run C.toCodec ⟨[{ (⟨⟨"", []⟩, EdgeD.blank, []⟩ : Frame) with kids := [] ++ (normFromL 0 (k :: ks)).1 }], 0, some .closepar,
              (normFromL 0 (k :: ks)).2, none, false⟩ (d.name.toList ++ (writeComments d.comments ++ ';' :: tail)) =
            run C.toCodec ⟨[⟨⟨d.name, []⟩, EdgeD.blank, (normFromL 0 (k :: ks)).1⟩], 0, some .closepar,
              (normFromL 0 (k :: ks)).2, none, false⟩ (writeComments d.comments ++ ';' :: tail) := by
          simp only [innerNameOK, Bool.and_eq_true] at hin
          obtain ⟨⟨hnm, hfirst⟩, hnum⟩ := hin
          cases hl : d.name.toList with
          | nil =>
            have := toList_nil_eq d.name hl
            simp [this]
          | cons c w =>
            rw [hl] at hnm hfirst hnum
            have hall := noMeta_ident _ hnm
            simp only [List.all_cons, Bool.and_eq_true] at hall
            have hws : isWhitespace c = false := by simpa using hfirst
            have hnf : C.isFloat (c :: w) = false := by
              simp only [List.isEmpty_cons, Bool.false_or, notNumeric, Bool.and_eq_true, Bool.not_eq_true'] at hnum
              exact hnum.1
            rw [run_name_root C.toCodec _ 0 _ none false c w _ hall.1 hws hall.2 hnf hsd]
            have hnm2 : String.ofList (c :: w) = d.name := by rw [← hl]; exact String.ofList_toList
            simp [hnm2]
        simp only [List.nil_append] at hname ⊢
        rw [hname]
        obtain ⟨pt', _, hc⟩ := run_comments C.toCodec d.comments ⟨⟨d.name, []⟩, EdgeD.blank, (normFromL 0 (k :: ks)).1⟩ [] 0 .closepar
          (normFromL 0 (k :: ks)).2 none false (';' :: tail) (Or.inl rfl) hcs
        rw [hc]
        simp only [Bool.false_and, List.nil_append]
        rw [run_semi]
      -- Parse around the loop
      rw [htxt]
      obtain ⟨hs0, hk0⟩ := scanIW_char C.toCodec '(' (writeKids C.toCodec true (k :: ks) ++ ')' :: (d.name.toList ++ (writeComments d.comments ++ ';' :: tail)))
        .openpar (scan_openpar _ _) (by decide)
      obtain ⟨hs1, _⟩ := scanIW_char C.toCodec ';' tail .eot (scan_semi _ _) (by decide)
      simp [Newick.parseR, hs0, hk0, hrun, hs1, PState.result, PState.unwind, Frame.toT, trimTips, T.normIds, normFrom, htrim, hlen']
      intro hks
      rw [hks] at hroot1
      simp at hroot1
      rw [hroot1]

/-- `Parse` is `parseR` without the rest. -/
theorem parse_eq_parseR (C : Codec) (inp : List Char) :
    Newick.parse C inp = (match Newick.parseR C inp with
      | .ok (t, _) => .ok t | .err m => .err m | .panic m => .panic m | .unrep m => .unrep m) := by
  unfold Newick.parse Newick.parseR
  simp only []
  split
  · rfl
  · split
    · rfl
    · split <;> try rfl
      split
      · rfl
      · split
        · rfl
        · split <;> rfl

/-- The round trip for every tree of the quantifier, and also for a root with a single child (`WF01r`). -/
theorem parse_write_gen (C : FloatCodec) (t : T) (h : WF01r C.isFloat C.dom t = true) :
    Newick.parse C.toCodec (Newick.write C.toCodec t) = .ok t.normIds := by
  have := parseR_write C t [] h
  rw [List.append_nil] at this
  rw [parse_eq_parseR, this]

theorem parseMany_ok (C : Codec) (inp : List Char) (t : T) (r : List Char) (h : Newick.parseR C inp = .ok (t, r)) :
    Newick.parseMany C inp = .ok t :: Newick.parseMany C r := by
  rw [Newick.parseMany]
  split
  · rename_i t' r' h'; rw [h] at h'; cases h'; rfl
  all_goals (rename_i m h'; rw [h] at h'; cases h')

theorem parseMany_nil (C : Codec) : Newick.parseMany C [] = [.err "found …, expected ("] := by
  rw [Newick.parseMany]
  have : Newick.parseR C [] = .err "found …, expected (" := by
    simp [Newick.parseR, scanIW, skipWs, scan]
  split
  all_goals (rename_i h'; rw [this] at h'; cases h')
  rfl

/-- One Parser, several trees: calling `Parse()` repeatedly on the concatenation of the texts of WF01 trees
    delivers the trees one by one, then the error of the exhausted input. -/
theorem parseMany_writes (C : FloatCodec) (ts : List T) (h : ∀ t ∈ ts, WF01 C.isFloat C.dom t = true) :
    Newick.parseMany C.toCodec (ts.flatMap (Newick.write C.toCodec)) =
      ts.map (fun t => Newick.Outcome.ok t.normIds) ++ [.err "found …, expected ("] := by
  induction ts with
  | nil => simp [parseMany_nil]
  | cons t ts ih =>
    have ht := h t (List.mem_cons_self ..)
    have hr : WF01r C.isFloat C.dom t = true := by
      cases t with
      | node d pp ks =>
        simp only [WF01, Bool.and_eq_true, decide_eq_true_eq] at ht
        obtain ⟨⟨⟨hlen, hin⟩, hcs⟩, hkids⟩ := ht
        simp only [WF01r, Bool.and_eq_true, decide_eq_true_eq, Bool.or_eq_true, bne_iff_ne, ne_eq]
        exact ⟨⟨⟨⟨by omega, Or.inl (by omega)⟩, hin⟩, hcs⟩, hkids⟩
    simp only [List.flatMap_cons, List.map_cons, List.cons_append]
    rw [parseMany_ok _ _ _ _ (parseR_write C t _ hr), ih (fun t' ht' => h t' (List.mem_cons_of_mem _ ht'))]

theorem parseWhileMore_ok (C : Codec) (inp : List Char) (t : T) (r : List Char) (h : Newick.parseR C inp = .ok (t, r)) :
    Newick.parseWhileMore C inp = .ok t :: (if Newick.more C r then Newick.parseWhileMore C (skipWs C r) else []) := by
  rw [Newick.parseWhileMore]
  split
  · rename_i t' r' h'; rw [h] at h'; cases h'; rfl
  all_goals (rename_i m h'; rw [h] at h'; cases h')

/-- the text of a tree with at least one child starts with `(` -/
theorem write_head (C : Codec) (t : T) (h : t.kids ≠ []) : ∃ r, Newick.write C t = '(' :: r := by
  cases t with
  | node d pp ks =>
    cases ks with
    | nil => exact absurd rfl h
    | cons k ks =>
      exact ⟨writeKids C true (k :: ks) ++ ')' :: (d.name.toList ++ (writeComments d.comments ++ [';'])), by simp [Newick.write, writeNode]⟩

/-- `Parser.More` + `Parse` in the loop of `ReadMultiTrees` (3850fd2): on the concatenation of the texts of
    WF01 trees the loop delivers exactly these trees and stops without an error. -/
theorem parseWhileMore_writes (C : FloatCodec) (t : T) (ts : List T) (h : ∀ u ∈ t :: ts, WF01 C.isFloat C.dom u = true) :
    Newick.parseWhileMore C.toCodec ((t :: ts).flatMap (Newick.write C.toCodec)) =
      (t :: ts).map (fun u => Newick.Outcome.ok u.normIds) := by
  induction ts generalizing t with
  | nil =>
    have ht := h t (List.mem_cons_self ..)
    have hr : WF01r C.isFloat C.dom t = true := by
      cases t with
      | node d pp ks =>
        simp only [WF01, Bool.and_eq_true, decide_eq_true_eq] at ht
        obtain ⟨⟨⟨hlen, hin⟩, hcs⟩, hkids⟩ := ht
        simp only [WF01r, Bool.and_eq_true, decide_eq_true_eq, Bool.or_eq_true, bne_iff_ne, ne_eq]
        exact ⟨⟨⟨⟨by omega, Or.inl (by omega)⟩, hin⟩, hcs⟩, hkids⟩
    have := parseR_write C t [] hr
    simp only [List.flatMap_cons, List.flatMap_nil, List.map_cons, List.map_nil]
    rw [parseWhileMore_ok _ _ _ _ this]
    simp [Newick.more, scanIW, skipWs, scan]
  | cons t2 ts ih =>
    have ht := h t (List.mem_cons_self ..)
    have hr : WF01r C.isFloat C.dom t = true := by
      cases t with
      | node d pp ks =>
        simp only [WF01, Bool.and_eq_true, decide_eq_true_eq] at ht
        obtain ⟨⟨⟨hlen, hin⟩, hcs⟩, hkids⟩ := ht
        simp only [WF01r, Bool.and_eq_true, decide_eq_true_eq, Bool.or_eq_true, bne_iff_ne, ne_eq]
        exact ⟨⟨⟨⟨by omega, Or.inl (by omega)⟩, hin⟩, hcs⟩, hkids⟩
    have ht2 := h t2 (List.mem_cons_of_mem _ (List.mem_cons_self ..))
    have hk2 : t2.kids ≠ [] := by
      cases t2 with
      | node d pp ks =>
        simp only [WF01, Bool.and_eq_true, decide_eq_true_eq] at ht2
        intro hnil
        simp only [T.kids_node] at hnil
        rw [hnil] at ht2
        simp at ht2
    obtain ⟨r2, hw2⟩ := write_head C.toCodec t2 hk2
    have hrest : (t2 :: ts).flatMap (Newick.write C.toCodec) = '(' :: (r2 ++ ts.flatMap (Newick.write C.toCodec)) := by
      simp [List.flatMap_cons, hw2]
    have hP := parseR_write C t ((t2 :: ts).flatMap (Newick.write C.toCodec)) hr
    have hflat : (t :: t2 :: ts).flatMap (Newick.write C.toCodec) =
        Newick.write C.toCodec t ++ (t2 :: ts).flatMap (Newick.write C.toCodec) := by simp [List.flatMap_cons]
    rw [hflat, parseWhileMore_ok _ _ _ _ hP]
    obtain ⟨hs, hk⟩ := scanIW_char C.toCodec '(' (r2 ++ ts.flatMap (Newick.write C.toCodec)) .openpar (scan_openpar _ _) (by decide)
    have hmore : Newick.more C.toCodec ((t2 :: ts).flatMap (Newick.write C.toCodec)) = true := by
      rw [hrest]; simp [Newick.more, hs]
    have hskip : skipWs C.toCodec ((t2 :: ts).flatMap (Newick.write C.toCodec)) = (t2 :: ts).flatMap (Newick.write C.toCodec) := by
      rw [hrest]; exact hk
    rw [hmore, hskip]
    simp only [if_true, List.map_cons]
    rw [ih t2 (fun u hu => h u (List.mem_cons_of_mem _ hu))]
    simp

/-- Several trees in one text, each followed by any run of blanks (spaces, tabs, line ends — as when a line of a
    multi-tree file holds several trees, or blanks follow the last `;`): the `More()` / `Parse()` loop of
    ReadMultiTrees delivers exactly these trees, in order, and stops without an error. -/
theorem parseWhileMore_writes_sep (C : FloatCodec) (sep : T → List Char) (hsep : ∀ u, (sep u).all isWhitespace = true)
    (t : T) (ts : List T) (h : ∀ u ∈ t :: ts, WF01 C.isFloat C.dom u = true) :
    Newick.parseWhileMore C.toCodec ((t :: ts).flatMap (fun u => Newick.write C.toCodec u ++ sep u)) =
      (t :: ts).map (fun u => Newick.Outcome.ok u.normIds) := by
  induction ts generalizing t with
  | nil =>
    have hr := wf01_wf01r _ _ t (h t (List.mem_cons_self ..))
    have hP := parseR_write C t (sep t) hr
    simp only [List.flatMap_cons, List.flatMap_nil, List.map_cons, List.map_nil, List.append_nil]
    rw [parseWhileMore_ok _ _ _ _ hP]
    have hk := skipWs_ws C.toCodec (sep t) [] (hsep t) (by intro c r hc; cases hc)
    rw [List.append_nil] at hk
    simp [Newick.more, scanIW, hk, scan]
  | cons t2 ts ih =>
    have hr := wf01_wf01r _ _ t (h t (List.mem_cons_self ..))
    have ht2 := h t2 (List.mem_cons_of_mem _ (List.mem_cons_self ..))
    obtain ⟨r2, hw2⟩ := write_head C.toCodec t2 (wf01_kids_ne _ _ t2 ht2)
    have hrest : (t2 :: ts).flatMap (fun u => Newick.write C.toCodec u ++ sep u) =
        '(' :: (r2 ++ sep t2 ++ ts.flatMap (fun u => Newick.write C.toCodec u ++ sep u)) := by
      simp [List.flatMap_cons, hw2]
    have hflat : (t :: t2 :: ts).flatMap (fun u => Newick.write C.toCodec u ++ sep u) =
        Newick.write C.toCodec t ++ (sep t ++ (t2 :: ts).flatMap (fun u => Newick.write C.toCodec u ++ sep u)) := by
      simp [List.flatMap_cons]
    have hP := parseR_write C t (sep t ++ (t2 :: ts).flatMap (fun u => Newick.write C.toCodec u ++ sep u)) hr
    rw [hflat, parseWhileMore_ok _ _ _ _ hP]
    have hnl : NoLeadWs ((t2 :: ts).flatMap (fun u => Newick.write C.toCodec u ++ sep u)) := by
      rw [hrest]; intro c r hc; cases hc; decide
    have hskip := skipWs_ws C.toCodec (sep t) _ (hsep t) hnl
    have hmore : Newick.more C.toCodec (sep t ++ (t2 :: ts).flatMap (fun u => Newick.write C.toCodec u ++ sep u)) = true := by
      simp only [Newick.more, scanIW, hskip]
      rw [hrest, scan_openpar]
      simp
    rw [hmore, hskip]
    simp only [if_true, List.map_cons]
    rw [ih t2 (fun u hu => h u (List.mem_cons_of_mem _ hu))]
    simp

/-- the hypotheses are satisfiable: two copies of `exTree`, each followed by a blank and a line end -/
example : Newick.parseWhileMore ratCodec.toCodec ([exTree, exTree].flatMap (fun u => Newick.write ratCodec.toCodec u ++ " \n".toList)) =
    [exTree, exTree].map (fun u => Newick.Outcome.ok u.normIds) :=
  parseWhileMore_writes_sep ratCodec (fun _ => " \n".toList) (by intro u; decide) exTree [exTree] (by
    intro u hu
    have : u = exTree := by simpa using hu
    subst this; decide +kernel)

/-- The error a failed `ParseFloat` of an `x/y` label leaves in parseIter's named result (model: `stale`) is what
    `Parse` returns when nothing overwrites it before the `;` — `(a(b))x/y;` is refused, `(a(b))xy;` is read —
    and a later Pop clears it: `((a,b)x/y,c);` is read.  (Witnesses by kernel evaluation; the code's rule, kept.) -/
theorem stale_err_witness :
    (match Newick.parseStr goCodec "(a(b))x/y;" with | .err _ => true | _ => false) = true ∧
    (match Newick.parseStr goCodec "(a(b))xy;" with | .ok _ => true | _ => false) = true ∧
    (match Newick.parseStr goCodec "((a,b)x/y,c);" with | .ok _ => true | _ => false) = true := by decide +kernel

/-- ★ Reading back what the writer wrote gives the same tree: same shape, child order, names, lengths,
    supports, p-values, node comments and branch comments; only the branch ids are renumbered in creation
    order and the parent positions are 0 (`T.normIds`).  Character level, any size, any degree. -/
theorem parse_write (C : FloatCodec) (t : T) (h : WF01 C.isFloat C.dom t = true) :
    Newick.parse C.toCodec (Newick.write C.toCodec t) = .ok t.normIds := by
  apply parse_write_gen
  cases t with
  | node d pp ks =>
    simp only [WF01, Bool.and_eq_true, decide_eq_true_eq] at h
    obtain ⟨⟨⟨hlen, hin⟩, hcs⟩, hkids⟩ := h
    simp only [WF01r, Bool.and_eq_true, decide_eq_true_eq, Bool.or_eq_true, bne_iff_ne, ne_eq]
    exact ⟨⟨⟨⟨by omega, Or.inl (by omega)⟩, hin⟩, hcs⟩, hkids⟩

/-- The writer does not look at branch ids or parent positions: the re-read tree writes the same text. -/
theorem write_normIds (C : Codec) (t : T) : Newick.write C t.normIds = Newick.write C t := by
  cases t with
  | node d pp ks =>
    have h := writeNode_norm C (.node d pp ks) 0 false
    simp only [Newick.write, T.normIds]
    rw [h]
    simp [normFrom]

/-- Corollary: writing, reading and writing again gives byte-identical text. -/
theorem write_parse_write (C : FloatCodec) (t t' : T) (h : WF01 C.isFloat C.dom t = true)
    (hp : Newick.parse C.toCodec (Newick.write C.toCodec t) = .ok t') :
    Newick.write C.toCodec t' = Newick.write C.toCodec t := by
  rw [parse_write C t h] at hp
  cases hp
  exact write_normIds C.toCodec t

/-- The re-read tree is the original as far as the property looks: `sameTree` (shape, order, names,
    lengths, supports, p-values, node and branch comments). -/
theorem sameTree_normIds (t : T) : sameTree t t.normIds = true := sameTree_norm t 0

/-- The oracle the driver evaluates on the implementation's output holds of the model's round trip:
    for every WF01 tree the model re-reads a tree for which `roundTripOK` is true. -/
theorem roundtrip_oracle (C : FloatCodec) (t : T) (h : WF01 C.isFloat C.dom t = true) :
    ∃ t', Newick.parse C.toCodec (Newick.write C.toCodec t) = .ok t' ∧
      roundTripOK t t' (Newick.writeStr C.toCodec t) (Newick.writeStr C.toCodec t') = true := by
  refine ⟨t.normIds, parse_write C t h, ?_⟩
  simp [roundTripOK, sameTree_normIds, Newick.writeStr, write_normIds]

/-- Corollary: on WF01 trees the text determines the tree (up to ids / parent positions): everything the
    property lists survives, because two trees with the same text are `sameTree`. -/
theorem write_injective_on_WF01 (C : FloatCodec) (t₁ t₂ : T) (h₁ : WF01 C.isFloat C.dom t₁ = true)
    (h₂ : WF01 C.isFloat C.dom t₂ = true) (hw : Newick.write C.toCodec t₁ = Newick.write C.toCodec t₂) :
    t₁.normIds = t₂.normIds ∧ sameTree t₁ t₂ = true := by
  have e1 := parse_write C t₁ h₁
  have e2 := parse_write C t₂ h₂
  rw [hw, e2] at e1
  have heq : t₂.normIds = t₁.normIds := by injection e1
  refine ⟨heq.symm, ?_⟩
  have s1 := sameTree_normIds t₁
  have s2 := sameTree_normIds t₂
  rw [heq] at s2
  exact sameTree_euclid t₁ t₂ _ s1 s2

/-- (not a flagship statement) `goDom x` IS the second and third codec law for the value `x`, checked by
    evaluation: for the numbers this theorem restates its hypothesis; it is kept because `goDomS_goDom`
    factors through it.  The statement with content is `parse_write_goS` below. -/
theorem parse_write_go (t : T) (h : WF01 goCodec.isFloat goDom t = true) :
    Newick.parse goCodec (Newick.write goCodec t) = .ok t.normIds :=
  parse_write goFloatCodec t h

/-- ★ for the executable codec with ALL FOUR laws proved: `goDomS x` only says that the shortest-digit search
    for `|x|` ended on a candidate it checked (and that the decimal magnitude is inside the reader's window);
    that the text `goFormatFloat x` is then accepted by the model of `ParseFloat` and read back as `x` is
    theorem `goDomS_goDom` (render → read, digit by digit).  The driver evaluates this hypothesis on every
    case (tag `godom`) and reports a float64 value outside `goDomS` as a broken tie. -/
theorem parse_write_goS (t : T) (h : WF01 goCodec.isFloat goDomS t = true) :
    Newick.parse goCodec (Newick.write goCodec t) = .ok t.normIds :=
  parse_write goFloatCodecS t h

/-- the four codec laws of the executable codec, as one statement -/
theorem goCodec_laws :
    (∀ x : Rat, goCodec.fmt x ≠ [] ∧ (goCodec.fmt x).all numClean = true) ∧
    (∀ x : Rat, goDomS x = true → goCodec.isFloat (goCodec.fmt x) = true) ∧
    (∀ x : Rat, goDomS x = true → goCodec.parse (goCodec.fmt x) = some x) ∧
    (∀ l : List Char, goCodec.isFloat l = true → l.all (fun c => c != '/') = true) :=
  ⟨goFormatFloat_clean, goFloatCodecS.fmt_isFloat, goFloatCodecS.parse_fmt, goCodec_isFloat_noSlash⟩

/-- the model of `ParseFloat` on what the model of `FormatFloat` writes for `n · 10^p`: the nearest float64 -/
theorem goParseFloat_of_render (n : Nat) (p : Int) (h0 : 0 < n) (h1 : n < 10 ^ 400)
    (hlo : -330 ≤ (numDecDigits n : Int) + p) (hhi : (numDecDigits n : Int) + p ≤ 311) :
    goParseFloat (renderFixed 400 n p) = (match roundF64 (scale10 ((n : Nat) : Rat) p) with | none => .bad | some q => .fin q) :=
  (goParseFloat_render n p h0 h1 hlo hhi).1

/-- the first and the fourth law of the executable codec hold for all inputs -/
theorem goCodec_unconditional_laws :
    (∀ x : Rat, goCodec.fmt x ≠ [] ∧ (goCodec.fmt x).all numClean = true) ∧
    (∀ l : List Char, goCodec.isFloat l = true → l.all (fun c => c != '/') = true) :=
  ⟨goFormatFloat_clean, goCodec_isFloat_noSlash⟩

/-! ### the node stack, literally -/

/-- The machine that keeps parseIter's variables `node` / `edge` (their nil-ness) and the nil edge of the
    stack elements explicitly (Model/C01Lit.lean) computes, for EVERY input, what `Newick.parse` computes:
    the nil tests the functional machine derives from the shape of the stack are the code's. -/
theorem parse_literal_stack (C : Codec) (inp : List Char) : Lit.parseL C inp = Newick.parse C inp :=
  Lit.parseL_eq_parse C inp

/-- the loop itself, from the initial state -/
theorem run_literal_stack (C : Codec) (inp : List Char) :
    Lit.eraseO (Lit.runL C {} inp) = Newick.run C {} inp := Lit.runL_eq_run C inp

/-! ### the unscan buffer, literally -/

/-- The machine that keeps the Parser object — the reader and the three fields of `p.buf` (token, literal, flag),
    `scan` answering from the buffer when the flag is set, `unscan` setting it (Model/C01Buf.lean) — computes, for
    EVERY input, what the positional `Newick.parse` computes: handing on "the input before the token" is what the
    one-token buffer does. -/
theorem parse_literal_buffer (C : Codec) (inp : List Char) : (Buf.parseB C (Buf.fresh inp)).1 = Newick.parse C inp := by
  have h := Buf.parseB_rel C (Buf.fresh inp) inp (Buf.agrees_fresh C inp)
  rw [parse_eq_parseR]
  cases hr : Newick.parseR C inp with
  | ok tr =>
    obtain ⟨t, r⟩ := tr
    rw [hr] at h
    obtain ⟨b', hb', _⟩ := h
    rw [hb']
  | err m => rw [hr] at h; exact h
  | panic m => rw [hr] at h; exact h
  | unrep m => rw [hr] at h; exact h

/-- The Parser object ACROSS calls: whenever it stands at a position of the positional model (`Buf.Agrees`: nothing
    buffered and the reader there, or a non-blank token buffered that began there), `Parse()` returns what `parseR`
    returns and leaves the Parser at the position `parseR` hands on, and `More()` answers `Newick.more` and leaves it
    at the next non-blank character. -/
theorem parser_object_simulation (C : Codec) (b : Buf.PBuf) (p : List Char) (h : Buf.Agrees C b p) :
    (match Newick.parseR C p with
     | .ok (t, r) => ∃ b', Buf.parseB C b = (.ok t, b') ∧ Buf.Agrees C b' r
     | .err m => (Buf.parseB C b).1 = .err m
     | .panic m => (Buf.parseB C b).1 = .panic m
     | .unrep m => (Buf.parseB C b).1 = .unrep m) ∧
    (Buf.moreB C b).1 = Newick.more C p ∧ Buf.Agrees C (Buf.moreB C b).2 (skipWs C p) :=
  ⟨Buf.parseB_rel C b p h, Buf.moreB_rel C b p h⟩

/-- The `More()` / `Parse()` loop of ReadMultiTrees on one Parser object delivers, for EVERY text, what the positional
    `parseWhileMore` delivers (the fuel `length + 1` is never exhausted). -/
theorem parseWhileMore_literal_buffer (C : Codec) (inp : List Char) :
    Buf.parseWhileMoreB C (inp.length + 1) (Buf.fresh inp) = Newick.parseWhileMore C inp :=
  Buf.parseWhileMoreB_eq C _ _ inp (Buf.agrees_fresh C inp) (by omega)

/-! ### defect F1 (repaired by 6ae5e49): regression theorems -/

/-- The scanner as it is now returns a name containing NUL whole … -/
theorem scan_nul_whole (C : Codec) (r : List Char) :
    (scan C false ('a' :: '\x00' :: 'b' :: ',' :: r)).2.1 = ['a', '\x00', 'b'] := by
  simp [scan, isWhitespace, isIdent, List.takeWhile]

/-- … while the scanner pinned before the fix cut it at the NUL (and swallowed the NUL). -/
theorem scanPinned_nul_fails (C : Codec) (r : List Char) :
    (scanPinned C false ('a' :: '\x00' :: 'b' :: ',' :: r)).2.1 = ['a'] ∧
    (scanPinned C false ('a' :: '\x00' :: 'b' :: ',' :: r)).2.2 = 'b' :: ',' :: r := by
  simp [scanPinned, isWhitespace, isIdent, List.takeWhile, List.dropWhile, dropNul]

/-! ### fix 331c4ae (writer, root with a single neighbour) -/

example : WF01r ratCodec.isFloat ratCodec.dom root1 = true := by decide +kernel
example : String.ofList (Newick.write ratCodec.toCodec root1) = "((a,b)1r2:1r1)R[rc];" := by decide +kernel
example : roundTripModel goCodec root1 = true := control_go.2.2.2

/-! ### every clause of the quantifier is needed — for the codec the driver runs -/

/-- Thirteen trees that each drop ONE clause of WF01 and on which the model's own round trip, with the
    executable codec `goCodec`, fails (tip with trailing / leading blank, numeric and float/float inner name,
    two branch comments, branch comment without length, name + support, p-value without support, support on
    a tip branch, `]` in a comment, metacharacter in a name — also inside quotes —, numeric root name). -/
theorem quantifier_clauses_needed :
    roundTripModel goCodec (root3 (leafE NIL "x ")) = false ∧
    roundTripModel goCodec (root3 (leafE NIL " x")) = false ∧
    roundTripModel goCodec (root3 (innerAB ⟨NIL, NIL, NIL, [], 0⟩ ⟨"12", []⟩)) = false ∧
    roundTripModel goCodec (root3 (innerAB ⟨NIL, NIL, NIL, [], 0⟩ ⟨"0.5/0.25", []⟩)) = false ∧
    roundTripModel goCodec (root3 (innerAB ⟨1, NIL, NIL, ["x", "y"], 0⟩ ⟨"", []⟩)) = false ∧
    roundTripModel goCodec (root3 (innerAB ⟨NIL, NIL, NIL, ["x"], 0⟩ ⟨"", []⟩)) = false ∧
    roundTripModel goCodec (root3 (innerAB ⟨NIL, 1/2, NIL, [], 0⟩ ⟨"N", []⟩)) = false ∧
    roundTripModel goCodec (root3 (innerAB ⟨NIL, NIL, 1/2, [], 0⟩ ⟨"", []⟩)) = false ∧
    roundTripModel goCodec (root3 (⟨NIL, 1/2, NIL, [], 0⟩, T.leaf "x")) = false ∧
    roundTripModel goCodec (root3 (innerAB ⟨NIL, NIL, NIL, [], 0⟩ ⟨"", ["a]b"]⟩)) = false ∧
    roundTripModel goCodec (root3 (leafE NIL "x:y")) = false ∧
    roundTripModel goCodec (root3 (leafE NIL "'x,y'")) = false ∧
    roundTripModel goCodec (.node ⟨"1e5", []⟩ 0 [leafE NIL "a", leafE NIL "b"]) = false := needs_go

/-- The ROOT name clause, explicitly (routed from C09): a root named "7.0" — with two children, or as a tip
    root with a single child — is written `(a,b)7.0;` / `((a,b))7.0;`; the reader takes the label after the
    last `)` for a support, the root has no branch, so the value is dropped and the name is lost.  Outside the
    quantifier (`innerNameOK` applies to the root: not numeric-looking); a root named "7.0x" survives. -/
theorem needs_nonnumeric_root_name_go :
    roundTripModel goCodec (.node ⟨"7.0", []⟩ 0 [leafE NIL "a", leafE NIL "b"]) = false ∧
    roundTripModel goCodec (.node ⟨"7.0", []⟩ 0 [innerAB ⟨NIL, NIL, NIL, [], 0⟩ ⟨"", []⟩]) = false ∧
    WF01 goCodec.isFloat isF64 (.node ⟨"7.0", []⟩ 0 [leafE NIL "a", leafE NIL "b"]) = false ∧
    roundTripModel goCodec (.node ⟨"7.0x", []⟩ 0 [leafE NIL "a", leafE NIL "b"]) = true := by decide +kernel


/-! ### the hypotheses of the theorems for the executable codec are satisfiable -/

/-- `exTreeGo` carries 0.1, 0.30000000000000004, a sub-normal (1e-320), the largest float64, 1e21, -1.25 -/
example : WF01 goCodec.isFloat isF64 exTreeGo = true := by decide +kernel
example : WF01 goCodec.isFloat goDomS exTreeGo = true := by decide +kernel
example : Newick.parse goCodec (Newick.write goCodec exTreeGo) = .ok exTreeGo.normIds :=
  parse_write_goS exTreeGo (by decide +kernel)
example : ((Newick.write goCodec exTreeGo).take 60) =
    "((a:17976931348623157000000000000000000000000000000000000000".toList := by decide +kernel

/-- Non-vacuity of `parse_write_goS`: a WF01 tree of genuinely non-dyadic-short float64 values inside `goDomS`. -/
theorem parse_write_goS_nonvacuous :
    ∃ t : T, WF01 goCodec.isFloat goDomS t = true ∧ WF01 goCodec.isFloat isF64 t = true ∧
      Newick.parse goCodec (Newick.write goCodec t) = .ok t.normIds :=
  ⟨exTreeGo, by decide +kernel, by decide +kernel, parse_write_goS exTreeGo (by decide +kernel)⟩

/-! ### the hypotheses are satisfiable (lawful codec `ratCodec`, a non-trivial tree) -/

example : WF01 ratCodec.isFloat ratCodec.dom exTree = true := by decide +kernel
example : String.ofList (Newick.write ratCodec.toCodec exTree) =
    "((a:1r2,b c,100:0r1)9r10/1r20[c1][c;2]:3r1[bc],(c:2r1[k],d)N1/x,e:-5r4)root[rc];" := by decide +kernel
example : Newick.parse ratCodec.toCodec (Newick.write ratCodec.toCodec exTree) = .ok exTree.normIds :=
  parse_write ratCodec exTree (by decide +kernel)

/-- Non-vacuity, as a theorem: there is a lawful codec and a WF01 tree with a multifurcation, comments,
    a support with p-value and non-integer values for which the round trip holds. -/
theorem parse_write_nonvacuous :
    ∃ (C : FloatCodec) (t : T), WF01 C.isFloat C.dom t = true ∧
      Newick.parse C.toCodec (Newick.write C.toCodec t) = .ok t.normIds :=
  ⟨ratCodec, exTree, by decide +kernel, parse_write ratCodec exTree (by decide +kernel)⟩

end Gotree.C01
