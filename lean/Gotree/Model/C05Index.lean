/-
  C05 — the indexes the library derives from a tree and recomputes at the end of every root move
  (tree/tree.go: UpdateTipIndex :464, SortedTips :481, tipIndexNode :491, ClearBitSets :589,
  UpdateBitSet :653, fillRightBitSet :667, ReinitIndexes :603, ReinitInternalIndexes :624), and
  histories of several operations on one tree.

    Reroot            … t.root = n; ReorderEdges; ReinitInternalIndexes
    UnRoot            … ReinitIndexes            (tip index rebuilt, bitsets, hashes, depths)
    RerootOutGroup    … UnRoot; …; reroot_nocheck; UpdateTipIndex (only with removal); ReinitInternalIndexes
    RerootMidPoint    … UnRoot; …; Reroot; ReinitInternalIndexes
    RotateInternalNodes / SortNeighborsByTips … touch neither orientation nor any index

  Since everything is recomputed from the tree, the index after a history is the index of the resulting
  tree: `indexOf`.  Core Lean only.
-/
import Gotree.Model.C05Orient

namespace Gotree.C05
open Gotree

/-! ## UpdateTipIndex -/

/-- insertion in a list sorted by `strings.Compare(a, b) < 0` (after the entries that are not larger) -/
def insName (x : String) : List String → List String
  | [] => [x]
  | y :: r => if x < y then x :: y :: r else y :: insName x r

/-- `SortedTips()` names: `Tips()` sorted by name (the names are unique where an index exists, so the
    instability of `sort.Slice` does not show) -/
def sortNames (l : List String) : List String := l.foldr insName []

/-- position of a name in a list (`tip.tipid = i` for the i-th sorted tip); the length when absent -/
def idxOfName (x : String) : List String → Nat
  | [] => 0
  | y :: r => if y == x then 0 else idxOfName x r + 1

/-- `UpdateTipIndex`: an error when two tips have the same name, otherwise the sorted names; the tip
    at position `i` receives `tipid = i` -/
def updateTipIndex (t : T) : Res (List String) :=
  let tips := sortNames t.tipNames
  if tips.eraseDups.length != tips.length then .err "Cannot create a tip index when several tips have the same name"
  else .ok tips

/-! ## ClearBitSets / UpdateBitSet / fillRightBitSet -/

/- `fillRightBitSet(e, rightEdges)`: at a tip branch the bit of the tip is set in every branch of the
   stack `rightEdges` (the branch itself and all those above it); otherwise every branch leaving the
   lower node is pushed, filled, popped.  A branch therefore receives the bits of exactly the tip
   branches met while it is on the stack.  Result: the bits contributed to the branches of the stack,
   and the bitsets (as lists of set bits, in setting order) of the branches strictly below, pre-order. -/
mutual
def fillT (tid : String → Nat) : T → List Nat × List (List Nat)
  | .node d _ [] => ([tid d.name], [])
  | .node _ _ (k :: ks) => fillL tid (k :: ks)
def fillL (tid : String → Nat) : Kids → List Nat × List (List Nat)
  | [] => ([], [])
  | (_, t) :: r =>
    let a := fillT tid t
    let b := fillL tid r
    (a.1 ++ b.1, (a.1 :: a.2) ++ b.2)
end

/-- `UpdateBitSet`: `for _, e := range t.Root().br { fillRightBitSet(e, [e]) }` — the bitsets of all
    branches in `Edges()` order -/
def bitsets (tid : String → Nat) (t : T) : List (List Nat) := (fillL tid t.kids).2

/-- what the harness reads after a history: `NbTips()`, `TipIndex(name)` for every tip in `Tips()` order,
    and for every branch the length of its bitset and the set bits -/
structure Index where
  nb : Nat
  ids : List Nat
  bits : List (Nat × List Nat)
  deriving Repr, BEq, DecidableEq

/-- the index of a tree whose tip index is up to date -/
def indexOf (t : T) : Index :=
  let names := sortNames t.tipNames
  let tid := fun x => idxOfName x names
  ⟨names.length, t.tipNames.map tid, (bitsets tid t).map fun b => (names.length, b)⟩

/-! ## Histories -/

inductive Step where
  | reroot (path : List Nat)
  | unroot
  | outgroup (remove strict : Bool) (S : List String)
  | midpoint
  | sort
  | rerootFirst
  | rotate (draws : List Nat)
  deriving Repr

def Step.apply (s : Step) (t : T) : Res T :=
  match s with
  | .reroot p => C05.reroot t p
  | .unroot => .ok (C05.unroot t)
  | .outgroup rm st S => C05.rerootOutGroup rm st S t
  | .midpoint => C05.rerootMidPoint t
  | .sort => .ok (C05.sortT t)
  | .rerootFirst => C05.rerootFirst t
  | .rotate ds => .ok (C05.rotate t ds)

/-- the steps in order on one tree; the first failure ends the history: number of steps done, outcome -/
def runSteps : List Step → T → Nat × Res T
  | [], t => (0, .ok t)
  | s :: r, t =>
    match s.apply t with
    | .ok u => let x := runSteps r u; (x.1 + 1, x.2)
    | .err m => (0, .err m)
    | .panic m => (0, .panic m)

end Gotree.C05
