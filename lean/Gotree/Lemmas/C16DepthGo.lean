/-
  C16 — the Go recursion `computeDepthRecurRooted` computes the specified depths (`depthsR`).
-/
import Gotree.Model.C16DepthGo
import Gotree.Lemmas.C16Depth

namespace Gotree.C16
open Gotree

/-- the sentinel as an option -/
def ofSentinel (m : Int) : Option Nat := if m = -1 then none else some m.toNat
def toSentinel : Option Nat → Int
  | none => -1
  | some m => (m : Int)

theorem minO_assoc (a b c : Option Nat) : minO (minO a b) c = minO a (minO b c) := by
  cases a <;> cases b <;> cases c <;> simp [minO, Nat.min_assoc]

mutual
theorem goDepthR_spec : ∀ (t : T), (goDepthR t).1 = (downDepth t : Int) ∧ (goDepthR t).2 = (depthsR t).map fun (x : Nat) => (x : Int)
  | .node d p [] => by simp [goDepthR, downDepth, depthsR, depthsRL]
  | .node d p (k :: ks) => by
    obtain ⟨h1, h2⟩ := goDepthRL_spec (k :: ks) none
    obtain ⟨m, hm, _, _⟩ := downMin_spec (k :: ks) (by simp)
    have h1' : (goDepthRL (k :: ks) (-1)).1 = (m : Int) := by
      have := h1
      simp only [minO, hm] at this
      exact this
    have h2' : (goDepthRL (k :: ks) (-1)).2 = (depthsRL (k :: ks)).map fun (x : Nat) => (x : Int) := h2
    simp only [goDepthR, downDepth, depthsR, hm, Option.getD_some, List.map_cons, h1', h2']
    have hc : ((m : Int) + 1) = ((1 + m : Nat) : Int) := by omega
    rw [hc]
    exact ⟨rfl, rfl⟩
theorem goDepthRL_spec : ∀ (ks : Kids) (acc : Option Nat),
    (goDepthRL ks (toSentinel acc)).1 = toSentinel (minO acc (downMin ks)) ∧
    (goDepthRL ks (toSentinel acc)).2 = (depthsRL ks).map fun (x : Nat) => (x : Int)
  | [], acc => by cases acc <;> simp [goDepthRL, downMin, minO, depthsRL]
  | (e, t) :: r, acc => by
    obtain ⟨ht1, ht2⟩ := goDepthR_spec t
    have hstep : (if (toSentinel acc == -1 || (goDepthR t).1 < toSentinel acc) = true then (goDepthR t).1 else toSentinel acc) =
        toSentinel (minO acc (some (downDepth t))) := by
      rw [ht1]
      cases acc with
      | none => simp [toSentinel, minO]
      | some a =>
        show (if (((a : Int) == -1) || decide ((downDepth t : Int) < (a : Int))) = true then (downDepth t : Int) else (a : Int)) =
          ((min a (downDepth t) : Nat) : Int)
        have hne : ((a : Int) == -1) = false := by
          have : (a : Int) ≠ -1 := by omega
          simpa using this
        by_cases hlt : (downDepth t : Int) < (a : Int)
        · simp only [hne, hlt, decide_true, Bool.or_true, if_true]; omega
        · simp only [hne, hlt, decide_false, Bool.or_false, Bool.false_eq_true, if_false]; omega
    obtain ⟨hr1, hr2⟩ := goDepthRL_spec r (minO acc (some (downDepth t)))
    simp only [goDepthRL, hstep, hr1, hr2, ht2, depthsRL, List.map_append, downMin, and_true]
    rw [minO_assoc]
end

/-- what `ComputeDepths` leaves in a rooted tree is the specified list of depths -/
theorem goComputeDepthsRooted_eq (t : T) :
    goComputeDepthsRooted t = (depthsR t).map fun (x : Nat) => (x : Int) := (goDepthR_spec t).2

end Gotree.C16
