/-
  C10 lemmas, part J: what FBP / TBE do to the reference besides the supports —
  internal names are blanked, which changes neither the split list nor the tips,
  and the supports are written branch by branch in `Edges()` order.
-/
import Gotree.Lemmas.C10Bridge

namespace Gotree.C10
open Gotree

mutual
theorem blankBelow_leaves : ∀ (t : T), (blankBelow t).leaves = t.leaves ∧ (blankBelow t).isLeaf = t.isLeaf ∧
    (blankBelow t).splitsBelow = t.splitsBelow
  | .node d p [] => by simp [blankBelow]
  | .node d p (k :: ks) => by
    obtain ⟨h1, h2⟩ := blankL_leaves (k :: ks)
    cases hb : blankL (k :: ks) with
    | nil => simp [blankL] at hb
    | cons a b =>
      rw [hb] at h1 h2
      simp only [blankBelow, hb, T.leaves, T.isLeaf, T.kids_node, T.splitsBelow]
      exact ⟨h1, by simp, h2⟩
theorem blankL_leaves : ∀ (k : Kids), leavesL (blankL k) = leavesL k ∧ splitsL (blankL k) = splitsL k
  | [] => by simp [blankL]
  | (e, t) :: r => by
    obtain ⟨a1, a2, a3⟩ := blankBelow_leaves t
    obtain ⟨b1, b2⟩ := blankL_leaves r
    simp [blankL, leavesL, splitsL, a1, a2, a3, b1, b2]
end

theorem blankL_length : ∀ (k : Kids), (blankL k).length = k.length
  | [] => rfl
  | (_, _) :: r => by simp [blankL, blankL_length r]

/-- blanking the internal names changes neither the split list nor the tips -/
theorem blankNames_same (t : T) : (blankNames t).splits = t.splits ∧ (blankNames t).tipNames = t.tipNames := by
  cases t with
  | node d p k =>
    obtain ⟨h1, h2⟩ := blankL_leaves k
    constructor
    · simp [blankNames, T.splits, h2]
    · simp only [blankNames, T.tipNames, T.kids_node, blankL_length, h1, T.name, T.d_node]
      by_cases hk : k.length = 1
      · simp [hk]
      · simp [hk]

/-! ## the two functions see a reference only through its split list and its tips -/

theorem fbpLoop_congr {r r' : T} (hs : r.splits = r'.splits) (ht : r.tipNames = r'.tipNames) :
    ∀ (bs : List T) (c : List Nat) (n : Nat), fbpLoop r bs c n = fbpLoop r' bs c n
  | [], _, _ => rfl
  | b :: bs, c, n => by
    unfold fbpLoop
    have hc : compareTips r b = compareTips r' b := by unfold compareTips; rw [ht]
    rw [hc, hs, ht, fbpLoop_congr hs ht bs]

theorem fbp_congr {r r' : T} (hs : r.splits = r'.splits) (ht : r.tipNames = r'.tipNames) (bs : List T) :
    fbp r bs = fbp r' bs := by
  unfold fbp
  have h1 : reinitOk r = reinitOk r' := by unfold reinitOk; rw [ht]
  have h2 : ntips r = ntips r' := by unfold ntips; rw [ht]
  rw [h1, h2, hs, fbpLoop_congr hs ht]

theorem tbeEdge_congr {r r' : T} (ht : r.tipNames = r'.tipNames) (b : T) (s : SplitE) (sup : Rat) :
    tbeEdge r b s sup = tbeEdge r' b s sup := by
  unfold tbeEdge ntips; rw [ht]

theorem idPanic_congr {r r' : T} (hs : r.splits = r'.splits) (ht : r.tipNames = r'.tipNames) (b : T) :
    idPanic r b = idPanic r' b := by
  unfold idPanic ntips; rw [ht, hs]

theorem tbeLoop_congr {r r' : T} (hs : r.splits = r'.splits) (ht : r.tipNames = r'.tipNames) :
    ∀ (bs : List T) (c : List Rat) (n : Nat), tbeLoop r bs c n = tbeLoop r' bs c n
  | [], _, _ => rfl
  | b :: bs, c, n => by
    unfold tbeLoop
    have hc : compareTips r b = compareTips r' b := by unfold compareTips; rw [ht]
    have he : tbeEdge r b = tbeEdge r' b := by funext s sup; exact tbeEdge_congr ht b s sup
    rw [hc, idPanic_congr hs ht, hs, he, tbeLoop_congr hs ht bs]

theorem tbe_congr {r r' : T} (hs : r.splits = r'.splits) (ht : r.tipNames = r'.tipNames) (bs : List T) :
    tbe r bs = tbe r' bs := by
  unfold tbe
  have h1 : reinitOk r = reinitOk r' := by unfold reinitOk; rw [ht]
  have h2 : ntips r = ntips r' := by unfold ntips; rw [ht]
  rw [h1, h2, hs, tbeLoop_congr hs ht]

/-! ## writing the supports back -/

/-- what `setSupsL` guarantees -/
def SetSpec (k k' : Kids) (l l' : List Rat) : Prop :=
  leavesL k' = leavesL k ∧ (k' = [] ↔ k = []) ∧
  (splitsL k').map (·.e.sup) = l.take (splitsL k).length ∧
  (splitsL k').map (fun s => (s.below, s.tip)) = (splitsL k).map (fun s => (s.below, s.tip)) ∧
  l' = l.drop (splitsL k).length

mutual
theorem setSupsT_spec : ∀ (d : NodeD) (p : Nat) (k : Kids) (l : List Rat), (splitsL k).length ≤ l.length →
    ∃ k', (setSupsT (.node d p k) l) = (.node d p k', l.drop (splitsL k).length) ∧
      SetSpec k k' l (l.drop (splitsL k).length)
  | d, p, k, l, h => by
    obtain ⟨k', e, sp⟩ := setSupsL_spec k l h
    refine ⟨k', ?_, sp⟩
    simp only [setSupsT, e]
theorem setSupsL_spec : ∀ (k : Kids) (l : List Rat), (splitsL k).length ≤ l.length →
    ∃ k', setSupsL k l = (k', l.drop (splitsL k).length) ∧ SetSpec k k' l (l.drop (splitsL k).length)
  | [], l, _ => ⟨[], by simp [setSupsL, splitsL], by simp [SetSpec, splitsL]⟩
  | (e, .node d p kk) :: r, l, h => by
    cases l with
    | nil => simp [splitsL] at h
    | cons x l0 =>
      have hlen : (splitsL ((e, T.node d p kk) :: r)).length = 1 + (splitsL kk).length + (splitsL r).length := by
        simp [splitsL, T.splitsBelow]; omega
      rw [hlen] at h
      simp only [List.length_cons] at h
      obtain ⟨kk', e1, s1⟩ := setSupsT_spec d p kk l0 (by omega)
      obtain ⟨r', e2, s2⟩ := setSupsL_spec r (l0.drop (splitsL kk).length) (by simp; omega)
      obtain ⟨a1, a2, a3, a4, _⟩ := s1
      obtain ⟨b1, b2, b3, b4, _⟩ := s2
      refine ⟨({ e with sup := x }, .node d p kk') :: r', ?_, ?_⟩
      · simp only [setSupsL, List.tail_cons, e1, e2, hlen]
        congr 1
        rw [List.drop_drop]
        have : 1 + (splitsL kk).length + (splitsL r).length = ((splitsL kk).length + (splitsL r).length) + 1 := by omega
        rw [this, List.drop_succ_cons]
      · have hl : (T.node d p kk').leaves = (T.node d p kk).leaves := by
          cases kk with
          | nil => have := a2.2 rfl; subst this; rfl
          | cons q qs =>
            cases kk' with
            | nil => have := a2.1 rfl; cases this
            | cons q' qs' => simpa [T.leaves] using a1
        have hi : (T.node d p kk').isLeaf = (T.node d p kk).isLeaf := by
          simp only [T.isLeaf, T.kids_node]
          cases kk with
          | nil => have := a2.2 rfl; subst this; rfl
          | cons q qs =>
            cases kk' with
            | nil => have := a2.1 rfl; cases this
            | cons q' qs' => rfl
        refine ⟨?_, by simp, ?_, ?_, ?_⟩
        · simp only [leavesL, hl, b1]
        · simp only [splitsL, T.splitsBelow, List.map_cons, List.map_append, a3, b3]
          simp only [List.length_cons, List.length_append, List.take_succ_cons, List.take_add]
        · simp only [splitsL, T.splitsBelow, List.map_cons, List.map_append, a4, b4, hl, hi]
        · rfl
end

/-- the annotated reference: same branches, the supports given, in `Edges()` order -/
theorem annotated_spec (r : T) (sups : List Rat) (h : sups.length = r.splits.length) :
    (annotated r sups).splits.map (·.e.sup) = sups ∧
    (annotated r sups).splits.map (fun s => (s.below, s.tip)) = r.splits.map (fun s => (s.below, s.tip)) := by
  obtain ⟨hs, _⟩ := blankNames_same r
  unfold annotated
  cases hb : blankNames r with
  | node d p k =>
    have hk : splitsL k = r.splits := by rw [← hs, hb]; rfl
    obtain ⟨k', e, _, _, a3, a4, _⟩ := setSupsT_spec d p k sups (by rw [hk]; omega)
    rw [e]
    simp only [T.splits, T.kids_node]
    rw [a3, a4, hk]
    exact ⟨by rw [← h]; exact List.take_length, rfl⟩

/-! ## the readers of the command line -/

def treesOf {α : Type} : List (Item α) → List α
  | [] => []
  | .tree a :: r => a :: treesOf r
  | .treePlus a :: r => a :: treesOf r
  | .treeLine as :: r => as ++ treesOf r
  | _ :: r => treesOf r

def noJunk {α : Type} : List (Item α) → Bool
  | [] => true
  | .junk :: _ => false
  | _ :: r => noJunk r

theorem cliStreamGo_clean {α : Type} : ∀ (items : List (Item α)) (sent : Nat), noJunk items = true →
    0 < sent + (treesOf items).length → cliStreamGo items false sent = (treesOf items).map some
  | [], sent, _, h => by
    simp only [treesOf, List.length_nil, Nat.add_zero] at h
    have : (sent == 0) = false := by simpa using Nat.ne_of_gt h
    simp [cliStreamGo, treesOf, this]
  | .blank :: r, sent, hj, h => by
    simp only [cliStreamGo, treesOf]
    exact cliStreamGo_clean r sent (by simpa [noJunk] using hj) (by simpa [treesOf] using h)
  | .junk :: r, _, hj, _ => by simp [noJunk] at hj
  | .tree a :: r, sent, hj, _ => by
    simp only [cliStreamGo, treesOf, List.map_cons, Bool.false_eq_true, if_false]
    rw [cliStreamGo_clean r (sent + 1) (by simpa [noJunk] using hj) (by omega)]
  | .treePlus a :: r, sent, hj, _ => by
    simp only [cliStreamGo, treesOf, List.map_cons, Bool.false_eq_true, if_false]
    rw [cliStreamGo_clean r (sent + 1) (by simpa [noJunk] using hj) (by omega)]
  | .treeLine [] :: r, sent, hj, h => by
    simp only [cliStreamGo, treesOf, List.nil_append]
    exact cliStreamGo_clean r sent (by simpa [noJunk] using hj) (by simpa [treesOf] using h)
  | .treeLine (a :: as) :: r, sent, hj, _ => by
    simp only [cliStreamGo, treesOf, Bool.false_eq_true, if_false, List.map_append]
    rw [cliStreamGo_clean r (sent + (a :: as).length) (by simpa [noJunk] using hj)
      (by simp only [List.length_cons]; omega)]

theorem cliReference_first {α : Type} : ∀ (items : List (Item α)), noJunk items = true →
    cliReference items = (treesOf items).head?
  | [], _ => rfl
  | .tree a :: r, _ => rfl
  | .treePlus a :: r, _ => rfl
  | .treeLine (a :: as) :: r, _ => rfl
  | .treeLine [] :: r, h => by
    simp only [cliReference, treesOf, List.nil_append]
    exact cliReference_first r (by simpa [noJunk] using h)
  | .blank :: r, h => by
    simp only [cliReference, treesOf]
    exact cliReference_first r (by simpa [noJunk] using h)
  | .junk :: r, h => by simp [noJunk] at h

end Gotree.C10
