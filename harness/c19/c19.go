package c19

import "verifharness/core"

// Run generates the cases of C19.
func Run(c *core.Ctx) {
}
