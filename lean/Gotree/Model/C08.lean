/-
  C08 — model of `tree.Compare` (tree/algo.go:799), `tree.CompareWeighted`
  (tree/algo.go:906), `Tree.CompareTipIndexes` (tree/tree.go:755),
  `Tree.CommonEdges` / `CommonEdges` / `Edge.FindEdge` (tree/tree.go:705,734,
  tree/edge.go:288) and of the sums printed by `cmd/comparetrees.go`.

  The `EdgeIndex` (hash map keyed by the bitset of a branch, `HashEquals` =
  `bitset.EqualOrComplement`) is modelled as an association list keyed by the
  bitset (`List Bool` over the tree's own sorted tip index, DESIGN §3.4) and
  searched with `eqOrCompl`.  That the Go hash map (hash code + buckets +
  rehash) refines such an association list is C04's theorem (`hm_refines`,
  `hashCode_split_invariant`) and is assumed here.

  The worker pool is not modelled (C11): one tree of the channel is one call
  of the loop body, which is what is modelled.  Core Lean only.
-/
import Gotree.Spec.Splits

namespace Gotree.C08
open Gotree

/-- `e.bitset` after `ReinitIndexes`: one bit per tip of the tree's own tip index
    (`SortedTips`: names in increasing order), set when the tip is on the right
    side of the branch. -/
def key (all : List String) (s : SplitE) : List Bool := (sortS all).map fun x => s.below.contains x

/-- `bitset.EqualOrComplement`: equal, or of the same length with every bit flipped. -/
def eqOrCompl (a b : List Bool) : Bool := a == b || (a.length == b.length && a == b.map (!·))

/-- `EdgeIndexInfo`. -/
structure Info where
  count : Nat
  len : Rat
  deriving Repr, BEq, DecidableEq

abbrev Index := List (List Bool × Info)

/-- `hash.PutValue`: an existing key keeps its place and gets the new value. -/
def put (k : List Bool) (v : Info) : Index → Index
  | [] => [(k, v)]
  | (k', v') :: r => if eqOrCompl k' k then (k', v) :: r else (k', v') :: put k v r

/-- `for i, e := range edges { index.PutEdgeValue(e, i, e.Length()) }` -/
def buildFrom (all : List String) : List SplitE → Nat → Index → Index
  | [], _, ix => ix
  | s :: r, i, ix => buildFrom all r (i + 1) (put (key all s) ⟨i, s.e.len⟩ ix)

def buildIndex (all : List String) (edges : List SplitE) : Index := buildFrom all edges 0 []

/-- `index.Value(e)`: the value of the first key that `HashEquals` the bitset -/
def value (ix : Index) (k : List Bool) : Option Info := (ix.find? fun p => eqOrCompl p.1 k).map (·.2)

/-- Outcome of one record of the stats channel.  `refErr`: the function itself
    returned an error (reference tree cannot be indexed); `err`: the record
    carries `Err ≠ nil`. -/
inductive Res (α : Type) where
  | ok (a : α)
  | err
  | refErr
  deriving Repr, BEq, DecidableEq

/-- `ReinitIndexes` succeeds: `UpdateTipIndex` found no duplicated tip name and
    `ClearBitSets` found at least one tip. -/
def reinitOk (t : T) : Bool := t.uniqueTips && t.tipNames.length != 0

/-- `CompareTipIndexes` returns nil: both indexes non-empty, same size, every
    name of the first present in the second. -/
def compareTipIndexes (a b : List String) : Bool :=
  a.length != 0 && b.length != 0 && a.length == b.length && a.all (fun x => b.contains x)

/-- `BipartitionStats` (Go `int`s: a difference may be negative on inputs the
    property excludes, e.g. a rooted compared tree). -/
structure Stats where
  tree1 : Int
  common : Int
  tree2 : Int
  same : Bool
  deriving Repr, BEq, DecidableEq

structure LoopSt where
  total2 : Nat
  common : Nat
  same : Bool
  deriving Repr, BEq, DecidableEq

/-- counted in the totals: `tips || !e.Right().Tip()` -/
def counted (tips : Bool) (e : SplitE) : Bool := tips || !e.tip

/-- The loop over the branches of the compared tree (algo.go:838-856),
    `break` included. -/
def cmpLoop (idx : Index) (all : List String) (tips sc : Bool) : List SplitE → LoopSt → LoopSt
  | [], st => st
  | e2 :: rest, st =>
    let total2 := if counted tips e2 then st.total2 + 1 else st.total2
    let ok := if !e2.tip then (value idx (key all e2)).isSome else true
    if !ok && sc then ⟨total2, st.common, false⟩
    else
      cmpLoop idx all tips sc rest
        ⟨total2, if ok && counted tips e2 then st.common + 1 else st.common, st.same && ok⟩

/-- One record of `Compare` for the reference `r` and the compared tree `c`. -/
def compare (r c : T) (tips sc : Bool) : Res Stats :=
  if !reinitOk r then .refErr else
  let edges := r.splits
  let idx := buildIndex r.tipNames edges
  let total := edges.countP (counted tips)
  if !reinitOk c then .err else
  -- (the code tests `err` instead of `inerr` here and goes on computing; the
  --  record carries `Err`, which is all a caller may look at)
  if !compareTipIndexes r.tipNames c.tipNames then .err else
  let st := cmpLoop idx c.tipNames tips sc c.splits ⟨0, 0, true⟩
  let same := st.same && st.total2 == total
  .ok ⟨(total : Int) - st.common, st.common, (st.total2 : Int) - st.common, same⟩

/-- The behaviour before fix 64ef88d (F13): no comparison of the totals. -/
def comparePinned (r c : T) (tips sc : Bool) : Res Stats :=
  if !reinitOk r then .refErr else
  let edges := r.splits
  let idx := buildIndex r.tipNames edges
  let total := edges.countP (counted tips)
  if !reinitOk c then .err else
  if !compareTipIndexes r.tipNames c.tipNames then .err else
  let st := cmpLoop idx c.tipNames tips sc c.splits ⟨0, 0, true⟩
  .ok ⟨(total : Int) - st.common, st.common, (st.total2 : Int) - st.common, st.same⟩

/- ## CompareWeighted -/

structure WStats where
  tree1 : List Rat     -- lengths of the branches specific to the reference
  tree2 : List Rat     -- lengths of the branches specific to the compared tree
  common : List Rat    -- reference length - compared length of the shared ones
  same : Bool
  deriving Repr, BEq, DecidableEq

/-- First loop (algo.go:957-980): compared branches against the reference
    index.  Returns (Common, Comp, sametree). -/
def wLoop1 (refIdx : Index) (allc : List String) (tips sc : Bool) :
    List SplitE → Bool → List Rat × List Rat × Bool
  | [], same => ([], [], same)
  | e :: rest, same =>
    if counted tips e then
      match value refIdx (key allc e) with
      | some info =>
        if info.len != e.e.len && sc then ([], [], false)
        else
          let (co, cp, s) := wLoop1 refIdx allc tips sc rest (same && info.len == e.e.len)
          ((info.len - e.e.len) :: co, cp, s)
      | none =>
        if sc then ([], [], false)
        else
          let (co, cp, s) := wLoop1 refIdx allc tips sc rest false
          (co, e.e.len :: cp, s)
    else wLoop1 refIdx allc tips sc rest same

/-- Second loop (algo.go:983-995): reference branches against the index of the
    compared tree.  Returns (Ref, sametree). -/
def wLoop2 (compIdx : Index) (allr : List String) (tips sc : Bool) :
    List SplitE → Bool → List Rat × Bool
  | [], same => ([], same)
  | e :: rest, same =>
    if counted tips e then
      match value compIdx (key allr e) with
      | some _ => wLoop2 compIdx allr tips sc rest same
      | none =>
        if sc then ([], false)
        else
          let (rf, s) := wLoop2 compIdx allr tips sc rest false
          (e.e.len :: rf, s)
    else wLoop2 compIdx allr tips sc rest same

def compareWeighted (r c : T) (tips sc : Bool) : Res WStats :=
  if !reinitOk r then .refErr else
  let refIdx := buildIndex r.tipNames r.splits
  if !reinitOk c then .err else
  let compIdx := buildIndex c.tipNames c.splits
  if !compareTipIndexes r.tipNames c.tipNames then .err else
  let (co, cp, s1) := wLoop1 refIdx c.tipNames tips sc c.splits true
  let (rf, s2) := wLoop2 compIdx r.tipNames tips sc r.splits s1
  .ok ⟨rf, cp, co, s2⟩

/- ## CommonEdges / FindEdge -/

/-- `e.FindEdge(edges2)`: linear search for a branch of the same kind (tip /
    internal) with an equal-or-complementary bitset.  (The hash codes of two
    such branches are equal: C04.) -/
def findEdge (all1 all2 : List String) (e : SplitE) (edges2 : List SplitE) : Bool :=
  edges2.any fun e2 => e.tip == e2.tip && eqOrCompl (key all1 e) (key all2 e2)

/-- the loop of `CommonEdges`: (tree1 before subtraction, common) -/
def commonLoop (all1 all2 : List String) (tipEdges : Bool) (edges2 : List SplitE) :
    List SplitE → Nat × Nat → Nat × Nat
  | [], acc => acc
  | e :: rest, (t1, co) =>
    if counted tipEdges e then
      commonLoop all1 all2 tipEdges edges2 rest (t1 + 1, if findEdge all1 all2 e edges2 then co + 1 else co)
    else commonLoop all1 all2 tipEdges edges2 rest (t1, co)

/-- `t.CommonEdges(t2, tipEdges)` on two trees whose indexes are initialised:
    `(tree1, common)` or an error. -/
def commonEdges (t t2 : T) (tipEdges : Bool) : Res (Int × Int) :=
  if !compareTipIndexes t.tipNames t2.tipNames then .err else
  let (t1, co) := commonLoop t.tipNames t2.tipNames tipEdges t2.splits t.splits (0, 0)
  .ok ((t1 : Int) - co, co)

/- ## what `gotree compare trees` prints -/

def absR (q : Rat) : Rat := if q < 0 then -q else q

/-- `--rf` -/
def rf (s : Stats) : Int := s.tree1 + s.tree2

/-- weighted Robinson-Foulds -/
def wrf (w : WStats) : Rat := (w.common.map absR).sum + w.tree1.sum + w.tree2.sum

/-- the radicand of the Kuhner-Felsenstein branch score (the code prints its square root) -/
def kf2 (w : WStats) : Rat :=
  (w.common.map fun d => d * d).sum + (w.tree1.map fun d => d * d).sum + (w.tree2.map fun d => d * d).sum

/- ## what a rejected record carries besides `Err` -/

/-- `Compare`, record of a tree rejected by the taxon check (fix e41ab42: the loop does not run):
    `total - 0`, `0`, `0 - 0`, `false`.  A caller may only look at `Err`; this is a fidelity
    observation (it tells the fixed code from the one that went on comparing). -/
def errRecord (r : T) (tips : Bool) : Stats := ⟨(r.splits.countP (counted tips) : Nat), 0, 0, false⟩

/-- `CompareWeighted`, likewise: no term, not identical -/
def errRecordW : WStats := ⟨[], [], [], false⟩

/- ## `gotree compare edges`, `gotree compare tips` (cmd/compareedges.go, cmd/comparetips.go) -/

/-- one row of `compare edges` for a branch of the reference: terminal, topological depth
    (tips on the lighter side), found (= transfer distance 0 to some branch of the compared
    tree, i.e. a branch with an `EqualOrComplement` bitset) -/
def edgeRow (r c : T) (s : SplitE) : Bool × Nat × Bool :=
  (s.tip, min s.below.length (r.tipNames.length - s.below.length),
   c.splits.any fun e2 => eqOrCompl (key r.tipNames s) (key c.tipNames e2))

def edgeRows (r c : T) : List (Bool × Nat × Bool) := r.splits.map (edgeRow r c)

/-- `compare tips`: names only in the first list (`<`), only in the second (`>`), number of
    names of the first found in the second (`=`) -/
def tipsDiff (a b : List String) : List String × List String × Nat :=
  (a.filter fun x => !b.contains x, b.filter fun x => !a.contains x, (a.filter fun x => b.contains x).length)

end Gotree.C08
