-- GENERATED
import Driver.Proto
import Driver.C04
import Driver.C08
import Driver.C14
import Driver.C20
