/-
  C05 — branch orientation made explicit (tree/tree.go: SetRoot, ReorderEdges :831, Reroot;
  tree/node.go: Parent :146, ParentEdge :168; tree/edge.go: Inverse).

  In `T` a branch always points from the parent to the child.  Here every branch carries a flag
  `fwd`: `left` is the end nearer the root of the presentation.  `t.root = n` alone (SetRoot, the
  first statement of Reroot) changes which end is nearer the root for the branches between the old
  and the new root and touches no branch; `ReorderEdges` then inverts exactly the branches whose
  `right` end is the nearer one and reports them.
-/
import Gotree.Model.C05

namespace Gotree.C05
open Gotree

structure OEdge where
  e : EdgeD
  fwd : Bool
  deriving Repr

inductive OT where
  | node (d : NodeD) (ppos : Nat) (kids : List (OEdge × OT))

abbrev OKids := List (OEdge × OT)

def OT.kids : OT → OKids | .node _ _ k => k
def OT.d : OT → NodeD | .node d _ _ => d
def OT.ppos : OT → Nat | .node _ p _ => p

mutual
/-- forget the orientation -/
def OT.erase : OT → T
  | .node d p k => .node d p (eraseL k)
def eraseL : OKids → Kids
  | [] => []
  | (oe, t) :: r => (oe.e, t.erase) :: eraseL r
end

mutual
/-- a correctly oriented heap: every branch points away from the root -/
def orient : T → OT
  | .node d p k => .node d p (orientL k)
def orientL : Kids → OKids
  | [] => []
  | (e, t) :: r => (⟨e, true⟩, orient t) :: orientL r
end

mutual
/-- the flags in `Edges()` order -/
def OT.flags : OT → List Bool
  | .node _ _ k => flagsL k
def flagsL : OKids → List Bool
  | [] => []
  | (oe, t) :: r => oe.fwd :: (t.flags ++ flagsL r)
end

mutual
/-- `ReorderEdges(n, prev, &reversed)` started at the root: every branch whose `right` end is the
    nearer one is inverted and reported, in the order of the walk -/
def OT.reorder : OT → OT × List EdgeD
  | .node d p k => let r := reorderL k; (.node d p r.1, r.2)
def reorderL : OKids → OKids × List EdgeD
  | [] => ([], [])
  | (oe, t) :: r =>
    let a := t.reorder
    let b := reorderL r
    ((⟨oe.e, true⟩, a.1) :: b.1, (if oe.fwd then [] else [oe.e]) ++ a.2 ++ b.2)
end

mutual
/-- the branches that do not point away from the root, in `Edges()` order -/
def OT.wrong : OT → List EdgeD
  | .node _ _ k => wrongL k
def wrongL : OKids → List EdgeD
  | [] => []
  | (oe, t) :: r => (if oe.fwd then [] else [oe.e]) ++ t.wrong ++ wrongL r
end

/-- `t.root = child i` and nothing else: the branch between the two roots is now seen from its
    other end, no branch object changes -/
def moveRootO : OT → Nat → OT
  | .node d p kids, i =>
    match kids[i]? with
    | none => .node d p kids
    | some (oe, .node dc pc kc) => .node dc 0 (insertAt kc pc (⟨oe.e, !oe.fwd⟩, .node d i (kids.eraseIdx i)))

/-- `SetRoot(n)` for a node given by its path (same index bookkeeping as `rerootP`) -/
def setRootO : OT → List Nat → Option Nat → OT
  | t, [], _ => t
  | t, i :: rest, adj =>
    let i' := adjIdx adj i
    match t.kids[i']? with
    | none => t
    | some (_, c) => setRootO (moveRootO t i') rest (some (min c.ppos c.kids.length))

/-- `Reroot(n)` = `t.root = n; ReorderEdges(n, nil, nil)` on a correctly oriented heap -/
def rerootO (t : T) (path : List Nat) : OT × List EdgeD := (setRootO (orient t) path none).reorder

/-- `Node.Parent()` / `ParentEdge()`: the branches of the node whose `right` end is the node.
    `up` = flag of the branch to the parent in the presentation (`none` for the root); the answer
    is the number of such branches and whether the one to the presentation's parent is among them -/
def parentCount (up : Option Bool) (kids : OKids) : Nat × Bool :=
  ((match up with | some true => 1 | _ => 0) + (kids.filter fun k => !k.1.fwd).length, up == some true)

/-- outcome class of `Parent()`: ok only with exactly one candidate -/
def parentClass (up : Option Bool) (kids : OKids) : String :=
  let c := parentCount up kids
  if c.1 == 1 then (if c.2 then "parent" else "child") else if c.1 == 0 then "none" else "several"

mutual
/-- `Parent()` of every node in `Nodes()` order -/
def OT.parents (up : Option Bool) : OT → List String
  | .node _ _ k => parentClass up k :: parentsL k
def parentsL : OKids → List String
  | [] => []
  | (oe, t) :: r => t.parents (some oe.fwd) ++ parentsL r
end

/-- `RerootFirst`: the first node (in `Nodes()` order) with three neighbours becomes the root -/
def firstDeg3 : Bool → T → Option (List Nat)
  | isRoot, t => go isRoot t
where
  go : Bool → T → Option (List Nat)
    | isRoot, .node _ _ k =>
      if k.length + (if isRoot then 0 else 1) == 3 then some [] else goL k 0
  goL : Kids → Nat → Option (List Nat)
    | [], _ => none
    | (_, t) :: r, i =>
      match go false t with
      | some p => some (i :: p)
      | none => goL r (i + 1)

def rerootFirst (t : T) : Res T :=
  match firstDeg3 true t with
  | none => .err "No nodes with 3 neighors have been found for rerooting"
  | some p => reroot t p

end Gotree.C05
