/-
  C14 round 2 — Part 4: the whole walk from a tip on the pointer graph of a rose tree writes,
  up to order, the list `row` of the rose-tree model.  Core Lean only.
-/
import Gotree.Lemmas.C14Walk3

namespace Gotree.C14
open Gotree Gotree.C14.Go

/-- what the loop at a node writes for the children other than the one it came from -/
theorem sibs_spec (g : G) (w : EdgeD → Rat) (p m : Nat) (ks k1 k2 : Kids) (e : EdgeD) (tc : T) (acc : Rat)
    (hkidx : kidsIdx m ks = kidsIdx m k1 ++ (m + T.sizeL k1, (e, tc)) :: kidsIdx (m + T.sizeL k1 + tc.size) k2)
    (hnodes : ∀ x ∈ kidsIdx m ks, Sub g.nodes x.1 (flatT (some p) x.1 x.2.2)) :
    ((kidsIdx m ks).flatMap (stepW w (some (m + T.sizeL k1)) acc)).map (fun iv => (g.name iv.1, iv.2))
        = walkDownL w k1 acc ++ walkDownL w k2 acc ∧
    ((kidsIdx m ks).flatMap (stepW w (some (m + T.sizeL k1)) acc)).map (·.1)
        = leafIdxL m k1 ++ leafIdxL (m + T.sizeL k1 + tc.size) k2 := by
  have hne1 : ∀ y ∈ kidsIdx m k1, y.1 ≠ m + T.sizeL k1 := by
    intro y hy; have := kidsIdx_range k1 m y hy
    have := size_pos y.2.2; omega
  have hne2 : ∀ y ∈ kidsIdx (m + T.sizeL k1 + tc.size) k2, y.1 ≠ m + T.sizeL k1 := by
    intro y hy; have := kidsIdx_range k2 _ y hy
    have := size_pos tc; omega
  have hflat : (kidsIdx m ks).flatMap (stepW w (some (m + T.sizeL k1)) acc) =
      (kidsIdx m k1 ++ kidsIdx (m + T.sizeL k1 + tc.size) k2).flatMap fun x => wdT w x.1 x.2.2 (acc + w x.2.1) := by
    rw [hkidx, List.flatMap_append, List.flatMap_cons, List.flatMap_append,
      stepW_noskip _ _ acc _ hne1, stepW_noskip _ _ acc _ hne2]
    simp [stepW]
  have hsub12 : ∀ x ∈ kidsIdx m k1 ++ kidsIdx (m + T.sizeL k1 + tc.size) k2, x ∈ kidsIdx m ks := by
    intro x hx'; rw [hkidx]
    rcases List.mem_append.1 hx' with h' | h'
    · exact List.mem_append.2 (Or.inl h')
    · exact List.mem_append.2 (Or.inr (List.mem_cons_of_mem _ h'))
  have hk12 : (kidsIdx m k1 ++ kidsIdx (m + T.sizeL k1 + tc.size) k2).map (·.2) = k1 ++ k2 := by
    rw [List.map_append, kidsIdx_snd, kidsIdx_snd]
  constructor
  · rw [hflat, wd_names_list g w p acc _ (fun x hx' => hnodes x (hsub12 x hx')), hk12, walkDownL_append]
  · rw [hflat, wd_idx_list, List.flatMap_append, leafIdxL_kidsIdx, leafIdxL_kidsIdx]

theorem tipNames_node (d : NodeD) (pp : Nat) (ks : Kids) :
    (T.node d pp ks).tipNames = (if ks.length == 1 then [d.name] else []) ++ leavesL ks := rfl

/-- The walk started at any tip of the tree writes exactly the entries `row` lists (as a
    multiset of (name, length) pairs), once each, and nothing at the start tip. -/
theorem walk_root (metric : Int) (t : T) (ids : Array Nat) (hu : t.tipNames.Nodup) (ia : Nat)
    (hia : ia ∈ (G.ofT t).tips) :
    ∃ ws : List (Nat × Rat),
      (ws.map fun iv => ((G.ofT t).name iv.1, iv.2)).Perm (row (weight metric) t ((G.ofT t).name ia)) ∧
      (ws.map (·.1)).Perm ((G.ofT t).tips.erase ia) ∧
      ∀ (F : Nat) (L : Array Rat), t.size ≤ F → (∀ i ∈ (G.ofT t).tips, ids.getD i 0 < L.size) →
        pathLengths (G.ofT t) ids metric F ia none L 0 = some (applyW ids L ws) := by
  obtain ⟨d, pp, ks⟩ := t
  generalize hg : G.ofT (.node d pp ks) = g at *
  have hs : Sub g.nodes 0 (flatT none 0 (.node d pp ks)) := by rw [← hg]; exact Sub.whole _
  have he : Sub g.edges 0 (gedgesT 0 (.node d pp ks)) := by rw [← hg]; exact Sub.whole _
  have htips : g.tips = (if ks.length == 1 then [0] else []) ++ leafIdxL 1 ks := by
    rw [← hg, tips_ofT]; rfl
  rw [flatT_node] at hs
  rw [gedgesT_node] at he
  have hnode := hs.head
  have hok := kids_ok g ks (0 + 1) 0 (by omega) hs.tail (by simpa using he)
  have hname0 : g.name 0 = d.name := by simp [G.name, hnode]
  rw [tipNames_node] at hu
  have hndk : (leavesL ks).Nodup := (List.nodup_append.1 hu).2.1
  let w := weight metric
  let l := kidsIdx (0 + 1) ks
  have hpairs : (kidIdx (0 + 1) ks).map (fun c => (c, c - 1)) = l.map fun x => (x.1, x.1 - 1) := by
    rw [kidIdx_eq, List.map_map]; rfl
  have hlen : ((kidIdx (0 + 1) ks).map fun c => (c, c - 1)).length = ks.length := by
    simp [kidIdx_length]
  rw [htips] at hia ⊢
  rcases List.mem_append.1 hia with h0 | hin
  · -- the walk starts at the root, which is a tip
    have hk1 : (ks.length == 1) = true := by
      by_cases h : (ks.length == 1) = true
      · exact h
      · simp [h] at h0
    simp only [hk1, if_true, List.mem_singleton] at h0
    subst h0
    refine ⟨l.flatMap fun x => wdT w x.1 x.2.2 (0 + w x.2.1), ?_, ?_, ?_⟩
    · rw [wd_names_list g w 0 0 l (fun x hx => (hok x hx).nodes), kidsIdx_snd, hname0]
      have hn : (T.node d pp ks).name = d.name := rfl
      simp only [row, T.kids_node, hk1, hn, beq_self_eq_true, Bool.and_self, if_true]
      exact List.Perm.refl _
    · rw [wd_idx_list, leafIdxL_kidsIdx]
      simp [hk1]
    · intro F L hF hidr
      rw [size_node] at hF
      obtain ⟨F', rfl⟩ : ∃ F', F = F' + 1 := ⟨F - 1, by omega⟩
      rw [pathLengths_succ g ids metric F' 0 none L 0 _ hnode]
      simp only [Option.isSome_none, Bool.and_false, Bool.false_eq_true, if_false, hpairs]
      rw [loop_kids g ids metric F' 0 (0 + 1) ks none 0 l L hok
        (fun x hx _ => by have := (hok x hx).size; omega)
        (fun i hi => hidr i (by simp [hi])), stepW_none]
  · -- the walk starts at a tip below the root
    obtain ⟨k1, e, tc, k2, hsplit, hic, hkidx, hlidx⟩ := split_at_leaf ks (0 + 1) ia hin
    let c := 0 + 1 + T.sizeL k1
    have hc : c = 0 + 1 + T.sizeL k1 := rfl
    rw [← hc] at hic hkidx hlidx
    have hxmem : (c, (e, tc)) ∈ kidsIdx (0 + 1) ks := by rw [hkidx]; simp
    have hx := hok _ hxmem
    have hleaves : leavesL ks = leavesL k1 ++ (tc.leaves ++ leavesL k2) := by
      rw [hsplit, leavesL_append, leavesL_cons]
    have hndc : tc.leaves.Nodup := by
      rw [hleaves] at hndk
      exact (List.nodup_append.1 (List.nodup_append.1 hndk).2.1).1
    have hatc : g.name ia ∈ tc.leaves := by
      rw [← leafIdxT_names g tc c (some 0) hx.nodes]
      exact List.mem_map_of_mem hic
    have hak1 : g.name ia ∉ leavesL k1 := by
      rw [hleaves] at hndk
      intro h
      exact (List.nodup_append.1 hndk).2.2 _ h _ (by simp [hatc]) rfl
    have hak : g.name ia ∈ leavesL ks := by rw [hleaves]; simp [hatc]
    obtain ⟨h, ws1, ws2, dd, res, hh, hwu, hperm, hidx, hrun⟩ :=
      walk_up g ids metric tc c 0 (g.name ia) ia hx.gt hx.nodes hx.edges hndc hic rfl
    have hsz : tc.size ≤ T.sizeL ks := hx.size
    have hedge : g.edges[c - 1]? = some ⟨0, c, e⟩ := hx.edge
    let acc' := dd + w e
    have hwul : walkUpL w (g.name ia) ks = some (acc', walkDownL w k1 acc' ++ (res ++ walkDownL w k2 acc')) := by
      rw [hsplit]; exact walkUpL_split w (g.name ia) e tc k2 dd res hwu k1 hak1
    obtain ⟨hSn, hSi⟩ := sibs_spec g w 0 (0 + 1) ks k1 k2 e tc acc' hkidx (fun x hx' => (hok x hx').nodes)
    rw [← hc] at hSn hSi
    let S := l.flatMap (stepW w (some c) acc')
    have hSn : S.map (fun iv => (g.name iv.1, iv.2)) = walkDownL w k1 acc' ++ walkDownL w k2 acc' := hSn
    have hSi : S.map (·.1) = leafIdxL (0 + 1) k1 ++ leafIdxL (c + tc.size) k2 := hSi
    have hia1 : ia ∉ leafIdxL (0 + 1) k1 := by
      intro h'; have := leafIdxL_range k1 (0 + 1) ia h'
      have := leafIdxT_range tc c ia hic; omega
    have herase : (leafIdxL (0 + 1) ks).erase ia =
        leafIdxL (0 + 1) k1 ++ ((leafIdxT c tc).erase ia ++ leafIdxL (c + tc.size) k2) := by
      rw [hlidx, List.append_assoc, List.erase_append_right _ hia1, List.erase_append_left _ hic]
    have hia0 : ia ≠ 0 := by have := leafIdxT_range tc c ia hic; omega
    have hsizes : T.sizeL ks = T.sizeL k1 + (tc.size + T.sizeL k2) := by
      rw [hsplit, sizeL_append, sizeL_cons]
    by_cases hk1 : (ks.length == 1) = true
    · -- the root is a tip: it is written when the walk arrives
      have hrootne : d.name ≠ g.name ia := by
        intro h'
        simp only [hk1, if_true] at hu
        exact (List.nodup_append.1 hu).2.2 d.name (by simp) _ hak h'
      refine ⟨ws1 ++ (S ++ [(0, acc')]) ++ ws2, ?_, ?_, ?_⟩
      · have hrow : row w (.node d pp ks) (g.name ia) =
            walkDownL w k1 acc' ++ (res ++ walkDownL w k2 acc') ++ [(d.name, acc')] := by
          have hn : (T.node d pp ks).name = d.name := rfl
          have h1 : (d.name == g.name ia) = false := by simpa using hrootne
          simp only [row, T.kids_node, hk1, hn, h1, Bool.and_false, Bool.false_eq_true, if_false, hwul, if_true]
        rw [hrow, List.perm_iff_count]
        intro z
        have h1 := List.perm_iff_count.1 hperm z
        have h2 := congrArg (List.count z) hSn
        simp only [List.map_append, List.count_append, List.map_cons, List.map_nil, hname0] at h1 h2 ⊢
        omega
      · simp only [hk1, if_true]
        have : ([0] ++ leafIdxL (0 + 1) ks).erase ia = 0 :: (leafIdxL (0 + 1) ks).erase ia := by
          simp [List.erase_cons, Ne.symm hia0]
        show (List.map (·.1) (ws1 ++ (S ++ [(0, acc')]) ++ ws2)).Perm (([0] ++ leafIdxL (0 + 1) ks).erase ia)
        rw [this, herase, List.perm_iff_count]
        intro z
        have h1 := List.perm_iff_count.1 hidx z
        have h2 := congrArg (List.count z) hSi
        simp only [List.map_append, List.count_append, List.map_cons, List.map_nil, List.count_cons, List.count_nil] at h1 h2 ⊢
        omega
      · intro F L hF hidr
        rw [size_node] at hF
        have hidr' : ∀ i ∈ leafIdxL (0 + 1) ks, ids.getD i 0 < L.size := fun i hi => hidr i (by simp [hi])
        rw [hrun F L (by omega) (fun i hi => hidr' i (hx.leaves i hi))]
        obtain ⟨f', hf'⟩ : ∃ f', F - h - 1 = f' + 1 := ⟨F - h - 2, by omega⟩
        have hL : callUp g ids metric (F - h - 1) c 0 (applyW ids L ws1) dd =
            pathLengths g ids metric (f' + 1) 0 (some c) (applyW ids L ws1) acc' := by
          unfold callUp; rw [hedge, hf']
        rw [hL, pathLengths_succ g ids metric f' 0 (some c) _ acc' _ hnode]
        have hS : S = [] := by
          have hk : k1 = [] ∧ k2 = [] := by
            have := congrArg List.length hsplit
            simp only [List.length_append, List.length_cons] at this
            have hl1 : ks.length = 1 := by simpa using hk1
            constructor <;> apply List.eq_nil_of_length_eq_zero <;> omega
          have := hSi
          rw [hk.1, hk.2] at this
          simp only [leafIdxL, List.append_nil, List.map_eq_nil_iff] at this
          exact this
        have h0r : ids.getD 0 0 < (applyW ids L ws1).size := by
          rw [applyW_size]; exact hidr 0 (by simp [hk1])
        simp only [hlen, hk1, Option.isSome_some, Bool.and_self, if_true, h0r, Option.bind_some, hS, List.nil_append]
        rw [List.append_assoc, applyW_append, applyW_append]
        rfl
    · -- the root is an inner node: the loop over its other children
      have hk1' : (ks.length == 1) = false := by simpa using hk1
      refine ⟨ws1 ++ S ++ ws2, ?_, ?_, ?_⟩
      · have hrow : row w (.node d pp ks) (g.name ia) = walkDownL w k1 acc' ++ (res ++ walkDownL w k2 acc') := by
          simp [row, hwul, hk1']
        rw [hrow, List.perm_iff_count]
        intro z
        have h1 := List.perm_iff_count.1 hperm z
        have h2 := congrArg (List.count z) hSn
        simp only [List.map_append, List.count_append] at h1 h2 ⊢
        omega
      · simp only [hk1', Bool.false_eq_true, if_false, List.nil_append]
        rw [herase, List.perm_iff_count]
        intro z
        have h1 := List.perm_iff_count.1 hidx z
        have h2 := congrArg (List.count z) hSi
        simp only [List.map_append, List.count_append] at h1 h2 ⊢
        omega
      · intro F L hF hidr
        rw [size_node] at hF
        have hidr' : ∀ i ∈ leafIdxL (0 + 1) ks, ids.getD i 0 < L.size := fun i hi => hidr i (by simp [hi])
        rw [hrun F L (by omega) (fun i hi => hidr' i (hx.leaves i hi))]
        obtain ⟨f', hf'⟩ : ∃ f', F - h - 1 = f' + 1 := ⟨F - h - 2, by omega⟩
        have hL : callUp g ids metric (F - h - 1) c 0 (applyW ids L ws1) dd =
            pathLengths g ids metric (f' + 1) 0 (some c) (applyW ids L ws1) acc' := by
          unfold callUp; rw [hedge, hf']
        rw [hL, pathLengths_succ g ids metric f' 0 (some c) _ acc' _ hnode]
        have hfuel : ∀ x ∈ l, some x.1 ≠ some c → x.2.2.size ≤ f' := by
          intro x hxl hxc
          have hxc' : x.1 ≠ c := fun h' => hxc (by rw [h'])
          have hxl' : x ∈ kidsIdx (0 + 1) k1 ++ (c, (e, tc)) :: kidsIdx (c + tc.size) k2 := by rw [← hkidx]; exact hxl
          rcases List.mem_append.1 hxl' with h' | h'
          · have := kidsIdx_range k1 (0 + 1) x h'; omega
          · rcases List.mem_cons.1 h' with h'' | h''
            · exact absurd (by rw [h'']) hxc'
            · have := kidsIdx_range k2 (c + tc.size) x h''; omega
        simp only [hlen, hk1', Bool.false_and, Bool.false_eq_true, if_false]
        rw [hpairs, loop_kids g ids metric f' 0 (0 + 1) ks (some c) acc' l _ hok hfuel
          (fun i hi => by rw [applyW_size]; exact hidr' i hi)]
        simp only [Option.bind_some]
        rw [applyW_append, applyW_append]

end Gotree.C14
