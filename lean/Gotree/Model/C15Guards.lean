/-
  C15 — the constants the hand-written model assumes (round 7), to be compared with the table regenerated
  from the source (`Gotree.Gen.C15.sentinels`, `Gotree.Gen.C15.guards`, harness/c15/extract_guards.go).
  Each row names the model definition that relies on it.  Core Lean only.
-/
import Gotree.Model.C15

namespace Gotree.C15
open Gotree

/-- `NIL_LENGTH = NIL_SUPPORT = NIL_PVALUE = -1` (`Gotree.NIL`, `EdgeD.blank`), `NIL_ID = -1` (`zeroEdge`, `EdgeD.blank`) -/
def expectedSentinels : List (String × String) :=
  [("NIL_LENGTH", "-1"), ("NIL_SUPPORT", "-1"), ("NIL_PVALUE", "-1"), ("NIL_ID", "-1")]

def expectedGuards : List (String × String × String × String) := [
  -- `T.rooted`: the root has exactly two neighbours (hypothesis of `merge`)
  ("Rooted", "t.root.Nneigh()", "==", "2"),
  -- a node with one neighbour is a tip: `t.kids.length == 1` for a root (`graft`, `insertOne`, `nodesNamed`), `isLeaf` below
  ("Tip", "len(n.neigh)", "==", "1"),
  -- `merge`: "tip index not initialized" exactly when an index is empty (flags i1, i2)
  ("Merge", "len(t.tipIndex)", "==", "0"),
  ("Merge", "len(t2.tipIndex)", "==", "0"),
  -- `insertGroups`: a group without new names inserts nothing (insertNews on [])
  ("InsertIdenticalTips", "len(newtips)", ">", "0"),
  -- `zeroEdge`: every length set by InsertIdenticalTip is 0
  ("InsertIdenticalTip", "SetLength", "arg", "0"),
  -- `insKids`: `e.len == 0 && !lone` — length exactly 0 and a parent with more than one neighbour
  ("InsertIdenticalTip", "parentedge.Length()", "==", "0"),
  ("InsertIdenticalTip", "parentnode.Nneigh()", ">", "1"),
  -- `fuseLenGo`: `max 0 child + max 0 parent` as soon as one of the two is not NIL
  ("removeSingleNodesRecur", "Max", "arg", "0"),
  ("removeSingleNodesRecur", "child.br[idx].Length()", "!=", "-1"),
  -- `rsKids`: a node with exactly one child of its own (two neighbours) is removed
  ("removeSingleNodesRecur", "len(current.Neigh())", "==", "2"),
  ("removeSingleNodesRecur", "length", "!=", "-1")
]

/-- what the model itself uses, as the same strings: ties `expectedSentinels` to `NIL`, `EdgeD.blank`, `zeroEdge` -/
def modelSentinels : List (String × String) :=
  let s (r : Rat) : String := if r == -1 then "-1" else "other"
  [("NIL_LENGTH", s EdgeD.blank.len), ("NIL_SUPPORT", s EdgeD.blank.sup), ("NIL_PVALUE", s EdgeD.blank.pval),
   ("NIL_ID", if EdgeD.blank.id == -1 && zeroEdge.id == -1 then "-1" else "other")]

end Gotree.C15
