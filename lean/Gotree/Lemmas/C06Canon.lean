/-
  C06 — bridge from the membership form of clause 2 (`splitsInduced`) to the Spec
  functions the oracle evaluates (`T.usplitSet`, `restrictSplits`).
  Core Lean only; uses the shared lemmas of `Gotree.Lemmas.C05Splits`.
-/
import Gotree.Lemmas.C06Root
import Gotree.Lemmas.C05Splits

namespace Gotree.C06
open Gotree

/-! ## membership in `usplitSet` and `restrictSplits` -/

theorem mem_ufoldU_side : ∀ (l acc : List USplit) (a : List String),
    a ∈ (ufoldU l acc).map (·.side) ↔ a ∈ acc.map (·.side) ∨ ∃ u ∈ l, u.side = a
  | [], acc, a => by simp [ufoldU_nil]
  | s :: l, acc, a => by
    rw [ufoldU_cons, mem_ufoldU_side l (insertU s acc) a, mem_insertU_side]
    constructor
    · rintro ((h | h) | ⟨u, hu, e⟩)
      · exact Or.inl h
      · exact Or.inr ⟨s, by simp, h.symm⟩
      · exact Or.inr ⟨u, by simp [hu], e⟩
    · rintro (h | ⟨u, hu, e⟩)
      · exact Or.inl (Or.inl h)
      · rcases List.mem_cons.1 hu with rfl | hu
        · exact Or.inl (Or.inr e.symm)
        · exact Or.inr ⟨u, hu, e⟩

theorem mem_usplitsAll_side (t : T) (a : List String) :
    a ∈ t.usplitsAll.map (·.side) ↔ ∃ s ∈ t.splits, canonSide t.tipNames s.below = a := by
  rw [T.usplitsAll_eq, ((List.mergeSort_perm _ _).map _).mem_iff, mem_ufoldU_side]
  simp only [List.map_nil, List.not_mem_nil, false_or, List.mem_map]
  constructor
  · rintro ⟨u, ⟨s, hs, rfl⟩, rfl⟩; exact ⟨s, hs, rfl⟩
  · rintro ⟨s, hs, rfl⟩; exact ⟨_, ⟨s, hs, rfl⟩, rfl⟩

theorem mem_usplitSet (t : T) (a : List String) :
    a ∈ t.usplitSet ↔ (∃ s ∈ t.splits, canonSide t.tipNames s.below = a) ∧ 2 ≤ lightSize t.tipNames a := by
  rw [← mem_usplitsAll_side]
  unfold T.usplitSet T.usplits
  simp only [List.mem_map, List.mem_filter, decide_eq_true_eq]
  constructor
  · rintro ⟨u, ⟨hu, hl⟩, rfl⟩; exact ⟨⟨u, hu, rfl⟩, hl⟩
  · rintro ⟨⟨u, hu, rfl⟩, hl⟩; exact ⟨u, ⟨hu, hl⟩, rfl⟩

theorem mem_restrictSplits (all keep : List String) (sides : List (List String)) (a : List String) :
    a ∈ restrictSplits all keep sides ↔
      (∃ s0 ∈ sides, canonSide (all.filter keep.contains) (s0.filter (all.filter keep.contains).contains) = a) ∧
      2 ≤ lightSize (all.filter keep.contains) a := by
  unfold restrictSplits
  simp only [List.mem_mergeSort, List.mem_eraseDups, List.mem_filter, List.mem_map, decide_eq_true_eq]

/-! ## canonical sides, light sizes and `sameSplit` -/

theorem canonSide_restr (K A : List String) : canonSide K (A.filter K.contains) = canonSide K A := by
  have : (A.filter K.contains).filter K.contains = A.filter K.contains := by
    rw [List.filter_filter]; apply List.filter_congr; intro x _; simp
  unfold canonSide
  rw [this]

theorem perm_of_nodup_mem {X Y : List String} (hX : X.Nodup) (hY : Y.Nodup) (h : ∀ x, x ∈ X ↔ x ∈ Y) : X.Perm Y :=
  (List.perm_ext_iff_of_nodup hX hY).2 h

/-- the restrictions to `K` of two complementary sides list `K` -/
theorem compl_perm {K A B : List String} (hK : K.Nodup) (hA : A.Nodup) (hB : B.Nodup)
    (h : ∀ a ∈ K, (a ∈ A ↔ a ∉ B)) : (A.filter K.contains ++ B.filter K.contains).Perm K := by
  apply perm_of_nodup_mem _ hK
  · intro x
    simp only [List.mem_append, List.mem_filter, List.contains_eq_mem, decide_eq_true_eq]
    constructor
    · rintro (⟨_, h2⟩ | ⟨_, h2⟩) <;> exact h2
    · intro hx
      by_cases hb : x ∈ B
      · exact Or.inr ⟨hb, hx⟩
      · exact Or.inl ⟨(h x hx).2 hb, hx⟩
  · rw [List.nodup_append]
    refine ⟨hA.filter _, hB.filter _, ?_⟩
    intro x hx y hy hxy
    subst hxy
    simp only [List.mem_filter, List.contains_eq_mem, decide_eq_true_eq] at hx hy
    exact (h x hx.2).1 hx.1 hy.1

theorem canonSide_of_sameSplit {K A B : List String} (hK : K.Nodup) (hA : A.Nodup) (hB : B.Nodup)
    (h : sameSplit K A B) : canonSide K A = canonSide K B := by
  rw [← canonSide_restr K A, ← canonSide_restr K B]
  rcases h with h | h
  · apply canonSide_perm_side
    apply perm_of_nodup_mem (hA.filter _) (hB.filter _)
    intro x
    simp only [List.mem_filter, List.contains_eq_mem, decide_eq_true_eq]
    constructor
    · rintro ⟨h1, h2⟩; exact ⟨(h x h2).1 h1, h2⟩
    · rintro ⟨h1, h2⟩; exact ⟨(h x h2).2 h1, h2⟩
  · exact canonSide_compl hK (compl_perm hK hA hB h)

/-- the canonical side is a side of the same split, and has no repetition -/
theorem canonSide_sameSplit {K A : List String} (hK : K.Nodup) (hA : A.Nodup) :
    sameSplit K (canonSide K A) A ∧ (canonSide K A).Nodup := by
  have hs : ∀ x, x ∈ sortS (A.filter K.contains) ↔ x ∈ A ∧ x ∈ K := by
    intro x; simp [mem_sortS]
  have hsn : (sortS (A.filter K.contains)).Nodup := (sortS_perm _).nodup_iff.2 (hA.filter _)
  unfold canonSide
  cases minS K with
  | none => exact ⟨Or.inl fun a ha => by simp only [hs]; exact ⟨fun h => h.1, fun h => ⟨h, ha⟩⟩, hsn⟩
  | some m =>
    simp only
    split
    · refine ⟨Or.inr fun a ha => ?_, (sortS_perm _).nodup_iff.2 (hK.filter _)⟩
      simp only [mem_sortS, complS, List.mem_filter, Bool.not_eq_true', List.contains_eq_mem,
        decide_eq_false_iff_not, hs]
      constructor
      · rintro ⟨_, h2⟩ h3; exact h2 ⟨h3, ha⟩
      · intro h; exact ⟨ha, fun h' => h h'.1⟩
    · exact ⟨Or.inl fun a ha => by simp only [hs]; exact ⟨fun h => h.1, fun h => ⟨h, ha⟩⟩, hsn⟩

theorem count_swap {K A : List String} (hK : K.Nodup) (hA : A.Nodup) :
    (A.filter K.contains).length = (K.filter A.contains).length := by
  apply List.Perm.length_eq
  apply perm_of_nodup_mem (hA.filter _) (hK.filter _)
  intro x; simp [and_comm]

theorem lightSize_of_sameSplit {K A B : List String} (hK : K.Nodup) (hA : A.Nodup) (hB : B.Nodup)
    (h : sameSplit K A B) : lightSize K A = lightSize K B := by
  unfold lightSize
  rcases h with h | h
  · have : (A.filter K.contains).Perm (B.filter K.contains) := by
      apply perm_of_nodup_mem (hA.filter _) (hB.filter _)
      intro x
      simp only [List.mem_filter, List.contains_eq_mem, decide_eq_true_eq]
      constructor
      · rintro ⟨h1, h2⟩; exact ⟨(h x h2).1 h1, h2⟩
      · rintro ⟨h1, h2⟩; exact ⟨(h x h2).2 h1, h2⟩
    simp only [this.length_eq]
  · have := (compl_perm hK hA hB h).length_eq
    simp only [List.length_append] at this
    simp only
    omega

theorem lightSize_canonSide {K A : List String} (hK : K.Nodup) (hA : A.Nodup) :
    lightSize K (canonSide K A) = lightSize K A :=
  lightSize_of_sameSplit hK (canonSide_sameSplit hK hA).2 hA (canonSide_sameSplit hK hA).1

theorem light_witness {K A : List String} (hK : K.Nodup) (hA : A.Nodup) (h : 2 ≤ lightSize K A) :
    (∃ x ∈ K, x ∈ A) ∧ (∃ y ∈ K, y ∉ A) := by
  unfold lightSize at h
  simp only at h
  have h1 : 2 ≤ (A.filter K.contains).length := by omega
  have h2 : 2 ≤ K.length - (A.filter K.contains).length := by omega
  constructor
  · cases hf : A.filter K.contains with
    | nil => rw [hf] at h1; simp at h1
    | cons x r =>
      have : x ∈ A.filter K.contains := by rw [hf]; simp
      simp only [List.mem_filter, List.contains_eq_mem, decide_eq_true_eq] at this
      exact ⟨x, this.2, this.1⟩
  · have hc := filter_length_compl K A.contains
    rw [← count_swap hK hA] at hc
    cases hf : K.filter (fun n => !A.contains n) with
    | nil => rw [hf] at hc; simp at hc; omega
    | cons y r =>
      have : y ∈ K.filter (fun n => !A.contains n) := by rw [hf]; simp
      simp only [List.mem_filter, Bool.not_eq_true', List.contains_eq_mem, decide_eq_false_iff_not] at this
      exact ⟨y, this.1, this.2⟩

theorem lightSize_mono {K T A : List String} (hsub : K.Sublist T) (hT : T.Nodup) (hA : A.Nodup) :
    lightSize K A ≤ lightSize T A := by
  have hK : K.Nodup := hsub.nodup hT
  unfold lightSize
  simp only
  have e1 := count_swap hK hA
  have e2 := count_swap hT hA
  have c1 := filter_length_compl K A.contains
  have c2 := filter_length_compl T A.contains
  have l1 : (K.filter A.contains).length ≤ (T.filter A.contains).length := (hsub.filter _).length_le
  have l2 : (K.filter fun n => !A.contains n).length ≤ (T.filter fun n => !A.contains n).length :=
    (hsub.filter _).length_le
  omega

/-! ## every `below` of a tree with unique tips has no repetition -/

mutual
theorem below_nodup : ∀ (t : T), t.leaves.Nodup → ∀ s ∈ t.splitsBelow, s.below.Nodup
  | .node _ _ [], _ => by simp [T.splitsBelow, splitsL]
  | .node _ _ (k :: ks), h => by
    simpa [T.splitsBelow] using below_nodupL (k :: ks) (by simpa [T.leaves] using h)
theorem below_nodupL : ∀ (k : Kids), (leavesL k).Nodup → ∀ s ∈ splitsL k, s.below.Nodup
  | [], _ => by simp [splitsL]
  | (e, t) :: r, h => by
    intro s hs
    simp only [leavesL, List.nodup_append] at h
    simp only [splitsL, List.mem_cons, List.mem_append] at hs
    rcases hs with rfl | hs | hs
    · exact h.1
    · exact below_nodup t h.1 s hs
    · exact below_nodupL r h.2.1 s hs
end

theorem splits_below_nodup (t : T) (h : t.tipNames.Nodup) : ∀ s ∈ t.splits, s.below.Nodup := by
  apply below_nodupL
  unfold T.tipNames at h
  exact (List.nodup_append.1 h).2.1

/-! ## the bridge -/

/-- From the membership form to the Spec functions of the oracle: the non-trivial
    split set of `t'` and the restriction of the non-trivial split set of `t` to the
    kept taxa have the same members (both are duplicate-free lists sorted by the same
    order; literal equality would need `toString` injective on sides). -/
theorem usplitSet_restrict (t t' : T) (p : String → Bool) (hT : t.tipNames.Nodup)
    (hperm : t'.tipNames.Perm (t.tipNames.filter p))
    (hind : splitsInduced (t.tipNames.filter p) t t') :
    ∀ a, a ∈ t'.usplitSet ↔ a ∈ restrictSplits t.tipNames (t.tipNames.filter p) t.usplitSet := by
  intro a
  have hK : (t.tipNames.filter p).Nodup := hT.filter _
  have hK' : t'.tipNames.Nodup := hperm.nodup_iff.2 hK
  have hsub : (t.tipNames.filter p).Sublist t.tipNames := List.filter_sublist
  have hsubm : ∀ x ∈ t.tipNames.filter p, x ∈ t.tipNames := fun x hx => (List.mem_filter.1 hx).1
  have hk : t.tipNames.filter (t.tipNames.filter p).contains = t.tipNames.filter p := by
    apply List.filter_congr
    intro x hx
    simp [hx]
  have key : ∀ s ∈ t.splits, canonSide (t.tipNames.filter p)
      ((canonSide t.tipNames s.below).filter (t.tipNames.filter p).contains) = canonSide (t.tipNames.filter p) s.below := by
    intro s hs
    have hsn := splits_below_nodup t hT s hs
    rw [canonSide_restr]
    exact canonSide_of_sameSplit hK (canonSide_sameSplit hT hsn).2 hsn ((canonSide_sameSplit hT hsn).1.mono hsubm)
  rw [mem_usplitSet, mem_restrictSplits, hk]
  constructor
  · rintro ⟨⟨s', hs', rfl⟩, hl⟩
    obtain ⟨s, hs, e⟩ := hind.1 s' hs'
    have hsn := splits_below_nodup t hT s hs
    have hsn' := splits_below_nodup t' hK' s' hs'
    rw [canonSide_perm_all hperm] at hl ⊢
    rw [lightSize_perm_all hperm] at hl
    have ea := canonSide_of_sameSplit hK hsn' hsn e
    refine ⟨⟨canonSide t.tipNames s.below, ?_, ?_⟩, hl⟩
    · rw [mem_usplitSet]
      refine ⟨⟨s, hs, rfl⟩, ?_⟩
      rw [lightSize_canonSide hT hsn]
      refine Nat.le_trans ?_ (lightSize_mono hsub hT hsn)
      rw [← lightSize_canonSide hK hsn, ← ea]; exact hl
    · rw [key s hs, ea]
  · rintro ⟨⟨s0, hs0, rfl⟩, hl⟩
    obtain ⟨⟨s, hs, rfl⟩, _⟩ := (mem_usplitSet t s0).1 hs0
    have hsn := splits_below_nodup t hT s hs
    rw [key s hs] at hl ⊢
    rw [lightSize_canonSide hK hsn] at hl
    obtain ⟨⟨x, hx, hxm⟩, ⟨y, hy, hym⟩⟩ := light_witness hK hsn hl
    obtain ⟨s', hs', e⟩ := hind.2 s hs ⟨x, hx, hxm⟩ ⟨y, hy, hym⟩
    have hsn' := splits_below_nodup t' hK' s' hs'
    have ea := canonSide_of_sameSplit hK hsn' hsn e
    refine ⟨⟨s', hs', ?_⟩, ?_⟩
    · rw [canonSide_perm_all hperm, ea]
    · rw [lightSize_perm_all hperm, lightSize_canonSide hK hsn]; exact hl

/-! ## an unrooted tree stays unrooted -/

theorem removeTip_unrooted (x : String) (t : T) (hns : t.noSingle = true) (h3 : 3 ≤ t.kids.length)
    (t' : T) (h : removeTip x t = .ok t') : 3 ≤ t'.kids.length := by
  obtain ⟨d, p, kids⟩ := t
  simp only [T.kids_node, T.noSingle] at h3 hns
  have hn := rmKids_ns x kids hns
  have hr1 : (kids.length == 1) = false := by simp; omega
  simp only [removeTip, hr1, Bool.false_and, Bool.false_eq_true, if_false] at h
  cases hk : rmKids x kids with
  | notFound => rw [hk] at h; cases h; exact h3
  | set ks =>
    rw [hk] at h hn; cases h
    obtain ⟨b1, _⟩ := hn
    simp only [T.kids_node]; omega
  | spl i ks ei e c =>
    rw [hk] at h hn; cases h
    obtain ⟨b1, _⟩ := hn
    simp only [T.kids_node, List.length_append, List.length_cons, List.length_nil]; omega
  | del i ks =>
    rw [hk] at h hn
    obtain ⟨b1, _⟩ := hn
    match ks, h, b1 with
    | [], _, b1 => simp at b1; omega
    | [_], _, b1 => simp at b1; omega
    | [(e0, k0), (e1, k1)], h, _ =>
      by_cases h0 : k0.kids.length > 1
      · simp only [h0, if_true] at h; cases h
        simp only [T.kids_node, List.length_append, List.length_cons, List.length_nil]; omega
      · simp only [h0, if_false] at h
        by_cases h1 : k1.kids.length > 1
        · simp only [h1, if_true] at h; cases h
          simp only [T.kids_node, List.length_append, List.length_cons, List.length_nil]; omega
        · simp [h1] at h
    | a :: b :: c :: r, h, _ => cases h; simp

theorem removeLoop_unrooted : ∀ (todo : List (String × Bool)) (t : T), t.kids.length ≠ 1 → t.noSingle = true →
    t.tipNames.Nodup → (todo.map (·.1)).Nodup → (∀ n ∈ todo.map (·.1), n ∈ t.tipNames) →
    3 + (flagged todo).length ≤ t.tipNames.length → 3 ≤ t.kids.length →
    ∀ t', removeLoop todo t = .ok t' → 3 ≤ t'.kids.length
  | [], t, _, _, _, _, _, _, h3, t', h => by cases h; exact h3
  | (n, false) :: r, t, hroot, hns, hnd, htodo, hsub, hcount, h3, t', h => by
    have hn : n ∈ t.tipNames := hsub n (by simp)
    have hf : flagged ((n, false) :: r) = flagged r := by simp [flagged]
    rw [hf] at hcount
    simp only [List.map_cons, List.nodup_cons] at htodo
    have hl : removeLoop r t = .ok t' := by
      simp only [removeLoop] at h
      simpa [hn] using h
    exact removeLoop_unrooted r t hroot hns hnd htodo.2 (fun m hm => hsub m (by simp at hm ⊢; exact Or.inr hm)) hcount h3 t' hl
  | (n, true) :: r, t, hroot, hns, hnd, htodo, hsub, hcount, h3, t', h => by
    have hn : n ∈ t.tipNames := hsub n (by simp)
    have hf : flagged ((n, true) :: r) = n :: flagged r := by simp [flagged]
    rw [hf] at hcount
    simp only [List.map_cons, List.nodup_cons] at htodo
    have hc4 : 4 ≤ t.tipNames.length := by simp at hcount; omega
    obtain ⟨t1, h1, h2, h3', h4⟩ := removeTip_spec n t hroot hns hc4
    have hnd1 : t1.tipNames.Nodup := (h2.nodup_iff).2 (hnd.erase n)
    have hsub1 : ∀ m ∈ r.map (·.1), m ∈ t1.tipNames := by
      intro m hm
      have hmn : m ≠ n := by
        intro h; subst h; exact htodo.1 hm
      exact h2.mem_iff.2 ((List.mem_erase_of_ne hmn).2 (hsub m (by simp at hm ⊢; exact Or.inr hm)))
    have hc1 : 3 + (flagged r).length ≤ t1.tipNames.length := by
      rw [h2.length_eq, List.length_erase_of_mem hn]; simp at hcount; omega
    have hl : removeLoop r t1 = .ok t' := by
      simp only [removeLoop] at h
      simpa [hn, h1] using h
    exact removeLoop_unrooted r t1 h4 h3' hnd1 htodo.2 hsub1 hc1 (removeTip_unrooted n t hns h3 t1 h1) t' hl

end Gotree.C06
