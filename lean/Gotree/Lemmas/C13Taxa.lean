/-
  C13 — the taxa block of the document the Nexus writer emits names exactly the tips of all the trees.
-/
import Gotree.Lemmas.C13NexTr

namespace Gotree.C13
open Gotree
open Nex

theorem classify_ne_endcmd (s : String) : classify s ≠ .endcmd := by
  unfold classify
  split
  · simp
  · split <;> simp

theorem takeWhile_labels (ls : List String) (rest : List Tok) :
    (ls.map classify ++ .endcmd :: rest).takeWhile (· != .endcmd) = ls.map classify := by
  induction ls with
  | nil => simp
  | cons l r ih =>
    have : (classify l != Tok.endcmd) = true := by simpa using classify_ne_endcmd l
    simp [List.takeWhile_cons, this, ih]

theorem filterMap_labels (ls : List String) (h : ∀ l ∈ ls, keywordOf l = none) :
    (ls.map classify).filterMap Tok.name? = ls := by
  induction ls with
  | nil => rfl
  | cons l r ih =>
    simp [List.filterMap_cons, classify_name l (h l (by simp)), ih (fun x hx => h x (by simp [hx]))]

/-- reading the taxa block back from the tokens of a document -/
theorem taxa_docToks (nS : String) (labels : List String) (h : ∀ l ∈ labels, keywordOf l = none) (cs : List Cmd) :
    taxlabelsOf (.kw .nexus "#NEXUS" :: docToks nS labels cs) = some labels ∧
    ntaxOf (.kw .nexus "#NEXUS" :: docToks nS labels cs) = some (intVal nS) := by
  simp only [docToks, taxaToks, List.cons_append, List.nil_append, List.append_assoc, taxlabelsOf, ntaxOf]
  rw [takeWhile_labels, filterMap_labels labels h]
  simp

theorem taxa_docToksTr (nS : String) (labels : List String) (h : ∀ l ∈ labels, keywordOf l = none)
    (m : List (String × String)) (cs : List Cmd) :
    taxlabelsOf (.kw .nexus "#NEXUS" :: docToksTr nS labels m cs) = some labels ∧
    ntaxOf (.kw .nexus "#NEXUS" :: docToksTr nS labels m cs) = some (intVal nS) := by
  simp only [docToksTr, taxaToks, List.cons_append, List.nil_append, List.append_assoc, taxlabelsOf, ntaxOf]
  rw [takeWhile_labels, filterMap_labels labels h]
  simp

theorem sameSet_of_mem (a b : List String) (h : ∀ x, x ∈ a ↔ x ∈ b) : sameSet a b = true := by
  simp only [sameSet, Bool.and_eq_true, List.all_eq_true, List.contains_eq_mem, decide_eq_true_eq]
  exact ⟨fun x hx => (h x).1 hx, fun x hx => (h x).2 hx⟩

/-- the taxa block of `WriteNexus`'s document (with or without translate table, same or different tip
    sets): TAXLABELS lists every tip of every tree exactly once and NTAX is their number -/
theorem taxaBlock_written (C : NewickCodec) (L : NewickLaws C) (tr : Bool) (ts : List T)
    (hn : (stateLoop (enumFrom 0 ts) {}).map.length ≤ 9223372036854775807)
    (hlab : ∀ t ∈ ts, t.tipNames.all labelOK = true)
    (hw : ∀ it ∈ (if tr then writtenList (enumFrom 0 ts) {} else enumFrom 0 ts), L.wf it.2 = true)
    (hidx : tr = true → ∀ l ∈ (stateLoop (enumFrom 0 ts) {}).slice,
      labelOK (idxOf (stateLoop (enumFrom 0 ts) {}).map l) = true) :
    taxaBlockOK ts (writeNexus C tr (enumFrom 0 ts)) = true := by
  obtain ⟨hinv, hkeys⟩ := stateLoop_spec (enumFrom 0 ts) {} inv_empty
  have hk : ∀ x, x ∈ (stateLoop (enumFrom 0 ts) {}).slice ↔ x ∈ ts.flatMap T.tipNames := by
    intro x
    rw [hinv.perm.mem_iff, hkeys x, mem_enumFrom 0 ts x]
    simp [keys, List.mem_flatMap]
  have hl : ∀ l ∈ (stateLoop (enumFrom 0 ts) {}).slice, labelOK l = true := by
    intro l hl
    obtain ⟨t, ht, hx⟩ := List.mem_flatMap.1 ((hk l).1 hl)
    have := hlab t ht
    rw [List.all_eq_true] at this
    exact this l hx
  have hnd : hasDup (stateLoop (enumFrom 0 ts) {}).slice = false :=
    (hasDup_false_iff _).2 ((hinv.perm.nodup_iff).2 hinv.nodup)
  have hlen : (stateLoop (enumFrom 0 ts) {}).map.length = (stateLoop (enumFrom 0 ts) {}).slice.length := by
    have := hinv.perm.length_eq
    simp only [keys, List.length_map] at this
    exact this.symm
  have hkw : ∀ l ∈ (stateLoop (enumFrom 0 ts) {}).slice, keywordOf l = none :=
    fun l h => (labelOK_tokLabel l (hl l h)).2
  have hbody : ∀ it ∈ (if tr then writtenList (enumFrom 0 ts) {} else enumFrom 0 ts),
      ∃ body, C.write it.2 = body ++ [';'] ∧ ∀ c ∈ body, c ≠ '\r' := by
    intro it hit
    obtain ⟨body, hb, hc⟩ := L.write_shape it.2 (hw it hit)
    exact ⟨body, hb, fun c hc' => (hc c hc').2.1⟩
  unfold taxaBlockOK
  cases tr with
  | false =>
    simp only [Bool.false_eq_true, if_false] at hbody
    rw [writeNexus_plain_eq, scan_plainDoc C _ _ _ hn (fun l h => labelOK_tokLabel l (hl l h)) hbody]
    have := taxa_docToks (toString (stateLoop (enumFrom 0 ts) {}).map.length) (stateLoop (enumFrom 0 ts) {}).slice hkw
      ((enumFrom 0 ts).map (cmdOf C))
    simp only [this.1, this.2]
    simp only [intVal_natStr, hnd, hlen, sameSet_of_mem _ _ hk]
    simp
  | true =>
    simp only [if_true] at hbody
    rw [scan_doc_tr C _ hn (fun l h => ⟨labelOK_tokLabel l (hl l h), labelOK_tokLabel _ (hidx rfl l h)⟩) hbody]
    have := taxa_docToksTr (toString (stateLoop (enumFrom 0 ts) {}).map.length) (stateLoop (enumFrom 0 ts) {}).slice hkw
      (stateLoop (enumFrom 0 ts) {}).map ((writtenList (enumFrom 0 ts) {}).map (cmdOf C))
    simp only [this.1, this.2]
    simp only [intVal_natStr, hnd, hlen, sameSet_of_mem _ _ hk]
    simp

end Gotree.C13
