package c07

// Shrinking of failing requests.
//
//	VERIF_SHRINK=1 bin/check C07 --replay replays/C07-<seed>-<n>.txt
//
// re-executes every request of the file on the real code, asks the Lean driver for the verdict,
// and, when the verdict is not PASS, greedily looks for a smaller request (fewer nodes, simpler
// values, fewer flags, library instead of CLI, rounder threshold) that keeps the SAME verdict
// status (ORACLE stays ORACLE, TIE stays TIE).  The case line of the minimal request is what is
// emitted, so the replay that bin/check writes is the shrunk one; the minimal request is also
// printed on stderr.  The driver binary is found next to the harness binary (bin/check's private
// copies), or through VERIF_DRIVER, or in lean/.lake/build/bin.

import (
	"bufio"
	"bytes"
	"fmt"
	"os"
	"os/exec"
	"path/filepath"
	"sort"
	"strconv"
	"strings"

	"verifharness/core"
)

// number of INPUT fields (after the op name) of each operation
var nInputs = map[string]int{"C07.len": 4, "C07.sup": 3, "C07.depth": 5, "C07.depthraw": 5, "C07.remove": 4, "C07.resolve": 2, "C07.depthstale": 7, "C07.cmd": 5, "C07.seq": 2}

type request struct {
	op  string // without @cli
	cli bool
	f   []string // input fields; the dump is the last one
}

func parseRequest(line string) (request, bool) {
	f := strings.Split(line, "\t")
	r := request{op: f[0]}
	if strings.HasSuffix(r.op, "@cli") {
		r.cli = true
		r.op = strings.TrimSuffix(r.op, "@cli")
	}
	n, ok := nInputs[r.op]
	if !ok || len(f) < 1+n {
		return r, false
	}
	r.f = append([]string(nil), f[1:1+n]...)
	return r, true
}

func (r request) line() string {
	op := r.op
	if r.cli {
		op += "@cli"
	}
	return op + "\t" + strings.Join(r.f, "\t")
}

func (r request) tree() *core.N {
	if r.op == "C07.cmd" {
		// a pseudo tree holding the records, so that the node count covers all of them
		root := &core.N{}
		for _, x := range r.records() {
			if x == "ERR" {
				root.Kids = append(root.Kids, &core.N{Name: "ERR", E: core.NewE()})
			} else {
				k := mustDump(x)
				k.E = core.NewE()
				root.Kids = append(root.Kids, k)
			}
		}
		return root
	}
	return mustDump(r.f[len(r.f)-1])
}

func (r request) records() []string {
	var out []string
	for _, x := range strings.Split(strings.TrimSuffix(r.f[4], "|"), "|") {
		if x != "" {
			out = append(out, x)
		}
	}
	return out
}

// cmdVariants: fewer records, smaller trees inside a record, fewer flags, stdout instead of -o
func cmdVariants(r request) []request {
	var out []request
	recs := r.records()
	join := func(l []string) string { return strings.Join(l, "|") + "|" }
	for i := range recs {
		if len(recs) > 1 {
			rest := append(append([]string{}, recs[:i]...), recs[i+1:]...)
			out = append(out, r.with(4, join(rest)))
		}
	}
	for i, x := range recs {
		if x == "ERR" {
			continue
		}
		for _, m := range treeVariants(mustDump(x)) {
			l := append([]string{}, recs...)
			l[i] = m.Dump()
			out = append(out, r.with(4, join(l)))
		}
	}
	fl := parseFlagString(r.f[1])
	for i := range fl {
		rest := append(append([]kv{}, fl[:i]...), fl[i+1:]...)
		out = append(out, r.with(1, flagString(rest)))
	}
	if r.f[2] != "stdout" {
		out = append(out, r.with(2, "stdout"))
	}
	return out
}

func (r request) with(i int, v string) request {
	q := request{op: r.op, cli: r.cli, f: append([]string(nil), r.f...)}
	q.f[i] = v
	return q
}

func (r request) withTree(n *core.N) request { return r.with(len(r.f)-1, n.Dump()) }

func driverPath() string {
	if p := os.Getenv("VERIF_DRIVER"); p != "" {
		return p
	}
	var cands []string
	if exe, err := os.Executable(); err == nil {
		d := filepath.Dir(exe)
		cands = append(cands, filepath.Join(d, "gotree_model"), filepath.Join(d, "..", "lean", ".lake", "build", "bin", "gotree_model_C07"),
			filepath.Join(d, "..", "..", "lean", ".lake", "build", "bin", "gotree_model_C07"))
	}
	cands = append(cands, "/verif/lean/.lake/build/bin/gotree_model_C07", "/verif/lean/.lake/build/bin/gotree_model")
	for _, p := range cands {
		if _, err := os.Stat(p); err == nil {
			return p
		}
	}
	return ""
}

// execute runs the request on the real code and returns the case line(s).
func execute(c *core.Ctx, r request) (out string, ok bool) {
	var buf bytes.Buffer
	c2 := *c
	c2.W = bufio.NewWriter(&buf)
	if p, _ := core.Safe(func() { Replay(&c2, []string{r.line()}) }); p {
		return "", false // the harness itself refuses the request (tree cannot be built …)
	}
	c2.W.Flush()
	return strings.TrimRight(buf.String(), "\n"), buf.Len() > 0
}

// verdict asks the driver; returns the status word of the first verdict line.
func verdict(driver, caseLines string) string {
	cmd := exec.Command(driver)
	cmd.Stdin = strings.NewReader(caseLines + "\n")
	o, err := cmd.Output()
	if err != nil {
		return "BAD"
	}
	first := strings.SplitN(string(o), "\n", 2)[0]
	return strings.SplitN(first, "\t", 2)[0]
}

func countNodes(n *core.N) int { return n.NNodes() }

func complexity(r request) [3]int {
	n := r.tree()
	extra := 0
	var rec func(x *core.N)
	rec = func(x *core.N) {
		if x.PPos != 0 {
			extra++
		}
		extra += len(x.Comments)
		if x.E != nil {
			extra += len(x.E.Comments)
		}
		for _, k := range x.Kids {
			rec(k)
		}
	}
	rec(n)
	if r.cli {
		extra += 2
	}
	for _, v := range r.f[:len(r.f)-1] {
		if v == "1" && (r.op != "C07.resolve") {
			extra++ // a flag that is set (thresholds equal to 1 count too: harmless)
		}
	}
	return [3]int{countNodes(n), extra, len(r.line())}
}

func less(a, b [3]int) bool {
	for i := range a {
		if a[i] != b[i] {
			return a[i] < b[i]
		}
	}
	return false
}

// paths of all nodes, deepest first
func allPaths(n *core.N) [][]int {
	p := n.Paths()
	sort.SliceStable(p, func(i, j int) bool { return len(p[i]) > len(p[j]) })
	return p
}

func treeVariants(n *core.N) []*core.N {
	var out []*core.N
	for _, p := range allPaths(n) {
		if len(p) == 0 {
			continue
		}
		// 1. drop the node (with everything below it)
		{
			m := n.Clone()
			par := m.At(p[:len(p)-1])
			i := p[len(p)-1]
			par.Kids = append(par.Kids[:i:i], par.Kids[i+1:]...)
			if par.PPos > len(par.Kids) {
				par.PPos = len(par.Kids)
			}
			if len(par.Kids) == 0 && par.Name == "" {
				par.Name = "x" + strconv.Itoa(len(p))
			}
			out = append(out, m)
			// 1b. … and splice a parent left with a single child
			if len(par.Kids) == 1 && len(p) >= 2 {
				m2 := m.Clone()
				gp := m2.At(p[:len(p)-2])
				pp := gp.Kids[p[len(p)-2]]
				only := pp.Kids[0]
				only.E = pp.E
				gp.Kids[p[len(p)-2]] = only
				out = append(out, m2)
			}
		}
		// 2. contract the branch above an inner node (its children go to the parent, in place)
		x := n.At(p)
		if len(x.Kids) > 0 {
			m := n.Clone()
			par := m.At(p[:len(p)-1])
			i := p[len(p)-1]
			node := par.Kids[i]
			kids := append(append(append([]*core.N{}, par.Kids[:i]...), node.Kids...), par.Kids[i+1:]...)
			par.Kids = kids
			if par.PPos > len(par.Kids) {
				par.PPos = len(par.Kids)
			}
			out = append(out, m)
		}
	}
	// 3. a root with a single child: the child becomes the root
	if len(n.Kids) == 1 && len(n.Kids[0].Kids) > 0 {
		m := n.Clone().Kids[0]
		m.E = nil
		m.PPos = 0
		out = append(out, m)
	}
	// 4. simpler decorations, one node at a time
	for _, p := range n.Paths() {
		x := n.At(p)
		edit := func(f func(y *core.N)) {
			m := n.Clone()
			f(m.At(p))
			out = append(out, m)
		}
		if x.PPos != 0 {
			edit(func(y *core.N) { y.PPos = 0 })
		}
		if len(x.Comments) > 0 {
			edit(func(y *core.N) { y.Comments = nil })
		}
		if len(x.Kids) > 0 && x.Name != "" {
			edit(func(y *core.N) { y.Name = "" })
		}
		if x.E != nil {
			if len(x.E.Comments) > 0 {
				edit(func(y *core.N) { y.E.Comments = nil })
			}
			for _, v := range []float64{1, 0, -1} {
				if x.E.Len != v && len(core.Rat(x.E.Len)) > 1 {
					v := v
					edit(func(y *core.N) { y.E.Len = v })
				}
			}
			if x.E.Sup != -1 {
				edit(func(y *core.N) { y.E.Sup = -1 })
				if len(core.Rat(x.E.Sup)) > 1 {
					edit(func(y *core.N) { y.E.Sup = 1 })
					edit(func(y *core.N) { y.E.Sup = 0 })
				}
			}
			if x.E.Pval != -1 {
				edit(func(y *core.N) { y.E.Pval = -1 })
			}
		}
	}
	return out
}

func paramVariants(r request) []request {
	var out []request
	if r.cli {
		q := r
		q.cli = false
		out = append(out, q)
	}
	flagAt := map[string][]int{"C07.len": {1, 2}, "C07.sup": {1}, "C07.depth": {2, 3}, "C07.depthraw": {2, 3}, "C07.depthstale": {2, 3}, "C07.remove": {0, 1}}
	for _, i := range flagAt[r.op] {
		if r.f[i] == "1" {
			out = append(out, r.with(i, "0"))
		}
	}
	switch r.op {
	case "C07.len", "C07.sup":
		for _, v := range []string{"0", "1", "-1", "1/2", "2"} {
			if r.f[0] != v && len(v) <= len(r.f[0]) {
				out = append(out, r.with(0, v))
			}
		}
	case "C07.depth", "C07.depthraw", "C07.depthstale":
		mn, _ := strconv.Atoi(r.f[0])
		mx, _ := strconv.Atoi(r.f[1])
		if mx > mn {
			out = append(out, r.with(1, strconv.Itoa(mx-1)), r.with(0, strconv.Itoa(mn+1)))
		}
		if mn < 0 {
			out = append(out, r.with(0, "0"))
		}
		if r.op == "C07.depthstale" && r.f[4] != "0" {
			out = append(out, r.with(4, "0"))
		}
		if r.op == "C07.depthstale" && r.f[5] != "0" {
			out = append(out, r.with(5, "0"))
		}
	case "C07.remove":
		ids := strings.Split(strings.TrimSuffix(r.f[2], ","), ",")
		for i := range ids {
			if ids[i] == "" {
				continue
			}
			rest := append(append([]string{}, ids[:i]...), ids[i+1:]...)
			v := ""
			for _, s := range rest {
				v += s + ","
			}
			out = append(out, r.with(2, v))
		}
	case "C07.seq":
		steps := strings.Split(r.f[0], ";")
		for i := 0; i+1 < len(steps); i++ { // drop an earlier step
			rest := append(append([]string{}, steps[:i]...), steps[i+1:]...)
			out = append(out, r.with(0, strings.Join(rest, ";")))
		}
	case "C07.resolve":
		for _, v := range []string{"1", "2", "3", "4", "5"} {
			if len(v) < len(r.f[0]) {
				out = append(out, r.with(0, v))
			}
		}
	}
	return out
}

// Shrink returns a minimal request with the same verdict status as `line` (or the line itself).
func Shrink(c *core.Ctx, line string) string {
	r, ok := parseRequest(line)
	driver := driverPath()
	if !ok || driver == "" {
		return line
	}
	cl, ok := execute(c, r)
	if !ok {
		return line
	}
	want := verdict(driver, cl)
	if want == "PASS" || want == "BAD" {
		return r.line()
	}
	budget := 4000
	try := func(q request) bool {
		if budget <= 0 {
			return false
		}
		budget--
		if !less(complexity(q), complexity(r)) {
			return false
		}
		cl, ok := execute(c, q)
		return ok && verdict(driver, cl) == want
	}
	for progress := true; progress && budget > 0; {
		progress = false
		if r.op == "C07.cmd" {
			for _, q := range cmdVariants(r) {
				if try(q) {
					r, progress = q, true
					break
				}
			}
			continue
		}
		for _, m := range treeVariants(r.tree()) {
			q := r.withTree(m)
			if r.op == "C07.remove" {
				// keep only the ids that still exist
				have := map[string]bool{}
				var rec func(x *core.N)
				rec = func(x *core.N) {
					for _, k := range x.Kids {
						have[strconv.Itoa(k.E.Id)] = true
						rec(k)
					}
				}
				rec(m)
				v := ""
				for _, s := range strings.Split(strings.TrimSuffix(q.f[2], ","), ",") {
					if have[s] {
						v += s + ","
					}
				}
				q = q.with(2, v)
			}
			if try(q) {
				r, progress = q, true
				break
			}
		}
		if progress {
			continue
		}
		for _, q := range paramVariants(r) {
			if try(q) {
				r, progress = q, true
				break
			}
		}
	}
	fmt.Fprintf(os.Stderr, "C07 shrink: %s (%d nodes)\n  %s\n", want, countNodes(r.tree()), r.line())
	return r.line()
}
