package c06

// Histories on ONE in-memory tree: the tip index is built (ReinitIndexes, or left by an earlier
// RemoveTips), then the tree is edited by operations that do not maintain the index (Node.SetName,
// GraftTipOnEdge), then RemoveTips is called.  RemoveTips must work from the tree as it is (it walks
// Tips()), not from the cached name → tip map: a name that is no longer a tip name is ignored, a tip
// that entered the tree after the index was built can be removed, and the look-ups afterwards reflect
// the new tip set.  Case line `C06.stale`: rev, names, edits, α dump before the edits | α dump after the
// edits (= the tree RemoveTips is called on), outcome, α dump after, raw index answers as in C06.remove.

import (
	"fmt"
	"strings"

	"verifharness/core"

	"github.com/evolbioinfo/gotree/tree"
)

type edit struct{ kind, a, b string }

func (e edit) String() string {
	return e.kind + ":" + core.Escape(e.a) + ":" + core.Escape(e.b)
}

func parseEdit(s string) (edit, error) {
	f := strings.Split(s, ":")
	if len(f) != 3 {
		return edit{}, fmt.Errorf("bad edit %q", s)
	}
	a, err := core.Unescape(f[1])
	if err != nil {
		return edit{}, err
	}
	b, err := core.Unescape(f[2])
	if err != nil {
		return edit{}, err
	}
	return edit{f[0], a, b}, nil
}

func tipByWalk(t *tree.Tree, name string) *tree.Node {
	for _, tp := range t.Tips() {
		if tp.Name() == name {
			return tp
		}
	}
	return nil
}

// applyEdit performs one edit on the real tree; false when it does not apply.
func applyEdit(t *tree.Tree, e edit) bool {
	switch e.kind {
	case "rename": // tip a is now called b; the index still knows it as a
		if x := tipByWalk(t, e.a); x != nil {
			x.SetName(e.b)
			return true
		}
	case "swap": // tips a and b exchange their names: the index maps each name to the other node
		x, y := tipByWalk(t, e.a), tipByWalk(t, e.b)
		if x != nil && y != nil && x != y {
			x.SetName(e.b)
			y.SetName(e.a)
			return true
		}
	case "graft": // a new tip a on the branch of tip b: unknown to the index
		y := tipByWalk(t, e.b)
		if y == nil || len(y.Edges()) != 1 || y.Edges()[0].Length() == tree.NIL_LENGTH {
			return false
		}
		f := t.NewNode()
		f.SetName(e.a)
		if _, _, _, err := t.GraftTipOnEdge(f, y.Edges()[0]); err != nil {
			return false
		}
		return true
	case "prune": // an earlier RemoveTips: the index is the one it left
		if tipByWalk(t, e.a) == nil || len(t.Tips()) < 6 {
			return false
		}
		return t.RemoveTips(false, e.a) == nil
	}
	return false
}

// doStale rebuilds n0, indexes it, applies the edits on the real tree and then runs RemoveTips.
func doStale(c *core.Ctx, rev bool, names []string, edits []edit, n0 *core.N) {
	t, err := core.Build(n0)
	if err != nil {
		panic(err)
	}
	if p, _ := core.Safe(func() { err = t.ReinitIndexes() }); p || err != nil {
		return
	}
	var done []string
	bad := false
	if p, _ := core.Safe(func() {
		for _, e := range edits {
			if applyEdit(t, e) {
				done = append(done, e.String())
			}
		}
	}); p {
		bad = true
	}
	if bad || len(done) == 0 {
		return
	}
	var before *core.N
	var wf *core.WF
	if p, _ := core.Safe(func() { before, wf = core.Alpha(t) }); p || !wf.OK() {
		return
	}
	head := []string{b01(rev), core.StrList(names), strings.Join(done, ";") + ";", n0.Dump(), before.Dump()}
	observe(c, "C06.stale", head, t, before, rev, names)
}

func replayStale(c *core.Ctx, f []string) {
	n0, err := core.ParseDump(f[4])
	if err != nil {
		panic(err)
	}
	var edits []edit
	for _, s := range strings.Split(strings.TrimSuffix(f[3], ";"), ";") {
		if s == "" {
			continue
		}
		e, err := parseEdit(s)
		if err != nil {
			panic(err)
		}
		edits = append(edits, e)
	}
	doStale(c, f[1] == "1", decodeList(f[2]), edits, n0)
}

// staleCase draws a tree, a short history of edits the index does not follow, and a request that names
// the tips concerned (old and new names) besides a usual removal set.
func staleCase(c *core.Ctx) {
	g := c.G
	var n0 *core.N
	for try := 0; try < 20; try++ {
		n0, _ = genTree(c)
		tn := n0.TipNames()
		seen := map[string]bool{}
		dup := false
		for _, s := range tn {
			dup = dup || seen[s]
			seen[s] = true
		}
		if !dup && len(tn) >= 5 {
			break
		}
	}
	tips := n0.TipNames()
	if len(tips) < 5 {
		return
	}
	perm := g.R.Perm(len(tips))
	var edits []edit
	var touched []string // names the request should mention
	fresh := 0
	newName := func() string { fresh++; return fmt.Sprintf("zs%d", fresh) }
	used := 0
	pick := func() string { s := tips[perm[used%len(perm)]]; used++; return s }
	if g.Chance(0.25) {
		edits = append(edits, edit{"prune", pick(), ""})
	}
	for k := 0; k < 1+g.Intn(2); k++ {
		switch g.Intn(3) {
		case 0:
			a, b := pick(), newName()
			edits = append(edits, edit{"rename", a, b})
			touched = append(touched, a)
			if g.Chance(0.4) {
				touched = append(touched, b)
			}
		case 1:
			a, b := pick(), pick()
			edits = append(edits, edit{"swap", a, b})
			touched = append(touched, a)
		default:
			a, b := newName(), pick()
			edits = append(edits, edit{"graft", a, b})
			touched = append(touched, a)
			if g.Chance(0.3) {
				touched = append(touched, b)
			}
		}
	}
	// the request is drawn on the tree as it will be after the edits: replay the edits on a scratch copy
	t, err := core.Build(n0)
	if err != nil {
		panic(err)
	}
	var mid *core.N
	if p, _ := core.Safe(func() {
		if t.ReinitIndexes() != nil {
			return
		}
		for _, e := range edits {
			applyEdit(t, e)
		}
		var wf *core.WF
		if m, w := core.Alpha(t); w.OK() {
			mid, wf = m, w
		}
		_ = wf
	}); p || mid == nil {
		return
	}
	midTips := map[string]bool{}
	for _, s := range mid.TipNames() {
		midTips[s] = true
	}
	var rm []string
	if g.Chance(0.5) {
		rm = pickRemoval(g, mid)
	}
	inrm := map[string]bool{}
	for _, s := range rm {
		inrm[s] = true
	}
	for _, s := range touched {
		if midTips[s] && !inrm[s] && len(mid.TipNames())-len(rm) > 3 {
			rm = append(rm, s)
			inrm[s] = true
		}
	}
	rev := g.Chance(0.3)
	var names []string
	if rev {
		for _, s := range mid.TipNames() {
			if !inrm[s] {
				names = append(names, s)
			}
		}
	} else {
		names = append(names, rm...)
	}
	// names that are no tip names any more (the old name of a renamed tip, a pruned tip)
	for _, s := range touched {
		if !midTips[s] {
			names = append(names, s)
		}
	}
	g.R.Shuffle(len(names), func(i, j int) { names[i], names[j] = names[j], names[i] })
	doStale(c, rev, names, edits, n0)
}
