package c02

// The isolated worker: the real readers run in a child process (re-exec of the
// harness binary with `-arg @child`).  A panic in the ReadMultiTrees goroutine
// kills that process, a hang never returns: the parent turns both into
// observations (`panic:…`, `exit:n`, `timeout`) with a watchdog.

import (
	"bufio"
	"bytes"
	"compress/gzip"
	"encoding/json"
	"encoding/xml"
	"fmt"
	"io"
	"os"
	"os/exec"
	"path/filepath"
	"strconv"
	"strings"
	"sync"
	"time"

	"verifharness/core"

	"github.com/evolbioinfo/gotree/io/newick"
	"github.com/evolbioinfo/gotree/io/nextstrain"
	"github.com/evolbioinfo/gotree/io/phyloxml"
	"github.com/evolbioinfo/gotree/io/utils"
	"github.com/evolbioinfo/gotree/tree"
)

// Formats (entry points) of the read op.
var Formats = []string{"newick", "multi", "nexus", "nexusm", "phyloxml", "phyloxmlm", "nextstrain", "nextstrainm"}

// ---------------------------------------------------------------- child side

// record of one delivered item
type rec struct {
	id   int
	tree *tree.Tree
	err  error
}

// readAll runs one entry point of the real code on the bytes.
func readAll(format string, bufsize int, b []byte) (recs []rec, single bool, err error) {
	rd := func() *bufio.Reader {
		if bufsize < 16 {
			return bufio.NewReader(bytes.NewReader(b))
		}
		return bufio.NewReaderSize(bytes.NewReader(b), bufsize)
	}
	multi := func(f int) {
		for tr := range utils.ReadMultiTrees(rd(), f) {
			recs = append(recs, rec{tr.Id, tr.Tree, tr.Err})
		}
	}
	one := func(f int) {
		var t *tree.Tree
		t, err = utils.ReadTreeReader(rd(), f)
		if err == nil {
			recs = append(recs, rec{0, t, nil})
		}
	}
	switch format {
	case "newick":
		single = true
		var t *tree.Tree
		t, err = newick.NewParser(bytes.NewReader(b)).Parse()
		if err == nil {
			recs = append(recs, rec{0, t, nil})
		}
	case "multi":
		multi(utils.FORMAT_NEWICK)
	case "nexus":
		single = true
		one(utils.FORMAT_NEXUS)
	case "nexusm":
		multi(utils.FORMAT_NEXUS)
	case "phyloxml":
		single = true
		one(utils.FORMAT_PHYLOXML)
	case "phyloxmlm":
		multi(utils.FORMAT_PHYLOXML)
	case "nextstrain":
		single = true
		one(utils.FORMAT_NEXTSTRAIN)
	case "nextstrainm":
		multi(utils.FORMAT_NEXTSTRAIN)
	case "bad":
		// a format code that is none of the four constants: the `default` branch of ReadTreeReader
		single = true
		one(7)
	case "badm":
		multi(-1)
	default:
		err = fmt.Errorf("unknown format")
	}
	return
}

// writeBack: the three writers on a delivered tree; class ok | panic:<msg>, then the α dump and the texts
func writeBack(t *tree.Tree) string {
	if t == nil || t.Root() == nil {
		return ""
	}
	dump := ""
	if p, _ := core.Safe(func() {
		n, wf := core.Alpha(t)
		if wf.OK() {
			dump = n.Dump()
		}
	}); p || dump == "" {
		return ""
	}
	var nw, nx, px string
	class := "ok"
	p, msg := core.Safe(func() {
		nw = t.Newick()
		nx = t.Nexus()
		wch := make(chan tree.Trees, 1)
		wch <- tree.Trees{Tree: t, Id: 0}
		close(wch)
		var werr error
		if px, werr = phyloxml.WritePhyloXML(wch); werr != nil {
			class = "err"
		}
	})
	if p {
		class = "panic%3A" + core.Escape(msg)
	}
	return class + ":" + dump + ":" + core.Escape(nw) + ":" + core.Escape(nx) + ":" + core.Escape(px) + "|"
}

// useTree traverses, indexes and writes a delivered tree.  Returns the class
// of ReinitIndexes (ok|err) or "panic:<msg>", and the α dump taken BEFORE use.
func useTree(t *tree.Tree) (class string, dump string) {
	if t == nil {
		return "panic:nil%20tree%20delivered%20without%20error", ""
	}
	p, msg := core.Safe(func() {
		n, wf := core.Alpha(t)
		if !wf.OK() {
			dump = "MALFORMED%20" + core.Escape(strings.Join(wf.Problems, "; "))
			return
		}
		dump = n.Dump()
	})
	if p {
		return "panic:alpha%20" + core.Escape(msg), ""
	}
	class = "ok"
	p, msg = core.Safe(func() {
		nn := len(t.Nodes())
		ne := len(t.Edges())
		nt := len(t.Tips())
		_ = t.TipEdges()
		_ = t.InternalEdges()
		_ = t.Newick()
		_ = t.Nexus()
		wch := make(chan tree.Trees, 1)
		wch <- tree.Trees{Tree: t, Id: 0}
		close(wch)
		if _, werr := phyloxml.WritePhyloXML(wch); werr != nil {
			class = "err" // an error of the writer is not a crash
		}
		if ne != nn-1 || nt > nn {
			class = "counts"
		}
		if err := t.ReinitIndexes(); err != nil {
			if class == "ok" {
				class = "err"
			}
		}
		// once more after indexing (depths, bitsets, hashes are now set)
		_ = t.Nodes()
		_ = t.Edges()
		_ = t.Tips()
		_ = t.Newick()
		_ = t.AllTipNames()
	})
	if p {
		return "panic:" + core.Escape(msg), dump
	}
	return class, dump
}

// useErrTree: a record that carries an error may also carry a half-built tree (PhyloXML: `Tree: t, Err: err`);
// a consumer that looks at it must not crash either.  "" = no tree came with the error.
func useErrTree(t *tree.Tree) string {
	if t == nil || t.Root() == nil {
		return ""
	}
	class, _ := useTree(t)
	return class
}

func nestDoc(depth int) []byte {
	var b bytes.Buffer
	b.Grow(2*depth + 16)
	for i := 0; i < depth; i++ {
		b.WriteByte('(')
	}
	b.WriteString("a,b")
	for i := 0; i < depth; i++ {
		b.WriteByte(')')
	}
	b.WriteByte(';')
	return b.Bytes()
}

var fileFormats = map[string]int{"newick": utils.FORMAT_NEWICK, "multi": utils.FORMAT_NEWICK, "nexus": utils.FORMAT_NEXUS, "nexusm": utils.FORMAT_NEXUS,
	"phyloxml": utils.FORMAT_PHYLOXML, "phyloxmlm": utils.FORMAT_PHYLOXML, "nextstrain": utils.FORMAT_NEXTSTRAIN, "nextstrainm": utils.FORMAT_NEXTSTRAIN}

// fileCase writes the input to a file the way `mode` says and reads it back through utils.ReadTree (single
// formats) or utils.GetReader + utils.ReadMultiTrees (multi formats).  The reply carries, besides the
// outcome and the records, the bytes the reader effectively had (what gzip yields before its first error).
func fileCase(mode, format string, in []byte) string {
	dir, err := os.MkdirTemp("", "c02file")
	if err != nil {
		return "bad"
	}
	defer os.RemoveAll(dir)
	path := filepath.Join(dir, "in.txt")
	content := in
	effective := in
	switch mode {
	case "plain":
	case "missing":
		path = filepath.Join(dir, "does-not-exist.nw")
		effective = nil
	case "missinggz":
		path = filepath.Join(dir, "does-not-exist.nw.gz")
		effective = nil
	case "empty":
		content, effective = nil, nil
	case "onebyte":
		if len(in) > 0 {
			content = in[:1]
		} else {
			content = []byte("(")
		}
		effective = content
	case "dir", "dirgz":
		// a directory: os.Open succeeds, every read fails
		path = filepath.Join(dir, "sub")
		if mode == "dirgz" {
			path += ".gz"
		}
		if err := os.Mkdir(path, 0755); err != nil {
			return "bad"
		}
		content, effective = nil, nil
	case "gz", "gztrunc", "gzflip", "notgz", "emptygz", "onebytegz":
		path = filepath.Join(dir, "in.txt.gz")
		var zb bytes.Buffer
		zw := gzip.NewWriter(&zb)
		zw.Write(in)
		zw.Close()
		content = zb.Bytes()
		switch mode {
		case "gztrunc":
			content = content[:len(content)*2/3]
		case "gzflip":
			if len(content) > 14 {
				content = append([]byte{}, content...)
				content[len(content)/2+3] ^= 0x5a
			}
		case "notgz":
			content = in
		case "emptygz":
			content = nil
		case "onebytegz":
			content = []byte{0x1f}
		}
		// what a gzip reader delivers before its first error
		effective = nil
		if zr, err := gzip.NewReader(bytes.NewReader(content)); err == nil {
			effective, _ = io.ReadAll(zr)
		} else {
			mode = "gzheader" // GetReader itself fails
		}
	}
	if mode != "missing" && mode != "missinggz" && mode != "dir" && mode != "dirgz" {
		if err := os.WriteFile(path, content, 0644); err != nil {
			return "bad"
		}
	}
	fm := fileFormats[format]
	var recs []rec
	var rerr error
	if strings.HasSuffix(format, "m") || format == "multi" {
		fh, rd, err := utils.GetReader(path)
		if err != nil {
			rerr = err
		} else {
			for tr := range utils.ReadMultiTrees(rd, fm) {
				recs = append(recs, rec{tr.Id, tr.Tree, tr.Err})
			}
			fh.Close()
		}
	} else {
		t, err := utils.ReadTree(path, fm)
		if err != nil {
			rerr = err
		} else {
			recs = append(recs, rec{0, t, nil})
		}
	}
	out := "ok"
	if rerr != nil {
		out = "err"
	}
	var sb strings.Builder
	for _, r := range recs {
		if r.err != nil {
			fmt.Fprintf(&sb, "%d:err:%s:|", r.id, useErrTree(r.tree))
			continue
		}
		class, dump := useTree(r.tree)
		fmt.Fprintf(&sb, "%d:tree:%s:%s|", r.id, class, dump)
	}
	openOK := "open"
	if mode == "missing" || mode == "missinggz" || mode == "dirgz" || mode == "gzheader" {
		openOK = "noopen"
	}
	return out + "\t" + sb.String() + "\t" + decoded(format, effective) + "\t" + openOK + "\t" + core.Escape(string(effective))
}

// scaleDoc: documents whose size grows with n while their structure stays the same, one kind per place where the
// readers accumulate something token by token or line by line.
func scaleDoc(kind string, n int) (string, []byte) {
	var b bytes.Buffer
	rep := func(s string, k int) {
		for i := 0; i < k; i++ {
			b.WriteString(s)
		}
	}
	switch kind {
	case "blanklines": // whitespace-only lines before a tree (ReadUntilSemiColon)
		rep(" \n", n)
		b.WriteString("(a,b);\n")
		return "multi", b.Bytes()
	case "longline": // one tree on one very long line (ReadLine chunks, isPrefix)
		b.WriteString("(")
		rep("a,", n)
		b.WriteString("b);\n")
		return "multi", b.Bytes()
	case "manytrees": // many trees, one per line
		rep("(a,b);\n", n)
		return "multi", b.Bytes()
	case "treesoneline": // many trees on one line (3850fd2)
		rep("(a,b);", n)
		b.WriteString("\n")
		return "multi", b.Bytes()
	case "comment-meta": // one comment made of metacharacters: one token each (consumeComment)
		b.WriteString("(a[")
		rep("(", n)
		b.WriteString("],b);")
		return "newick", b.Bytes()
	case "comment-text": // one long comment, a single token
		b.WriteString("(a[")
		rep("x", n)
		b.WriteString("],b);")
		return "newick", b.Bytes()
	case "star": // a star tree with n tips
		b.WriteString("(")
		rep("a:1,", n)
		b.WriteString("b:1);")
		return "newick", b.Bytes()
	case "nexus-tree": // a Nexus tree string of many tokens (tree += lit)
		b.WriteString("#NEXUS\nBEGIN TREES;\nTREE t = (")
		rep("a,", n)
		b.WriteString("b);\nEND;\n")
		return "nexusm", b.Bytes()
	case "nexus-comments": // many comments between commands
		b.WriteString("#NEXUS\nBEGIN TREES;\n")
		rep("[x]\n", n)
		b.WriteString("TREE t = (a,b);\nEND;\n")
		return "nexusm", b.Bytes()
	case "nexus-matrix": // one sequence of many tokens (sequence = sequence + lit)
		b.WriteString("#NEXUS\nBEGIN DATA;\nDIMENSIONS NTAX=1 NCHAR=" + strconv.Itoa(n) + ";\nFORMAT DATATYPE=dna;\nMATRIX\ns ")
		rep("A ", n)
		b.WriteString("\n;\nEND;\nBEGIN TREES;\nTREE t = (a,b);\nEND;\n")
		return "nexusm", b.Bytes()
	case "nexus-labels": // many taxon labels (map) and a translate table
		b.WriteString("#NEXUS\nBEGIN TAXA;\nTAXLABELS")
		for i := 0; i < n; i++ {
			b.WriteString(" t" + strconv.Itoa(i))
		}
		b.WriteString(";\nEND;\n")
		return "nexusm", b.Bytes()
	case "phyloxml-wide": // many sibling clades
		b.WriteString("<phyloxml><phylogeny><clade>")
		rep("<clade><name>a</name></clade>", n)
		b.WriteString("</clade></phylogeny></phyloxml>")
		return "phyloxmlm", b.Bytes()
	case "nextstrain-wide":
		b.WriteString(`{"version":"v2","tree":{"name":"r","children":[`)
		for i := 0; i < n; i++ {
			if i > 0 {
				b.WriteByte(',')
			}
			b.WriteString(`{"name":"a"}`)
		}
		b.WriteString("]}}")
		return "nextstrainm", b.Bytes()
	}
	return "", nil
}

// nestDocX: the same nesting in the other formats
func nestDocX(format string, depth int) []byte {
	var b bytes.Buffer
	rep := func(s string) {
		for i := 0; i < depth; i++ {
			b.WriteString(s)
		}
	}
	switch format {
	case "nexus", "nexusm":
		b.WriteString("#NEXUS\nBEGIN TREES;\nTREE t = ")
		rep("(")
		b.WriteString("a,b")
		rep(")")
		b.WriteString(";\nEND;\n")
	case "phyloxml", "phyloxmlm":
		b.WriteString("<phyloxml><phylogeny>")
		rep("<clade>")
		b.WriteString("<clade><name>a</name></clade><clade><name>b</name></clade>")
		rep("</clade>")
		b.WriteString("</phylogeny></phyloxml>")
	case "nextstrain", "nextstrainm":
		b.WriteString(`{"version":"v2","tree":`)
		rep(`{"children":[`)
		b.WriteString(`{"name":"a"},{"name":"b"}`)
		rep(`]}`)
		b.WriteString("}")
	case "multi":
		rep("(")
		b.WriteString("a,b")
		rep(")")
		b.WriteString(";\n")
	}
	return b.Bytes()
}

// decoded gives what encoding/xml / encoding/json make of the input (the models of the clade
// conversions start from there): "" for the text formats, "E" when the decoder fails.
func decoded(format string, b []byte) string {
	switch format {
	case "phyloxml", "phyloxmlm":
		px := &phyloxml.PhyloXML{}
		if err := xml.Unmarshal(b, px); err != nil {
			return "E"
		}
		return encPx(pxFromReal(px))
	case "nextstrain", "nextstrainm":
		ns := &nextstrain.Nextstrain{}
		if err := json.Unmarshal(b, ns); err != nil {
			return "E"
		}
		return encNs(nsFromReal(ns))
	}
	return ""
}

// handle executes one request line of the parent in the child.
func handle(line string) string {
	f := strings.Split(line, "\t")
	switch f[0] {
	case "read":
		if len(f) != 4 {
			return "bad"
		}
		bufsize, _ := strconv.Atoi(f[2])
		in, err := core.Unescape(f[3])
		if err != nil {
			return "bad"
		}
		recs, _, rerr := readAll(f[1], bufsize, []byte(in))
		out := "ok"
		if rerr != nil {
			out = "err"
		}
		var sb strings.Builder
		for _, r := range recs {
			if r.err != nil {
				fmt.Fprintf(&sb, "%d:err:%s:|", r.id, useErrTree(r.tree))
				continue
			}
			class, dump := useTree(r.tree)
			fmt.Fprintf(&sb, "%d:tree:%s:%s|", r.id, class, dump)
		}
		return out + "\t" + sb.String() + "\t" + decoded(f[1], []byte(in))
	case "wb":
		if len(f) != 3 {
			return "bad"
		}
		in, err := core.Unescape(f[2])
		if err != nil {
			return "bad"
		}
		recs, _, rerr := readAll(f[1], 0, []byte(in))
		out := "ok"
		if rerr != nil {
			out = "err"
		}
		var sb strings.Builder
		for _, r := range recs {
			if r.err == nil && r.tree != nil && len(r.tree.Nodes()) <= 300 {
				sb.WriteString(writeBack(r.tree))
			}
		}
		return out + "\t" + sb.String()
	case "scale":
		// scaling probe: time of the reader alone on a document of the given kind and size
		if len(f) != 3 {
			return "bad"
		}
		n, _ := strconv.Atoi(f[2])
		format, doc := scaleDoc(f[1], n)
		if format == "" {
			return "bad"
		}
		t0 := time.Now()
		recs, _, rerr := readAll(format, 0, doc)
		us := time.Since(t0).Microseconds()
		out := "ok"
		if rerr != nil {
			out = "err"
		}
		return fmt.Sprintf("%s\t%d\t%d\t%d", out, len(recs), len(doc), us)
	case "file":
		// file-level entry points: utils.ReadTree / GetReader + ReadMultiTrees on a real file
		if len(f) != 4 {
			return "bad"
		}
		in, err := core.Unescape(f[3])
		if err != nil {
			return "bad"
		}
		return fileCase(f[1], f[2], []byte(in))
	case "nest", "nestx":
		depth, _ := strconv.Atoi(f[1])
		format := "newick"
		doc := []byte(nil)
		if f[0] == "nestx" {
			format = f[1]
			depth, _ = strconv.Atoi(f[2])
			doc = nestDocX(format, depth)
		} else {
			doc = nestDoc(depth)
		}
		recs, _, rerr := readAll(format, 0, doc)
		if rerr != nil {
			return "err\t"
		}
		// traverse, index, write — without the α walker (the probe is about the code under test)
		class := "ok"
		for _, r := range recs {
			_ = len(r.tree.Nodes())
			_ = len(r.tree.Edges())
			_ = len(r.tree.Tips())
			_ = len(r.tree.Newick())
			// indexed up to 10^5 (ReinitIndexes recurses as well)
			if depth <= 100000 {
				if err := r.tree.ReinitIndexes(); err != nil {
					class = "err"
				}
			}
		}
		return "ok\t" + class
	}
	return "bad"
}

// Child is the request loop of the worker process.
func Child() {
	in := bufio.NewReaderSize(os.Stdin, 1<<20)
	out := bufio.NewWriter(os.Stdout)
	for {
		line, err := in.ReadString('\n')
		if line != "" {
			line = strings.TrimSuffix(line, "\n")
			out.WriteString(handle(line))
			out.WriteByte('\n')
			out.Flush()
		}
		if err != nil {
			return
		}
	}
}

// ---------------------------------------------------------------- parent side

// capBuf keeps the head and the tail of what the child wrote to stderr.
type capBuf struct {
	mu   sync.Mutex
	head []byte
	tail []byte
}

const capN = 16384

func (c *capBuf) Write(p []byte) (int, error) {
	c.mu.Lock()
	defer c.mu.Unlock()
	n := len(p)
	if len(c.head) < capN {
		k := capN - len(c.head)
		if k > len(p) {
			k = len(p)
		}
		c.head = append(c.head, p[:k]...)
		p = p[k:]
	}
	c.tail = append(c.tail, p...)
	if len(c.tail) > capN {
		c.tail = c.tail[len(c.tail)-capN:]
	}
	return n, nil
}
func (c *capBuf) Reset() {
	c.mu.Lock()
	c.head, c.tail = c.head[:0], c.tail[:0]
	c.mu.Unlock()
}
func (c *capBuf) String() string {
	c.mu.Lock()
	defer c.mu.Unlock()
	return string(c.head) + string(c.tail)
}

type worker struct {
	cmd    *exec.Cmd
	stdin  io.WriteCloser
	stdout *bufio.Reader
	stderr *capBuf
	replyc chan string
}

func startWorker() *worker {
	exe, err := os.Executable()
	if err != nil {
		panic(err)
	}
	cmd := exec.Command(exe, "C02", "-arg", "@child")
	cmd.Env = append(os.Environ(), "GOMEMLIMIT=6GiB", "GOTRACEBACK=single")
	w := &worker{cmd: cmd, stderr: &capBuf{}}
	w.stdin, _ = cmd.StdinPipe()
	so, _ := cmd.StdoutPipe()
	w.stdout = bufio.NewReaderSize(so, 1<<20)
	cmd.Stderr = w.stderr
	if err := cmd.Start(); err != nil {
		panic(err)
	}
	return w
}

func (w *worker) kill() {
	if w.cmd != nil && w.cmd.Process != nil {
		w.cmd.Process.Kill()
		w.cmd.Wait()
	}
	w.cmd = nil
}

// classify the death of the child
func (w *worker) death() string {
	err := w.cmd.Wait()
	w.cmd = nil
	se := w.stderr.String()
	first := func(marker string) string {
		i := strings.Index(se, marker)
		if i < 0 {
			return ""
		}
		l := se[i:]
		if j := strings.IndexByte(l, '\n'); j >= 0 {
			l = l[:j]
		}
		if len(l) > 160 {
			l = l[:160]
		}
		return l
	}
	if m := first("fatal error: "); m != "" {
		return "panic:" + core.Escape(m)
	}
	if m := first("panic: "); m != "" {
		return "panic:" + core.Escape(m)
	}
	if ee, ok := err.(*exec.ExitError); ok {
		if ee.ExitCode() >= 0 {
			return fmt.Sprintf("exit:%d", ee.ExitCode())
		}
		return "panic:" + core.Escape("killed by "+ee.String())
	}
	if err == nil {
		return "exit:0"
	}
	return "panic:" + core.Escape(err.Error())
}

// Do sends one request and waits for the reply, the death of the child, or the watchdog.
// The reply is "<outcome>\t<payload>".
func (w *worker) do(req string, timeout time.Duration) (reply string, died bool) {
	w.stderr.Reset()
	ch := make(chan string, 1)
	go func() {
		l, err := w.stdout.ReadString('\n')
		if err != nil {
			ch <- "\x00dead"
			return
		}
		ch <- strings.TrimSuffix(l, "\n")
	}()
	if _, err := io.WriteString(w.stdin, req+"\n"); err != nil {
		// the child is already gone
		select {
		case <-ch:
		case <-time.After(2 * time.Second):
		}
		return w.death() + "\t", true
	}
	select {
	case r := <-ch:
		if r == "\x00dead" {
			return w.death() + "\t", true
		}
		// a -race build reports on stderr and carries on
		if strings.Contains(w.stderr.String(), "WARNING: DATA RACE") {
			if i := strings.IndexByte(r, '\t'); i >= 0 {
				r = "panic:DATA%20RACE" + r[i:]
			}
		}
		return r, false
	case <-time.After(timeout):
		w.kill()
		<-ch
		return "timeout\t", true
	}
}

// pool runs requests on n workers and returns the replies in request order.
type job struct {
	req     string
	timeout time.Duration
}

func runPool(jobs []job, n int) []string {
	res := make([]string, len(jobs))
	var wg sync.WaitGroup
	idx := make(chan int, len(jobs))
	for i := range jobs {
		idx <- i
	}
	close(idx)
	var ntimeouts int32
	var mu sync.Mutex
	for k := 0; k < n; k++ {
		wg.Add(1)
		go func() {
			defer wg.Done()
			var w *worker
			defer func() {
				if w != nil && w.cmd != nil {
					w.stdin.Close()
					w.kill()
				}
			}()
			for i := range idx {
				if w == nil || w.cmd == nil {
					w = startWorker()
				}
				to := jobs[i].timeout
				mu.Lock()
				if ntimeouts >= 8 && to > time.Second {
					to = time.Second // many hangs already seen: do not wait as long for the next ones
				}
				mu.Unlock()
				r, died := w.do(jobs[i].req, to)
				if died && (strings.HasPrefix(r, "timeout") || strings.Contains(r, "killed")) {
					// the machine is shared: before a hang (or a kill by the system) is reported, the request
					// is run once more, alone on a fresh worker, with four times the watchdog
					w = startWorker()
					r, died = w.do(jobs[i].req, 4*to)
				}
				if died && strings.HasPrefix(r, "timeout") {
					mu.Lock()
					ntimeouts++
					mu.Unlock()
				}
				res[i] = r
			}
		}()
	}
	wg.Wait()
	return res
}
