import Driver.Proto
import Gotree.Spec.C14
import Gotree.Model.C14Go
import Gotree.Model.C14Cli
import Gotree.Model.C14Bag
import Gotree.Model.C14CliThr

namespace Gotree.Driver.C14
open Gotree Gotree.Driver Gotree.C14

/-- the metric as the library gets it: a name, or `int:<n>` for an integer outside the
    three constants ("all other values will be considered as DISTANCE_METRIC_BRLEN") -/
def parseMetric : String → Option (Metric × Int)
  | "brlen" => some (.brlen, 0) | "boots" => some (.boots, 1) | "none" => some (.none, 2)
  | s => if s.startsWith "int:" then
      (match (String.ofList (s.toList.drop 4)).toInt? with
       | some n => if n == 1 then some (.boots, 1) else if n == 2 then some (.none, 2) else some (.brlen, n)
       | none => none)
    else none

/-- |a-b| within one rounding of b (a single float64 division on exact operands) -/
def approx (a b : Rat) : Bool := (if a ≥ b then a - b else b - a) * (4503599627370496 : Rat) ≤ (if b ≥ 0 then b else -b)

def canonBags (b : List (List String)) : List (List String) :=
  (b.map sortStrings).mergeSort (fun x y => decide (showStrList x ≤ showStrList y))

def eqM (x y : List (List Rat)) : Bool :=
  x.length == y.length && (List.zipWith (fun r s => r.length == s.length && (List.zipWith approx r s).all id) x y).all id

/-- shape tags shared by the library ops (generator branches / hypotheses) -/
def shapeTags (t : T) : List String :=
  let uniq := t.tipNames.eraseDups.length == t.tipNames.length
  tagIf uniq "uniq" ++ tagIf (!uniq) "dupnames" ++ tagIf t.rooted "rooted" ++
  tagIf (t.kids.length == 1) "roottip" ++ tagIf (t.tipNames.length == 2) "twotips" ++
  tagIf ((Go.G.ofT t).nodes.toList.zipIdx.any fun ni => ni.2 ≥ 1 && ni.1.neigh.length == 2) "single-child-node" ++
  tagIf (t.edges.any (·.len == NIL)) "absent-length" ++ tagIf (t.edges.any (·.len == 0)) "zero-length" ++
  tagIf (t.tipNames.any fun a => t.tipNames.any fun b => a != b && a.toNat?.isSome && a.toNat? == b.toNat?) "lookalike"

/-- the entries as a multiset of (row name, column name, value): what is left to compare
    when names repeat (rows of equal names may be listed in either order) -/
def triples (names : List String) (m : List (List Rat)) : List String :=
  sortStrings ((names.zip m).flatMap fun nr => (names.zip nr.2).map fun nx =>
    escape nr.1 ++ "," ++ escape nx.1 ++ "," ++ showRat nx.2)

/-! ### text of the CLI back to values (for the oracle on the implementation's own output) -/

def parseBlock (lines : List String) : Option ((List String × List (List Rat)) × List String) :=
  match lines with
  | [] => none
  | h :: r =>
    match h.toNat? with
    | none => none
    | some n =>
      if r.length < n then none else
      let rows := (r.take n).map fun l => l.splitOn "\t"
      match rows.mapM fun f => (f.drop 1).mapM Cli.parseDec with
      | none => none
      | some m => some ((rows.map fun f => f.headD "", m), r.drop n)

def parseBlocks : Nat → List String → Option (List (List String × List (List Rat)))
  | 0, _ => none
  | _ + 1, [] => some []
  | fuel + 1, ls =>
    match parseBlock ls with
    | none => none
    | some (b, rest) => (parseBlocks fuel rest).map (b :: ·)

/-! ### inputs whose float64 sums are not exact (round 5)

  Generated lengths are multiples of 1/8 and supports of 1/16: every float64 sum is exact and the
  oracle compares exactly.  A tree with other values (decimal lengths such as 0.1, a replayed
  request) carries in its dump the exact rationals of the float64s, but each addition of the
  code rounds: then every comparison allows one rounding per addition on the path,
  `(edges + 1) · 2⁻⁵² · Σ|weight|`. -/

def exactR (q : Rat) : Bool := q == NIL || (65536 % q.den == 0 && q.num.natAbs ≤ q.den * 1048576)

def exactTree (t : T) : Bool := t.edges.length ≤ 1024 && t.edges.all fun e => exactR e.len && exactR e.sup

def absR (q : Rat) : Rat := if q ≥ 0 then q else -q

def tolOf (m : Metric) (t : T) (a b : String) : Rat :=
  ((t.edges.length + 1 : Nat) : Rat) * distW (fun e => absR (m.w e)) t.splits a b / 4503599627370496

/-- `matrixOK` within the rounding of the additions (plus `extra`, the printed precision) -/
def matrixNear (extra : Rat) (m : Metric) (t : T) (tips : List String) (mat : List (List Rat)) : Bool :=
  tips == sortNames t.tipNames && mat.length == tips.length &&
  (List.zipWith (fun (a : String) (row : List Rat) => row.length == tips.length &&
    (List.zipWith (fun (b : String) (x : Rat) =>
      let e := if a == b then 0 else pathSum m t a b
      decide (absR (x - e) ≤ tolOf m t a b + extra)) tips row).all id) tips mat).all id

/-- two matrices of the same tree within that rounding -/
def nearM (m : Metric) (t : T) (tips : List String) (x y : List (List Rat)) : Bool :=
  x.length == y.length && x.length == tips.length &&
  (List.zipWith (fun (a : String) (rs : List Rat × List Rat) => rs.1.length == rs.2.length &&
    (List.zipWith (fun (b : String) (xy : Rat × Rat) => decide (absR (xy.1 - xy.2) ≤ tolOf m t a b))
      tips (rs.1.zip rs.2)).all id) tips (x.zip y)).all id

/-- the oracle of one matrix: exact on exact inputs, within the additions' rounding otherwise -/
def matrixJudge (extra : Rat) (m : Metric) (t : T) (tips : List String) (mat : List (List Rat)) : Bool :=
  if exactTree t then matrixOK m t tips mat else matrixNear extra m t tips mat

/-- complete blocks printed before anything that is not one (an error line) -/
def parseBlocksPrefix : Nat → List String → List (List String × List (List Rat))
  | 0, _ => []
  | fuel + 1, ls =>
    match parseBlock ls with
    | none => []
    | some (b, rest) => b :: parseBlocksPrefix fuel rest

/-- two averages of the same trees: one rounding when every sum is exact, otherwise the roundings
    of the additions inside each tree, of the accumulation and of the division -/
def nearAvg (m : Metric) (ts : List T) (tips : List String) (x y : List (List Rat)) : Bool :=
  if ts.all exactTree then eqM x y else
  x.length == y.length && x.length == tips.length &&
  (List.zipWith (fun (a : String) (rs : List Rat × List Rat) => rs.1.length == rs.2.length &&
    (List.zipWith (fun (b : String) (xy : Rat × Rat) =>
      let tol := ((ts.map fun u => 2 * tolOf m u a b).sum +
        ((ts.length + 2 : Nat) : Rat) * (ts.map fun u => distW (fun e => absR (m.w e)) u.splits a b).sum / 4503599627370496) /
        ((max ts.length 1 : Nat) : Rat)
      decide (absR (xy.1 - xy.2) ≤ tol))
      tips (rs.1.zip rs.2)).all id) tips (x.zip y)).all id

def parseInTrees (s : String) : Option (Except String (List Cli.InTree)) :=
  if s.startsWith "NOFILE" then (unescape (String.ofList (s.toList.drop 6))).map Except.error else
  ((splitTerm "|" s).mapM fun (d : String) =>
    if d.startsWith "!" then (unescape (String.ofList (d.toList.drop 1))).map Cli.InTree.bad
    else (T.undump d).map Cli.InTree.good).map Except.ok

def inTrees (i : Except String (List Cli.InTree)) : List Cli.InTree :=
  match i with | .ok l => l | .error _ => []

def lines (s : String) : List String := splitTerm "\n" s

def handleBase (op : String) (f : List String) : Verdict :=
  match op, f with
  | "matrix", [ms, dump, itips, imat] =>
    match parseMetric ms, T.undump dump, parseStrList itips, parseRatMatrix imat with
    | some (m, mi), some t, some tips, some mat =>
      let uniq := t.tipNames.eraseDups.length == t.tipNames.length
      let (mt, mm) := matrix m t
      let go := Go.matrixGo mi t
      let goSame := go == some (tips, mat)
      let tags := shapeTags t ++ tagIf (mat.any (·.any (· != 0))) "nontrivial" ++
        tagIf (mi != 0 && mi != 1 && mi != 2) "metric-other-int" ++
        tagIf (m == .boots && t.edges.any (·.sup == NIL)) "absent-support" ++
        tagIf goSame "fid-golevel-exact" ++ tagIf (!exactTree t) "inexact-sums"
      if !uniq then
        -- outside the quantifier: no oracle; statement-level model only, entries as a multiset
        match go with
        | some (gt, gm) =>
          -- repeated names and inexact sums: positions compared, each entry within the additions' rounding
          let relNear := fun (x y : Rat) => decide (absR (x - y) * 4503599627370496 ≤ ((t.edges.length + 1 : Nat) : Rat) * (absR x + absR y))
          let posNear := gm.length == mat.length &&
            (List.zipWith (fun (r r' : List Rat) => r.length == r'.length && (List.zipWith relNear r r').all id) gm mat).all id
          if gt == tips && (triples gt gm == triples tips mat || (!exactTree t && posNear)) then ⟨.pass, "tie-only-dupnames" :: tags, ""⟩
          -- beyond 12 tips sort.Slice may order rows of EQUAL names otherwise, and with inexact sums the
          -- entries cannot be matched as a multiset either: nothing left to compare but names and shape
          else if gt == tips && !exactTree t && tips.length > 12 && gm.length == mat.length then
            ⟨.pass, "tie-skipped-dup-unstable-inexact" :: tags, ""⟩
          else ⟨.tie, tags, "dup names: statement-level model " ++ showStrList gt ++ " " ++ showRatMatrix gm⟩
        | none => ⟨.tie, tags, "statement-level model fails"⟩
      else if !(matrixJudge 0 m t tips mat) then ⟨.oracle, tags, "matrix differs from path sums"⟩
      else if mt != tips || (if exactTree t then mm != mat else !(nearM m t tips mm mat)) then ⟨.tie, tags, "model matrix " ++ showRatMatrix mm⟩
      else if exactTree t && !goSame then ⟨.tie, tags, "statement-level model differs"⟩
      else if !exactTree t && !(match go with | some (gt, gm) => gt == tips && nearM m t tips gm mat | none => false) then
        ⟨.tie, tags, "statement-level model differs beyond the rounding of the additions"⟩
      else ⟨.pass, tags, ""⟩
    | _, _, _, _ => bad "C14.matrix fields"
  | "avg", [ms, dumps, res, itips, imat] =>
    match parseMetric ms, (splitTerm "|" dumps).mapM T.undump, parseStrList itips, parseRatMatrix imat with
    | some (m, mi), some ts, some tips, some mat =>
      let sameTaxa := match ts with
        | [] => true
        | t :: r => r.all fun u => sortNames u.tipNames == sortNames t.tipNames
      let uniq := ts.all fun t => t.tipNames.eraseDups.length == t.tipNames.length
      let go := Go.avgDistanceMatrix mi ts
      let sameOrder := match ts with
        | [] => true
        | t :: r => r.all fun u => u.tipNames == t.tipNames
      -- hypothesis of theorem avgGo_is_avg, evaluated (it is a theorem for unique names: matrixGo_is_matrix)
      let hgo := ts.all fun t => Go.matrixGo mi t == some (matrix m t)   -- both models are exact rationals: no rounding here
      let tags := tagIf sameTaxa "sametaxa" ++ tagIf (ts.length ≥ 2 && sameTaxa && res == "ok") "nontrivial" ++
        tagIf hgo "hyp-avgGo" ++ tagIf (ts.length == 1) "one-tree" ++
        tagIf (ts.length == 0) "no-tree" ++ tagIf (!sameOrder) "tip-order-differs" ++ tagIf (!uniq) "dupnames" ++
        tagIf (ts.any fun t => t.kids.length == 1) "roottip" ++
        tagIf (match ts with | [] => false | t :: r => r.any fun u => u.tipNames.length != t.tipNames.length) "tipcount-differs" ++
        [s!"golevel-{go.cls}"]
      let resCls := if res.startsWith "panic" then "panic" else res
      if !uniq then
        if go.cls == resCls then ⟨.pass, "tie-only-dupnames" :: tags, ""⟩ else ⟨.tie, tags, "dup names: statement-level outcome " ++ go.cls⟩
      else if !hgo then ⟨.tie, tags, "statement-level matrix of a tree of the average differs from the rose-tree one"⟩
      else
      -- oracle: entrywise mean of the specs
      let expect : Option (List String × List (List Rat)) :=
        match ts with
        | [] => some ([], [])
        | t :: _ =>
          if !sameTaxa then none else
          let names := sortNames t.tipNames
          some (names, names.map fun a => names.map fun b =>
            (ts.map fun u => if a == b then 0 else pathSum m u a b).sum / ((ts.length : Nat) : Rat))
      match expect, resCls with
      | none, "err" =>
        (match avgMatrix m ts with
         | none => if go.cls == "err" then ⟨.pass, "rejected" :: tags, ""⟩ else ⟨.tie, tags, "statement-level model: " ++ go.cls⟩
         | some _ => ⟨.tie, tags, "model accepts differing taxa"⟩)
      | none, _ => ⟨.oracle, tags, "differing taxa not rejected (" ++ res ++ ")"⟩
      | some _, "err" => ⟨.oracle, tags, "same taxa rejected"⟩
      | some _, "panic" => ⟨.oracle, tags, "panic on same taxa " ++ res⟩
      | some (en, em), _ =>
        if en != tips || !(nearAvg m ts tips mat em) then ⟨.oracle, tags, "average differs from the entrywise mean"⟩ else
        match avgMatrix m ts with
        | some (mn, mm) =>
          if !(mn == tips && nearAvg m ts tips mat mm) then ⟨.tie, tags, "model avg " ++ showRatMatrix mm⟩ else
          (match go with
           | .ok (gn, gm) => if gn == tips && nearAvg m ts tips mat gm then ⟨.pass, tags, ""⟩ else ⟨.tie, tags, "statement-level avg " ++ showRatMatrix gm⟩
           | _ => ⟨.tie, tags, "statement-level model: " ++ go.cls⟩)
        | none => ⟨.tie, tags, "model rejects"⟩
    | _, _, _, _ => bad "C14.avg fields"
  | "cut", [thrs, dump, res, ibags] =>
    match parseRat? thrs, T.undump dump, parseStrLists ibags with
    | some thr, some t, some bags =>
      let uniq := t.tipNames.eraseDups.length == t.tipNames.length
      let go := Go.cutGo thr t
      let orderSame := match go with | .ok gb => gb == bags | _ => false
      let tags := shapeTags t ++ tagIf (bags.length ≥ 2) "nontrivial" ++
        tagIf (t.edges.any (·.len == thr)) "tie-threshold" ++
        tagIf (orderSame && res == "ok") "fid-bagorder-exact" ++ tagIf (!orderSame && res == "ok") "fid-bagorder-differs" ++
        tagIf (res == "err") "cut-err" ++
        tagIf (thr ≤ 0 && t.edges.any (·.len == NIL)) "absent-unspecified" ++
        tagIf (res == "ok" && cutSpecOK thr t bags && !(cutOK thr t bags)) "doc-ok-raw-differs"
      if !uniq then
        -- outside the quantifier: the statement-level model decides (error iff two tips of
        -- one name meet in a bag); bags compared as a set of sorted bags
        match go, res with
        | .ok gb, "ok" => if canonBags gb == canonBags bags then ⟨.pass, "tie-only-dupnames" :: tags, ""⟩
                         else ⟨.tie, tags, "dup names: statement-level bags " ++ showStrLists gb⟩
        | .err _, "err" => ⟨.pass, "tie-only-dupnames" :: "dup-rejected" :: tags, ""⟩
        | _, _ => ⟨.tie, tags, "dup names: statement-level outcome " ++ go.cls ++ " vs " ++ res⟩
      else if res != "ok" then ⟨.oracle, tags, "cut failed on a tree with unique tips"⟩
      else if !(cutSpecOK thr t bags) then ⟨.oracle, tags, "bags are not the components of branches documented as shorter than the threshold"⟩
      else if canonBags (cut thr t) != canonBags bags then ⟨.tie, tags, "model bags " ++ showStrLists (cut thr t)⟩
      else match go with
        | .ok gb => if canonBags gb != canonBags bags then ⟨.tie, tags, "statement-level bags " ++ showStrLists gb⟩ else ⟨.pass, tags, ""⟩
        | _ => ⟨.tie, tags, "statement-level model: " ++ go.cls⟩
    | _, _, _ => bad "C14.cut fields"
  | "climatrix", [mflag, avgs, outmode, dumps, exits, text] =>
    match unescape mflag, parseInTrees dumps, exits.toInt?, unescape text with
    | some mflag, some input, some exit, some text =>
      let avg := avgs == "1"
      let model := Cli.matrixCmd mflag avg input
      let trees := (inTrees input).filterMap Cli.InTree.tree?
      let uniq := trees.all fun t => t.tipNames.eraseDups.length == t.tipNames.length
      let allGood := input.toBool && trees.length == (inTrees input).length
      let tags := ["cli", "out-" ++ outmode, "exit-" ++ exits] ++ tagIf avg "avg" ++ tagIf (Cli.metricOfFlag mflag).isNone "bad-metric" ++
        tagIf (!input.toBool) "no-input-file" ++ tagIf (!allGood && input.toBool) "bad-tree" ++ tagIf (trees.length ≥ 2) "several-trees" ++
        tagIf (exit == 0 && text.length > 2) "nontrivial" ++ tagIf (!uniq) "dupnames"
      -- oracle on the bytes the binary wrote: every printed block is the Spec matrix of its tree
      let oracleOK : Bool :=
        match Cli.metricOfFlag mflag, parseMetric (if mflag == "boot" then "boots" else mflag) with
        | some _, some (m, _) =>
          if !uniq || avg then true
          else if allGood && exit != 0 then false   -- readable trees, a valid metric, unique names: the command must succeed
          else
          -- every complete block that was printed is judged, also those before an unreadable tree;
          -- `trees` are the readable trees before it (the reader stops at the first error)
          let blocks := parseBlocksPrefix (trees.length + 2) (lines text)
          blocks.length == trees.length &&
            (List.zipWith (fun (b : List String × List (List Rat)) t => matrixJudge (1 / 1000000000000) m t b.1 b.2) blocks trees).all id
        | _, _ => exit != 0
      -- oracle for --avg: same taxa give the entrywise mean (within the printed precision),
      -- differing taxa or an unreadable tree are an error; a Go panic (exit 2) is never right
      let taxaSame := match trees with
        | [] => true
        | t :: r => r.all fun u => sortNames u.tipNames == sortNames t.tipNames
      let avgOK : Bool :=
        match parseMetric (if mflag == "boot" then "boots" else mflag), (Cli.metricOfFlag mflag) with
        | some (m, _), some _ =>
          if !avg || !uniq || !input.toBool then true
          else if !allGood || !taxaSame then exit != 0
          else if exit != 0 then false
          else match trees, parseBlocks 3 (lines text) with
            | t :: _, some [b] =>
              let names := sortNames t.tipNames
              b.1 == names && b.2.length == names.length &&
              (List.zipWith (fun (a : String) (row : List Rat) => row.length == names.length &&
                (List.zipWith (fun (c : String) (x : Rat) =>
                  let e := (trees.map fun u => if a == c then 0 else pathSum m u a c).sum / ((trees.length : Nat) : Rat)
                  decide ((if x ≥ e then x - e else e - x) * 1000000000000 ≤ 1)) names row).all id) names b.2).all id
            | [], some [b] => b.1.isEmpty
            | _, _ => false
        | _, _ => true
      if exit == 2 then ⟨.oracle, tags, "the command panicked"⟩
      else if !oracleOK then ⟨.oracle, tags, "printed matrix differs from path sums / wrong metric accepted / the command failed on valid input"⟩
      else if !avgOK then ⟨.oracle, tags, "--avg: not the entrywise mean / differing taxa or unreadable tree not rejected"⟩
      else if model.exit != exit.toNat || exit < 0 then ⟨.tie, tags, s!"model exit {model.exit} ({model.msg})"⟩
      else if trees.all exactTree && model.written outmode != text then ⟨.tie, tags, "model text " ++ escape (model.written outmode)⟩
      else if !(trees.all exactTree) && (lines (model.written outmode)).length != (lines text).length then
        ⟨.tie, tags, "model text has another number of lines"⟩   -- digits may differ in the last printed place: values are judged above
      else ⟨.pass, tags, ""⟩
    | _, _, _, _ => bad "C14.climatrix fields"
  | "clicut", [lflag, outmode, dumps, exits, text] =>
    match unescape lflag, parseInTrees dumps, exits.toInt?, unescape text with
    | some lflag, some input, some exit, some text =>
      let lf : Option String := if lflag == "omit" then none else some (String.ofList (lflag.toList.drop 2))
      let model := Cli.cutCmdThrX lf input   -- = Cli.cutCmd on the decimal spellings; also reads inf / infinity / nan, hexadecimal floats, digit separators
      let trees := (inTrees input).filterMap Cli.InTree.tree?
      let uniq := trees.all fun t => t.tipNames.eraseDups.length == t.tipNames.length
      let allGood := input.toBool && trees.length == (inTrees input).length
      let thr : Option Cli.Thr := match lf with | none => some (.fin (1/2)) | some s => Cli.parseThrX s
      let unmodelled := match lf with | some s => Cli.unmodelledSpellingX s | none => false
      let tags := ["cli", "out-" ++ outmode, "exit-" ++ exits] ++ tagIf lf.isNone "l-omitted" ++ tagIf thr.isNone "l-invalid" ++
        tagIf (!input.toBool) "no-input-file" ++ tagIf (!allGood && input.toBool) "bad-tree" ++ tagIf (trees.length ≥ 2) "several-trees" ++
        tagIf (exit == 0 && (lines text).length ≥ 2) "nontrivial" ++ tagIf (!uniq) "dupnames" ++
        tagIf (model.written outmode == text) "fid-text-exact" ++
        tagIf (thr == some .pinf || thr == some .ninf) "l-inf" ++ tagIf (thr == some .nan) "l-nan" ++ tagIf unmodelled "l-unmodelled" ++
        tagIf (match lf with | some s => Cli.hasHexPrefix s.toList | none => false) "l-hex" ++
        tagIf (match lf with | some s => s.toList.contains '_' | none => false) "l-underscore"
      -- oracle: the printed groups of each tree id are the components (Spec), sizes are right
      let oracleOK : Bool :=
        match thr with
        | none => exit != 0
        | some thr =>
          if !uniq then true
          else if allGood && exit != 0 then false   -- a valid file, a valid threshold, unique names: the command must succeed
          else
          -- every group line that was printed is judged, also those before an unreadable tree
          let recs0 := (lines text).map fun l => l.splitOn "\t"
          let recs := if allGood then recs0 else recs0.filter fun r => r.length == 3 && (r.headD "").toNat?.isSome
          recs.all (fun r => r.length == 3 && (r.getD 1 "").toNat? == some ((r.getD 2 "").splitOn ",").length) &&
          (trees.zipIdx.all fun ti =>
            -- NaN: every comparison is false, nothing documents what the groups should be: sizes and success only
            thr == .nan || cutSpecOK (thr.forTree ti.1) ti.1 ((recs.filter fun r => r.headD "" == toString ti.2).map fun r => (r.getD 2 "").splitOn ","))
      if exit == 2 then ⟨.oracle, tags, "the command panicked"⟩
      else if unmodelled then ⟨.pass, "tie-skipped-unmodelled-spelling" :: tags, ""⟩   -- a hexadecimal float with more than 13 digits or a huge exponent
      else if !oracleOK then ⟨.oracle, tags, "printed groups are not the documented components / the command failed on valid input"⟩
      else if model.exit != exit.toNat || exit < 0 then ⟨.tie, tags, s!"model exit {model.exit} ({model.msg})"⟩
      else if sortStrings (lines (model.written outmode)) != sortStrings (lines text) then ⟨.tie, tags, "model text " ++ escape (model.written outmode)⟩
      else ⟨.pass, tags, ""⟩
    | _, _, _, _ => bad "C14.clicut fields"
  | _, _ => bad ("C14: unknown op " ++ op)

/-- history ops: the tree was indexed and measured, then edited through the library, then
    measured; the measurement is judged on the alpha dump AFTER the history (field 4) -/
def handle (op : String) (f : List String) : Verdict :=
  match op, f with
  | "hmatrix", [ms, dump0, _hseed, dump1, itips, imat] =>
    let v := handleBase "matrix" [ms, dump1, itips, imat]
    { v with tags := "history" :: tagIf (dump0 != dump1) "history-changed" ++ v.tags }
  | "hcut", [thrs, dump0, _hseed, dump1, res, ibags] =>
    let v := handleBase "cut" [thrs, dump1, res, ibags]
    { v with tags := "history" :: tagIf (dump0 != dump1) "history-changed" ++ v.tags }
  | "havg", [ms, dumps0, _hseed, dumps1, res, itips, imat] =>
    let v := handleBase "avg" [ms, dumps1, res, itips, imat]
    { v with tags := "history" :: tagIf (dumps0 != dumps1) "history-changed" ++ v.tags }
  | "avgids", [ms, dumps, idss, res, itips, imat] =>
    -- the records of the channel carry arbitrary Ids: the model takes none (theorem avg_ignores_ids)
    match parseIntList idss with
    | none => bad "C14.avgids ids"
    | some ids =>
      let v := handleBase "avg" [ms, dumps, res, itips, imat]
      let consecutive := ids == (List.range ids.length).map Int.ofNat
      { v with tags := "ids-given" :: tagIf (!consecutive) "ids-not-0..n-1" ++ tagIf (ids.all (· == 0) && ids.length ≥ 2) "ids-all-zero" ++ v.tags }
  | "seq", [dump0, ms1, thr1, ms2, thr2, dumpA, tips1, mat1, res1, bags1, tips2, mat2, res2, bags2, tipIds, edgeIds] =>
    -- ONE in-memory tree measured four times: every measurement is judged on the tree as built, and the
    -- tree re-read after the last one must be the tree as built (branch ids apart)
    match T.undump dump0, parseNatList tipIds, parseNatList edgeIds with
    | some t, some tids, some eids =>
      let g := Go.G.ofT t
      let vs := [handleBase "matrix" [ms1, dump0, tips1, mat1], handleBase "cut" [thr1, dump0, res1, bags1],
                 handleBase "matrix" [ms2, dump0, tips2, mat2], handleBase "cut" [thr2, dump0, res2, bags2]]
      let unchanged := match T.undump dumpA with
        | some a => (Go.stripIds a).beq (Go.stripIds t)
        | none => false
      let uniq := t.tipNames.eraseDups.length == t.tipNames.length
      let tags := ["seq"] ++ tagIf unchanged "tree-unchanged" ++
        tagIf (tids == Go.tipIdsAfterMatrix g) "fid-tipids-exact" ++ tagIf (eids == Go.edgeIdsAfterCut g) "fid-edgeids-exact" ++
        tagIf (ms1 != ms2) "seq-two-metrics" ++ (vs.flatMap (·.tags)).eraseDups
      if !unchanged then ⟨.oracle, tags, "a measurement changed the tree: after " ++ dumpA⟩
      else match vs.find? (fun v => v.status != .pass) with
        | some v => { v with tags := tags, detail := "in a sequence of measurements on one tree: " ++ v.detail }
        | none =>
          if uniq && tids != Go.tipIdsAfterMatrix g then ⟨.tie, tags, "node ids left by ToDistanceMatrix differ from SetId(rank)"⟩
          else if eids != Go.edgeIdsAfterCut g then ⟨.tie, tags, "branch ids left by CutEdgesMaxLength differ from SetId(i)"⟩
          else ⟨.pass, tags, ""⟩
    | _, _, _ => bad "C14.seq fields"
  | "tipbag", [dump, script, results] =>
    match T.undump dump, (parseStrList script).bind Go.parseBagOps, parseStrLists results with
    | some t, some ops, some res =>
      let g := Go.G.ofT t
      let model := Go.bagRun g ops []
      let cls := fun (r : List String) => if r.head? == some "err" then ["err"] else r
      let nAdd := ops.filter fun o => match o with | .add _ => true | _ => false
      let tags := ["tipbag"] ++ tagIf (res.any fun r => r.length ≥ 2 && r.head? != some "err") "nontrivial" ++
        tagIf (ops.any fun o => match o with | .add none => true | _ => false) "bag-nil" ++
        tagIf (ops.any fun o => match o with | .clear => true | _ => false) "bag-clear" ++
        tagIf (res.any fun r => r == ["err", "Internal node given to TipBag.AddTip"]) "bag-internal" ++
        tagIf (res.any fun r => r.head? == some "err" && (r.getD 1 "").startsWith "TipBag.AddTip: TipBag already") "bag-other-tip-same-name" ++
        tagIf (nAdd.length != (nAdd.map fun o => match o with | .add (some n) => n | _ => 0).eraseDups.length) "bag-same-tip-twice" ++
        tagIf (model == res) "fid-errtext-exact"
      if res.any (fun r => r.head? == some "panic") then ⟨.oracle, tags, "TipBag panicked"⟩
      else if !(Go.bagSpecOK g ops res []) then ⟨.oracle, tags, "TipBag results are not what tipbags.go documents"⟩
      else if model.map cls != res.map cls then ⟨.tie, tags, "model results " ++ showStrLists model⟩
      else ⟨.pass, tags, ""⟩
    | _, _, _ => bad "C14.tipbag fields"
  | _, _ => handleBase op f

end Gotree.Driver.C14
