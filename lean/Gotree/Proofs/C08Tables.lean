/-
  C08 — the theorems that depend on a table regenerated from the working tree
  (`Gotree/Gen/C08Glue.lean`, written by harness/c08/extract.go).  Kept apart from Proofs/C08.lean
  so that nothing another property may import depends on a `Gen` module.  Audited by bin/check
  together with Proofs/C08.lean.
-/
import Gotree.Proofs.C08
import Gotree.Gen.C08Glue

namespace Gotree.C08
open Gotree

/-- the table regenerated from the working tree (flags of the command; calls, formats and
    assignments of RunE with their flag tests; comparison operators, index calls, stats records
    and the "no length" marker of the library functions) says what the table the model was written from says (`glueOK`: comparisons up to equivalence on probes, local names normalised by the extractor) -/
theorem glue_check : glueOK Gotree.Gen.C08Glue.glue expectedGlue = true := by decide

/-- comparisons are compared by what they compute: `cpus <= 0` and `1 > cpus` stand for `cpus < 1`,
    `cpus < 0` does not -/
example : cmpEquiv ⟨"Compare", .var "p4", "<=", .lit 0⟩ ⟨"Compare", .var "p4", "<", .lit 1⟩ = true ∧
    cmpEquiv ⟨"Compare", .lit 1, ">", .var "p4"⟩ ⟨"Compare", .var "p4", "<", .lit 1⟩ = true ∧
    cmpEquiv ⟨"Compare", .var "p4", "<", .lit 0⟩ ⟨"Compare", .var "p4", "<", .lit 1⟩ = false := by decide

end Gotree.C08
