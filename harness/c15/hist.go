package c15

import (
	"fmt"
	"math/rand"
	"strconv"
	"strings"

	"verifharness/core"

	"github.com/evolbioinfo/gotree/tree"
)

// Aliasing histories: a copy (Clone / SubTree) is made, then an edit script is applied to
// one of the two trees while the α dump and the Newick text of the other one (the twin)
// are re-read after every step.

func dotPath(p []int) string {
	s := make([]string, len(p))
	for i, v := range p {
		s[i] = strconv.Itoa(v)
	}
	return strings.Join(s, ".")
}

func undot(s string) []int {
	if s == "" {
		return nil
	}
	var out []int
	for _, f := range strings.Split(s, ".") {
		v, _ := strconv.Atoi(f)
		out = append(out, v)
	}
	return out
}

var editKinds = []string{"reroot", "prune", "collapse", "rename", "setlen", "setsup", "ncmt", "ecmt", "nclr", "eclr",
	"nni", "graft", "insid", "rmsingle", "unroot", "resolve", "clearsup", "scale", "setid", "clrall", "rotate", "shuffle",
	"nclr", "eclr", "ncmt", "ecmt", "setlen", "rename"}

// genEdit draws one edit token for the current state of the edited tree.
func genEdit(g *core.G, cur *core.N, step int) string {
	paths := cur.Paths()
	p := paths[g.Intn(len(paths))]
	var inner [][]int
	for _, q := range paths {
		if x := cur.At(q); len(q) > 0 && len(x.Kids) > 0 {
			inner = append(inner, q)
		}
	}
	tips := cur.TipNames()
	rat := func() string { return core.Rat(float64(g.Intn(40)) / 8) }
	cm := []string{"&x=1", "c", "a b", "zz", "k;(),:[", ""}[g.Intn(6)]
	k := editKinds[g.Intn(len(editKinds))]
	switch k {
	case "reroot":
		if len(inner) > 0 && g.Chance(0.8) {
			p = inner[g.Intn(len(inner))]
		}
		return "reroot:" + dotPath(p)
	case "prune":
		if len(tips) == 0 {
			return "unroot"
		}
		return "prune:" + core.Escape(tips[g.Intn(len(tips))])
	case "collapse":
		return "collapse:" + rat()
	case "rename":
		return "rename:" + dotPath(p) + ":" + core.Escape(fmt.Sprintf("r%d_%d", step, g.Intn(100)))
	case "setlen", "setsup":
		return k + ":" + dotPath(p) + ":" + rat()
	case "ncmt", "ecmt", "nclr", "eclr":
		return k + ":" + dotPath(p) + ":" + core.Escape(cm)
	case "nni":
		return fmt.Sprintf("nni:%d", g.Intn(6))
	case "graft":
		if len(tips) == 0 {
			return "unroot"
		}
		gn := genTree(g, fmt.Sprintf("h%d_", step), 2)
		return "graft:" + core.Escape(tips[g.Intn(len(tips))]) + ":" + core.Escape(gn.Dump())
	case "insid":
		if len(tips) == 0 {
			return "unroot"
		}
		return "insid:" + core.Escape(tips[g.Intn(len(tips))]) + ":" + core.Escape(fmt.Sprintf("i%d", step))
	case "resolve", "rotate", "shuffle":
		return fmt.Sprintf("%s:%d", k, g.Intn(1000))
	case "scale":
		return "scale:" + []string{"2", "1/2", "0", "4"}[g.Intn(4)]
	case "setid":
		return fmt.Sprintf("setid:%s:%d", dotPath(p), g.Intn(50))
	}
	return k // rmsingle unroot clearsup clrall delete
}

// applyEdit runs one edit token on the real code.
func applyEdit(t *tree.Tree, tok string) string {
	f := strings.Split(tok, ":")
	arg := func(i int) string {
		if i < len(f) {
			return f[i]
		}
		return ""
	}
	str := func(i int) string {
		s, err := core.Unescape(arg(i))
		if err != nil {
			panic(err)
		}
		return s
	}
	num := func(i int) float64 {
		v, err := core.ParseRat(arg(i))
		if err != nil {
			panic(err)
		}
		return v
	}
	var err error
	skipped := false
	p, msg := core.Safe(func() {
		switch f[0] {
		case "reroot":
			n, _, e := core.NodeAt(t, undot(arg(1)))
			if e != nil {
				skipped = true
				return
			}
			err = t.Reroot(n)
		case "prune":
			err = t.RemoveTips(false, str(1))
		case "collapse":
			t.CollapseShortBranches(num(1), false, false)
		case "rename":
			n, _, e := core.NodeAt(t, undot(arg(1)))
			if e != nil {
				skipped = true
				return
			}
			n.SetName(str(2))
			err = t.UpdateTipIndex()
		case "setlen", "setsup", "ecmt", "eclr":
			_, ed, e := core.NodeAt(t, undot(arg(1)))
			if e != nil || ed == nil {
				skipped = true
				return
			}
			switch f[0] {
			case "setlen":
				ed.SetLength(num(2))
			case "setsup":
				ed.SetSupport(num(2))
			case "ecmt":
				ed.AddComment(str(2))
			case "eclr":
				ed.ClearComments()
				ed.AddComment(str(2))
			}
		case "ncmt", "nclr":
			n, _, e := core.NodeAt(t, undot(arg(1)))
			if e != nil {
				skipped = true
				return
			}
			if f[0] == "nclr" {
				n.ClearComments()
			}
			n.AddComment(str(2))
		case "setid":
			n, ed, e := core.NodeAt(t, undot(arg(1)))
			if e != nil {
				skipped = true
				return
			}
			v, _ := strconv.Atoi(arg(2))
			n.SetId(v)
			if ed != nil {
				ed.SetId(v)
			}
		case "nni":
			k, _ := strconv.Atoi(arg(1))
			i := 0
			done := false
			(&tree.NNIRearranger{}).Rearrange(t, func(r tree.Rearrangement) bool {
				if i == k {
					err = r.Apply()
					done = true
					return false
				}
				i++
				return true
			})
			if !done {
				skipped = true
			}
		case "graft":
			gn, e := core.ParseDump(str(2))
			if e != nil {
				panic(e)
			}
			err = t.GraftTreeOnTip(str(1), build(gn, true))
		case "insid":
			err = t.InsertIdenticalTips([][]string{{str(1), str(2)}})
		case "rmsingle":
			t.RemoveSingleNodes()
		case "unroot":
			t.UnRoot()
		case "resolve":
			s, _ := strconv.Atoi(arg(1))
			rand.Seed(int64(s))
			t.Resolve()
		case "rotate":
			s, _ := strconv.Atoi(arg(1))
			rand.Seed(int64(s))
			t.RotateInternalNodes()
		case "shuffle":
			s, _ := strconv.Atoi(arg(1))
			rand.Seed(int64(s))
			t.ShuffleTips()
		case "clearsup":
			t.ClearSupports()
		case "scale":
			t.ScaleLengths(num(1), true, true)
		case "clrall":
			t.ClearComments()
		case "delete":
			t.Delete()
		default:
			panic("unknown edit " + f[0])
		}
	})
	if p {
		return "panic:" + core.Escape(msg)
	}
	if skipped {
		return "skip"
	}
	if err != nil {
		return "err"
	}
	return "ok"
}

// runHistory executes one history.  script == nil: draw `gen` steps on the fly.
func runHistory(c *core.Ctx, kind, side string, n *core.N, path []int, script []string, gen int) {
	t := build(n, true)
	var cp *tree.Tree
	if kind == "clone" {
		cp = t.Clone()
	} else {
		node, _, err := core.NodeAt(t, path)
		if err != nil {
			panic(err)
		}
		cp = t.SubTree(node)
	}
	edited, twin := cp, t
	if side == "orig" {
		edited, twin = t, cp
	}
	twin0, wf0 := read(twin)
	txt0 := text(twin)
	ia0 := indexAnswers(twin, nil) // the tip index (a map owned by the Tree struct) is part of the twin
	raw0 := heapRaw(twin)          // and so is every cell: same addresses, same wiring
	var wfs []string
	if wf0 != "" {
		wfs = append(wfs, "start: "+wf0)
	}
	steps := len(script)
	if script == nil {
		steps = gen
	}
	var toks, outs, twins, txts []string
	changed := 0
	twinBad := false
	prev, _ := read(edited)
	for i := 0; i < steps; i++ {
		var tok string
		if side == "both" {
			// alternating history: each step edits one of the two trees (prefix c~ / o~ of the
			// token); the OTHER one is read before and after the step
			which := ""
			if script != nil {
				which = script[i][:2]
			} else if c.G.Chance(0.5) {
				which = "c~"
			} else {
				which = "o~"
			}
			if which == "c~" {
				edited, twin = cp, t
			} else {
				edited, twin = t, cp
			}
			prev, _ = read(edited)
			b, wfb := read(twin)
			twinBad = wfb != "" // broken by its own earlier edits: not this step's business
			ia0 = indexAnswers(twin, nil)
			raw0 = heapRaw(twin)
			twins = append(twins, b)
			txts = append(txts, text(twin))
		}
		if script != nil {
			tok = script[i]
		} else {
			cur, wf := core.Alpha(edited)
			if cur == nil || !wf.OK() {
				if side == "both" {
					twins = twins[:len(twins)-1]
					txts = txts[:len(txts)-1]
				}
				break
			}
			if i == gen-1 && c.G.Chance(0.1) {
				tok = "delete"
			} else {
				tok = genEdit(c.G, cur, i)
			}
			if side == "both" {
				if edited == cp {
					tok = "c~" + tok
				} else {
					tok = "o~" + tok
				}
			}
		}
		raw := tok
		if side == "both" {
			raw = tok[2:]
		}
		oc := applyEdit(edited, raw)
		now, _ := read(edited)
		if now != prev {
			changed++
		}
		prev = now
		d, wf := read(twin)
		toks = append(toks, tok)
		outs = append(outs, oc)
		twins = append(twins, d)
		txts = append(txts, text(twin))
		if wf != "" && !twinBad {
			wfs = append(wfs, fmt.Sprintf("step %d: %s", i+1, wf))
		}
		if raw := heapRaw(twin); raw != raw0 && !twinBad {
			wfs = append(wfs, fmt.Sprintf("step %d: the pointer graph of the tree that was not edited changed (a cell was replaced or rewired)", i+1))
		}
		if ia := indexAnswers(twin, nil); ia != ia0 && !twinBad {
			wfs = append(wfs, fmt.Sprintf("step %d: the tip index of the tree that was not edited changed from %s to %s", i+1, ia0, ia))
		}
	}
	var tw strings.Builder
	for _, d := range twins {
		tw.WriteString(d)
		tw.WriteByte('|')
	}
	var tx strings.Builder
	for _, s := range txts {
		tx.WriteString(s) // already escaped
		tx.WriteByte(',')
	}
	c.Emit("C15.hist", kind, side, n.Dump(), pathStr(path), core.StrList(toks), core.StrList(outs), strconv.Itoa(changed),
		twin0, txt0, tw.String(), tx.String(), strings.Join(wfs, "; "))
}

func historyCase(c *core.Ctx) {
	g := c.G
	n := genTree(g, "t", 2)
	o := opts(g)
	if g.Chance(0.5) { // more comments: they are what a shallow copy would share
		o.Comments = 0.6
		o.TipPrefix = "t"
		n, _ = g.Tree(o)
		core.NumberEdges(n)
	}
	kind, side := "clone", "copy"
	var path []int
	if g.Chance(0.35) {
		kind = "subtree"
		var inner [][]int
		for _, q := range n.Paths() {
			if len(n.At(q).Kids) > 0 {
				inner = append(inner, q)
			}
		}
		path = inner[g.Intn(len(inner))]
	}
	if g.Chance(0.5) {
		side = "orig"
	}
	if g.Chance(0.25) {
		side = "both"
	}
	runHistory(c, kind, side, n, path, nil, 3+g.Intn(6))
}
