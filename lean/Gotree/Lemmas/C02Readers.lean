/-
  C02 — the reader entry points never crash.
-/
import Gotree.Lemmas.C02Nexus
import Gotree.Lemmas.C02
namespace Gotree.C02.Readers
open Gotree Gotree.C02

theorem lastCharRev_no_panic : ∀ (l : List UInt8), l ≠ [] → ∀ m, lastCharRev false l ≠ .panic m
  | [], h, _ => absurd rfl h
  | [b], _, m => by unfold lastCharRev; simp
  | b :: c :: r, _, m => by
    unfold lastCharRev
    split
    · exact lastCharRev_no_panic (c :: r) (by simp) m
    · simp

theorem readUntilSemiColonRev_no_panic : ∀ (cs : List Chunk) (ln : List UInt8) (m : String),
    readUntilSemiColonRev false cs ln ≠ .panic m
  | [], ln, m => by
    unfold readUntilSemiColonRev
    split
    · simp
    · rename_i a r
      split
      · simp
      · simp
      · rename_i m' hp
        exact absurd hp (lastCharRev_no_panic _ (by simp) m')
  | c :: rest, ln, m => by
    unfold readUntilSemiColonRev
    simp only
    split
    · exact readUntilSemiColonRev_no_panic rest _ m
    · rename_i a r hl
      split
      · split
        · exact readUntilSemiColonRev_no_panic rest _ m
        · simp
      · simp
      · rename_i m' hp
        exact absurd hp (lastCharRev_no_panic _ (by rw [hl]; simp) m')

theorem readUntilSemiColon_no_panic (cs : List Chunk) (ln : List UInt8) (m : String) :
    readUntilSemiColon false cs ln ≠ .panic m := readUntilSemiColonRev_no_panic cs _ m

theorem lineLoop_no_panic (cs : List Char) (id : Nat) : ∀ m : String, lineLoop cs id ≠ .panic m := by
  fun_induction lineLoop cs id
  case case1 cs id m' hp => intro m; exact absurd hp (Newick.run_no_panic {} cs (Or.inl rfl) m')
  case case5 cs id p hp hm m' hl ih => intro m; exact absurd hl (ih m')
  all_goals (intro m; simp)

theorem multiLoop_not_crashed (line : Line) (id : Nat) (he : line.err = false) :
    (multiLoop false line id he).crashed = false := by
  fun_induction multiLoop false line id he
  case case1 line id he m hp => exact absurd hp (lineLoop_no_panic _ _ m)
  case case4 line id he o hl hf m h => exact absurd h (readUntilSemiColon_no_panic _ _ _)
  case case7 line id he o hl hf next h hn hne ih => exact ih
  all_goals simp [ROut.crashed]

theorem multiNewickWith_not_crashed (chunks : List Chunk) : (multiNewickWith false chunks).crashed = false := by
  unfold multiNewickWith
  split
  · rename_i m h; exact absurd h (readUntilSemiColon_no_panic _ _ _)
  · rfl
  · split
    · exact multiLoop_not_crashed _ _ _
    · rfl

/-- all the records carry a tree -/
def allTrees (rs : List Rec) : Bool := rs.all (·.tree.isSome)

theorem errOnlyLast_cons_tree (r : Rec) (rs : List Rec) (hr : r.tree.isSome = true) (h : errOnlyLast rs = true) :
    errOnlyLast (r :: rs) = true := by
  cases rs with
  | nil => rfl
  | cons a t => simp [errOnlyLast, hr, h]

theorem errOnlyLast_append (a b : List Rec) (ha : allTrees a = true) (hb : errOnlyLast b = true) :
    errOnlyLast (a ++ b) = true := by
  induction a with
  | nil => exact hb
  | cons r t ih =>
    simp only [allTrees, List.all_cons, Bool.and_eq_true] at ha
    exact errOnlyLast_cons_tree r (t ++ b) ha.1 (ih (by simpa [allTrees] using ha.2))

theorem errOnlyLast_of_allTrees (a : List Rec) (ha : allTrees a = true) : errOnlyLast a = true := by
  have := errOnlyLast_append a [] ha rfl
  simpa using this

/-- the inner loop over one line: ids count up from `id`, at least one record, only the last may be an error;
    if it did not fail every record is a tree and the next id follows the last one -/
theorem lineLoop_shape (cs : List Char) (id : Nat) (o : LineOut) (h : lineLoop cs id = .ok o) :
    ids o.recs = List.range' id o.recs.length ∧ errOnlyLast o.recs = true ∧ o.recs ≠ [] ∧
    (o.failed = false → allTrees o.recs = true ∧ o.next = id + o.recs.length) := by
  fun_induction lineLoop cs id generalizing o
  case case2 cs id m hp =>
    cases h; simp [ids, errOnlyLast, List.range']
  case case3 cs id p hp hm o' hl ih =>
    cases h
    have ⟨i1, i2, i3, i4⟩ := ih o' hl
    refine ⟨?_, ?_, by simp, ?_⟩
    · simp only [ids, List.map_cons, List.length_cons, List.range'] at *
      rw [i1]
    · exact errOnlyLast_cons_tree _ _ rfl i2
    · intro hf
      have ⟨a1, a2⟩ := i4 hf
      refine ⟨by simpa [allTrees] using a1, ?_⟩
      simp only [List.length_cons]; omega
  case case6 cs id p hp hm =>
    cases h; simp [ids, errOnlyLast, List.range', allTrees]
  all_goals simp at h

theorem ids_append (a b : List Rec) : ids (a ++ b) = ids a ++ ids b := by simp [ids]

theorem range'_append' (s m n : Nat) : List.range' s m ++ List.range' (s + m) n = List.range' s (m + n) := by
  have := List.range'_append (s := s) (m := m) (n := n) (step := 1)
  simpa using this

theorem multiLoop_shape (line : Line) (id : Nat) (he : line.err = false)
    (rs : List Rec) (h : multiLoop false line id he = .ok rs) :
    ids rs = List.range' id rs.length ∧ errOnlyLast rs = true ∧ rs ≠ [] := by
  fun_induction multiLoop false line id he generalizing rs
  case case3 line id he o hl hf =>
    cases h
    have ⟨i1, i2, i3, _⟩ := lineLoop_shape _ _ o hl
    exact ⟨i1, i2, i3⟩
  case case6 line id he o hl hf next hr hn rs' hm ih =>
    cases h
    have ⟨i1, _, i3, i4⟩ := lineLoop_shape _ _ o hl
    have hf' : o.failed = false := by cases hh : o.failed <;> simp_all
    have ⟨a1, a2⟩ := i4 hf'
    have ⟨j1, j2, j3⟩ := ih rs' hm
    refine ⟨?_, errOnlyLast_append _ _ a1 j2, by simp [i3]⟩
    rw [ids_append, i1, j1, a2, List.length_append, range'_append']
  case case7 line id he o hl hf next hr hn hne ih => exact absurd h (hne rs)
  case case8 line id he o hl hf next hr hn =>
    cases h
    have ⟨i1, i2, i3, i4⟩ := lineLoop_shape _ _ o hl
    have hf' : o.failed = false := by cases hh : o.failed <;> simp_all
    have ⟨a1, a2⟩ := i4 hf'
    split
    · simp [i1, i2, i3]
    · refine ⟨?_, errOnlyLast_append _ _ a1 rfl, by simp [i3]⟩
      rw [ids_append, i1, List.length_append]
      simp only [ids, List.map_cons, List.map_nil, List.length_cons, List.length_nil, a2]
      rw [← range'_append']
      rfl
  all_goals simp at h

/-- the records of the multi-tree reader are numbered 0, 1, 2, …; only the last one may carry an error -/
theorem multiNewick_shape (chunks : List Chunk) (rs : List Rec) (h : multiNewick chunks = .ok rs) :
    ids rs = List.range rs.length ∧ errOnlyLast rs = true ∧ rs ≠ [] := by
  unfold multiNewick multiNewickWith at h
  rw [List.range_eq_range']
  split at h
  · cases h
  · cases h
  · split at h
    · exact multiLoop_shape _ _ _ rs h
    · cases h; simp [ids, errOnlyLast, List.range']

theorem derefF_some (p : Option Rat) (h : p.isSome = true) (m : String) : derefF p ≠ .panic m := by
  cases p with
  | none => simp at h
  | some v => simp [derefF]

mutual
theorem pxClade_no_panic : ∀ (c : Clade) (n : Nat) (m : String), pxClade {} c n ≠ .panic m
  | .mk name sci code len conf kids, n, m => by
    unfold pxClade
    split
    · rename_i m' h
      split at h
      · rename_i hl; exact absurd h (derefF_some len hl m')
      · cases h
    · simp
    · split
      · rename_i m' h
        split at h
        · rename_i hc
          have : conf.isSome = true := by simp at hc; exact hc.2
          exact absurd h (derefF_some conf this m')
        · cases h
      · simp
      · simp only
        split
        · rename_i m' h; exact absurd h (pxKids_no_panic kids _ m')
        · simp
        · repeat' split
          all_goals simp
theorem pxKids_no_panic : ∀ (k : List Clade) (n : Nat) (m : String), pxKids {} k n ≠ .panic m
  | [], n, m => by unfold pxKids; simp
  | c :: r, n, m => by
    unfold pxKids
    split
    · rename_i m' h; exact absurd h (pxClade_no_panic c n m')
    · simp
    · split
      · rename_i m' h; exact absurd h (pxKids_no_panic r _ m')
      · simp
      · simp
end

theorem pxTree_no_panic (c : Clade) (m : String) : pxTree c ≠ .panic m := by
  cases c with
  | mk name sci code len conf kids =>
    unfold pxTree pxTreeWith
    simp only
    split
    · rename_i m' h; exact absurd h (pxKids_no_panic kids 0 m')
    · simp
    · repeat' split
      all_goals simp

theorem pxRecs_no_panic : ∀ (ps : List Clade) (id : Nat) (m : String), pxRecs ps id ≠ .panic m
  | [], _, m => by unfold pxRecs; simp
  | p :: r, id, m => by
    unfold pxRecs
    have ih := pxRecs_no_panic r (id + 1)
    split
    · rename_i m' h; exact absurd h (pxTree_no_panic p m')
    · split
      · simp
      · rename_i o ho; intro h; rw [h] at ho; exact ih m (by cases hr : pxRecs r (id+1) <;> simp_all)
    · split
      · simp
      · rename_i o ho; intro h; rw [h] at ho; exact ih m (by cases hr : pxRecs r (id+1) <;> simp_all)

end Gotree.C02.Readers
