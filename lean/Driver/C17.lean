import Driver.Proto
import Gotree.Model.C17
import Gotree.Model.C17Cli
import Gotree.Model.C17Heap
import Gotree.Model.C17Global
import Gotree.Spec.C17

namespace Gotree.Driver.C17
open Gotree Gotree.Driver Gotree.C17 Gotree.C17.Spec

/-- one callback of the enumeration as the harness saw it -/
structure Rec where
  applyOut : String
  wf1 : String
  dump1 : String
  text1 : String
  undoOut : String
  wf2 : String
  dump2 : String
  text2 : String

def parseRec (before text : String) (s : String) : Option Rec :=
  match s.splitOn ";" with
  | [a, w1, d1, t1, u, w2, d2, t2] =>
    some ⟨a, w1, d1, t1, u, w2, if d2 == "=" then before else d2, if t2 == "=" then text else t2⟩
  | _ => none

inductive Mode | plain | double | stop (k : Nat) | collect (order : String) | score

def parseMode (s : String) : Option Mode :=
  match s.splitOn ":" with
  | ["plain"] => some .plain
  | ["double"] => some .double
  | ["score"] => some .score
  | ["collect"] => some (.collect "order")
  | ["collect-rev"] => some (.collect "rev")
  | ["collect-mix"] => some (.collect "mix")
  | ["stop", k] => k.toNat?.map .stop
  | _ => none

def sortSets (l : List SplitSet) : List String := sortStrings (l.map showStrLists)

/-- every branch with its data, as the unrooted view shows it (tie: the changed branch keeps its
    length and support in the model) -/
def dataKeyV (v : View) : String :=
  String.join (v.us.map fun u => showStrList u.side ++ ":" ++ showRat u.len ++ ":" ++ showRat u.sup ++ ";") ++ "|" ++
  String.join (v.tl.map fun p => showStrList p.1 ++ ":" ++ showRat p.2 ++ ";")

def dataKey (t : T) : String :=
  String.join (t.usplits.map fun u => showStrList u.side ++ ":" ++ showRat u.len ++ ":" ++ showRat u.sup ++ ";") ++ "|" ++
  String.join (t.tipLens.map fun p => showStrList p.1 ++ ":" ++ showRat p.2 ++ ";")

def firstSome {α} (l : List (Option α)) : Option α := l.findSome? id

/-- Trees outside the property's scope (not binary): what the theorems still say of ANY tree —
    two rearrangements per branch with both ends of degree three, same tips, exact restoration —
    is evaluated on the implementation's output, and the model is compared exactly. -/
def handleGeneral (m : Mode) (before text : String) (t : T) (recs : List Rec) (calls : Nat)
    (wfF dumpF textF : String) (tags : List String) : Verdict :=
  let rs := rearrangements t
  let perRec : List (Option String) := (recs.zip (List.range recs.length)).map fun (r, i) =>
    let at_ := " at rearrangement " ++ toString i
    if r.applyOut != "ok" then some ("Apply: " ++ r.applyOut ++ at_)
    else if r.wf1 != "ok" then some ("tree malformed after Apply: " ++ r.wf1 ++ at_)
    else match T.undump r.dump1 with
      | none => some ("unreadable dump after Apply" ++ at_)
      | some t1 =>
        if !(sameTips t t1 && t1.rooted == t.rooted) then some ("neighbour on other tips" ++ at_)
        else if r.undoOut != "ok" then some ("Undo: " ++ r.undoOut ++ at_)
        else if r.wf2 != "ok" then some ("tree malformed after Undo: " ++ r.wf2 ++ at_)
        else if r.dump2 != before then some ("Undo does not restore the tree (dump differs)" ++ at_)
        else if r.text2 != text then some ("Undo does not restore the text" ++ at_)
        else none
  let want := 2 * deg3Branches t
  let callsOK : Bool := match m with
    | .stop k => if k = 0 || calls < k then calls == want else calls == k && k ≤ want
    | _ => calls == want
  let finalBad : Option String :=
    if wfF != "ok" then some ("tree malformed after the enumeration: " ++ wfF)
    else if dumpF != before then some "tree changed by the enumeration (dump differs)"
    else if textF != text then some "text changed by the enumeration"
    else if !callsOK then some ("proposed " ++ toString calls ++ " rearrangements, " ++ toString (deg3Branches t) ++
      " branches have both ends of degree three")
    else none
  match firstSome (perRec ++ [finalBad]) with
  | some msg => ⟨.oracle, tags, msg⟩
  | none =>
    let nsT : List T := recs.filterMap fun r => T.undump r.dump1
    let mns := ((rs.map (apply t)).filterMap id).take calls
    let exact := mns.length == nsT.length && (List.zipWith (fun a b => a == b) mns nsT).all id
    let msets := sortSets (((rs.map (apply t)).filterMap id).map (·.usplitSet))
    let isets := sortSets (nsT.map (·.usplitSet))
    if (rs.map (apply t)).any (·.isNone) then ⟨.tie, tags, "model Apply fails"⟩
    else if !(isets.all msets.contains) then ⟨.tie, tags, "model neighbours differ (split sets)"⟩
    else ⟨.pass, tags ++ tagIf exact "exact", ""⟩

def handleEnum (m : Mode) (before text : String) (t : T) (recs : List Rec) (calls : Nat)
    (wfF dumpF textF : String) : Verdict :=
  -- the oracle's view of the input tree, computed once (`neighbourOK2V_eq`, `f22RegionV_eq`:
  -- the predicates on views are the Spec predicates on the trees)
  let tv := viewOf1 t
  let inner := tv.set.length
  let rs := rearrangements t
  let scope := inScope1 t
  let tags := tagIf t.rooted "rooted" ++ tagIf (!t.rooted) "unrooted" ++ tagIf (inner ≥ 2) "nontrivial" ++
    tagIf scope "inscope" ++ tagIf (tipRooted t) "tip-rooted" ++ tagIf (pposOK t) "pposok" ++ tagIf (rs.any (·.bUp)) "rootside" ++
    tagIf ((rootSplit t).isSome && t.rooted) "f22region" ++
    tagIf (t.kids.any fun k => k.2.isLeaf) "tip-at-root" ++
    tagIf (innerBranchesShape t == inner) "shapecount" ++
    (match m with | .plain => ["plain"] | .double => ["double"] | .stop _ => ["stop"] | .collect o => ["collect", "collect-" ++ o] | .score => ["score"])
  if !scope then
    (if t.uniqueTips then handleGeneral m before text t recs calls wfF dumpF textF ("general" :: tags)
     else ⟨.pass, "skip-dupnames" :: tags, ""⟩) else
  -- ORACLE, on the implementation's own output only
  let ns : List (Option T) := recs.map fun r => T.undump r.dump1
  let nsT : List T := ns.filterMap id
  let nvo : List (Option View) := ns.map (·.map viewOf1)
  let nviews : List View := nvo.filterMap id
  let perRec : List (Option String) := ((recs.zip nvo).zip (List.range recs.length)).map fun ((r, ov), i) =>
    let at_ := " at rearrangement " ++ toString i
    if r.applyOut != "ok" then some ("Apply: " ++ r.applyOut ++ at_)
    else if r.wf1 != "ok" then some ("tree malformed after Apply: " ++ r.wf1 ++ at_)
    else match ov with
      | none => some ("unreadable dump after Apply" ++ at_)
      | some v1 =>
        if !(neighbourOK2V tv v1) then
          some ((if !(v1.binary && v1.unique && tv.tips == v1.tips && v1.rooted == tv.rooted) then "neighbour not a binary tree on the same tips"
                 else if !(oneSplitApart tv.set v1.set) then "neighbour does not differ by exactly one split"
                 else "a branch other than the changed one lost its split, length or support (or a tip branch its length)") ++ at_)
        else if r.undoOut != "ok" then some ("Undo: " ++ r.undoOut ++ at_)
        else if r.wf2 != "ok" then some ("tree malformed after Undo: " ++ r.wf2 ++ at_)
        else if r.dump2 != before then some ("Undo does not restore the tree (dump differs)" ++ at_)
        else if r.text2 != text then some ("Undo does not restore the text" ++ at_)
        else none
  let distinct := pairwiseDistinct (nviews.map (·.set))
  -- did the enumeration run to its end (the callback never answered false)?
  let exhaustive : Bool := match m with | .stop k => k = 0 || calls < k | _ => true
  let callsOK : Bool := match m with
    | .stop k => if k = 0 || calls < k then calls == 2 * inner else calls == k && k ≤ 2 * inner
    | _ => calls == 2 * inner
  let full := exhaustive
  let finalBad : Option String :=
    if wfF != "ok" then some ("tree malformed after the enumeration: " ++ wfF)
    else if dumpF != before then some "tree changed by the enumeration (dump differs)"
    else if textF != text then some "text changed by the enumeration"
    else none
  let other : Option String := firstSome (perRec ++ [if distinct then none else some "two proposed neighbours are the same tree", finalBad,
      if calls != recs.length then some "harness: calls and records differ" else none])
  -- TIE, on obs_C17: number of rearrangements, split set of each neighbour (as a multiset),
  -- and the model's undo of the implementation's neighbour
  let mcalls := match m with | .stop k => callsUntil t k | _ => rs.length
  let mall : List (Option T) := rs.map (apply t)
  let mallT := mall.filterMap id
  let mnsT := mallT.take calls
  -- the order of the enumeration is not part of obs_C17: the neighbours are compared as a
  -- multiset, and when the callback stopped the enumeration, as a sub-multiset of the model's
  let mviews := mallT.map viewOf1
  let msets := sortSets (mviews.map (·.set))
  let isets := sortSets (nviews.map (·.set))
  let mdata := sortStrings (mviews.map dataKeyV)
  let idata := sortStrings (nviews.map dataKeyV)
  let exact := mnsT.length == nsT.length && (List.zipWith (fun a b => a == b) mnsT nsT).all id
  -- the model's Undo on the implementation's neighbour: for every neighbour that is, as a dump, one
  -- of the model's (whatever the order of the enumeration); `matched` counts them
  let pairs : List (NNI × T) := (rs.zip mall).filterMap fun (r, o) => o.map fun x => (r, x)
  -- (in enumeration order when the sequences are equal, otherwise by search)
  let mpairs : List (T × Option NNI) :=
    if exact then nsT.zip ((rs.take calls).map some)
    else nsT.map fun n => (n, (pairs.find? fun p => p.2 == n).map (·.1))
  let matched := (mpairs.filter fun p => p.2.isSome).length
  let undoOK := mpairs.all fun (n, o) => match o with
    | some r => (match undo n r with | some u => u == t | none => false)
    | none => true
  -- `double` mode: the model goes through the `applied` flag as the harness does
  -- (Apply, Apply, look, Undo, Undo, look)
  let objOK : Bool := match m with
    | .double => mpairs.all fun (n, o) =>
        match o with
        | none => true
        | some r =>
        match (Obj.mk r false).apply t with
        | none => false
        | some (t1, o1) =>
          match o1.apply t1 with
          | none => false
          | some (t1', o1') =>
            t1' == n &&
            (match o1'.undo t1' with
             | none => false
             | some (t2, o2) =>
               match o2.undo t2 with
               | none => false
               | some (t3, o3) => t3 == t && !o3.applied)
    | _ => true
  -- the loop itself (`enumerate`: apply, look, undo, next — what `cmd/nni.go` and the harness do),
  -- run in plain mode: it must end on the tree it started from and see the implementation's neighbours
  let enumOK : Bool := match m with
    | .plain =>
      (match enumerate t with
       | some (seen, fin) => fin == t && (!exact || (seen.length == nsT.length && (List.zipWith (fun a b => a == b) seen nsT).all id))
       | none => false)
    | _ => true
  let tie : Option String :=
    if mcalls != calls then some ("model proposes " ++ toString mcalls ++ " rearrangements")
    else if mall.any (·.isNone) then some "model Apply fails"
    else if (if exhaustive then msets != isets else !(isets.all msets.contains)) then some "model neighbours differ (split sets)"
    else if (if exhaustive then mdata != idata else !(idata.all mdata.contains)) then
      some "model neighbours differ in branch data (length or support of the changed branch)"
    else if !undoOK then some "model Undo of the implementation's neighbour differs from the original"
    else if !objOK then some "model Apply/Apply/Undo/Undo through the applied flag differs"
    else if !enumOK then some "model enumerate (apply, look, undo, next) does not end on the original tree with these neighbours"
    else none
  match other with
  | some msg => ⟨.oracle, tags, msg⟩
  | none =>
    if !callsOK then
      let msg := "proposed " ++ toString calls ++ " rearrangements" ++ (if exhaustive then "" else " (stopped by the callback)") ++
        ", the tree has " ++ toString inner ++ " inner branches"
      if full && f22RegionV t tv nviews then
        -- the known finding; the correspondence is still checked on these trees and a broken
        -- tie is not hidden behind the known finding
        match tie with
        | some d => ⟨.tie, tags, d ++ " (tree in the region of F22)"⟩
        | none => ⟨.oracle, tags ++ tagIf exact "exact" ++ tagIf (matched == nsT.length) "model-undo-exact", "class=F22-nni-rooted-root-branches " ++ msg⟩
      else ⟨.oracle, tags, msg⟩
    else
    match tie with
    | some d => ⟨.tie, tags, d⟩
    | none =>
      -- a neighbour that is, as a dump, none of the model's (split sets and branch data agree:
      -- child order or parent positions differ): the model's Undo cannot be compared on it
      if matched != nsT.length then ⟨.tie, tags, "a neighbour is dump-equal to none of the model's neighbours (child order / parent positions)"⟩
      else ⟨.pass, tags ++ tagIf exact "exact" ++ ["model-undo-exact"], ""⟩

/- what the Newick text shows of a tree: shape, child order, names, lengths, supports
   (not the parent positions, not the branch ids) -/
mutual
def sameText : T → T → Bool
  | .node d₁ _ k₁, .node d₂ _ k₂ => d₁.name == d₂.name && sameTextL k₁ k₂
def sameTextL : Kids → Kids → Bool
  | [], [] => true
  | (e₁, t₁) :: r₁, (e₂, t₂) :: r₂ =>
    e₁.len == e₂.len && e₁.sup == e₂.sup && sameText t₁ t₂ && sameTextL r₁ r₂
  | _, _ => false
end

/- the tree as its Newick text shows it: parent positions and branch ids forgotten -/
mutual
def stripT : T → T
  | .node d _ k => .node d 0 (stripL k)
def stripL : Kids → Kids
  | [] => []
  | (e, t) :: r => ({ e with id := 0 }, stripT t) :: stripL r
end

def textKey (t : T) : String := (stripT t).dump

/-- `gotree nni`: the output lines re-read by the parser are the neighbours -/
def handleCLI (t : T) (out : String) (recs : List (String × String)) : Verdict :=
  let inner := innerBranches t
  let rs := rearrangements t
  let scope := inScope1 t
  let tags := ["cli"] ++ tagIf t.rooted "rooted" ++ tagIf (!t.rooted) "unrooted" ++ tagIf (inner ≥ 2) "nontrivial" ++
    tagIf scope "inscope" ++ tagIf ((rootSplit t).isSome && t.rooted) "f22region"
  if !scope then ⟨.pass, "skip-outofscope" :: tags, ""⟩ else
  if out != "ok" then ⟨.oracle, tags, "gotree nni: " ++ out⟩ else
  let perRec : List (Option String) := (recs.zip (List.range recs.length)).map fun (r, i) =>
    let at_ := " at output line " ++ toString i
    if r.1 != "ok" then some ("output line not a tree: " ++ r.1 ++ at_)
    else match T.undump r.2 with
      | none => some ("unreadable dump" ++ at_)
      | some t1 => if neighbourOK3 t t1 then none else some ("output tree is not an NNI neighbour of the input" ++ at_)
  let nsT : List T := recs.filterMap fun r => T.undump r.2
  let distinct := pairwiseDistinct (nsT.map (·.usplitSet))
  match firstSome (perRec ++ [if distinct then none else some "two output trees are the same tree"]) with
  | some msg => ⟨.oracle, tags, msg⟩
  | none =>
    let mall := rs.map (apply t)
    let mallT := mall.filterMap id
    let exact := mallT.length == nsT.length && (List.zipWith sameText mallT nsT).all id
    let tie : Option String :=
      if mall.any (·.isNone) then some "model Apply fails"
      else if sortSets (mallT.map (·.usplitSet)) != sortSets (nsT.map (·.usplitSet)) then some "model neighbours differ (split sets)"
      -- each output tree is, as a text (child order, names, lengths, supports), one of the
      -- model's neighbours; the order of the lines is not compared
      else if sortStrings (mallT.map textKey) != sortStrings (nsT.map textKey) then some "model neighbours differ (text: child order or branch data)"
      else none
    if recs.length != 2 * inner then
      let msg := "gotree nni wrote " ++ toString recs.length ++ " trees, the tree has " ++ toString inner ++ " inner branches"
      if f22Region t nsT then
        match tie with
        | some d => ⟨.tie, tags, d ++ " (tree in the region of F22)"⟩
        | none => ⟨.oracle, tags ++ tagIf exact "exact-text", "class=F22-nni-rooted-root-branches " ++ msg⟩
      else ⟨.oracle, tags, msg⟩
    else
    match tie with
    | some d => ⟨.tie, tags, d⟩
    | none => ⟨.pass, tags ++ tagIf exact "exact-text", ""⟩

/- ## the pointer-level tier: the records of the six nodes and five branches, read from the
   real heap before `Apply`, after `Apply`, after `Undo` (tie of `Model/C17Heap.lean`) -/

def parsePId (s : String) : Option PId :=
  match s with
  | "n1" => some (.n .n1) | "n2" => some (.n .n2) | "a" => some (.n .a) | "b" => some (.n .b)
  | "c" => some (.n .c) | "d" => some (.n .d)
  | _ => if s.front == 'x' then (dropFirst s).toNat?.map PId.ext else none

def parseEId (s : String) : Option EId :=
  match s with
  | "e0" => some .e0 | "ea" => some (.eo .a) | "eb" => some (.eo .b) | "ec" => some (.eo .c) | "ed" => some (.eo .d)
  | _ => if s.front == 'y' then (dropFirst s).toNat?.map EId.ext else none

def parseIds {α} (f : String → Option α) (s : String) : Option (List α) :=
  if s == "" then some [] else (s.splitOn ",").mapM f

def parsePNode (s : String) : Option PNode :=
  match s.splitOn ":" with
  | [a, b] => match parseIds parsePId a, parseIds parseEId b with
    | some x, some y => some ⟨x, y⟩
    | _, _ => none
  | _ => none

def parsePEdge (s : String) : Option PEdge :=
  match s.splitOn ">" with
  | [a, b] => match parsePId a, parsePId b with
    | some x, some y => some ⟨x, y⟩
    | _, _ => none
  | _ => none

def parseSnap (s : String) : Option PHeap :=
  match s.splitOn "/" with
  | [n1, n2, a, b, c, d, e0, ea, eb, ec, ed] =>
    match [n1, n2, a, b, c, d].mapM parsePNode, [e0, ea, eb, ec, ed].mapM parsePEdge with
    | some [N1, N2, A, B, C, D], some [E0, EA, EB, EC, ED] =>
      some { node := fun x => match x with | .n1 => N1 | .n2 => N2 | .a => A | .b => B | .c => C | .d => D
             edge := fun e => match e with
               | .e0 => E0 | .eo .a => EA | .eo .b => EB | .eo .c => EC | .eo .d => ED
               | _ => ⟨.ext 0, .ext 0⟩ }
    | _, _ => none
  | _ => none

def localEdges : List EId := [.e0, .eo .a, .eo .b, .eo .c, .eo .d]

/-- the same records (decidable form of `PHeap.same` on the piece) -/
def sameP (h h' : PHeap) : Bool :=
  allRefs.all (fun x => (h.node x).neigh == (h'.node x).neigh && (h.node x).br == (h'.node x).br) &&
  localEdges.all (fun e => (h.edge e).left == (h'.edge e).left && (h.edge e).right == (h'.edge e).right)

def subAtD : List Nat → T → Option T
  | [], t => some t
  | i :: p, .node _ _ k => match k[i]? with
    | none => none
    | some (_, c) => subAtD p c

def triOf : List PId → Option (Tri Ref)
  | [.n x, .n y, .n z] => some (x, y, z)
  | _ => none

/-- what the six-node `Heap` of `Model/C17.lean` and a pointer piece can be compared on -/
def heapKeyP (p : PHeap) : Option (Tri Ref × Tri Ref × Bool × List Bool) :=
  match triOf (p.node .n1).neigh, triOf (p.node .n2).neigh with
  | some g1, some g2 =>
    some (g1, g2, (p.edge .e0).left == .n .n1,
      [Ref.a, Ref.b, Ref.c, Ref.d].map fun o => (p.edge (.eo o)).left == .n o)
  | _, _ => none

def heapKeyH (H : Heap) : Tri Ref × Tri Ref × Bool × List Bool :=
  (H.ng1, H.ng2, H.left1, [H.oa.isUp, H.ob.isUp, H.oc.isUp, H.od.isUp])

def parsePath (s : String) : Option (List Nat) :=
  if s == "" then some [] else (s.splitOn ".").mapM (·.toNat?)

def handleHeap (variant : String) (t : T) (runOut : String) (recs : List String) : Verdict :=
  let rs := rearrangements t
  let rr := variant == "rr"
  let tags := ["heap", "heap-" ++ variant] ++ tagIf t.rooted "rooted" ++ tagIf (!t.rooted) "unrooted" ++ tagIf (recs.length ≥ 4) "nontrivial"
  if runOut != "ok" then ⟨.oracle, tags, "Rearrange: " ++ runOut⟩ else
  let one (s : String) (i : Nat) : Option (Status × String) :=
    let at_ := " at rearrangement " ++ toString i
    match s.splitOn ";" with
    | [outs, crossS, pathS, s0, s1, s1b, s2] =>
      if outs == "noview" then some (.bad, "harness cannot read the nni: " ++ crossS) else
      match parseSnap s0, parseSnap s1, parseSnap s1b, parseSnap s2, parsePath pathS with
      | some p0, some p1, some p1b, some p2, some path =>
        let cross := crossS == "true"
        -- on the implementation's own heap: the piece is well formed before, after Apply and after
        -- Undo; every node keeps its number of parent branches; Undo restores every record
        if outs != "ok+ok+ok+ok" then some (.oracle, "Apply/Undo/re-rooting/well-formedness after Undo: " ++ outs ++ at_)
        else if !(pairing p0 && symmetric p0) then some (.bad, "harness: piece not well formed before Apply" ++ at_)
        else if !(pairing p1) then some (.oracle, "after Apply: neigh and br do not pair up" ++ at_)
        else if !(symmetric p1) then some (.oracle, "after Apply: adjacency not symmetric" ++ at_)
        else if !(allRefs.all fun x => incoming p1 x == incoming p0 x) then
          some (.oracle, "after Apply: a node changed its number of parent branches (orientation)" ++ at_)
        else if !(pairing p2 && symmetric p2) then some (.oracle, "after Undo: piece not well formed" ++ at_)
        else if !(pairing p1b && symmetric p1b) then some (.bad, "harness: piece not well formed after re-rooting" ++ at_)
        else if !(allRefs.all fun x => incoming p2 x == incoming p1b x) then
          some (.oracle, "after Undo: a node changed its number of parent branches (orientation)" ++ at_)
        -- Undo restores every record (the neighbour slices also when the tree was re-rooted in between:
        -- re-rooting only turns branches round)
        else if !rr && s2 != s0 then some (.oracle, "Undo does not restore the records of the piece" ++ at_)
        else if rr && !(allRefs.all fun x => (p2.node x).neigh == (p0.node x).neigh && (p2.node x).br == (p0.node x).br) then
          some (.oracle, "Undo does not restore the neighbour slices of the piece" ++ at_)
        else
        -- tie: the Go statements as transcribed in `applyP` / `undoP`
        match applyP p0 cross with
        | none => some (.tie, "model applyP fails" ++ at_)
        | some q =>
          if !(sameP q p1) then some (.tie, "model applyP gives other records" ++ at_) else
          match undoP p1b cross with
          | none => some (.tie, "model undoP fails" ++ at_)
          | some q' =>
            if !(sameP q' p2) then some (.tie, "model undoP gives other records" ++ at_) else
            if rr then none else
            -- tie: the abstraction (left edge of the square): the heap `apply` reads off the dump
            let i1 := (nodeIndex (p0.node .n1).neigh (.n .n2)).getD 99
            match rs.find? (fun r => r.path == path && r.cross == cross && r.i1 == i1), subAtD path t with
            | some r, some S =>
              match extract S path.isEmpty r false with
              | none => some (.tie, "model extract fails" ++ at_)
              | some H =>
                if heapKeyP p0 != some (heapKeyH H) then some (.tie, "abstraction of the piece differs from what the model reads off the tree" ++ at_)
                else match applyH H cross with
                  | none => some (.tie, "model applyH fails" ++ at_)
                  | some H' =>
                    if heapKeyP p1 != some (heapKeyH H') then some (.tie, "abstraction after Apply differs from applyH" ++ at_) else none
            | _, _ => some (.tie, "no model rearrangement at this place" ++ at_)
      | _, _, _, _, _ => some (.bad, "unreadable snapshot" ++ at_)
    | _ => some (.bad, "heap record fields")
  let results := (recs.zip (List.range recs.length)).filterMap fun (s, i) => one s i
  -- an oracle failure goes first
  match results.find? (fun r => r.1 == .oracle), results.head? with
  | some r, _ => ⟨.oracle, tags, r.2⟩
  | none, some r => ⟨r.1, tags, r.2⟩
  | none, none =>
    if recs.length != rs.length then ⟨.tie, tags, "model proposes " ++ toString rs.length ++ " rearrangements"⟩
    else ⟨.pass, tags, ""⟩

/- ## histories of calls on one in-memory tree: the whole heap after every call (tie of
   `Model/C17Global.lean`), round 7 -/

section Hist
open Gotree.C17.G

def parseNats (s : String) : Option (List Nat) :=
  if s == "" then some [] else (s.splitOn ",").mapM (·.toNat?)

def parseGNode (s : String) : Option GNode :=
  match s.splitOn ":" with
  | [a, b] => match parseNats a, parseNats b with
    | some x, some y => some ⟨x, y⟩
    | _, _ => none
  | _ => none

def parseGEdge (s : String) : Option GEdge :=
  match s.splitOn ">" with
  | [a, b] => match a.toNat?, b.toNat? with
    | some x, some y => some ⟨x, y⟩
    | _, _ => none
  | _ => none

def parseGHeap (s : String) : Option GHeap :=
  match s.splitOn "#" with
  | [ns, es] => match (splitTerm "/" ns).mapM parseGNode, (splitTerm "/" es).mapM parseGEdge with
    | some n, some e => some ⟨n, e⟩
    | _, _ => none
  | _ => none

def parseGNNI (s : String) : Option GNNI :=
  match parseNats s with
  | some [a, b, c, d, e, f, x] => some ⟨a, b, c, d, e, f, x == 1, false⟩
  | _ => none

def outStr : Out → String
  | .ok => "ok"
  | .err m => "err:" ++ escape m
  | .panic => "panic"

/-- the branches of the unrooted tree with their data, whatever the order of the neighbour slices -/
def sortedKey (v : View) : String :=
  String.join (sortStrings (v.us.map fun u => showStrList u.side ++ ":" ++ showRat u.len ++ ":" ++ showRat u.sup ++ ";")) ++ "|" ++
  String.join (sortStrings (v.tl.map fun p => showStrList p.1 ++ ":" ++ showRat p.2 ++ ";"))

/- the six-node piece of `Model/C17Heap.lean` read off the whole heap (tie between the two pointer
   models: `applyP` on the projection = projection of `applyCore`'s result, tested per effective Apply) -/
def refOf (n : GNNI) (y : Nat) : PId :=
  if y = n.n1 then .n .n1 else if y = n.n2 then .n .n2 else if y = n.n11 then .n .a else if y = n.n12 then .n .b
  else if y = n.n21 then .n .c else if y = n.n22 then .n .d else .ext y

/-- the five branches of the piece (central, then those of n1_1, n1_2, n2_1, n2_2), when the six nodes are
    adjacent as `newNNI` saw them -/
def pieceEdges (g : GHeap) (n : GNNI) : Option (List Nat) :=
  match g.nodes[n.n1]?, g.nodes[n.n2]? with
  | some N1, some N2 =>
    match idx N1.neigh n.n2, idx N1.neigh n.n11, idx N1.neigh n.n12, idx N2.neigh n.n21, idx N2.neigh n.n22 with
    | some i0, some ia, some ib, some ic, some id_ =>
      [N1.br[i0]?, N1.br[ia]?, N1.br[ib]?, N2.br[ic]?, N2.br[id_]?].mapM id
    | _, _, _, _, _ => none
  | _, _ => none

def eidOf (m : List Nat) (e : Nat) : EId :=
  match m.idxOf? e with
  | some 0 => .e0 | some 1 => .eo .a | some 2 => .eo .b | some 3 => .eo .c | some 4 => .eo .d
  | _ => .ext e

def projectP (g : GHeap) (n : GNNI) (m : List Nat) : PHeap :=
  { node := fun r =>
      let y := match r with | .n1 => n.n1 | .n2 => n.n2 | .a => n.n11 | .b => n.n12 | .c => n.n21 | .d => n.n22
      match g.nodes[y]? with
      | some nd => ⟨nd.neigh.map (refOf n), nd.br.map (eidOf m)⟩
      | none => ⟨[], []⟩
    edge := fun e =>
      let i : Option Nat := match e with | .e0 => some 0 | .eo .a => some 1 | .eo .b => some 2 | .eo .c => some 3 | .eo .d => some 4 | _ => none
      match (i.bind (m[·]?)).bind (g.edges[·]?) with
      | some E => ⟨refOf n E.left, refOf n E.right⟩
      | none => ⟨.ext 0, .ext 0⟩ }

/-- `none`: not comparable (the six nodes are not all different, or no longer adjacent as at creation) -/
def pieceAgrees (g g' : GHeap) (n : GNNI) : Option Bool :=
  if !([n.n1, n.n2, n.n11, n.n12, n.n21, n.n22].eraseDups.length == 6) then none else
  match pieceEdges g n with
  | none => none
  | some m =>
    if m.eraseDups.length != 5 then none else
    match applyP (projectP g n m) n.cross with
    | none => some false
    | some q => some (sameP q (projectP g' n m))

/-- the state of the replay of a history -/
structure HistSt where
  heapS : String
  heap : GHeap
  dump : String
  tree : T
  view : View
  flags : List Bool
  stack : List (Nat × String × String × String)   -- rearrangements in force, with heap, dump and branch data before their Apply
                                                  -- (heap "" once the neighbour slices were re-ordered: then only the tree is compared)
  model : State
  oracle : Option String := none
  tie : Option String := none
  sawErr : Bool := false
  sawNoop : Bool := false
  sawLifo : Bool := false
  sawDeep : Bool := false
  sawStale : Bool := false
  sawRegen : Bool := false
  sawEdit : Bool := false
  pieceSeen : Bool := false   -- some effective Apply was compared with the six-node model `applyP`
  pieceAll : Bool := true
  siteAll : Bool := true     -- every effective Apply was made on a heap satisfying `siteOK` (hypotheses of `undoCore_applyCore_site`)
  real : Nat := 0

def histStep (s : HistSt) (rec : String × Nat) : HistSt :=
  if s.oracle.isSome then s else
  let at_ := " at call " ++ toString rec.2
  match rec.1.splitOn ";" with
  | ["R", objsS] =>
    -- `Rearrange` called again on the tree as it is now: the new objects join the history
    match (objsS.splitOn "+").mapM parseGNNI with
    | none => { s with oracle := some ("harness: objects of the second Rearrange" ++ at_) }
    | some objs =>
      let key (o : Option GNNI) : String := match o with
        | some n => toString [n.n1, n.n2, n.n11, n.n12, n.n21, n.n22] ++ toString n.cross
        | none => "none"
      let tie1 := if s.tie.isSome then s.tie
        else if sortStrings ((rearrangeG s.model.g).map key) != sortStrings (objs.map fun o => key (some o)) then
          some ("model rearrangeG on the current heap builds other objects than Rearrange" ++ at_)
        else none
      { s with flags := s.flags ++ objs.map (fun _ => false), model := ⟨s.model.g, s.model.objs ++ objs⟩, tie := tie1, sawRegen := true }
  | ["E", kind, wf, hS, dS] =>
    -- the tree was re-ordered (real SortNeighborsByTips / RotateInternalNodes, not C17's code): the
    -- history goes on from the heap as it is now; the tree must be the same tree
    if wf != "ok" then { s with oracle := some ("harness: tree malformed after " ++ kind ++ ": " ++ wf ++ at_) } else
    match parseGHeap hS, T.undump dS with
    | some h', some t' =>
      let v' := viewOf1 t'
      if !(wfG h') || sortedKey v' != sortedKey s.view then { s with oracle := some ("harness: " ++ kind ++ " changed the tree" ++ at_) }
      else { s with heapS := hS, heap := h', dump := dS, tree := t', view := v', model := ⟨h', s.model.objs⟩,
                    stack := s.stack.map (fun e => (e.1, "", e.2.2.1, e.2.2.2)), sawEdit := true }
    | _, _ => { s with oracle := some ("harness: unreadable heap or dump after " ++ kind ++ at_) }
  | [kS, op, out, flagS, wf, hcol, dcol] =>
    match kS.toNat? with
    | none => { s with oracle := some ("harness: call fields" ++ at_) }
    | some k =>
    let isApply := op == "A"
    let heapS' := if hcol == "=" then s.heapS else hcol
    let dump' := if dcol == "=" then s.dump else dcol
    let flagBefore := s.flags.getD k false
    let flagAfter := flagS == "1"
    let unchanged := heapS' == s.heapS && dump' == s.dump && wf == "ok" && flagAfter == flagBefore
    let fail (m : String) : HistSt := { s with oracle := some (m ++ at_) }
    -- the model's call
    let ms := step s.model ⟨k, isApply⟩
    let mflag := (ms.2.objs[k]?.map (·.applied)).getD false
    let tie1 : Option String :=
      if s.tie.isSome then s.tie
      else if outStr ms.1 != out then some ("model outcome " ++ outStr ms.1 ++ ", implementation " ++ out ++ at_)
      else if mflag != flagAfter then some ("model applied flag differs" ++ at_)
      else none
    if out.startsWith "panic" then fail ("panic: " ++ out)
    else if out != "ok" then
      -- an error return: nothing may have been written
      if !unchanged then fail "a call that returned an error modified the tree or the flag"
      else
        let tie2 := if tie1.isSome then tie1 else if ms.2.g != s.heap then some ("model heap changed by a failing call" ++ at_) else none
        { s with model := ms.2, tie := tie2, sawErr := true }
    else if (isApply && flagBefore) || (!isApply && !flagBefore) then
      -- Apply of something applied, Undo of something not applied: nothing happens
      if !unchanged then fail "Apply of an applied rearrangement / Undo of a rearrangement not applied modified the tree or the flag"
      else
        let tie2 := if tie1.isSome then tie1 else if ms.2.g != s.heap then some ("model heap changed by a call that does nothing" ++ at_) else none
        { s with model := ms.2, tie := tie2, sawNoop := true }
    else
      if flagAfter != isApply then fail "the applied flag does not follow the call"
      else if wf != "ok" then fail ("tree malformed after the call: " ++ wf)
      else match parseGHeap heapS', T.undump dump' with
        | some h', some t' =>
          let v' := viewOf1 t'
          if !(wfG h') then fail "heap after the call: neigh/br not paired, adjacency not symmetric, or a node without exactly one parent branch"
          else if !(neighbourOK2V s.view v') then fail "the tree after the call is not one NNI move (one split, other branches untouched) from the tree before"
          else
            let lifo : Option (Option String) :=     -- none: not a LIFO undo; some none: restored; some msg
              if isApply then none else
              match s.stack with
              | (k0, h0, d0, key0) :: _ =>
                if k0 == k then
                  some (if h0 == "" then (if key0 == sortedKey v' then none else some "Undo of the last rearrangement applied (neighbour slices re-ordered in between) does not restore the tree: splits, lengths, supports")
                        else if h0 == heapS' && d0 == dump' then none else some "Undo of the last rearrangement applied does not restore the heap and the tree it was applied to")
                else none
              | [] => none
            match lifo with
            | some (some m) => fail m
            | _ =>
              let stack' := if isApply then (k, s.heapS, s.dump, sortedKey s.view) :: s.stack
                            else match lifo with | some _ => s.stack.drop 1 | none => []
              let tie2 := if tie1.isSome then tie1 else if ms.2.g != h' then some ("model heap differs from the implementation's records" ++ at_) else none
              { s with heapS := heapS', heap := h', dump := dump', tree := t', view := v', flags := s.flags.set k flagAfter,
                       stack := stack', model := ms.2, tie := tie2,
                       pieceSeen := s.pieceSeen || (isApply && (match s.model.objs[k]? with | some o => (pieceAgrees s.heap h' o).isSome | none => false)),
                       pieceAll := s.pieceAll && (!isApply || (match s.model.objs[k]? with | some o => (pieceAgrees s.heap h' o).getD true | none => true)),
                       siteAll := s.siteAll && (!isApply || (match s.model.objs[k]? with | some o => siteOK s.heap o | none => false)),
                       sawLifo := s.sawLifo || lifo.isSome, sawDeep := s.sawDeep || (isApply && !s.stack.isEmpty),
                       sawStale := s.sawStale || (!isApply && lifo.isNone && !s.stack.isEmpty),
                       real := s.real + 1 }
        | _, _ => { s with oracle := some ("harness: unreadable heap or dump" ++ at_) }
  | _ => { s with oracle := some ("harness: call record" ++ at_) }

def handleHist (kind : String) (t : T) (before runOut heap0S objsS stepsS : String) : Verdict :=
  let tv := viewOf1 t
  let inner := tv.set.length
  let tags0 := ["hist", "hist-" ++ kind] ++ tagIf t.rooted "rooted" ++ tagIf (!t.rooted) "unrooted" ++
    tagIf (tipRooted t) "tip-rooted" ++ tagIf (inner ≥ 2) "nontrivial"
  if !(inScope1 t) then ⟨.pass, "skip-outofscope" :: tags0, ""⟩ else
  if runOut != "ok" then ⟨.oracle, tags0, "Rearrange: " ++ runOut⟩ else
  match parseGHeap heap0S, (splitTerm "|" objsS).mapM parseGNNI with
  | some h0, some objs =>
    if !(wfG h0) then ⟨.bad, tags0, "harness: heap not well formed before the history"⟩ else
    let recs := splitTerm "|" stepsS
    let s0 : HistSt := { heapS := heap0S, heap := h0, dump := before, tree := t, view := tv,
                         flags := objs.map fun _ => false, stack := [], model := ⟨h0, objs⟩ }
    let s := (recs.zip (List.range recs.length)).foldl histStep s0
    let tags := tags0 ++ tagIf s.sawErr "hist-err" ++ tagIf s.sawNoop "hist-noop" ++ tagIf s.sawLifo "hist-lifo" ++
      tagIf s.sawDeep "hist-deep" ++ tagIf s.sawStale "hist-nonlifo" ++ tagIf s.sawRegen "hist-regen" ++ tagIf s.sawEdit "hist-reorder" ++ tagIf (s.real ≥ 1 && s.siteAll) "hist-site-ok" ++ tagIf (!s.siteAll) "hist-site-fail" ++ tagIf (s.pieceSeen && s.pieceAll) "hist-piece-ok" ++ tagIf (s.real ≥ 2) "hist-real"
    match s.oracle with
    | some m => if m.startsWith "harness:" then ⟨.bad, tags, m⟩ else ⟨.oracle, tags, m⟩
    | none =>
      -- `Rearrange` and `newNNI` on the heap: the objects the callback received
      if rearrangeG h0 != objs.map some then ⟨.tie, tags, "model rearrangeG/newNNIG builds other objects than Rearrange"⟩
      else match s.tie with
      | some m => ⟨.tie, tags, m⟩
      | none =>
        if !s.pieceAll then ⟨.tie, tags, "the six-node model applyP on the piece read off the heap differs from the piece of the heap after Apply"⟩
        else ⟨.pass, tags, ""⟩
  | _, _ => bad "C17.hist heap or objects"

end Hist

def handle (op : String) (f : List String) : Verdict :=
  match op, f with
  | "enum", [ms, before, text, recs, calls, wfF, dumpF, textF] =>
    match parseMode ms, T.undump before, (splitTerm "|" recs).mapM (parseRec before text), calls.toNat? with
    | some m, some t, some rl, some c =>
      handleEnum m before text t rl c wfF (if dumpF == "=" then before else dumpF) (if textF == "=" then text else textF)
    | _, _, _, _ => bad "C17.enum fields"
  | "cli", [_req, before, _text, out, recs, _stderr] =>
    let rl : Option (List (String × String)) := (splitTerm "|" recs).mapM fun s =>
      match s.splitOn ";" with
      | [st, d, _] => some (st, d)
      | _ => none
    match T.undump before, rl with
    | some t, some rl => handleCLI t out rl
    | _, _ => bad "C17.cli fields"
  | "heap", [variant, _seed, before, runOut, recs] =>
    match T.undump before with
    | some t => handleHeap variant t runOut (splitTerm "|" recs)
    | none => bad "C17.heap fields"
  | "reuse", [edit, _seed, _before1, first, calls1, editOut, before2, text2, recs, calls2, wfF, dumpF, textF, fresh] =>
    -- enumerate, edit the same in-memory tree, enumerate again with the SAME rearranger: the second
    -- enumeration is judged as an enumeration of the tree after the edit
    let rtags := ["reuse", "reuse-" ++ edit]
    if first != "ok" then ⟨.oracle, rtags, "first enumeration: " ++ first ++ " (" ++ calls1 ++ " calls)"⟩
    else if editOut != "ok" then ⟨.pass, "skip-edit-refused" :: rtags, ""⟩
    else
    match T.undump before2, (splitTerm "|" recs).mapM (parseRec before2 text2), calls2.toNat? with
    | some t2, some rl, some c2 =>
      let v := handleEnum .plain before2 text2 t2 rl c2 wfF (if dumpF == "=" then before2 else dumpF) (if textF == "=" then text2 else textF)
      let note := if v.status == .oracle then " [second enumeration with the same NNIRearranger after " ++ edit ++ "; a fresh rearranger proposes " ++ fresh ++ "]" else ""
      { v with tags := rtags ++ v.tags, detail := v.detail ++ note }
    | _, _, _ => bad "C17.reuse fields"
  | "hist", [kind, _seed, before, runOut, heap0, objs, steps] =>
    match T.undump before with
    | some t => handleHist kind t before runOut heap0 objs steps
    | none => bad "C17.hist fields"
  | "glue", [variant, _req, before, out, crashed, recs, _stderr] =>
    let rl : Option (List (String × String)) := (splitTerm "|" recs).mapM fun s =>
      match s.splitOn ";" with
      | [st, d, _] => some (st, d)
      | _ => none
    match T.undump before, rl with
    | some t, some rl =>
      let gtags := ["cli", "glue", "glue-" ++ variant]
      if crashed != "nopanic" then ⟨.oracle, gtags, "gotree nni crashed (panic in stderr)"⟩
      else if out == "timeout" then ⟨.oracle, gtags, "gotree nni: timeout"⟩
      else
      -- the records the reader delivers, as the model sees them
      let recsIn : List (Option T) := match variant with
        | "errtree" => [some t, none]
        | "missing" => []
        | _ => [some t]
      let wantErr := variant == "missing" || (cliRun recsIn).2
      if wantErr && out == "ok" then ⟨.oracle, gtags, "a bad input (missing file, record that is not a tree) is not reported as an error"⟩
      else if !wantErr && out != "ok" then ⟨.oracle, gtags, "gotree nni: " ++ out⟩
      else
        -- on an error `cmd.Execute` prints the message as a last line on standard output
        let lastIsMsg := match rl.getLast? with | some r => r.1 != "ok" | none => false
        if wantErr && !lastIsMsg then ⟨.oracle, gtags, "no error message line after the trees"⟩ else
        let trees := if wantErr then rl.dropLast else rl
        if variant == "missing" then
          (if !trees.isEmpty then ⟨.oracle, gtags, "trees written although the input file is missing"⟩ else ⟨.pass, gtags, ""⟩)
        else
          -- the trees: as for one tree (`handleCLI` holds oracle and tie)
          let v := handleCLI t "ok" trees
          let mlines := cliLines recsIn
          if v.status == .pass && mlines != rl.length then
            { v with status := .tie, tags := gtags ++ v.tags, detail := "model writes " ++ toString mlines ++ " lines" }
          else { v with tags := (gtags ++ v.tags).eraseDups }
    | _, _ => bad "C17.glue fields"
  | "cli2", [_reqA, _reqB, beforeA, beforeB, out, recs, _stderr]
  | "cli2o", [_reqA, _reqB, beforeA, beforeB, out, recs, _stderr] =>
    let rl : Option (List (String × String)) := (splitTerm "|" recs).mapM fun s =>
      match s.splitOn ";" with
      | [st, d, _] => some (st, d)
      | _ => none
    match T.undump beforeA, T.undump beforeB, rl with
    | some ta, some tb, some rl =>
      -- the output lines of the first tree come first, then those of the second (the two trees
      -- have different tip names); a line that belongs to neither is given to the first
      let isB (r : String × String) : Bool := match T.undump r.2 with
        | some u => sameTips tb u
        | none => false
      let ra := rl.takeWhile (fun r => !isB r)
      let rb := rl.dropWhile (fun r => !isB r)
      if rb.any (fun r => !isB r) then ⟨.oracle, ["cli", "cli2"], "output trees of the two input trees are interleaved"⟩ else
      let va := handleCLI ta out ra
      let vb := handleCLI tb out rb
      let tags := "cli2" :: (va.tags ++ vb.tags).eraseDups
      -- a new violation on either tree goes first, then the known finding, then PASS
      let known (v : Verdict) : Bool := v.detail.startsWith "class="
      let pick : Verdict :=
        if va.status != .pass && !known va then va
        else if vb.status != .pass && !known vb then vb
        else if va.status != .pass then va
        else vb
      { pick with tags := tags }
    | _, _, _ => bad "C17.cli2 fields"
  | _, _ => bad ("C17: unknown op " ++ op)

end Gotree.Driver.C17
