/-
  C13 — property theorems (every `theorem` here is audited with #print axioms).
  The statements are about the model functions the driver runs against the Go code
  (`readMultiNewick`, `readFirst`, `readMulti`, `Nex.parse`, `Px.decode`, …).
-/
import Gotree.Lemmas.C13
import Gotree.Lemmas.C13Px
import Gotree.Lemmas.C13Nex
import Gotree.Lemmas.C13NexState
import Gotree.Lemmas.C13NexTr
import Gotree.Lemmas.C13NexTr2
import Gotree.Lemmas.C13Ex
import Gotree.Lemmas.C13C01
import Gotree.Lemmas.C13C01Stream
import Gotree.Lemmas.C13Chunks
import Gotree.Lemmas.C13Layout
import Gotree.Lemmas.C13Taxa
import Gotree.Lemmas.C13Tips
import Gotree.Lemmas.C13Dec
import Gotree.Lemmas.C13Cli
import Gotree.Lemmas.C13Foreign
import Gotree.Lemmas.C13Std
import Gotree.Lemmas.C13PxForms
import Gotree.Lemmas.C13NsSpec
import Gotree.Lemmas.C13C01Num
import Gotree.Lemmas.C13Sameline
import Gotree.Lemmas.C13Flags
import Gotree.Lemmas.C13Trailing

namespace Gotree.C13
open Gotree

/- ## multi-tree Newick files -/

/-- ★ Structure of the multi-tree reader, for EVERY input text: the records are the parse results of
    the chunks of the file (text up to a ';' ENDING a line — the code's own splitting, `chunks`), in file
    order, with consecutive identifiers from 0; since fix 3850fd2 every tree of a chunk is parsed
    (`chunkGo` inside `deliver`); reading stops at the first text that does not parse, and that error is
    reported with its identifier; text left after the last chunk is reported as an error too.
    So no chunk, and no tree of a chunk, is silently skipped.  (With the reader before 3850fd2 the
    statement held with ONE parse per chunk: "no chunk skipped" said nothing about a second tree on a
    line — `multi_sameline_drops_second`.) -/
theorem multi_no_skip (C : NewickCodec) (doc : Txt) :
    readMultiNewick C doc = deliver C (tail doc) (chunks doc) 0 := by
  unfold readMultiNewick chunks tail
  exact multiGo_eq_deliver C _ [] 0

/-- The whole-line model is exact whatever way `bufio.Reader.ReadLine` cuts over-long lines into
    `isPrefix` chunks: the loop of ReadUntilSemiColon / ReadMultiTrees transcribed on the chunk stream
    (`multiGoC`) gives the records of the model the driver runs, for every chunking of every line. -/
theorem readline_chunking_irrelevant (C : NewickCodec) (doc : Txt) (stream : List (Txt × Bool))
    (h : IsChunkStream (splitLines doc) stream) : multiGoC C stream [] 0 = readMultiNewick C doc :=
  multiGoC_eq C (splitLines doc) stream h [] 0

theorem write_line (C : NewickCodec) (L : NewickLaws C) (t : T) (h : L.wf t = true) :
    oneLine (C.write t) ∧ lastNonBlank (C.write t) = ';' := by
  obtain ⟨body, hb, hc⟩ := L.write_shape t h
  rw [hb]
  refine ⟨⟨?_, ?_⟩, ?_⟩
  · intro c hc'
    rcases List.mem_append.1 hc' with h1 | h1
    · exact (hc c h1).1
    · simp at h1; rw [h1]; decide
  · simp
  · exact lastNonBlank_semi body [] (by simp)

/-- ★ `multi_delivers_all`: the file made of the Newick texts of well-formed trees, one per line, is
    read back as exactly these trees (as the Newick parser returns them), in order, with identifiers
    0, 1, 2, … -/
theorem multi_delivers_all (C : NewickCodec) (L : NewickLaws C) (ts : List T) (hne : ts ≠ [])
    (h : ∀ t ∈ ts, L.wf t = true) :
    readMultiNewick C (unlines (ts.map C.write)) = recsOfTrees (ts.map L.norm) 0 := by
  have hl : ∀ l ∈ ts.map C.write, oneLine l ∧ lastNonBlank l = ';' := by
    intro l hl
    obtain ⟨t, ht, rfl⟩ := List.mem_map.1 hl
    exact write_line C L t (h t ht)
  rw [multi_no_skip]
  unfold chunks tail
  rw [splitLines_unlines _ (fun l hl' => (hl l hl').1), chunksGo_lines _ (fun l hl' => (hl l hl').2),
    tailGo_lines _ (fun l hl' => (hl l hl').2)]
  apply deliver_ok
  · rw [List.map_map, List.map_map]
    apply List.map_congr_left
    intro t ht
    exact L.parse_write t (h t ht)
  · intro c hc
    obtain ⟨t, ht, rfl⟩ := List.mem_map.1 hc
    obtain ⟨body, hb, hbody⟩ := L.write_shape t (h t ht)
    rw [hb]
    exact singleTree_of body [] (fun x hx => ⟨(hbody x hx).2.2.1, (hbody x hx).2.2.2⟩) (by simp)
  · left; simpa using hne

/-- the same in the words of the Spec: every tree is delivered, in file order, with consecutive
    identifiers, equal in shape, names, lengths and supports -/
theorem multi_delivers_all_spec (C : NewickCodec) (L : NewickLaws C) (ts : List T) (hne : ts ≠ [])
    (h : ∀ t ∈ ts, L.wf t = true) :
    recsAre ts (readMultiNewick C (unlines (ts.map C.write))) 0 = true := by
  rw [multi_delivers_all C L ts hne h]
  apply recsAre_recsOfTrees
  rw [List.map_map]
  apply List.map_congr_left
  intro t ht
  exact L.norm_strip t (h t ht)

/-- a broken tree in the middle of the file: the trees before it are delivered, then the error is
    reported with the next identifier (and reading stops) — none is silently skipped -/
theorem multi_error_reported (C : NewickCodec) (L : NewickLaws C) (ts : List T) (bad : Txt) (rest : List Txt)
    (h : ∀ t ∈ ts, L.wf t = true) (hb : oneLine bad ∧ lastNonBlank bad = ';') (hp : C.parse bad = none)
    (hr : ∀ l ∈ rest, oneLine l ∧ lastNonBlank l = ';') :
    readMultiNewick C (unlines (ts.map C.write ++ bad :: rest)) =
      recsOfTrees (ts.map L.norm) 0 ++ [⟨ts.length, .err⟩] := by
  have hl : ∀ l ∈ ts.map C.write ++ bad :: rest, oneLine l ∧ lastNonBlank l = ';' := by
    intro l hl
    rcases List.mem_append.1 hl with h1 | h1
    · obtain ⟨t, ht, rfl⟩ := List.mem_map.1 h1
      exact write_line C L t (h t ht)
    · rcases List.mem_cons.1 h1 with h2 | h2
      · rw [h2]; exact hb
      · exact hr l h2
  rw [multi_no_skip]
  unfold chunks tail
  rw [splitLines_unlines _ (fun l hl' => (hl l hl').1), chunksGo_lines _ (fun l hl' => (hl l hl').2)]
  have := deliver_err C (tailGo (ts.map C.write ++ bad :: rest) []) (ts.map C.write) (ts.map L.norm) bad rest 0
    (by rw [List.map_map, List.map_map]; apply List.map_congr_left; intro t ht; exact L.parse_write t (h t ht))
    (by
      intro c hc
      obtain ⟨t, ht, rfl⟩ := List.mem_map.1 hc
      obtain ⟨body, hb', hbody⟩ := L.write_shape t (h t ht)
      rw [hb']
      exact singleTree_of body [] (fun x hx => ⟨(hbody x hx).2.2.1, (hbody x hx).2.2.2⟩) (by simp)) hp
  simpa using this

/-- F5 (repaired by b11db41) as a theorem about the pinned loop: on a buffer made of blanks only the
    old `for (…) && i >= 0` walked to index -1 (`none` = the index panic, in the reader goroutine);
    the current loop stops at index 0 and answers a blank. -/
theorem blank_only_line_pinned_panics :
    lastNonBlankRevPinned "  \t".toList.reverse = none ∧ lastNonBlank "  \t".toList = ' ' := by decide

/-- The defect repaired by 7ce7b93 as a theorem about the pinned reader: for the file
    `(a:0.5,(b:1,c:0)0.75,d);` followed by an unterminated `(c,d` the pinned loop delivers ONE record
    and nothing about the truncated tree; the current one delivers the tree and then an error record
    with identifier 1. -/
theorem multi_unterminated_pinned_fails :
    (multiGoPinned exCodec (splitLines (exText ++ "\n(c,d".toList)) [] 0).map (fun r => (r.id, r.out.isOk)) = [(0, true)] ∧
    (readMultiNewick exCodec (exText ++ "\n(c,d".toList)).map (fun r => (r.id, r.out.isOk)) = [(0, true), (1, false)] := by
  decide +kernel

/-- `multi_delivers_all` with a free layout: each tree may be preceded by empty and blank-only lines
    and by blanks, cut anywhere into several lines, followed by blanks (`ItemOK`); the last line of the
    file may lack its line end (`final = false`).  Every tree is delivered, in order, identifiers
    0, 1, 2, … (needs the two stream laws of the parser: `NewickStreamLaws`, theorems for C01's model). -/
theorem multi_delivers_all_layout (C : NewickCodec) (L : NewickStreamLaws C) (items : List (T × List Txt))
    (hne : items ≠ []) (hw : ∀ it ∈ items, L.wf it.1 = true) (hi : ∀ it ∈ items, ItemOK C it.1 it.2)
    (doc : Txt)
    (hdoc : doc = unlines (items.flatMap (·.2)) ∨
      ∃ init l, items.flatMap (·.2) = init ++ [l] ∧ l ≠ [] ∧ doc = unlines init ++ l) :
    readMultiNewick C doc = recsOfTrees (items.map fun it => L.norm it.1) 0 := by
  have hlines : ∀ l ∈ items.flatMap (·.2), oneLine l := by
    intro l hl
    obtain ⟨it, hit, hl'⟩ := List.mem_flatMap.1 hl
    exact (hi it hit).oneLine l hl'
  have hsplit : splitLines doc = items.flatMap (·.2) := by
    rcases hdoc with rfl | ⟨init, l, he, hl, rfl⟩
    · exact splitLines_unlines _ hlines
    · rw [he]
      apply splitLines_noFinal init l
      · intro x hx; exact hlines x (by rw [he]; simp [hx])
      · exact (hlines l (by rw [he]; simp)).1
      · exact hl
  obtain ⟨cs, h1, h2, h3, h4⟩ := chunks_items C L.toNewickLaws items hw hi
  rw [multi_no_skip]
  unfold chunks tail
  rw [hsplit, h1, h2]
  apply deliver_ok
  · apply List.ext_getElem
    · simp [h3]
    · intro i hi1 hi2
      have hi' : i < items.length := by simpa [h3] using hi1
      have hc : i < cs.length := by simpa using hi1
      obtain ⟨ws₀, body, bl, hb, hcs, hws, _⟩ := h4 i hi' hc
      simp only [List.getElem_map, hcs]
      exact parse_chunk C L (items[i]).1 (hw _ (List.getElem_mem hi')) ws₀ body bl hb hws
  · intro c hc
    obtain ⟨i, hi1, rfl⟩ := List.getElem_of_mem hc
    have hi' : i < items.length := by simpa [h3] using hi1
    obtain ⟨ws₀, body, bl, hb, hcs, hws, hbl⟩ := h4 i hi' hi1
    obtain ⟨body', hb', hbody⟩ := L.write_shape (items[i]).1 (hw _ (List.getElem_mem hi'))
    have hbe : body' = body := List.append_cancel_right (hb'.symm.trans hb)
    subst hbe
    rw [hcs]
    apply singleTree_of (ws₀ ++ body') bl
    · intro x hx
      rcases List.mem_append.1 hx with h | h
      · have := hws x h
        constructor <;> (intro e; subst e; simp [isNewickWs] at this)
      · exact ⟨(hbody x h).2.2.1, (hbody x h).2.2.2⟩
    · intro x hx
      have := hbl x hx
      simp only [isBlank, Bool.or_eq_true, beq_iff_eq] at this
      rcases this with e | e <;> (subst e; decide)
  · left
    intro hc
    apply hne
    have : cs.length = 0 := by rw [hc]; rfl
    rw [h3] at this
    exact List.length_eq_zero_iff.1 this

/- ## first tree = head of the multi-tree reader -/

/-- Newick: when the first tree is on its own lines (`newickFirstHyp`), parsing the stream directly
    gives what the multi-tree reader delivers first -/
theorem first_eq_head_newick (C : NewickCodec) (L : NewickStreamLaws C) (doc : Txt) (h : newickFirstHyp doc = true) :
    readFirstNewick C doc = headOut (readMultiNewick C doc) := by
  have := first_head_go C L doc true [] [] [] [] (fun _ => rfl) rfl (by simp) (fun _ => rfl) (by simp) h
  simpa [readMultiNewick, splitLines] using this

/-- ★ `first_eq_head`, all four input formats: `ReadTreeReader` returns the first record of
    `ReadMultiTrees` (an empty record list being the "no tree" error); where the model does not
    follow the parser (`none`) it does not for both. -/
theorem first_eq_head (E : Env) (L : NewickStreamLaws E.C) (d : Doc) (h : firstOwnLines d = true) :
    readFirst E d = (readMulti E d).map headOut := by
  cases d with
  | newick s =>
    simp only [readFirst, readMulti, Option.map]
    rw [first_eq_head_newick E.C L s h]
  | nexus s =>
    simp only [readFirst, readMulti]
    cases hp : Nex.parse E.C s with
    | ok dd =>
      cases dd with
      | nil => rfl
      | cons x r => rfl
    | err => rfl
    | unsupported => rfl
  | phyloxml x =>
    cases x with
    | none => rfl
    | some x =>
      simp only [readFirst, readMulti]
      cases hp : Px.decode E.N x with
      | ok cs =>
        cases cs with
        | nil => rfl
        | cons c r => rfl
      | err => rfl
      | unsupported => rfl
  | nextstrain n =>
    cases n with
    | none => rfl
    | some n => rfl

/-- F19 (repaired by af86682) as a theorem about the pinned variant: with the shadowed result
    variable the single-tree reader reports "no tree" on a PhyloXML document whose first (and only)
    phylogeny the multi-tree reader delivers. -/
theorem first_eq_head_pinned_fails :
    ∃ (E : Env) (d : Doc), firstOwnLines d = true ∧
      (readFirstPinned E d).map Out.isOk = some false ∧ ((readMulti E d).map headOut).map Out.isOk = some true :=
  ⟨⟨⟨fun _ => [], fun _ => none⟩, ⟨fun _ => [], fun _ => none⟩⟩,
   .phyloxml (some (Px.encode ⟨fun _ => [], fun _ => none⟩
      [.node ⟨"", []⟩ 0 [(EdgeD.blank, T.leaf "a"), (EdgeD.blank, T.leaf "b")]])),
   by decide⟩

/- ## Several trees on one line (fix 3850fd2)

   Before the fix the reader asked the Newick parser for ONE tree per chunk (text up to a ';' ending a
   line): text after the first ';' of the line was dropped without an error — the negation of "none is
   silently skipped" (`readMultiNewickOne`, the pinned reader).  Since the fix every tree of the chunk is
   parsed (`chunkGo`). -/

/-- the PINNED reader: a line `a;b` (`a` the text of a first tree, `b` anything that ends with ';' — e.g.
    further trees) is read exactly like the line `a;`: the first tree of the line is delivered and the rest
    of the line is dropped WITHOUT an error record.  (The whole line is one chunk, the parser was asked
    for one tree per chunk and stops at the first ';' — law `parse_prefix`.) -/
theorem multi_sameline_drops_second (C : NewickCodec) (L : NewickStreamLaws C) (a b rest : Txt)
    (ha : ∀ c ∈ a, c ≠ ';' ∧ c ≠ '[' ∧ c ≠ '\n') (hb : ∀ c ∈ b, c ≠ '\n')
    (hl : lastNonBlank (a ++ ';' :: b) = ';') :
    readMultiNewickOne C (a ++ ';' :: b ++ '\n' :: rest) = readMultiNewickOne C (a ++ ';' :: '\n' :: rest) := by
  have h1 : oneLine (a ++ ';' :: b) := by
    refine ⟨?_, ?_⟩
    · intro c hc
      rcases List.mem_append.1 hc with h | h
      · exact (ha c h).2.2
      · rcases List.mem_cons.1 h with h | h
        · rw [h]; decide
        · exact hb c h
    · intro hlast
      -- the last character would be '\r', which is not a blank: the last non-blank character is not ';'
      have : (a ++ ';' :: b).reverse.head? = some '\r' := by rw [List.head?_reverse]; exact hlast
      unfold lastNonBlank at hl
      cases hr : (a ++ ';' :: b).reverse with
      | nil => rw [hr] at this; cases this
      | cons c r =>
        rw [hr] at this hl
        simp only [List.head?_cons, Option.some.injEq] at this
        subst this
        cases r <;> simp [lastNonBlankRev, isBlank] at hl
  have h2 : oneLine (a ++ [';']) := by
    refine ⟨?_, by simp⟩
    intro c hc
    rcases List.mem_append.1 hc with h | h
    · exact (ha c h).2.2
    · simp only [List.mem_singleton] at h; rw [h]; decide
  have e1 : a ++ ';' :: b ++ '\n' :: rest = (a ++ ';' :: b) ++ '\n' :: rest := by simp
  have e2 : a ++ ';' :: '\n' :: rest = (a ++ [';']) ++ '\n' :: rest := by simp
  unfold readMultiNewickOne
  rw [e1, e2, splitLines_cons _ _ h1, splitLines_cons _ _ h2]
  exact multiGoOne_sameline C L a b _ 0 (fun c hc => ⟨(ha c hc).1, (ha c hc).2.1⟩) hl

/-- the CURRENT reader: two well-formed trees written on ONE line are both delivered, identifiers 0 and 1 -/
theorem multi_sameline_delivers_both (C : NewickCodec) (L : NewickStreamLaws C) (t₁ t₂ : T)
    (h₁ : L.wf t₁ = true) (h₂ : L.wf t₂ = true) :
    readMultiNewick C (C.write t₁ ++ C.write t₂ ++ ['\n']) = [⟨0, .ok (L.norm t₁)⟩, ⟨1, .ok (L.norm t₂)⟩] := by
  obtain ⟨l1, s1⟩ := write_line C L.toNewickLaws t₁ h₁
  obtain ⟨l2, s2⟩ := write_line C L.toNewickLaws t₂ h₂
  obtain ⟨b₂, e₂, _⟩ := L.write_shape t₂ h₂
  have hone : oneLine (C.write t₁ ++ C.write t₂) := by
    refine ⟨?_, ?_⟩
    · intro c hc
      rcases List.mem_append.1 hc with h | h
      · exact l1.1 c h
      · exact l2.1 c h
    · rw [e₂]; simp
  have hlast : lastNonBlank (C.write t₁ ++ C.write t₂) = ';' := by
    rw [e₂, ← List.append_assoc]; exact lastNonBlank_semi _ [] (by simp)
  have hlen : (C.write t₁ ++ C.write t₂).length + 1 = ((C.write t₁ ++ C.write t₂).length - 1) + 2 := by
    have : 1 ≤ (C.write t₁ ++ C.write t₂).length := by rw [e₂]; simp; omega
    omega
  unfold readMultiNewick
  have hsp : splitLines (C.write t₁ ++ C.write t₂ ++ ['\n']) = [C.write t₁ ++ C.write t₂] := by
    have := splitLines_cons (C.write t₁ ++ C.write t₂) [] hone
    simpa [splitLines, splitLinesGo] using this
  rw [hsp]
  simp only [multiGo, List.nil_append, hlast, beq_self_eq_true, if_true]
  rw [hlen, chunkGo_two C L t₁ t₂ h₁ h₂]
  simp [multiGo]

/-- ★ `multi_delivers_all` for the reader since 3850fd2, ANY number of trees per line: the file whose
    lines each hold the texts of one or more well-formed trees, one after the other, is read back as
    exactly these trees, in order, identifiers 0, 1, 2, … -/
theorem multi_delivers_all_lines (C : NewickCodec) (L : NewickStreamLaws C) (groups : List (List T))
    (hne : groups ≠ []) (hg : ∀ g ∈ groups, g ≠ [] ∧ ∀ t ∈ g, L.wf t = true) :
    readMultiNewick C (unlines (groups.map fun g => (g.map C.write).flatten)) =
      recsOfTrees (groups.flatten.map L.norm) 0 := by
  -- a line made of tree texts is one line and ends with ';'
  have hline : ∀ (g : List T), g ≠ [] → (∀ t ∈ g, L.wf t = true) →
      oneLine (g.map C.write).flatten ∧ lastNonBlank (g.map C.write).flatten = ';' := by
    intro g
    induction g with
    | nil => intro h; exact absurd rfl h
    | cons t r ih =>
      intro _ hw
      obtain ⟨l1, s1⟩ := write_line C L.toNewickLaws t (hw t (by simp))
      cases r with
      | nil => simpa using ⟨l1, s1⟩
      | cons t' r' =>
        obtain ⟨l2, s2⟩ := ih (by simp) (fun x hx => hw x (by simp [hx]))
        have hne2 : ((t' :: r').map C.write).flatten ≠ [] := by
          intro e
          rw [e] at s2
          simp [lastNonBlank, lastNonBlankRev] at s2
        simp only [List.map_cons, List.flatten_cons] at l2 s2 hne2 ⊢
        refine ⟨⟨?_, ?_⟩, ?_⟩
        · intro c hc
          rcases List.mem_append.1 hc with h | h
          · exact l1.1 c h
          · exact l2.1 c h
        · rw [List.getLast?_append]
          cases hgl : (C.write t' ++ (r'.map C.write).flatten).getLast? with
          | none => exact absurd (List.getLast?_eq_none_iff.1 hgl) hne2
          | some v =>
            have := l2.2
            rw [hgl] at this
            simpa using this
        · -- the last non-blank character of `a ++ b` is that of `b` when it is ';'
          unfold lastNonBlank at s2 ⊢
          rw [List.reverse_append]
          cases hr : (C.write t' ++ ((r'.map C.write).flatten)).reverse with
          | nil => rw [hr] at s2; simp [lastNonBlankRev] at s2
          | cons c rest =>
            rw [hr] at s2
            have hc : c = ';' ∨ isBlank c = true := by
              by_cases hb : isBlank c = true
              · exact Or.inr hb
              · left
                cases rest with
                | nil => simpa [lastNonBlankRev] using s2
                | cons d r2 => simpa [lastNonBlankRev, hb] using s2
            -- walk: by induction on the reversed suffix
            have key : ∀ (x y : Txt), lastNonBlankRev x = ';' → x ≠ [] → lastNonBlankRev (x ++ y) = ';' := by
              intro x
              induction x with
              | nil => intro y _ h; exact absurd rfl h
              | cons a x' ihx =>
                intro y hx _
                cases x' with
                | nil =>
                  simp only [lastNonBlankRev] at hx
                  subst hx
                  cases y <;> simp [lastNonBlankRev, isBlank]
                | cons a' x'' =>
                  by_cases hb : isBlank a = true
                  · simp only [lastNonBlankRev, hb, if_true] at hx
                    simp only [List.cons_append, lastNonBlankRev, hb, if_true]
                    exact ihx y hx (by simp)
                  · simp only [lastNonBlankRev, hb, Bool.false_eq_true, if_false] at hx
                    subst hx
                    simp [lastNonBlankRev, isBlank]
            exact key (c :: rest) _ s2 (by simp)
  have hl : ∀ l ∈ groups.map (fun g => (g.map C.write).flatten), oneLine l ∧ lastNonBlank l = ';' := by
    intro l hl
    obtain ⟨g, hgm, rfl⟩ := List.mem_map.1 hl
    exact hline g (hg g hgm).1 (hg g hgm).2
  rw [multi_no_skip]
  unfold chunks tail
  rw [splitLines_unlines _ (fun l hl' => (hl l hl').1), chunksGo_lines _ (fun l hl' => (hl l hl').2),
    tailGo_lines _ (fun l hl' => (hl l hl').2)]
  exact deliver_groups C L groups hg 0 (Or.inl hne)

/-- the audit's witness on C01's Newick model: `(a,b);(c,d);` on ONE line gave one record (the first tree,
    no error) with the pinned reader; the current reader delivers both trees, as for two lines -/
theorem multi_sameline_witness :
    let tipsOf := fun (recs : List Rec) => recs.map fun r => match r.out with | .ok t => some t.tipNames | .err => none
    tipsOf (readMultiNewickOne (c01Codec Newick.ratCodec) "(a,b);(c,d);\n".toList) = [some ["a", "b"]] ∧
    tipsOf (readMultiNewick (c01Codec Newick.ratCodec) "(a,b);(c,d);\n".toList) = [some ["a", "b"], some ["c", "d"]] ∧
    tipsOf (readMultiNewick (c01Codec Newick.ratCodec) "(a,b);\n(c,d);\n".toList) = [some ["a", "b"], some ["c", "d"]] ∧
    tipsOf (readMultiNewick (c01Codec Newick.ratCodec) "(a,b);x;\n(c,d);\n".toList) = [some ["a", "b"], none] := by
  decide +kernel

/- ## PhyloXML round trip (element level) -/

/-- since fix 78cdd07 a Nexus or PhyloXML input without any tree is one error record: the chain theorems
    are about at least one tree -/
theorem recsAre_ne_nil (ts : List T) (hne : ts ≠ []) (us : List T) (i : Nat)
    (h : recsAre ts (recsOfTrees us i) i = true) : us ≠ [] := by
  intro e
  subst e
  cases ts with
  | nil => exact hne rfl
  | cons t r => simp [recsOfTrees, recsAre] at h


theorem decPhylogeny_enc (N : NumCodec) (NL : NumLaws N) (t : T) (h : pxOK NL.dom t = true) :
    Px.decPhylogeny N (Px.encPhylogeny N t) = .ok (cladeOf none t) := by
  have hk : pxKids NL.dom t.kids = true := by
    simp only [pxOK, Bool.and_eq_true] at h; exact h.2
  have hc := dec_enc_clade N NL none t ⟨by simp [blOf], by simp [confOf]⟩ hk
  have htag : (Px.encClade N none t).tag? = some "clade" := by
    cases t with
    | node d p k => rw [encClade_eq]; rfl
  have b1 : Px.parseBoolOk "true" = true := by decide
  have b2 : Px.parseBoolOk "false" = true := by decide
  unfold Px.decPhylogeny Px.encPhylogeny
  by_cases hr : t.rooted = true <;>
    simp [hr, Px.Xml.kids, Px.decKids, htag, hc, b1, b2]

/-- `phyloxml_roundtrip` (element level): decoding the element tree that `WritePhyloXML` produces
    gives, for each tree, the clade structure of that tree; `cladeToTree` then succeeds and returns a
    tree with the same shape, names, lengths and supports. -/
theorem phyloxml_roundtrip (N : NumCodec) (NL : NumLaws N) (ts : List T) (h : ∀ t ∈ ts, pxOK NL.dom t = true) :
    Px.decode N (Px.encode N ts) = .ok (ts.map (cladeOf none)) ∧
    ∀ t ∈ ts, ∃ t', Px.phyloOut (cladeOf none t) = .ok t' ∧ strip t' = strip t := by
  constructor
  · simp only [Px.decode, Px.encode]
    induction ts with
    | nil => rfl
    | cons t r ih =>
      have h1 := decPhylogeny_enc N NL t (h t (by simp))
      have h2 := ih (fun x hx => h x (by simp [hx]))
      have htag : (Px.encPhylogeny N t).tag? = some "phylogeny" := rfl
      simp only [List.map_cons, Px.decPhylogenies, htag, beq_self_eq_true, if_true, h1, h2]
  · intro t ht
    have hp := h t ht
    simp only [pxOK, Bool.and_eq_true] at hp
    refine ⟨renumber (cladeOf none t).toT, ?_, ?_⟩
    · simp [Px.phyloOut, tipsNamed_cladeOf NL.dom none t hp.1 hp.2]
    · rw [strip_renumber, strip_toT NL.dom none t hp.2]

/-- the same through the reader entry point and in the words of the Spec: every tree written is
    delivered, in order, identifiers 0, 1, …, equal in what the formats keep -/
theorem phyloxml_chain (E : Env) (NL : NumLaws E.N) (ts : List T) (hne : ts ≠ []) (h : ∀ t ∈ ts, pxOK NL.dom t = true) :
    ∃ recs, readMulti E (.phyloxml (some (Px.encode E.N ts))) = some recs ∧ recsAre ts recs 0 = true := by
  obtain ⟨hd, ht⟩ := phyloxml_roundtrip E.N NL ts h
  refine ⟨recsOfOuts (pxIterate (ts.map (cladeOf none))) 0, by
    cases ts with
    | nil => exact absurd rfl hne
    | cons t r => simp [readMulti, hd], ?_⟩
  simp only [pxIterate, List.map_map]
  clear hd h hne
  generalize (0 : Nat) = i
  induction ts generalizing i with
  | nil => rfl
  | cons t r ih =>
    obtain ⟨t', h1, h2⟩ := ht t (by simp)
    simp only [List.map_cons, Function.comp, recsOfOuts, h1, recsAre, Out.keptEq, beq_self_eq_true,
      Bool.true_and, Bool.and_eq_true]
    exact ⟨(sameKept_iff t' t).2 h2, ih (fun x hx => ht x (by simp [hx])) (i + 1)⟩

/-- The law of the number codec, GENERAL: the decimal codec (`FormatFloat 'f' -1` as exact decimal
    expansion / decimal `ParseFloat`) reads back every rational whose expansion is finite (`decDom`:
    within the printer's 1100 digits — every float64 qualifies): `parse (TrimSpace (fmt q)) = q`. -/
theorem decimal_codec_law (q : Rat) (h : decDom q = true) : decCodec.parse (Px.trim (decCodec.fmt q)) = some q :=
  decCodec_parse_fmt q h

/-- PhyloXML round trip with the decimal codec, no assumption left on numbers: every length and
    support only has to have a finite decimal expansion -/
theorem phyloxml_chain_decimal (C : NewickCodec) (ts : List T) (hne : ts ≠ []) (h : ∀ t ∈ ts, pxOK decDom t = true) :
    ∃ recs, readMulti ⟨C, decCodec⟩ (.phyloxml (some (Px.encode decCodec ts))) = some recs ∧ recsAre ts recs 0 = true :=
  phyloxml_chain ⟨C, decCodec⟩ decNumLaws ts hne h

/- ## Nexus round trip -/

/-- `nexus_roundtrip` without translate table, CHARACTER level, in terms of the label state the
    writer's loop ends in (`stateLoop`): the document `WriteNexus` emits is lexed and parsed back into
    exactly the trees written (as the Newick parser returns them), named tree0, tree1, … -/
theorem nexus_roundtrip_plain_state (C : NewickCodec) (L : NewickLaws C) (ts : List T)
    (hn : (stateLoop (enumFrom 0 ts) {}).map.length ≤ 9223372036854775807)
    (hlen : (stateLoop (enumFrom 0 ts) {}).map.length = (stateLoop (enumFrom 0 ts) {}).slice.length)
    (hl : ∀ l ∈ (stateLoop (enumFrom 0 ts) {}).slice, labelOK l = true)
    (hnd : hasDup (stateLoop (enumFrom 0 ts) {}).slice = false)
    (hw : ∀ t ∈ ts, L.wf t = true)
    (hs : ∀ t ∈ ts, treeTextOK (C.write t) = true)
    (ht : ∀ t ∈ ts, okTaxa (stateLoop (enumFrom 0 ts) {}).slice t = true) :
    ∃ d, Nex.parse C (writeNexus C false (enumFrom 0 ts)) = .ok d ∧ recsAre ts (recsOfTrees (d.map (·.2)) 0) 0 = true := by
  have hmem : ∀ (i : Nat) (l : List T) (it : Nat × T), it ∈ enumFrom i l → it.2 ∈ l := by
    intro i l
    induction l generalizing i with
    | nil => intro it h; simp [enumFrom] at h
    | cons t r ih =>
      intro it h
      simp only [enumFrom, List.mem_cons] at h
      rcases h with h | h
      · simp [h]
      · exact List.mem_cons_of_mem _ (ih (i + 1) it h)
  have hp := parse_plain C L (enumFrom 0 ts) hn hlen (fun l h => labelOK_tokLabel l (hl l h)) hnd
    (fun it h => hw it.2 (hmem 0 ts it h)) (fun it h => hs it.2 (hmem 0 ts it h)) (fun it h => ht it.2 (hmem 0 ts it h))
  refine ⟨_, hp, ?_⟩
  apply recsAre_recsOfTrees
  simp only [List.map_map]
  have : ∀ (i : Nat) (l : List T), (∀ t ∈ l, L.wf t = true) →
      List.map (strip ∘ (fun x : String × T => x.2) ∘ fun it : Nat × T => ("tree" ++ toString it.1, L.norm it.2)) (enumFrom i l) = l.map strip := by
    intro i l
    induction l generalizing i with
    | nil => intro _; rfl
    | cons t r ih =>
      intro hwf
      simp only [enumFrom, List.map_cons, Function.comp, List.cons.injEq]
      exact ⟨L.norm_strip t (hwf t (by simp)), ih (i + 1) (fun x hx => hwf x (by simp [hx]))⟩
  exact this 0 ts hw

/-- `nexus_roundtrip` (no translate table), CHARACTER level for the document: for trees with
    legal, pairwise different tip labels on one common tip set, whose Newick text the codec round-trips
    (`L.wf`) and the Nexus lexer leaves intact (`treeTextOK`), reading the document that `WriteNexus`
    emits delivers every tree, in order, equal in shape, names, lengths and supports. -/
theorem nexus_roundtrip_plain (C : NewickCodec) (L : NewickLaws C) (ts : List T)
    (hw : ∀ t ∈ ts, L.wf t = true) (hs : ∀ t ∈ ts, treeTextOK (C.write t) = true)
    (htips : ∀ t ∈ ts, tipsOK t = true) (hst : sameTaxa ts = true) :
    ∃ d, Nex.parse C (writeNexus C false (enumFrom 0 ts)) = .ok d ∧
      recsAre ts (recsOfTrees (d.map (·.2)) 0) 0 = true := by
  have h := nexusState_ok ts (fun t ht => by
    have := htips t ht
    simp only [tipsOK, Bool.and_eq_true, Bool.not_eq_true', decide_eq_true_eq] at this
    exact ⟨this.1.1, this.1.2, this.2⟩) hst
  obtain ⟨h1, h2, h3, h4, h5⟩ := h
  exact nexus_roundtrip_plain_state C L ts h1 h2 h3 h4 hw hs h5

/-- the same through the reader entry point `ReadMultiTrees(FORMAT_NEXUS)` -/
theorem nexus_chain_plain (E : Env) (L : NewickLaws E.C) (ts : List T) (hne : ts ≠ [])
    (hw : ∀ t ∈ ts, L.wf t = true) (hs : ∀ t ∈ ts, treeTextOK (E.C.write t) = true)
    (htips : ∀ t ∈ ts, tipsOK t = true) (hst : sameTaxa ts = true) :
    ∃ recs, readMulti E (.nexus (writeNexus E.C false (enumFrom 0 ts))) = some recs ∧ recsAre ts recs 0 = true := by
  obtain ⟨d, hd, hr⟩ := nexus_roundtrip_plain E.C L ts hw hs htips hst
  have hdne : d.map (·.2) ≠ [] := recsAre_ne_nil ts hne _ 0 hr
  refine ⟨_, ?_, hr⟩
  cases d with
  | nil => exact absurd rfl hdne
  | cons x r => simp [readMulti, hd]

/-- `Tree.Nexus()` (tree/tree.go): the single-tree Nexus document is read back — by both reader entry
    points — as that tree (labels in `Tips()` order, NTAX = number of tips, tree name "tree1") -/
theorem treeNexus_roundtrip (E : Env) (L : NewickLaws E.C) (t : T)
    (hw : L.wf t = true) (hs : treeTextOK (E.C.write t) = true) (ht : tipsOK t = true) :
    readMulti E (.nexus (treeNexus E.C t)) = some [⟨0, .ok (L.norm t)⟩] ∧
    readFirst E (.nexus (treeNexus E.C t)) = some (.ok (L.norm t)) ∧
    strip (L.norm t) = strip t := by
  have h := parse_treeNexus E.C L t hw hs ht
  exact ⟨by simp [readMulti, h, recsOfTrees], by simp [readFirst, h], L.norm_strip t hw⟩

/-- `nexus_roundtrip` WITH a translate table, CHARACTER level for the document, in terms of the
    writer's label state and of the trees it actually writes (`writtenList`: clones renamed to
    indices): if the labels and index texts are single Nexus tokens, the written trees' Newick texts
    round-trip through the codec and survive the Nexus lexer, and renaming them back through the
    table gives the original trees (`backOK`, a statement about the pure renaming functions), then
    reading the document delivers every tree, in order, equal in shape, names, lengths, supports. -/
theorem nexus_roundtrip_translate_state (C : NewickCodec) (L : NewickLaws C) (ts : List T)
    (hst : nexusTrStateOK ts = true)
    (hw : ∀ w ∈ writtenList (enumFrom 0 ts) {}, L.wf w.2 = true)
    (hs : ∀ w ∈ writtenList (enumFrom 0 ts) {}, treeTextOK (C.write w.2) = true) :
    ∃ d, Nex.parse C (writeNexus C true (enumFrom 0 ts)) = .ok d ∧
      recsAre ts (recsOfTrees (d.map (·.2)) 0) 0 = true := by
  simp only [nexusTrStateOK, Bool.and_eq_true, decide_eq_true_eq, beq_iff_eq, List.all_eq_true,
    Bool.not_eq_true'] at hst
  obtain ⟨⟨⟨⟨h1, h2⟩, h3⟩, h4⟩, h5⟩ := hst
  exact parse_tr C L (enumFrom 0 ts) ts h1 h2
    (fun l hl => ⟨labelOK_tokLabel l (h3 l hl).1, labelOK_tokLabel _ (h3 l hl).2⟩) h4 hw hs h5

/-- both variants through the reader entry point, in the words of the Spec -/
theorem nexus_chain_translate (E : Env) (L : NewickLaws E.C) (ts : List T) (hne : ts ≠ [])
    (hst : nexusTrStateOK ts = true)
    (hw : ∀ w ∈ writtenList (enumFrom 0 ts) {}, L.wf w.2 = true)
    (hs : ∀ w ∈ writtenList (enumFrom 0 ts) {}, treeTextOK (E.C.write w.2) = true) :
    ∃ recs, readMulti E (.nexus (writeNexus E.C true (enumFrom 0 ts))) = some recs ∧ recsAre ts recs 0 = true := by
  obtain ⟨d, hd, hr⟩ := nexus_roundtrip_translate_state E.C L ts hst hw hs
  have hdne : d.map (·.2) ≠ [] := recsAre_ne_nil ts hne _ 0 hr
  refine ⟨_, ?_, hr⟩
  cases d with
  | nil => exact absurd rfl hdne
  | cons x r => simp [readMulti, hd]

/-- `nexus_roundtrip` WITH a translate table, from conditions on the input trees only (character
    level for the document): trees on one common tip set, tip labels legal and pairwise different, a
    name that is not a tip name is not a decimal numeral; `M` is the map the writer builds (tips of
    the first tree, numbered from 0 in order of appearance), the trees it writes are `renameT M t`,
    whose Newick texts must round-trip through the codec (`L.wf`) and survive the Nexus lexer
    (`treeTextOK`).  Then reading the document delivers every tree, in order, with its original names,
    equal in shape, names, lengths and supports.

    PARTIAL: the hypothesis `innerNamesDistinct` (non-empty node names pairwise different) is the
    excluded region.  The full statement — the same without `hd` — is FALSE for the code as it is:
    see `nexus_translate_repeated_inner_name_fails` (open finding F60). -/
theorem nexus_roundtrip_translate_partial (C : NewickCodec) (L : NewickLaws C) (t0 : T) (rest : List T)
    (htips : ∀ t ∈ t0 :: rest, tipsOK t = true) (hst : sameTaxa (t0 :: rest) = true)
    (hd : ∀ t ∈ t0 :: rest, innerNamesDistinct t = true)
    (hnum : ∀ t ∈ t0 :: rest, nonTipNamesNotNumeral t = true)
    (hw : ∀ t ∈ t0 :: rest, L.wf (renameT (mapFrom 0 t0.tipNames) t) = true)
    (hs : ∀ t ∈ t0 :: rest, treeTextOK (C.write (renameT (mapFrom 0 t0.tipNames) t)) = true) :
    ∃ d, Nex.parse C (writeNexus C true (enumFrom 0 (t0 :: rest))) = .ok d ∧
      recsAre (t0 :: rest) (recsOfTrees (d.map (·.2)) 0) 0 = true := by
  have hn : ∀ t ∈ t0 :: rest, namesOK t = true := fun t ht => by
    simp only [namesOK, Bool.and_eq_true]; exact ⟨hd t ht, hnum t ht⟩
  obtain ⟨h1, h2⟩ := nexusTrState_ok t0 rest htips hst hn
  have hmem : ∀ (i : Nat) (l : List T) (it : Nat × T), it ∈ enumFrom i l → it.2 ∈ l := by
    intro i l
    induction l generalizing i with
    | nil => intro it h; simp [enumFrom] at h
    | cons t r ih =>
      intro it h
      simp only [enumFrom, List.mem_cons] at h
      rcases h with h | h
      · simp [h]
      · exact List.mem_cons_of_mem _ (ih (i + 1) it h)
  apply nexus_roundtrip_translate_state C L (t0 :: rest) h1
  · intro w hw'
    rw [h2] at hw'
    obtain ⟨it, hit, rfl⟩ := List.mem_map.1 hw'
    exact hw it.2 (hmem 0 _ it hit)
  · intro w hw'
    rw [h2] at hw'
    obtain ⟨it, hit, rfl⟩ := List.mem_map.1 hw'
    exact hs it.2 (hmem 0 _ it hit)

/-- The taxa block of `WriteNexus`'s document, as the oracle `taxaBlockOK` reads it back from the text
    (with or without translate table; the trees may be on different tip sets): TAXLABELS names every
    tip of every tree exactly once and NTAX is their number. -/
theorem nexus_taxa_block (C : NewickCodec) (L : NewickLaws C) (ts : List T)
    (hn : (stateLoop (enumFrom 0 ts) {}).map.length ≤ 9223372036854775807)
    (hlab : ∀ t ∈ ts, t.tipNames.all labelOK = true)
    (hw : ∀ it ∈ enumFrom 0 ts, L.wf it.2 = true) :
    taxaBlockOK ts (writeNexus C false (enumFrom 0 ts)) = true :=
  taxaBlock_written C L false ts hn hlab (by simpa using hw) (by intro h; cases h)

/- ## Nexus documents the writer never emits: what the parser skips -/

/-- a comment between the commands of a TREES block is skipped -/
theorem nexus_comment_in_trees_block_skipped (f : Nat) (c r : List Nex.Tok) (a : Nex.TreesAcc)
    (h : ∀ t ∈ c, t ≠ .closebrack) :
    Nex.parseTrees (f + 1) (.openbrack :: (c ++ .closebrack :: r)) a = Nex.parseTrees f r a :=
  parseTrees_comment f c r a h

/-- a comment between the commands of a TAXA block is skipped -/
theorem nexus_comment_in_taxa_block_skipped (f : Nat) (c r : List Nex.Tok) (n : Int) (labs : List String)
    (h : ∀ t ∈ c, t ≠ .closebrack) :
    Nex.parseTaxa (f + 1) (.openbrack :: (c ++ .closebrack :: r)) n labs = Nex.parseTaxa f r n labs :=
  parseTaxa_comment f c r n labs h

/-- a command the TREES block does not know (`TITLE x;` …) is skipped up to its `;` -/
theorem nexus_unknown_command_skipped (f : Nat) (w : String) (c r : List Nex.Tok) (a : Nex.TreesAcc)
    (h : ∀ t ∈ c, t ≠ .endcmd) :
    Nex.parseTrees (f + 1) (.ident w :: (c ++ .endcmd :: r)) a = Nex.parseTrees f r a :=
  parseTrees_unknown_command f w c r a h

/-- a comment inside the TRANSLATE command, where an entry could start, is skipped (the table read so
    far, `m`, is kept) -/
theorem nexus_comment_in_translate_skipped (c r : List Nex.Tok) (m : List (String × String))
    (h : ∀ t ∈ c, t ≠ .closebrack) :
    Nex.parseTransl (.openbrack :: (c ++ .closebrack :: r)) m = Nex.parseTransl r m :=
  parseTransl_comment c r m h

/-- a block the parser does not know (`BEGIN FIGTREE; … END;`) is skipped as a whole -/
theorem nexus_unknown_block_skipped (f : Nat) (b b' e : String) (c r : List Nex.Tok) (st : Nex.PState)
    (h : ∀ t ∈ c, ∀ l, t ≠ .kw .end_ l) :
    Nex.parseLoop (f + 1) (.kw .begin_ b :: .ident b' :: .endcmd :: (c ++ .kw .end_ e :: .endcmd :: r)) st =
      Nex.parseLoop f r st :=
  parseLoop_unknown_block f b b' e c r st h

/-- Fix 82a8873 in general: a TREES block (`cs` = its TREE commands, each a name and the tokens of a tree
    text) met in ANY parser state appends its trees to those of the blocks before it … -/
theorem nexus_trees_block_appended (f : Nat) (b t e : String) (cs : List Cmd) (h : ∀ c ∈ cs, c.ok)
    (hf : 2 * cs.length + 2 ≤ f) (r : List Nex.Tok) (st : Nex.PState) :
    Nex.parseLoop (f + 1) (.kw .begin_ b :: .kw .trees t :: .endcmd :: .eol :: (cmdsToks cs ++ .kw .end_ e :: .endcmd :: r)) st =
      Nex.parseLoop f r { st with trees := some (st.trees.getD [] ++ cs.map fun c => (c.name, c.body)) } :=
  parseLoop_trees_block f b t e cs h hf r st

/-- … whereas the parser before the fix forgot them (general form of `several_trees_blocks_pinned_fails`) -/
theorem nexus_trees_block_pinned_overwrites (f : Nat) (b t e : String) (cs : List Cmd) (h : ∀ c ∈ cs, c.ok)
    (hf : 2 * cs.length + 2 ≤ f) (r : List Nex.Tok) (st : Nex.PState) :
    Nex.parseLoopPinned (f + 1) (.kw .begin_ b :: .kw .trees t :: .endcmd :: .eol :: (cmdsToks cs ++ .kw .end_ e :: .endcmd :: r)) st =
      Nex.parseLoopPinned f r { st with trees := some (cs.map fun c => (c.name, c.body)) } :=
  parseLoopPinned_trees_block f b t e cs h hf r st

/-- OBSERVATION (not a property violation, recorded with the integrator): gotree's Nexus lexer has no
    quoting.  A quoted label keeps its quotes as part of the name; a blank inside a quoted label splits it,
    so that a TRANSLATE entry or a TAXLABELS list with such a label makes the whole file fail; in a tree
    text the blank disappears (`'a x'` is read as the name `'ax'`).  The code agrees with the model on these
    documents (generator branches quoted-labels, quoted-labels-blank). -/
theorem nexus_quoted_labels_observation :
    let tips := fun (doc : String) => match Nex.parse (c01Codec Newick.ratCodec) doc.toList with
      | .ok d => some (d.map fun (x : String × T) => x.2.tipNames)
      | _ => none
    tips "#NEXUS\nBEGIN TREES;\n TRANSLATE 1 'a', 2 'b', 3 c;\n TREE t = (1,2,3);\nEND;\n" = some [["'a'", "'b'", "c"]] ∧
    tips "#NEXUS\nBEGIN TREES;\n TRANSLATE 1 'a x', 2 b, 3 c;\n TREE t = (1,2,3);\nEND;\n" = none ∧
    tips "#NEXUS\nBEGIN TAXA;\n TAXLABELS 'a x' b c;\nEND;\nBEGIN TREES;\n TREE t = ('a x',b,c);\nEND;\n" = none ∧
    tips "#NEXUS\nBEGIN TREES;\n TREE t = ('a x',b,c);\nEND;\n" = some [["'ax'", "b", "c"]] := by
  decide +kernel

/- ## The `gotree reformat` glue (cmd/reformat*.go) -/

/-- a file whose trees are all delivered: exit status 0 and the writer's document of exactly these
    trees, with the identifiers the reader gave them -/
theorem reformat_good (E : Env) (out : OutFmt) (tr : Bool) (ts : List T) :
    reformatGlue E out tr (recsOfTrees ts 0) =
      (true, match out with
        | .newick => Px.joinT (fun t => E.C.write t ++ ['\n']) ts
        | .nexus => writeNexus E.C tr (enumFrom 0 ts)
        | .phyloxml => Px.render E.N ts) :=
  reformatGlue_good E out tr ts

/-- a broken tree after `ts` good ones is reported by a non-zero exit status; `reformat newick` has
    written the trees before it, `reformat nexus|phyloxml` nothing -/
theorem reformat_error (E : Env) (out : OutFmt) (tr : Bool) (ts : List T) (rest : List Rec) :
    reformatGlue E out tr (recsOfTrees ts 0 ++ ⟨ts.length, .err⟩ :: rest) =
      (false, match out with
        | .newick => Px.joinT (fun t => E.C.write t ++ ['\n']) ts
        | _ => []) :=
  reformatGlue_error E out tr ts rest

theorem recsAre_congr (ts us : List T) (recs : List Rec) (i : Nat) (h : us.map strip = ts.map strip)
    (hr : recsAre us recs i = true) : recsAre ts recs i = true := by
  induction ts generalizing us recs i with
  | nil =>
    cases us with
    | nil => exact hr
    | cons _ _ => simp at h
  | cons t ts ih =>
    cases us with
    | nil => simp at h
    | cons u us =>
      cases recs with
      | nil => simp [recsAre] at hr
      | cons r rs =>
        simp only [List.map_cons, List.cons.injEq] at h
        simp only [recsAre, Bool.and_eq_true] at hr ⊢
        refine ⟨⟨hr.1.1, ?_⟩, ih us rs (i + 1) h.2 hr.2⟩
        cases hro : r.out with
        | err => rw [hro] at hr; simp [Out.keptEq] at hr
        | ok x =>
          rw [hro] at hr
          simp only [Out.keptEq] at hr ⊢
          exact (sameKept_iff x t).2 (((sameKept_iff x u).1 hr.1.2).trans h.1)

/-- `gotree reformat nexus -i trees.nw` followed by reading the result: the whole CLI conversion
    newick → nexus → trees, as composition of the multi-tree reader, the glue, the writer and the Nexus
    reader.  The conditions on the re-read trees `L.norm t` are what `nexus_roundtrip_plain` asks of the
    trees it is given. -/
theorem reformat_newick_to_nexus_roundtrip (E : Env) (L : NewickLaws E.C) (ts : List T) (hne : ts ≠ [])
    (hw : ∀ t ∈ ts, L.wf t = true) (hwn : ∀ t ∈ ts, L.wf (L.norm t) = true)
    (hs : ∀ t ∈ ts, treeTextOK (E.C.write (L.norm t)) = true)
    (htips : ∀ t ∈ ts, tipsOK (L.norm t) = true) (hst : sameTaxa (ts.map L.norm) = true) :
    (reformatGlue E .nexus false (readMultiNewick E.C (unlines (ts.map E.C.write)))).1 = true ∧
    ∃ recs, readMulti E (.nexus (reformatGlue E .nexus false (readMultiNewick E.C (unlines (ts.map E.C.write)))).2) = some recs ∧
      recsAre ts recs 0 = true := by
  rw [multi_delivers_all E.C L ts hne hw, reformatGlue_good]
  refine ⟨rfl, ?_⟩
  obtain ⟨recs, h1, h2⟩ := nexus_chain_plain E L (ts.map L.norm) (by simpa using hne)
    (by intro t ht; obtain ⟨u, hu, rfl⟩ := List.mem_map.1 ht; exact hwn u hu)
    (by intro t ht; obtain ⟨u, hu, rfl⟩ := List.mem_map.1 ht; exact hs u hu)
    (by intro t ht; obtain ⟨u, hu, rfl⟩ := List.mem_map.1 ht; exact htips u hu) hst
  refine ⟨recs, h1, recsAre_congr ts (ts.map L.norm) recs 0 ?_ h2⟩
  rw [List.map_map]
  apply List.map_congr_left
  intro t ht
  exact L.norm_strip t (hw t ht)

/- ## Composition with property C01: its verified Newick model as the codec

   `c01Codec F` is `Gotree.Newick.write` / `Gotree.Newick.parse` of Model/C01 (the codec the driver runs,
   with the Go-like float codec); `c01Laws F` derives the three base laws from C01's theorem
   `parse_write`, so the statements below have NO assumption on the Newick code left — only the float
   codec laws `F : FloatCodec` (C01's trust in strconv) and the decidable conditions on the trees. -/

/-- `multi_delivers_all` for C01's Newick model -/
theorem multi_delivers_all_c01 (F : Newick.FloatCodec) (ts : List T) (hne : ts ≠ [])
    (h : ∀ t ∈ ts, (C01.WF01 F.isFloat F.dom t && plainText (Newick.write F.toCodec t)) = true) :
    readMultiNewick (c01Codec F) (unlines (ts.map (Newick.write F.toCodec))) = recsOfTrees (ts.map T.normIds) 0 :=
  multi_delivers_all (c01Codec F) (c01Laws F) ts hne h

/-- `nexus_roundtrip` (no translate table) for C01's Newick model, character level end to end -/
theorem nexus_roundtrip_plain_c01 (F : Newick.FloatCodec) (ts : List T)
    (hw : ∀ t ∈ ts, (C01.WF01 F.isFloat F.dom t && plainText (Newick.write F.toCodec t)) = true)
    (hs : ∀ t ∈ ts, treeTextOK (Newick.write F.toCodec t) = true)
    (htips : ∀ t ∈ ts, tipsOK t = true) (hst : sameTaxa ts = true) :
    ∃ d, Nex.parse (c01Codec F) (writeNexus (c01Codec F) false (enumFrom 0 ts)) = .ok d ∧
      recsAre ts (recsOfTrees (d.map (·.2)) 0) 0 = true :=
  nexus_roundtrip_plain (c01Codec F) (c01Laws F) ts hw hs htips hst

/-- `nexus_roundtrip` with translate table for C01's Newick model (hypotheses on the writer's state
    and the renamed trees as in `nexus_roundtrip_translate_state`) -/
theorem nexus_roundtrip_translate_c01 (F : Newick.FloatCodec) (ts : List T)
    (hst : nexusTrStateOK ts = true)
    (hw : ∀ w ∈ writtenList (enumFrom 0 ts) {}, (C01.WF01 F.isFloat F.dom w.2 && plainText (Newick.write F.toCodec w.2)) = true)
    (hs : ∀ w ∈ writtenList (enumFrom 0 ts) {}, treeTextOK (Newick.write F.toCodec w.2) = true) :
    ∃ d, Nex.parse (c01Codec F) (writeNexus (c01Codec F) true (enumFrom 0 ts)) = .ok d ∧
      recsAre ts (recsOfTrees (d.map (·.2)) 0) 0 = true :=
  nexus_roundtrip_translate_state (c01Codec F) (c01Laws F) ts hst hw hs

/-- ★ `first_eq_head` for C01's Newick model, all four input formats: NO assumption on the Newick
    parser is left — its two stream laws (stops at the first ';', skips white space after a delimiter)
    are theorems about `Gotree.Newick.parse` (`c01_parse_prefix`, `c01_parse_ws_skip`,
    Lemmas/C13C01Stream.lean). -/
theorem first_eq_head_c01 (F : Newick.FloatCodec) (N : NumCodec) (d : Doc) (h : firstOwnLines d = true) :
    readFirst ⟨c01Codec F, N⟩ d = (readMulti ⟨c01Codec F, N⟩ d).map headOut :=
  first_eq_head ⟨c01Codec F, N⟩ (c01StreamLaws F) d h

/-- the layout theorem for C01's Newick model: no assumption on the Newick code -/
theorem multi_delivers_all_layout_c01 (F : Newick.FloatCodec) (items : List (T × List Txt))
    (hne : items ≠ []) (hw : ∀ it ∈ items, (c01Laws F).wf it.1 = true)
    (hi : ∀ it ∈ items, ItemOK (c01Codec F) it.1 it.2) :
    readMultiNewick (c01Codec F) (unlines (items.flatMap (·.2))) = recsOfTrees (items.map fun it => it.1.normIds) 0 :=
  multi_delivers_all_layout (c01Codec F) (c01StreamLaws F) items hne hw hi _ (Or.inl rfl)

/-- several trees per line, for C01's Newick model: no assumption on the Newick code -/
theorem multi_delivers_all_lines_c01 (F : Newick.FloatCodec) (groups : List (List T)) (hne : groups ≠ [])
    (hg : ∀ g ∈ groups, g ≠ [] ∧ ∀ t ∈ g, (c01Laws F).wf t = true) :
    readMultiNewick (c01Codec F) (unlines (groups.map fun g => (g.map (c01Codec F).write).flatten)) =
      recsOfTrees (groups.flatten.map T.normIds) 0 :=
  multi_delivers_all_lines (c01Codec F) (c01StreamLaws F) groups hne hg

/-- The region `innerNamesDistinct` excludes (open finding F60), as a negative theorem on a concrete witness (C01's Newick model,
    its lawful codec `ratCodec`): for `((a:1,b:1)X:1,(c:1,d:1)X:1,e:1);` — two inner nodes named X, tips
    and labels fine — the document written WITH a translate table is rejected by the reader
    (`tree.Rename` indexes every named node and refuses the repeated name; the writer ignores that error
    and writes the tree unrenamed under a TRANSLATE table), while without translate table the same tree
    comes back unchanged. -/
theorem nexus_translate_repeated_inner_name_fails :
    (Nex.parse (c01Codec Newick.ratCodec) (writeNexus (c01Codec Newick.ratCodec) true [(0, dupTree)])).isErr = true ∧
    (match Nex.parse (c01Codec Newick.ratCodec) (writeNexus (c01Codec Newick.ratCodec) false [(0, dupTree)]) with
     | .ok [(_, t)] => sameKept t dupTree
     | _ => false) = true ∧
    tipsOK dupTree = true ∧ nonTipNamesNotNumeral dupTree = true ∧ innerNamesDistinct dupTree = false := by
  decide +kernel

/- ## The repair of open finding F60, proved ahead of time (variant model `Model/C13Tips.lean`)

   Writer and reader rename the TIPS only through the translate table (`renameTips`; the reader then runs
   `UpdateTipIndex`) instead of calling `tree.Rename`.  Everything else is the code as it is. -/

/-- `nexus_roundtrip` with a translate table for the tips-only variant: the hypothesis
    `innerNamesDistinct` of `nexus_roundtrip_translate_partial` is GONE (and `nonTipNamesNotNumeral` too):
    any inner names, repeated or numeral-like, survive. -/
theorem nexus_roundtrip_translate_tipsOnly (C : NewickCodec) (L : NewickLaws C) (t0 : T) (rest : List T)
    (htips : ∀ t ∈ t0 :: rest, tipsOK t = true) (hst : sameTaxa (t0 :: rest) = true)
    (hw : ∀ t ∈ t0 :: rest, L.wf (renameTips (mapFrom 0 t0.tipNames) t) = true)
    (hs : ∀ t ∈ t0 :: rest, treeTextOK (C.write (renameTips (mapFrom 0 t0.tipNames) t)) = true) :
    ∃ d, Nex.parseTips C (writeNexusTips C true (enumFrom 0 (t0 :: rest))) = .ok d ∧
      recsAre (t0 :: rest) (recsOfTrees (d.map (·.2)) 0) 0 = true :=
  parseTips_writeTips C L t0 rest htips hst hw hs

/-- the variant changes nothing without a translate table: same text as `writeNexus` -/
theorem writeNexusTips_plain (C : NewickCodec) (its : List (Nat × T)) :
    writeNexusTips C false its = writeNexus C false its := by
  have h : ∀ (its : List (Nat × T)) (s : WState) (buf : Txt),
      writeNexusLoopTips C false its s buf = writeNexusLoop C false its s buf := by
    intro its
    induction its with
    | nil => intro s buf; rfl
    | cons it r ih =>
      intro s buf
      simp only [writeNexusLoopTips, writeNexusLoop, writeNexusStep, writtenTreeTips, writtenTree, Bool.false_eq_true,
        if_false]
      exact ih _ _
  unfold writeNexusTips writeNexus
  rw [h]

/-- the witness of F60 under the repair: `((a:1,b:1)X:1,(c:1,d:1)X:1,e:1);` written with a translate
    table by the tips-only variant is read back unchanged (C01's Newick model, `ratCodec`) -/
theorem nexus_translate_repeated_inner_name_tipsOnly_ok :
    (match Nex.parseTips (c01Codec Newick.ratCodec) (writeNexusTips (c01Codec Newick.ratCodec) true [(0, dupTree)]) with
     | .ok [(_, t)] => sameKept t dupTree
     | _ => false) = true := by
  decide +kernel

/-- The defect repaired by 6a194b0 (found by the second audit) as a theorem about the pinned reader
    `Nex.parseAllTaxa` on a concrete witness (C01's Newick model): the list `(a,b,(c,d));`, `(a,b,c);` — both
    trees well-formed, tip sets different — written as ONE Nexus document (TAXA block = the union a b c d) was
    refused, with and without translate table (every label of the TAXA block had to be in every tree);
    the current reader delivers both trees.  (`sameTaxa` stays a hypothesis of the general
    `nexus_roundtrip_*` theorems; the oracle runs on such lists.) -/
theorem nexus_list_differing_taxa_fails :
    let t1 : T := .node ⟨"", []⟩ 0 [(EdgeD.blank, T.leaf "a"), (EdgeD.blank, T.leaf "b"),
      (EdgeD.blank, .node ⟨"", []⟩ 0 [(EdgeD.blank, T.leaf "c"), (EdgeD.blank, T.leaf "d")])]
    let t2 : T := .node ⟨"", []⟩ 0 [(EdgeD.blank, T.leaf "a"), (EdgeD.blank, T.leaf "b"), (EdgeD.blank, T.leaf "c")]
    let C := c01Codec Newick.ratCodec
    let back := fun (r : Nex.PRes Nex.NexDoc) => match r with
      | .ok [(_, u1), (_, u2)] => sameKept u1 t1 && sameKept u2 t2
      | _ => false
    sameTaxa [t1, t2] = false ∧
    (Nex.parseAllTaxa C (writeNexus C false [(0, t1), (1, t2)])).isErr = true ∧
    (Nex.parseAllTaxa C (writeNexus C true [(0, t1), (1, t2)])).isErr = true ∧
    back (Nex.parse C (writeNexus C false [(0, t1), (1, t2)])) = true ∧
    back (Nex.parse C (writeNexus C true [(0, t1), (1, t2)])) = true := by
  decide +kernel

/-- The defect repaired by 82a8873 as a theorem about the pinned parser: a document with two TREES
    blocks (one tree, then two) is read as THREE trees by the current parser and as the last TWO by the
    pinned one, without any error. -/
theorem several_trees_blocks_pinned_fails :
    let doc := "#NEXUS\nBEGIN TREES;\n TREE t1 = (a,b,c);\nEND;\nBEGIN TREES;\n TREE t2 = (a,c,b);\n TREE t3 = (b,a,c);\nEND;\n".toList
    (match Nex.parse (c01Codec Newick.ratCodec) doc with | .ok d => d.map (·.1) | _ => []) = ["t1", "t2", "t3"] ∧
    (match Nex.parsePinnedBlocks (c01Codec Newick.ratCodec) doc with | .ok d => d.map (·.1) | _ => []) = ["t2", "t3"] := by
  decide +kernel

/- ## Nexus documents of other programs (standard form)

   `writeNexusStd` (Model/C13Std.lean) is a SPECIFICATION of input documents, not a model of gotree code:
   lower-case keywords, tabs, one taxon label per line, a TRANSLATE table numbered from 1 with commas
   between the entries and the `;` on its own line, trees `tree treeN = [&U] <newick>;`, an empty line
   between the blocks (FigTree / BEAST / MrBayes style).  gotree's writer never emits this layout. -/

/-- gotree's Nexus reader (`Nex.parse`) on a standard-form document with taxa `labels` and the trees
    `ts` (written with their tips replaced by the table's numbers): it delivers every tree, in order,
    equal to the original on shape, names, lengths and supports.  Hypotheses: the labels are legal and
    pairwise different, every tree has exactly these tips, the conditions of
    `nexus_roundtrip_translate_partial` on the other names (`namesOK`, the F60 region excluded), and the
    Newick codec's conditions on the numbered trees. -/
theorem nexus_std_roundtrip (C : NewickCodec) (L : NewickLaws C) (labels : List String) (ts : List T)
    (hn : labels.length ≤ 9223372036854775807)
    (hlab : labels.all labelOK = true)
    (hnd : hasDup labels = false)
    (hset : ∀ t ∈ ts, sameSet t.tipNames labels = true)
    (htnd : ∀ t ∈ ts, hasDup t.tipNames = false)
    (hnames : ∀ t ∈ ts, namesOK t = true)
    (hw : ∀ t ∈ ts, L.wf (renameT (stdMap 1 labels) t) = true)
    (hs : ∀ t ∈ ts, treeTextOK (C.write (renameT (stdMap 1 labels) t)) = true) :
    ∃ d, Nex.parse C (writeNexusStd C labels ts) = .ok d ∧ recsAre ts (recsOfTrees (d.map (·.2)) 0) 0 = true :=
  parse_std C L labels ts hn (by simpa [List.all_eq_true] using hlab) hnd hset htnd hnames hw hs

/-- `nexus_std_roundtrip` with C01's Newick model -/
theorem nexus_std_roundtrip_c01 (F : Newick.FloatCodec) (labels : List String) (ts : List T)
    (hn : labels.length ≤ 9223372036854775807)
    (hlab : labels.all labelOK = true)
    (hnd : hasDup labels = false)
    (hset : ∀ t ∈ ts, sameSet t.tipNames labels = true)
    (htnd : ∀ t ∈ ts, hasDup t.tipNames = false)
    (hnames : ∀ t ∈ ts, namesOK t = true)
    (hw : ∀ t ∈ ts, (c01Laws F).wf (renameT (stdMap 1 labels) t) = true)
    (hs : ∀ t ∈ ts, treeTextOK ((c01Codec F).write (renameT (stdMap 1 labels) t)) = true) :
    ∃ d, Nex.parse (c01Codec F) (writeNexusStd (c01Codec F) labels ts) = .ok d ∧
      recsAre ts (recsOfTrees (d.map (·.2)) 0) 0 = true :=
  nexus_std_roundtrip (c01Codec F) (c01Laws F) labels ts hn hlab hnd hset htnd hnames hw hs

/- ## PhyloXML documents in forms gotree's writer never emits

   `Px.encodeAlt` (Model/C13PxForms.lean) is a SPECIFICATION of input documents: every node name written
   in the style `sty` chooses for it — `<name>`, `<taxonomy><scientific_name>`, `<taxonomy><code>`, code and
   scientific name (the scientific name is taken), `<name>` next to a taxonomy (the name is taken), `<name>`
   twice (the last is taken) — unknown elements `junk` in front of the fields of every clade, and white space
   `padL`, `padR` around every number. -/

/-- the reader model on such a document (element level): decoding gives, for each tree, a clade
    structure from which `cladeToTree` builds a tree with the same shape, names, lengths and supports —
    whatever style is chosen for each name and whatever unknown elements are interspersed. -/
theorem phyloxml_forms_roundtrip (N : NumCodec) (NL : NumLaws N) (sty : String → Px.NameStyle) (junk : List Px.Xml)
    (hj : Px.junkOK junk = true) (padL padR : Txt) (hpl : Px.padOK padL = true) (hpr : Px.padOK padR = true) (ts : List T) (h : ∀ t ∈ ts, pxOK NL.dom t = true) :
    Px.decode N (Px.encodeAlt N sty junk padL padR ts) = .ok (ts.map (cladeAlt sty none)) ∧
    ∀ t ∈ ts, ∃ t', Px.phyloOut (cladeAlt sty none t) = .ok t' ∧ strip t' = strip t := by
  constructor
  · simp only [Px.decode, Px.encodeAlt]
    induction ts with
    | nil => rfl
    | cons t r ih =>
      have hp := h t (by simp)
      have hk : pxKids NL.dom t.kids = true := by
        simp only [pxOK, Bool.and_eq_true] at hp; exact hp.2
      have hc := dec_encAlt_clade N NL sty junk hj padL padR hpl hpr none t ⟨by simp [blOf], by simp [confOf]⟩ hk
      have htag : (Px.encCladeAlt N sty junk padL padR none t).tag? = some "clade" := by
        cases t with
        | node d p k => rw [encCladeAlt_eq]; rfl
      have h1 : Px.decPhylogeny N (Px.encPhylogenyAlt N sty junk padL padR t) = .ok (cladeAlt sty none t) := by
        have b1 : Px.parseBoolOk "true" = true := by decide
        have b2 : Px.parseBoolOk "false" = true := by decide
        unfold Px.decPhylogeny Px.encPhylogenyAlt
        by_cases hr : t.rooted = true <;>
          simp [hr, Px.Xml.kids, Px.decKids, htag, hc, b1, b2]
      have h2 := ih (fun x hx => h x (by simp [hx]))
      have htag' : (Px.encPhylogenyAlt N sty junk padL padR t).tag? = some "phylogeny" := rfl
      simp only [List.map_cons, Px.decPhylogenies, htag', beq_self_eq_true, if_true, h1, h2]
  · intro t ht
    have hp := h t ht
    simp only [pxOK, Bool.and_eq_true] at hp
    refine ⟨renumber (cladeAlt sty none t).toT, ?_, ?_⟩
    · simp [Px.phyloOut, tipsNamed_cladeAlt sty NL.dom none t hp.1 hp.2]
    · rw [strip_renumber, toT_alt, strip_toT NL.dom none t hp.2]

/-- the same through the reader entry point: every tree of the document is delivered, in order,
    identifiers 0, 1, …, equal in what the formats keep -/
theorem phyloxml_forms_chain (E : Env) (NL : NumLaws E.N) (sty : String → Px.NameStyle) (junk : List Px.Xml)
    (hj : Px.junkOK junk = true) (padL padR : Txt) (hpl : Px.padOK padL = true) (hpr : Px.padOK padR = true) (ts : List T) (hne : ts ≠ []) (h : ∀ t ∈ ts, pxOK NL.dom t = true) :
    ∃ recs, readMulti E (.phyloxml (some (Px.encodeAlt E.N sty junk padL padR ts))) = some recs ∧ recsAre ts recs 0 = true := by
  obtain ⟨hd, ht⟩ := phyloxml_forms_roundtrip E.N NL sty junk hj padL padR hpl hpr ts h
  refine ⟨recsOfOuts (pxIterate (ts.map (cladeAlt sty none))) 0, by
    cases ts with
    | nil => exact absurd rfl hne
    | cons t r => simp [readMulti, hd], ?_⟩
  simp only [pxIterate, List.map_map]
  clear hd h hne
  generalize (0 : Nat) = i
  induction ts generalizing i with
  | nil => rfl
  | cons t r ih =>
    obtain ⟨t', h1, h2⟩ := ht t (by simp)
    simp only [List.map_cons, Function.comp, recsOfOuts, h1, recsAre, Out.keptEq, beq_self_eq_true,
      Bool.true_and, Bool.and_eq_true]
    exact ⟨(sameKept_iff t' t).2 h2, ih (fun x hx => ht x (by simp [hx])) (i + 1)⟩

/-- with the decimal number codec: no assumption left on numbers -/
theorem phyloxml_forms_chain_decimal (C : NewickCodec) (sty : String → Px.NameStyle) (junk : List Px.Xml)
    (hj : Px.junkOK junk = true) (padL padR : Txt) (hpl : Px.padOK padL = true) (hpr : Px.padOK padR = true) (ts : List T) (hne : ts ≠ []) (h : ∀ t ∈ ts, pxOK decDom t = true) :
    ∃ recs, readMulti ⟨C, decCodec⟩ (.phyloxml (some (Px.encodeAlt decCodec sty junk padL padR ts))) = some recs ∧
      recsAre ts recs 0 = true :=
  phyloxml_forms_chain ⟨C, decCodec⟩ decNumLaws sty junk hj padL padR hpl hpr ts hne h

/-- what the reader does NOT follow: the tag and the attributes of a clade element play no role in
    decoding it, so a branch length given as the ATTRIBUTE `branch_length="…"` of `<clade>` (legal
    PhyloXML) is lost — the harness tags such documents `attr-length` and compares model against code only -/
theorem phyloxml_clade_attributes_ignored (N : NumCodec) (tag tag' : String) (a a' : List (String × String))
    (k : List Px.Xml) : Px.decClade N (.elem tag a k) = Px.decClade N (.elem tag' a' k) := by
  rw [Px.decClade, Px.decClade]

/-- the `rooted` attribute of `<phylogeny>`: any Go boolean (`1 t T TRUE true True 0 f F FALSE false False`,
    blanks around it, or the empty value) is accepted and its value plays no role in what is read … -/
theorem phyloxml_rooted_value_irrelevant (N : NumCodec) (tag : String) (v v' : String) (k : List Px.Xml)
    (hv : Px.parseBoolOk v = true) (hv' : Px.parseBoolOk v' = true) :
    Px.decPhylogeny N (.elem tag [("rooted", v)] k) = Px.decPhylogeny N (.elem tag [("rooted", v')] k) := by
  simp [Px.decPhylogeny, hv, hv', Px.Xml.kids]

/-- … anything else makes `xml.Unmarshal`, hence the reader, fail -/
theorem phyloxml_rooted_invalid_fails (N : NumCodec) (tag : String) (v : String) (k : List Px.Xml)
    (hv : Px.parseBoolOk v = false) : Px.decPhylogeny N (.elem tag [("rooted", v)] k) = .err := by
  simp [Px.decPhylogeny, hv]

/- ## PhyloXML with the float codec of property C01

   `numOf F` turns a float codec of C01 into this property's number codec; the driver's `goNum` is
   `numOf Newick.goCodec` (`goNum_eq`).  C01's three codec laws give the law needed here (`c01NumLaws`), so
   the PhyloXML theorems hold under exactly the assumption C01 makes on `strconv`, and without any
   assumption for C01's `ratCodec`. -/

theorem phyloxml_chain_c01 (C : NewickCodec) (F : Newick.FloatCodec) (ts : List T) (hne : ts ≠ [])
    (h : ∀ t ∈ ts, pxOK F.dom t = true) :
    ∃ recs, readMulti ⟨C, numOf F.toCodec⟩ (.phyloxml (some (Px.encode (numOf F.toCodec) ts))) = some recs ∧
      recsAre ts recs 0 = true :=
  phyloxml_chain ⟨C, numOf F.toCodec⟩ (c01NumLaws F) ts hne h

theorem phyloxml_forms_chain_c01 (C : NewickCodec) (F : Newick.FloatCodec) (sty : String → Px.NameStyle)
    (junk : List Px.Xml) (hj : Px.junkOK junk = true) (padL padR : Txt) (hpl : Px.padOK padL = true)
    (hpr : Px.padOK padR = true) (ts : List T) (hne : ts ≠ []) (h : ∀ t ∈ ts, pxOK F.dom t = true) :
    ∃ recs, readMulti ⟨C, numOf F.toCodec⟩ (.phyloxml (some (Px.encodeAlt (numOf F.toCodec) sty junk padL padR ts))) = some recs ∧
      recsAre ts recs 0 = true :=
  phyloxml_forms_chain ⟨C, numOf F.toCodec⟩ (c01NumLaws F) sty junk hj padL padR hpl hpr ts hne h

/-- PhyloXML round trip for the codecs the DRIVER runs (`goNum` = C01's executable model of
    FormatFloat/ParseFloat, law proved on C01's structural domain `goDomS`, which the driver evaluates on
    every number of every case): no assumption on numbers beyond `goDomS` -/
theorem phyloxml_chain_go (C : NewickCodec) (ts : List T) (hne : ts ≠ []) (h : ∀ t ∈ ts, pxOK Newick.goDomS t = true) :
    ∃ recs, readMulti ⟨C, goNum⟩ (.phyloxml (some (Px.encode goNum ts))) = some recs ∧ recsAre ts recs 0 = true :=
  phyloxml_chain ⟨C, goNum⟩ goNumLaws ts hne h

theorem phyloxml_forms_chain_go (C : NewickCodec) (sty : String → Px.NameStyle)
    (junk : List Px.Xml) (hj : Px.junkOK junk = true) (padL padR : Txt) (hpl : Px.padOK padL = true)
    (hpr : Px.padOK padR = true) (ts : List T) (hne : ts ≠ []) (h : ∀ t ∈ ts, pxOK Newick.goDomS t = true) :
    ∃ recs, readMulti ⟨C, goNum⟩ (.phyloxml (some (Px.encodeAlt goNum sty junk padL padR ts))) = some recs ∧
      recsAre ts recs 0 = true :=
  phyloxml_forms_chain ⟨C, goNum⟩ goNumLaws sty junk hj padL padR hpl hpr ts hne h

/- ## Nextstrain

   gotree only READS Nextstrain JSON.  `nsOf div t` (Model/C13NsSpec.lean) is the specification of the
   document (decoded: name, divergence, children) that describes the tree `t` when its root has the
   divergence `div`: the divergence of a node is its parent's plus the branch length. -/

/-- the Nextstrain reader model returns the tree the document describes: same shape, names and branch
    lengths (differences of divergences), through both entry points — for every tree whose tips are
    named and that carries no supports (`nsNodeOK`: the format has no place for them) -/
theorem nextstrain_reads_tree (E : Env) (div : Rat) (t : T) (h : nsNodeOK t = true) :
    ∃ t', readMulti E (.nextstrain (some (nsOf div t))) = some [⟨0, .ok t'⟩] ∧
      readFirst E (.nextstrain (some (nsOf div t))) = some (.ok t') ∧
      strip t' = strip t ∧ recsAre [t] [⟨0, .ok t'⟩] 0 = true := by
  have hs : strip (renumber (nsOf div t).toT) = strip t := by rw [strip_renumber, ns_strip div t h]
  refine ⟨renumber (nsOf div t).toT, ?_, ?_, hs, ?_⟩
  · simp [readMulti, Ns.firstTree, ns_tipsNamed div t h]
  · simp [readFirst, Ns.firstTree, ns_tipsNamed div t h]
  · simp only [recsAre, Out.keptEq, beq_self_eq_true, Bool.true_and, Bool.and_true]
    exact (sameKept_iff _ _).2 hs

/- ## the hypotheses are satisfiable on a non-trivial tree

   `exTree` = `(a:0.5,(b:1,c:0)0.75,d);` (unrooted, multifurcating root, an inner branch with support, a
   zero and an absent length); `exCodec`/`exLaws` a Newick codec with the five laws proved
   (Lemmas/C13Ex.lean); `exNumLaws` the decimal codec on the values used. -/

example : exLaws.toNewickLaws.wf exTree = true := by decide +kernel

/-- multi_delivers_all / multi_delivers_all_spec -/
example : recsAre [exTree, exTree] (readMultiNewick exCodec (unlines ([exTree, exTree].map exCodec.write))) 0 = true :=
  multi_delivers_all_spec exCodec exLaws.toNewickLaws [exTree, exTree] (by simp)
    (by intro t ht; simp at ht; subst ht; decide +kernel)

/-- first_eq_head (Newick): a wrapped first tree with a blank line in front and a second tree on the
    same line satisfies the hypothesis -/
example : firstOwnLines (.newick "\n (a:0.5,\n(b:1,c:0)0.75,d);(x,y);\n(z,w);\n".toList) = true := by decide

example : readFirst ⟨exCodec, decCodec⟩ (.newick "\n (a:0.5,\n(b:1,c:0)0.75,d);(x,y);\n(z,w);\n".toList) =
    (readMulti ⟨exCodec, decCodec⟩ (.newick "\n (a:0.5,\n(b:1,c:0)0.75,d);(x,y);\n(z,w);\n".toList)).map headOut :=
  first_eq_head ⟨exCodec, decCodec⟩ exLaws _ (by decide)

/-- phyloxml_roundtrip -/
example : pxOK exNumLaws.dom exTree = true := by decide +kernel

example : ∃ recs, readMulti ⟨exCodec, decCodec⟩ (.phyloxml (some (Px.encode decCodec [exTree, exTree]))) = some recs ∧
    recsAre [exTree, exTree] recs 0 = true :=
  phyloxml_chain ⟨exCodec, decCodec⟩ exNumLaws [exTree, exTree] (by simp)
    (by intro t ht; simp at ht; subst ht; decide +kernel)

/-- nexus_roundtrip_plain -/
example : treeTextOK (exCodec.write exTree) = true ∧ tipsOK exTree = true ∧ sameTaxa [exTree, exTree] = true := by
  decide +kernel

example : ∃ d, Nex.parse exCodec (writeNexus exCodec false (enumFrom 0 [exTree, exTree])) = .ok d ∧
    recsAre [exTree, exTree] (recsOfTrees (d.map (·.2)) 0) 0 = true :=
  nexus_roundtrip_plain exCodec exLaws.toNewickLaws [exTree, exTree]
    (by intro t ht; simp at ht; subst ht; decide +kernel)
    (by intro t ht; simp at ht; subst ht; decide +kernel)
    (by intro t ht; simp at ht; subst ht; decide +kernel)
    (by decide +kernel)

/-- the C01-composed statements: `exTree` is in C01's quantifier and its text is plain, for C01's
    lawful float codec `ratCodec` -/
example : (C01.WF01 Newick.ratCodec.isFloat Newick.ratCodec.dom exTree &&
    plainText (Newick.write Newick.ratCodec.toCodec exTree)) = true := by decide +kernel

/-- nexus_roundtrip_translate_partial: all hypotheses hold for `[exTree, exTree]` with C01's codec (`ratCodec`) -/
example : ∃ d, Nex.parse (c01Codec Newick.ratCodec) (writeNexus (c01Codec Newick.ratCodec) true (enumFrom 0 [exTree, exTree])) = .ok d ∧
    recsAre [exTree, exTree] (recsOfTrees (d.map (·.2)) 0) 0 = true :=
  nexus_roundtrip_translate_partial (c01Codec Newick.ratCodec) (c01Laws Newick.ratCodec) exTree [exTree]
    (by intro t ht; simp at ht; subst ht; decide +kernel)
    (by decide +kernel)
    (by intro t ht; simp at ht; subst ht; decide +kernel)
    (by intro t ht; simp at ht; subst ht; decide +kernel)
    (by intro t ht; simp at ht; subst ht; decide +kernel)
    (by intro t ht; simp at ht; subst ht; decide +kernel)

/-- multi_delivers_all_layout: an empty line, a blank-only line, a leading blank, the tree wrapped
    after a comma, a trailing blank -/
example : ItemOK exCodec exTree ["".toList, "  ".toList, " (a:0.5,".toList, "(b:1,c:0)0.75,d); ".toList] where
  oneLine := by
    intro l hl
    simp only [List.mem_cons, List.not_mem_nil, or_false] at hl
    rcases hl with h | h | h | h <;> (subst h; exact ⟨by decide, by decide⟩)
  shape := ⟨["".toList, "  ".toList, " (a:0.5,".toList], "(b:1,c:0)0.75,d)".toList, " ".toList, "   ".toList,
    "(a:0.5,(b:1,c:0)0.75,d)".toList, by decide, by decide, by decide, by decide, by decide⟩

/-- nexus_std_roundtrip: all hypotheses hold for the taxa `[d, a, c, b]` (another order than the trees')
    and `[exTree, exTree]` with C01's codec (`ratCodec`) -/
example : ∃ d, Nex.parse (c01Codec Newick.ratCodec) (writeNexusStd (c01Codec Newick.ratCodec) ["d", "a", "c", "b"] [exTree, exTree]) = .ok d ∧
    recsAre [exTree, exTree] (recsOfTrees (d.map (·.2)) 0) 0 = true :=
  nexus_std_roundtrip_c01 Newick.ratCodec ["d", "a", "c", "b"] [exTree, exTree]
    (by decide) (by decide +kernel) (by decide +kernel)
    (by intro t ht; simp at ht; subst ht; decide +kernel)
    (by intro t ht; simp at ht; subst ht; decide +kernel)
    (by intro t ht; simp at ht; subst ht; decide +kernel)
    (by intro t ht; simp at ht; subst ht; decide +kernel)
    (by intro t ht; simp at ht; subst ht; decide +kernel)

/-- phyloxml_forms_chain_decimal: the hypotheses hold for `exTree` with a style that depends on the
    name, two unknown elements (one of them with a `<name>` of its own, nested, which is not followed), a blank
    before and a line end and a tab after every number -/
example : ∃ recs, readMulti ⟨exCodec, decCodec⟩ (.phyloxml (some (Px.encodeAlt decCodec
      (fun n => if n == "a" then .sciCode else if n == "b" then .nameTax else if n == "c" then .twice else .code)
      [.elem "color" [] [Px.el "red" "255"], .elem "events" [] [Px.el "name" "x"]] " ".toList "\n\t".toList [exTree, exTree]))) = some recs ∧
    recsAre [exTree, exTree] recs 0 = true :=
  phyloxml_forms_chain_decimal exCodec _ _ (by decide) _ _ (by decide) (by decide) [exTree, exTree] (by simp)
    (by intro t ht; simp at ht; subst ht; decide +kernel)

/-- nextstrain_reads_tree: the hypothesis holds for `(a:0.5,(b:1,c:0):0.75,d:2);`-like trees (all lengths, no support) -/
example : nsNodeOK (.node ⟨"", []⟩ 0 [(exE (1/2) NIL, T.leaf "a"),
    (exE (3/4) NIL, .node ⟨"in", []⟩ 0 [(exE 1 NIL, T.leaf "b"), (exE 0 NIL, T.leaf "c")]),
    (exE 2 NIL, T.leaf "d")]) = true := by decide +kernel

/-- phyloxml_chain_c01: the hypothesis holds for `exTree` with C01's `ratCodec` (no assumption on numbers) -/
example : ∃ recs, readMulti ⟨exCodec, numOf Newick.ratCodec.toCodec⟩
      (.phyloxml (some (Px.encode (numOf Newick.ratCodec.toCodec) [exTree, exTree]))) = some recs ∧
    recsAre [exTree, exTree] recs 0 = true :=
  phyloxml_chain_c01 exCodec Newick.ratCodec [exTree, exTree] (by simp)
    (by intro t ht; simp at ht; subst ht; decide +kernel)

/-- phyloxml_chain_go: the hypothesis holds for `exTree` (its numbers 0.5, 1, 0, 0.75 are in `goDomS`) -/
example : ∃ recs, readMulti ⟨exCodec, goNum⟩ (.phyloxml (some (Px.encode goNum [exTree, exTree]))) = some recs ∧
    recsAre [exTree, exTree] recs 0 = true :=
  phyloxml_chain_go exCodec [exTree, exTree] (by simp) (by intro t ht; simp at ht; subst ht; decide +kernel)

/-- multi_delivers_all_lines: two trees on the first line, one on the second -/
example : readMultiNewick exCodec (unlines ([[exTree, exTree], [exTree]].map fun g => (g.map exCodec.write).flatten)) =
    recsOfTrees ([[exTree, exTree], [exTree]].flatten.map exLaws.norm) 0 :=
  multi_delivers_all_lines exCodec exLaws [[exTree, exTree], [exTree]] (by simp)
    (by
      intro g hg
      simp only [List.mem_cons, List.not_mem_nil, or_false] at hg
      rcases hg with h | h <;> subst h
      · exact ⟨by simp, by intro t ht; simp at ht; subst ht; decide +kernel⟩
      · exact ⟨by simp, by intro t ht; simp at ht; subst ht; decide +kernel⟩)

/- ## white space after the last tree (round 7) -/

/-- blank-only lines after the last line of ANY multi-tree Newick file change nothing: the reader delivers
    exactly the records of the file without them (no spurious "unterminated tree" record — the test is
    `strings.TrimSpace(line) != ""` — and no record lost).  `ls` are the lines of the file (any content:
    good, broken or unterminated trees), `tl` lines of blanks and tabs. -/
theorem multi_trailing_blank_lines_ignored (C : NewickCodec) (ls tl : List Txt) (hls : ∀ l ∈ ls, oneLine l)
    (htl : ∀ l ∈ tl, ∀ c ∈ l, isBlank c = true) :
    readMultiNewick C (unlines (ls ++ tl)) = readMultiNewick C (unlines ls) :=
  readMultiNewick_trailing_blank_lines C ls tl hls htl

/-- the same for blanks after the last line end, without a line end of their own -/
theorem multi_trailing_blanks_nonl_ignored (C : NewickCodec) (ls : List Txt) (b : Txt) (hls : ∀ l ∈ ls, oneLine l)
    (hb : ∀ c ∈ b, isBlank c = true) :
    readMultiNewick C (unlines ls ++ b) = readMultiNewick C (unlines ls) :=
  readMultiNewick_trailing_blanks_nonl C ls b hls hb

/-- multi_trailing_blank_lines_ignored: the hypotheses hold for the file `exText` followed by the lines
    " \t" and "" -/
example : readMultiNewick exCodec (unlines ([exText] ++ [" \t".toList, []])) = readMultiNewick exCodec (unlines [exText]) :=
  multi_trailing_blank_lines_ignored exCodec [exText] [" \t".toList, []]
    (by intro l hl; simp at hl; subst hl; exact ⟨by decide, by decide⟩)
    (by intro l hl; simp at hl; rcases hl with rfl | rfl <;> decide)

/- ## the regenerated tables and the format flag (round 7)

   `Gotree/Gen/C13Tables.lean` is rewritten from the working tree on every run by harness/c13/extract.go
   (go/parser): the facts about the source that the hand-written model assumes.  The theorems below
   re-decide them; when one no longer checks, the run still looks for a concrete failing input (the generator
   draws its key-word labels and flag values from the same extraction). -/

/-- `Nex.keywordOf` IS the switch of `scanIdent` as it stands in the source: for every literal, the model's
    key word is the token of the first row of the regenerated table that matches its upper-case form, and no
    key word (IDENT) when no row matches.  A word added to, removed from or re-targeted in the lexer breaks
    this theorem. -/
theorem lexer_keyword_table_check (s : String) :
    Nex.keywordOf s = Nex.keywordOfTable Gen.C13.lexerKeywords s :=
  Nex.keywordOf_table s

/-- `Nex.isIdent` / `Nex.isWs` are `isIdent` / `isWhitespace` of nexus_token.go: the characters compared there -/
theorem lexer_chars_table_check (c : Char) :
    Nex.isIdent c = Nex.identOfTable Gen.C13.identStops Gen.C13.whitespaceChars c ∧
    Nex.isWs c = Nex.wsOfTable Gen.C13.whitespaceChars c :=
  ⟨Nex.isIdent_table c, Nex.isWs_table c⟩

/-- the rest of the lexer's shape: default token IDENT, the switch is on `strings.ToUpper`, `isIdent` excludes
    white space, and the punctuation switch of `Scan` is the one `Nex.scanGo` follows.  (The base and size given
    to `ParseInt` are in the table for information only: IDENT and NUMERIC tokens are names alike, so another
    base changes no observation of this property.) -/
theorem lexer_shape_table_check :
    Gen.C13.lexerDefault = "IDENT" ∧ Gen.C13.lexerSwitchOnToUpper = true ∧
    Gen.C13.identExcludesWhitespace = true ∧ Gen.C13.lexerPunct = assumedPunct := by decide

/-- the xml tags `Px.decode` looks for are the struct tags of io/phyloxml, the order name / scientific name /
    code of `Px.Clade.label` is the if-chain of cladeToTree, and the support is read exactly for clades that have
    children (the guard of SetSupport evaluated on 0, 1, 2, 3 children; its spelling is in the table for information) -/
theorem phyloxml_tags_table_check :
    Gen.C13.xmlTags = assumedXmlTags ∧ Gen.C13.cladeNameOrder = assumedNameOrder ∧
    Gen.C13.supportGuardProbes = assumedSupportProbes := by decide

/-- `readMulti` / `readFirst` dispatch as `ReadMultiTrees` / `ReadTreeReader` do: four constants in iota
    order, each reaching the parser of its package -/
theorem reader_dispatch_table_check :
    Gen.C13.formatConsts = assumedFormatConsts ∧ Gen.C13.multiReaders = assumedMultiReaders ∧
    Gen.C13.firstReaders = assumedFirstReaders := by decide

/-- `formatOfFlag` IS the switch on `rootInputFormat` of cmd/root.go, default included, for every string -/
theorem format_flag_table_check (s : String) :
    (formatOfFlag s).constName = tableLookup Gen.C13.formatFlags Gen.C13.formatDefault s :=
  formatOfFlag_table s

/-- `reformatGlue` calls the writer the command calls; all three commands read with the multi-tree reader;
    `--translate` (false by default) is WriteNexus's second argument; the flag defaults of `gotree reformat` -/
theorem reformat_glue_table_check :
    Gen.C13.reformatGlue = assumedReformat ∧ Gen.C13.reformatFlags = assumedReformatFlags := by decide

/-- what the flag selects: each of the three other readers by exactly its word; EVERY other string — another
    letter case, an abbreviation, the empty string — silently selects the Newick reader -/
theorem format_flag_selects (s : String) :
    (formatOfFlag s = .nexus ↔ s = "nexus") ∧ (formatOfFlag s = .phyloxml ↔ s = "phyloxml") ∧
    (formatOfFlag s = .nextstrain ↔ s = "nextstrain") ∧
    (s ≠ "nexus" → s ≠ "phyloxml" → s ≠ "nextstrain" → formatOfFlag s = .newick) :=
  ⟨formatOfFlag_nexus s, formatOfFlag_phyloxml s, formatOfFlag_nextstrain s, formatOfFlag_other s⟩

/-- `gotree reformat newick --format <s>` with a value that is none of the three other words runs the Newick
    multi-tree reader on the file whatever the file holds (a Nexus file given with `--format NEXUS` is parsed as
    Newick): the command is the Newick reader followed by the glue -/
theorem reformat_flag_unknown_reads_newick (E : Env) (s : String) (text : Txt) (x : Option Px.Xml) (n : Option Ns.Node)
    (h1 : s ≠ "nexus") (h2 : s ≠ "phyloxml") (h3 : s ≠ "nextstrain") :
    reformatNewickFlag E s text x n = some (reformatGlue E .newick false (readMultiNewick E.C text)) := by
  simp [reformatNewickFlag, formatOfFlag_other s h1 h2 h3, docForFlag, readMulti]

/-- with the documented word the command is that format's multi-tree reader followed by the glue -/
theorem reformat_flag_documented (E : Env) (text : Txt) (x : Option Px.Xml) (n : Option Ns.Node) :
    reformatNewickFlag E "nexus" text x n = (readMulti E (.nexus text)).map (reformatGlue E .newick false) ∧
    reformatNewickFlag E "newick" text x n = (readMulti E (.newick text)).map (reformatGlue E .newick false) ∧
    reformatNewickFlag E "phyloxml" text x n = (readMulti E (.phyloxml x)).map (reformatGlue E .newick false) ∧
    reformatNewickFlag E "nextstrain" text x n = (readMulti E (.nextstrain n)).map (reformatGlue E .newick false) :=
  ⟨rfl, rfl, rfl, rfl⟩

/-- the whole command on a Newick file whose trees each end their line, for every flag value that reaches
    the Newick reader (the documented "newick" as well as NEXUS, nwk, the empty string …): exit status 0 and
    every tree written back, in order — composition of the flag switch, `multi_delivers_all` and the glue -/
theorem reformat_flag_newick_file (E : Env) (L : NewickLaws E.C) (ts : List T) (hne : ts ≠ [])
    (hw : ∀ t ∈ ts, L.wf t = true) (s : String) (x : Option Px.Xml) (n : Option Ns.Node)
    (h1 : s ≠ "nexus") (h2 : s ≠ "phyloxml") (h3 : s ≠ "nextstrain") :
    reformatNewickFlag E s (unlines (ts.map E.C.write)) x n =
      some (true, Px.joinT (fun t => E.C.write t ++ ['\n']) (ts.map L.norm)) := by
  rw [reformat_flag_unknown_reads_newick E s _ x n h1 h2 h3, multi_delivers_all E.C L ts hne hw, reformatGlue_good]

/-- observation (a user error, not counted as a defect: an error IS reported): the Nexus document gotree
    itself writes for two trees, given back with `--format NEXUS`, is read as Newick and the command fails
    without writing anything; with `--format nexus` it succeeds (corpus/C13-format-flag.txt) -/
theorem reformat_flag_wrong_case_fails :
    reformatNewickFlag ⟨exCodec, decCodec⟩ "NEXUS" (writeNexus exCodec false [(0, exTree), (1, exTree)]) none none = some (false, []) ∧
    (reformatNewickFlag ⟨exCodec, decCodec⟩ "nexus" (writeNexus exCodec false [(0, exTree), (1, exTree)]) none none).map (·.1)
      = some true := by
  constructor <;> decide +kernel

/-- reformat_flag_newick_file: the hypotheses hold for two copies of `exTree` and the value "nwk" -/
example : reformatNewickFlag ⟨exCodec, decCodec⟩ "nwk" (unlines ([exTree, exTree].map exCodec.write)) none none =
    some (true, Px.joinT (fun t => exCodec.write t ++ ['\n']) ([exTree, exTree].map exLaws.toNewickLaws.norm)) :=
  reformat_flag_newick_file ⟨exCodec, decCodec⟩ exLaws.toNewickLaws [exTree, exTree] (by simp)
    (by intro t ht; simp at ht; subst ht; decide +kernel) "nwk" none none (by decide) (by decide) (by decide)

/-- format_flag_selects / reformat_flag_unknown_reads_newick: the hypotheses hold for "NEXUS" -/
example : formatOfFlag "NEXUS" = .newick ∧ formatOfFlag "nexus" = .nexus ∧ formatOfFlag "" = .newick := by decide

end Gotree.C13
