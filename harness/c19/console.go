package c19

// console.go — the interactive console (`gotree` without arguments, cmd/root.go Run → cobrashell):
// several commands run in ONE process.  cobrashell puts every flag VALUE of the command back to its
// DefValue before each command (Value.Set), so "option omitted" should mean the documented default
// whatever was typed before — a multi-step history on the in-memory flag state.
//
//	C19.console name path first second outcomeAfterFirst outcomeInFreshSession
//
// Three sessions per history: [first], [first; second], [second].  What `second` did after `first` =
// standard output of [first; second] beyond that of [first], files new or changed with respect to
// [first]; it must be what `second` does in a session of its own.

import (
	"fmt"
	"os"
	"path/filepath"
	"sort"
	"strings"
	"time"

	"verifharness/core"
)

type consoleHistory struct{ name, path, first, second string }

func consoleHistories() []consoleHistory {
	return []consoleHistory{
		{"setmin", "brlen setmin", "brlen setmin -i ../in/tree -l 3", "brlen setmin -i ../in/tree"},
		{"consensus", "compute consensus", "compute consensus -i ../in/trees -f 1", "compute consensus -i ../in/trees"},
		{"divide", "divide", "divide -i ../in/trees -o part", "divide -i ../in/trees"},
		{"merge", "merge", "merge -i ../in/rooted -c ../in/other -o m.nw", "merge -i ../in/rooted -c ../in/other"},
		{"annotate", "annotate", "annotate -i ../in/tree -m ../in/annotmap --comment", "annotate -i ../in/tree -c ../in/named"},
		{"format-other-command", "matrix", "stats -i ../in/treenexus --format nexus", "matrix -i ../in/tree"},
		{"format-same-command", "stats", "stats -i ../in/treenexus --format nexus", "stats -i ../in/tree"},
		{"shared-output", "brlen scale", "brlen setmin -i ../in/tree -l 3 -o out1.nw", "brlen scale -i ../in/tree -f 2"},
		{"collapse-length", "collapse length", "collapse length -i ../in/tree -l 0.06", "collapse length -i ../in/tree"},
		// the commands that ask whether an option was GIVEN (table (f)): Changed survives cobrashell's reset
		{"rename-regexp-then-map", "rename", "rename -i ../in/tree -e Tip(\\d+) -b Leaf$1", "rename -i ../in/tree -m ../in/mapfile"},
		{"setrand-range-then-plain", "brlen setrand", "brlen setrand -i ../in/tree --seed 1 --min-mean 5 --max-mean 6", "brlen setrand -i ../in/tree --seed 1"},
	}
}

// session runs the console on the given command lines; returns stdout (banner removed) and the files
// of the working directory and of in/ afterwards
func (r *runner) session(lines []string) (string, map[string]string) {
	r.mu.Lock()
	r.n++
	top := filepath.Join(r.c.Tmp, fmt.Sprintf("c19con_%d_%d", os.Getpid(), r.n))
	r.mu.Unlock()
	dir, indir := filepath.Join(top, "cwd"), filepath.Join(top, "in")
	os.MkdirAll(dir, 0755)
	os.MkdirAll(indir, 0755)
	defer os.RemoveAll(top)
	for _, l := range lines {
		for _, w := range strings.Fields(l) {
			if strings.HasPrefix(w, "../in/") {
				n := strings.TrimPrefix(w, "../in/")
				os.WriteFile(filepath.Join(indir, n), []byte(r.in[n]), 0644)
			}
		}
	}
	res := runIn(r.c, dir, strings.Join(lines, "\n")+"\nexit\n", 30*time.Second)
	out := res.Stdout
	var keep []string
	for _, l := range strings.Split(out, "\n") {
		if strings.HasPrefix(l, "Welcome to Gotree Console") || strings.HasPrefix(l, "type \"help\"") {
			continue
		}
		keep = append(keep, l)
	}
	files := map[string]string{}
	for _, d := range []struct{ p, pre string }{{dir, ""}, {indir, "in/"}} {
		ents, _ := os.ReadDir(d.p)
		for _, e := range ents {
			b, _ := os.ReadFile(filepath.Join(d.p, e.Name()))
			files[d.pre+e.Name()] = blob(b)
		}
	}
	if res.Timeout {
		keep = append(keep, "<timeout>")
	}
	return strings.Join(keep, "\n"), files
}

func describe(out string, files map[string]string) string {
	var b strings.Builder
	b.WriteString("stdout:\n" + out)
	var names []string
	for n := range files {
		names = append(names, n)
	}
	sort.Strings(names)
	for _, n := range names {
		b.WriteString("\nfile " + n + ":\n" + files[n])
	}
	return b.String()
}

func consoleCases(c *core.Ctx, r *runner, only string) {
	for _, h := range consoleHistories() {
		if only != "" && only != h.name {
			continue
		}
		o1, f1 := r.session([]string{h.first})
		o12, f12 := r.session([]string{h.first, h.second})
		o2, f2 := r.session([]string{h.second})
		// what `second` did after `first`
		after := strings.TrimPrefix(o12, strings.TrimSuffix(o1, "\n"))
		if !strings.HasPrefix(o12, strings.TrimSuffix(o1, "\n")) {
			after = "<the session does not start with the output of the first command>\n" + o12
		}
		after = strings.TrimPrefix(after, "\n")
		delta := map[string]string{}
		for n, v := range f12 {
			if w, ok := f1[n]; !ok || w != v {
				delta[n] = v
			}
		}
		// in a session of its own: the files it wrote or changed (inputs as given are not an outcome)
		own := map[string]string{}
		for n, v := range f2 {
			if strings.HasPrefix(n, "in/") && v == blob([]byte(r.in[strings.TrimPrefix(n, "in/")])) {
				continue
			}
			own[n] = v
		}
		for n, v := range delta {
			if strings.HasPrefix(n, "in/") && v == blob([]byte(r.in[strings.TrimPrefix(n, "in/")])) {
				delete(delta, n)
			}
		}
		e := core.Escape
		c.Emit("C19.console", h.name, e("gotree "+h.path), e(h.first), e(h.second), e(describe(after, delta)), e(describe(strings.TrimPrefix(o2, "\n"), own)))
	}
}
