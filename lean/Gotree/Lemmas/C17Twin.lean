/-
  C17 — the two rearrangements of one branch (`cross = false / true`) give trees that are
  themselves one branch apart.
-/
import Gotree.Lemmas.C17Split

namespace Gotree.C17
open Gotree Gotree.C17.Spec

/-- same number of children, same leaves below, same data when there is at most one child -/
structure RL (S S' : T) : Prop where
  nkids : S'.kids.length = S.kids.length
  data : S.kids.length ≤ 1 → S'.d = S.d
  leaves : (leavesL S'.kids).Perm (leavesL S.kids)

theorem RL.of_RK {S S1 S2 : T} (h1 : RK S S1) (h2 : RK S S2) : RL S1 S2 where
  nkids := by rw [h2.nkids, h1.nkids]
  data := fun h => by
    have hS : S.kids.length ≤ 1 := by rw [← h1.nkids]; exact h
    rw [h2.data hS, h1.data hS]
  leaves := h2.leaves.trans h1.leaves.symm

theorem RL.leaves_perm {S S' : T} (h : RL S S') : S'.leaves.Perm S.leaves := by
  rw [leaves_eq, leaves_eq]
  have hn := h.nkids
  by_cases hk : S.kids = []
  · have hk' : S'.kids = [] := by
      apply List.eq_nil_of_length_eq_zero
      rw [hn, hk]; rfl
    have hd := h.data (by simp [hk])
    simp [hk, hk', T.name, hd]
  · have hk' : S'.kids ≠ [] := by
      intro h0
      apply hk
      apply List.eq_nil_of_length_eq_zero
      rw [← hn, h0]; rfl
    simpa [hk, hk'] using h.leaves

theorem RL.isLeaf_eq {S S' : T} (h : RL S S') : S'.isLeaf = S.isLeaf := by
  have hn := h.nkids
  obtain ⟨d, p, k⟩ := S
  obtain ⟨d', p', k'⟩ := S'
  simp only [T.kids_node] at hn
  cases k <;> cases k' <;> simp_all [T.isLeaf]

theorem leavesL_set2 (c1 c2 : T) (e : EdgeD) (hl : c2.leaves.Perm c1.leaves) :
    ∀ (k : Kids) (i : Nat), (leavesL (k.set i (e, c2))).Perm (leavesL (k.set i (e, c1))) := by
  intro k
  induction k with
  | nil => intro i; simp
  | cons x xs ih =>
    intro i
    obtain ⟨ex, tx⟩ := x
    cases i with
    | zero =>
      simp only [List.set_cons_zero, leavesL]
      exact List.Perm.append_right _ hl
    | succ i =>
      simp only [List.set_cons_succ, leavesL]
      exact List.Perm.append_left _ (ih i)

theorem RS_set2 (c1 c2 : T) (e : EdgeD) (hr : RS c1 c2) (hl : c2.leaves.Perm c1.leaves) (hleaf : c2.isLeaf = c1.isLeaf) :
    ∀ (k : Kids) (i : Nat), i < k.length →
      OneBranchApart (splitsL (k.set i (e, c1))) (splitsL (k.set i (e, c2))) := by
  intro k
  induction k with
  | nil => intro i h; simp at h
  | cons x xs ih =>
    intro i h
    cases i with
    | zero =>
      simp only [List.set_cons_zero, splitsL, splitsBelow_eq]
      have := oneBranchApart_context (X := [⟨c1.leaves, e, c1.isLeaf⟩]) (X' := [⟨c2.leaves, e, c2.isLeaf⟩])
        (Y := splitsL xs) (Y' := splitsL xs) hr ⟨⟨hl.symm, rfl, hleaf.symm⟩, trivial⟩ (sameBranches_refl _)
      simpa using this
    | succ i =>
      obtain ⟨ex, tx⟩ := x
      simp only [List.set_cons_succ, splitsL]
      have := oneBranchApart_context (X := ⟨tx.leaves, ex, tx.isLeaf⟩ :: tx.splitsBelow)
        (X' := ⟨tx.leaves, ex, tx.isLeaf⟩ :: tx.splitsBelow) (Y := []) (Y' := [])
        (ih i (by simpa using h)) (sameBranches_refl _) trivial
      simpa using this

/-- two rewritings of the same tree at the same path -/
theorem RLS_lift2 (f1 f2 : T → Option T) : ∀ (q : List Nat) (t t1 t2 S : T), subAt q t = some S →
    modAt q f1 t = some t1 → modAt q f2 t = some t2 →
    (∀ S1 S2, f1 S = some S1 → f2 S = some S2 → RL S1 S2 ∧ RS S1 S2) → RL t1 t2 ∧ RS t1 t2 := by
  intro q
  induction q with
  | nil =>
    intro t t1 t2 S hs h1 h2 hr
    simp only [subAt, Option.some.injEq] at hs
    subst hs
    exact hr t1 t2 (by simpa [modAt] using h1) (by simpa [modAt] using h2)
  | cons i q ih =>
    intro t t1 t2 S hs h1 h2 hr
    obtain ⟨d, pp, k⟩ := t
    simp only [subAt] at hs
    cases hki : k[i]? with
    | none => simp [hki] at hs
    | some ec =>
      obtain ⟨e, c⟩ := ec
      simp only [hki] at hs
      simp only [modAt, hki] at h1 h2
      cases hm1 : modAt q f1 c with
      | none => simp [hm1] at h1
      | some c1 =>
        cases hm2 : modAt q f2 c with
        | none => simp [hm2] at h2
        | some c2 =>
          simp only [hm1, Option.some.injEq] at h1
          simp only [hm2, Option.some.injEq] at h2
          subst h1
          subst h2
          have hi : i < k.length := (List.getElem?_eq_some_iff.mp hki).1
          obtain ⟨hl, hs'⟩ := ih c c1 c2 S hs hm1 hm2 hr
          refine ⟨⟨by simp, fun _ => rfl, leavesL_set2 c1 c2 e hl.leaves_perm k i⟩, ?_⟩
          exact RS_set2 c1 c2 e hs' hl.leaves_perm hl.isLeaf_eq k i hi

/- ## the local fact -/

theorem oneBranchApart_kids2 {k k' : Kids} (j1 j2 : Nat) (hc : entryOf k j1 ∈ splitsL k)
    (hp : (entryOf k' j2 :: splitsL k).Perm (entryOf k j1 :: splitsL k'))
    (he : (entryOf k j1).e = (entryOf k' j2).e) (ht : (entryOf k j1).tip = false) (ht' : (entryOf k' j2).tip = false)
    (hd : DifferentSplit (entryOf k j1).below (entryOf k' j2).below) : OneBranchApart (splitsL k) (splitsL k') :=
  oneBranchApart_of (entryOf k j1) (entryOf k' j2) hc hp he ht ht' hd

macro "diff_split3" xu:ident xv:ident xy:ident : tactic => `(tactic|
  (unfold DifferentSplit
   first
   | exact ⟨⟨$xu, by grind, by grind⟩, ⟨$xv, by grind, by grind⟩⟩
   | exact ⟨⟨$xv, by grind, by grind⟩, ⟨$xu, by grind, by grind⟩⟩
   | exact ⟨⟨$xu, by grind, by grind⟩, ⟨$xy, by grind, by grind⟩⟩
   | exact ⟨⟨$xv, by grind, by grind⟩, ⟨$xy, by grind, by grind⟩⟩
   | exact ⟨⟨$xy, by grind, by grind⟩, ⟨$xu, by grind, by grind⟩⟩
   | exact ⟨⟨$xy, by grind, by grind⟩, ⟨$xv, by grind, by grind⟩⟩))

macro "central_at2" j1:num j2:num xu:ident xv:ident xy:ident : tactic => `(tactic|
  (refine oneBranchApart_kids2 $j1 $j2 (by ev_entries; simp) (by ev_entries; perm_entries)
     (by ev_entries) (by ev_entries) (by ev_entries) ?_
   ev_entries
   diff_split3 $xu $xv $xy))

/-- the statement of the local fact for one configuration -/
def LocalTwin (path : List Nat) (d1 : NodeD) (isRoot : Bool) (p1 : Nat) (k1 : Kids) (j p2 : Nat) : Prop :=
  (leavesL k1).Nodup →
    ∀ S1 S2, applyLocal isRoot (newNNI path isRoot p1 j p2 false) (.node d1 p1 k1) = some S1 →
      applyLocal isRoot (newNNI path isRoot p1 j p2 true) (.node d1 p1 k1) = some S2 → RS S1 S2

set_option maxHeartbeats 2000000 in
theorem local_twin_root (path : List Nat) (d1 d2 : NodeD) (e eu ev : EdgeD) (tu tv : T)
    (y z : EdgeD × T) (p1 p2 : Nat) (hp2 : p2 ≤ 2) :
    LocalTwin path d1 true p1 [(e, T.node d2 p2 [(eu, tu), (ev, tv)]), y, z] 0 p2 ∧
    LocalTwin path d1 true p1 [y, (e, T.node d2 p2 [(eu, tu), (ev, tv)]), z] 1 p2 ∧
    LocalTwin path d1 true p1 [y, z, (e, T.node d2 p2 [(eu, tu), (ev, tv)])] 2 p2 := by
  obtain ⟨xu, hxu⟩ := List.exists_mem_of_ne_nil _ (leaves_ne_nil tu)
  obtain ⟨xv, hxv⟩ := List.exists_mem_of_ne_nil _ (leaves_ne_nil tv)
  obtain ⟨ey, ty⟩ := y
  obtain ⟨ez, tz⟩ := z
  obtain ⟨xy, hxy⟩ := List.exists_mem_of_ne_nil _ (leaves_ne_nil ty)
  obtain ⟨xz, hxz⟩ := List.exists_mem_of_ne_nil _ (leaves_ne_nil tz)
  have h2 : p2 = 0 ∨ p2 = 1 ∨ p2 = 2 := by omega
  unfold LocalTwin
  rcases h2 with rfl | rfl | rfl <;>
    refine ⟨?_, ?_, ?_⟩ <;> intro hnd S1 S2 hS1 hS2 <;> eval_local at hS1 <;> eval_local at hS2 <;>
    subst hS1 <;> subst hS2 <;>
    simp only [leavesL, T.leaves, List.append_nil, List.nodup_append, List.mem_append] at hnd <;>
    unfold RS <;> simp only [T.kids_node] <;>
    first
    | central_at2 0 0 xu xv xy
    | central_at2 1 1 xu xv xy
    | central_at2 2 2 xu xv xy
    | central_at2 0 0 xu xv xz
    | central_at2 1 1 xu xv xz
    | central_at2 2 2 xu xv xz

set_option maxHeartbeats 2000000 in
theorem local_twin_nonroot (path : List Nat) (d1 d2 : NodeD) (e eu ev : EdgeD) (tu tv : T)
    (y : EdgeD × T) (p1 p2 : Nat) (hp1 : p1 ≤ 2) (hp2 : p2 ≤ 2) :
    LocalTwin path d1 false p1 [(e, T.node d2 p2 [(eu, tu), (ev, tv)]), y] 0 p2 ∧
    LocalTwin path d1 false p1 [y, (e, T.node d2 p2 [(eu, tu), (ev, tv)])] 1 p2 := by
  obtain ⟨xu, hxu⟩ := List.exists_mem_of_ne_nil _ (leaves_ne_nil tu)
  obtain ⟨xv, hxv⟩ := List.exists_mem_of_ne_nil _ (leaves_ne_nil tv)
  obtain ⟨ey, ty⟩ := y
  obtain ⟨xy, hxy⟩ := List.exists_mem_of_ne_nil _ (leaves_ne_nil ty)
  have h1 : p1 = 0 ∨ p1 = 1 ∨ p1 = 2 := by omega
  have h2 : p2 = 0 ∨ p2 = 1 ∨ p2 = 2 := by omega
  unfold LocalTwin
  rcases h1 with rfl | rfl | rfl <;> rcases h2 with rfl | rfl | rfl <;>
    refine ⟨?_, ?_⟩ <;> intro hnd S1 S2 hS1 hS2 <;> eval_local at hS1 <;> eval_local at hS2 <;>
    subst hS1 <;> subst hS2 <;>
    simp only [leavesL, T.leaves, List.append_nil, List.nodup_append, List.mem_append] at hnd <;>
    unfold RS <;> simp only [T.kids_node] <;>
    first
    | central_at2 0 0 xu xv xy
    | central_at2 1 1 xu xv xy
    | central_at2 0 1 xu xv xy
    | central_at2 1 0 xu xv xy

theorem local_twin {path : List Nat} {isRoot : Bool} {p1 : Nat} {k1 : Kids} {j : Nat}
    {e : EdgeD} {d2 : NodeD} {p2 : Nat} {u v : EdgeD × T} (d1 : NodeD)
    (s : Site path isRoot p1 k1 j e d2 p2 u v) : LocalTwin path d1 isRoot p1 k1 j p2 := by
  obtain ⟨eu, tu⟩ := u
  obtain ⟨ev, tv⟩ := v
  exact site_cases s (LocalTwin path d1)
    (fun y z p1 hp2 => local_twin_root path d1 d2 e eu ev tu tv y z p1 p2 hp2)
    (fun y hp1 hp2 => local_twin_nonroot path d1 d2 e eu ev tu tv y p1 p2 hp1 hp2)

end Gotree.C17
