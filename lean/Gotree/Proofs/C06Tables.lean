/-
  C06 — the theorems that depend on the table regenerated from the source (`Gotree/Gen/C06Sites.lean`,
  harness/c06/extract.go).  Kept apart from `Proofs/C06.lean`, which other properties import: nothing outside
  C06 may import this module.
-/
import Gotree.Proofs.C06
import Gotree.Gen.C06Sites

namespace Gotree.C06
open Gotree

/- ## the table regenerated from the source (`Gotree/Gen/C06Sites.lean`, harness/c06/extract.go) -/

open Sites Gen.C06Sites in
/-- `RemoveTips` in the source: `rooted := t.Rooted()` before the loop, the loop over `t.Tips()`, one selection
    condition (its VALUE is `sites_select`), `removeTip(tip, rooted)`, after the loop `UpdateTipIndex()` BEFORE
    `ReinitInternalIndexes()`, and no reading of the cached tip index anywhere in `RemoveTips` / `removeTip`
    (they work from the tree: the model has no index argument) — what `removeTips` / `removeLoopR` / `workList` assume. -/
theorem sites_removeTips_check :
    rtPre = expRtPre ∧ rtRange = expRtRange ∧ rtSelect.length = 1 ∧
    rtCallArgs = expRtCallArgs ∧ rtPost = expRtPost ∧ rtIndexReads = [] := by decide +kernel

open Sites Gen.C06Sites in
/-- the guard of the loop, EVALUATED: a listed tip that no longer has exactly one neighbour ends the call -/
theorem sites_removeTips_guard_sem :
    ([0, 1, 2, 3].all fun (d : Int) =>
      let p : Probe := { tdeg := d }
      rtGuards.map (fun g => (p.eval g.1, g.2)) == expRtGuard p) = true := by decide +kernel

open Sites Gen.C06Sites in
/-- `removeTip` in the source, textual part: the value given to the merged branch, who is connected below whom,
    the new root. -/
theorem sites_removeTip_check :
    tipIfs.length = 5 ∧ tipSetLength.map (·.2) = expLenArg ∧ tipSetSupport.map (·.2) = expSupArg := by
  decide +kernel

open Sites Gen.C06Sites in
/-- `removeTip` in the source, EVALUATED on every probe (degrees 0-4, rooted or not, root or not, …): the five
    top-level tests are "not a tip", "the tip is the root", "error", case 1 (`deg = 1`) and case 2
    (`deg = 2` unless rooted and root); the chain of case 1 goes on while `deg = 1` below the root — what
    `finishNode`, `rootAfterLoss`, `removeTipR` do.  Any equivalent rewrite of these conditions keeps the theorem. -/
theorem sites_removeTip_cases_sem :
    (degs.all fun deg => [0, 1, 2].all fun (td : Int) => bools.all fun ti => bools.all fun ir => bools.all fun er =>
      bools.all fun ro =>
        let p : Probe := { tdeg := td, deg := deg, tipIsInternal := ti, isRoot := ir, err := er, rooted := ro }
        tipIfs.map p.eval == expTipIfs p && tipChain.map p.eval == expTipChain p) = true := by decide +kernel

open Sites Gen.C06Sites in
/-- the guards of `SetLength` / `SetSupport` on the merged branch, EVALUATED with the sentinels found in
    tree/edge.go: a length unless both are absent, a support unless both are absent or an end is a tip — `fuseEdge`;
    and the tests choosing the direction of `ConnectNodes` and the new root. -/
theorem sites_removeTip_fuse_sem :
    (vals.all fun a => vals.all fun b => [1, 2, 3].all fun (d1 : Int) => [1, 2, 3].all fun (d2 : Int) =>
      bools.all fun x => bools.all fun y =>
        let nl : Int := ((consts.lookup "NIL_LENGTH").bind litInt?).getD 0
        let ns : Int := ((consts.lookup "NIL_SUPPORT").bind litInt?).getD 0
        let p : Probe := { l1 := a, l2 := b, s1 := a, s2 := b, d1 := d1, d2 := d2, dir1 := x, dir2 := y, nilLen := nl, nilSup := ns }
        tipSetLength.map (fun g => p.eval g.1) == expLenGuard p &&
        tipSetSupport.map (fun g => p.eval g.1) == expSupGuard p &&
        tipConnectNodes.map (fun g => (p.eval g.1, g.2)) == expConnect p &&
        tipSetRoot.map (fun g => (p.eval g.1, g.2)) == expSetRoot p) = true := by decide +kernel

open Sites Gen.C06Sites in
/-- the sentinels of tree/edge.go are `-1`, the model's `NIL` -/
theorem sites_consts_check :
    (["NIL_SUPPORT", "NIL_LENGTH"].all fun n => (consts.lookup n).bind litRat? == some NIL) = true := by
  decide +kernel

open Sites Gen.C06Sites in
/-- cmd/prune.go in the source: the reads before the loop, the chain choosing the names, the flags with their
    defaults, the loops of `specificTips`; the loop body and the tests of `specificTips` EVALUATED: a failed input
    and a failed pruning end the command (`return`), the result is written at once; a node counts as a tip iff it
    has one neighbour, a tip of `ref` is listed iff unknown to `comp`. -/
theorem sites_prune_check :
    pruneReads = expPruneReads ∧ pruneRange = expPruneRange ∧ pruneChain = expPruneChain ∧
    pruneFlags = expPruneFlags ∧ specParams = expSpecParams ∧ specRanges = expSpecRanges ∧
    (bools.all fun er =>
      let p : Probe := { err := er }
      pruneBody.map (fun b => (b.1, b.2.map p.eval)) == expPruneBody p) = true ∧
    (degs.all fun d => bools.all fun k =>
      let p : Probe := { deg := d, ok := k }
      specConds.map p.eval == expSpecConds p) = true := by decide +kernel

open Sites in
/-- The selection condition FOUND IN THE SOURCE, evaluated: a tip is removed iff `(its name is listed) ≠ revert`,
    which is the decision `workList` / `toRemove` take and the complement of `kept`. -/
theorem sites_select (revert ok : Bool) :
    Gen.C06Sites.rtSelect.map (Ex.eval (ρSelect revert ok)) = [some (ok != revert)] := by
  cases revert <;> cases ok <;> decide +kernel

open Sites in
/-- The chain FOUND IN THE SOURCE, evaluated on the flags: the call it reaches is the one of the model's
    `PruneFlags.source` (priority -f > -c > --random > arguments). -/
theorem sites_source (f : PruneFlags) :
    pick (ρFlags f.tipfile.isSome f.comp.isSome (decide (f.random > 0))) Gen.C06Sites.pruneChain =
      some (callOf f.source) := by
  have key : ∀ a b c : Bool, pick (ρFlags a b c) Gen.C06Sites.pruneChain =
      some (callOf (if a then .file else if b then .comp else if c then .random else .args)) := by
    decide +kernel
  rw [key]
  unfold PruneFlags.source
  cases f.tipfile.isSome <;> cases f.comp.isSome <;> by_cases h : f.random > 0 <;> simp [h]

example : (⟨none, some t0, 3, ["a"], true⟩ : PruneFlags).source = .comp := by decide

end Gotree.C06
