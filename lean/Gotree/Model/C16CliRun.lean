/-
  C16 — the body of `gotree generate <tree command>` after option parsing (cmd/uniformtree.go:12-34 and
  its four siblings): the output file is created first (failure: the error is returned before any
  generator call), then `for i := 0; i < nbtrees; i++` calls the generator, returns at the first
  error (the trees written so far stay written), writes the tree otherwise.  `RunE` turns a returned
  error into exit status 1 and a message on stderr.  Core Lean only.
-/
import Gotree.Model.C16Cli
import Gotree.Spec.C16Cli

namespace Gotree.C16
open Gotree

/-- what a run of the command leaves: exit status (0 / 1), whether an error was logged, the trees written -/
structure CliOut where
  exit : Nat
  logged : Bool
  trees : List T
  deriving Repr

/-- the loop `for i := i₀; i < nbtrees; i++` with `fuel = nbtrees - i₀` -/
def cliLoop (gen : Nat → Res Out) : Nat → Nat → List T → CliOut
  | 0, _, acc => ⟨0, false, acc.reverse⟩
  | f + 1, i, acc =>
    match gen i with
    | .ok o => cliLoop gen f (i + 1) (o.t :: acc)
    | _ => ⟨1, true, acc.reverse⟩

/-- `creatable` = `os.Create(output)` succeeds; `gen i` = the i-th generator call (its draws are the
    i-th block of the replayed script).  A number of trees ≤ 0 runs the loop zero times: nothing is
    generated, nothing is rejected, whatever the size. -/
def genCli (r : GenReq) (creatable : Bool) (gen : Nat → Res Out) : CliOut :=
  if r.toFile && !creatable then ⟨1, true, []⟩ else cliLoop gen r.nbtrees.toNat 0 []

end Gotree.C16
