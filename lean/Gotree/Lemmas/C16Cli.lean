/-
  C16 — the star written by `gotree generate startree` (lemmas).
-/
import Gotree.Model.C16Cli
import Gotree.Lemmas.C16Oracle
import Gotree.Spec.C16Doc

namespace Gotree.C16
open Gotree

theorem leavesL_map_leaf' (e : Nat → EdgeD) (g : Nat → String) (l : List Nat) :
    leavesL (l.map fun i => (e i, T.leaf (g i))) = l.map g := leavesL_map_leaf e g l

theorem starCli_ok_lemma (n : Nat) (lens : List Rat) (h2 : 2 ≤ n) (hl : lensNonneg lens = true) :
    ∃ o, starCli (n : Int) lens = .ok o ∧ genTreeOK2 .star n false o.t = true ∧ indexReady o = true := by
  have h1 : ¬ ((n : Int) < 2) := by omega
  refine ⟨_, by simp only [starCli, h1, if_false]; rfl, ?_⟩
  have hlen : ((List.range ((n : Int).toNat)).map fun i => (newEdge (lenAt lens i), T.leaf (tipName i))).length = n := by simp
  have hp : (finishOut (.node newNodeD 0 ((List.range ((n : Int).toNat)).map fun i =>
      (newEdge (lenAt lens i), T.leaf (tipName i))))).t.tipNames.Perm (tipNamesUpTo n) := by
    have hn1 : (n == 1) = false := by simp; omega
    simp only [finishOut, T.tipNames, T.kids_node, hlen, hn1]
    rw [leavesL_map_leaf (fun i => newEdge (lenAt lens i)) tipName]
    simp [tipNamesUpTo]
  have hlo : lensOk (finishOut (.node newNodeD 0 ((List.range ((n : Int).toNat)).map fun i =>
      (newEdge (lenAt lens i), T.leaf (tipName i))))).t = true := by
    rw [lensOk_eq]
    exact edgesAllL_map_leaf nonneg (fun i => newEdge (lenAt lens i)) tipName
      (by intro i; simp only [nonneg, newEdge]; exact decide_eq_true (lenAt_nonneg lens hl i)) _
  refine ⟨?_, indexReady_of_perm _ n hp⟩
  unfold genTreeOK2
  simp only [GenKind.ntips, genTreeOK_common _ n hp hlo, Bool.true_and]
  simp [starShape, finishOut, T.isLeaf, T.leaf]

end Gotree.C16
