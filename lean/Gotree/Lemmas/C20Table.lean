/-
  C20 — helper lemmas about the source table (`Model/C20Table.lean`): what an accepted table says
  about the draw bounds.
-/
import Gotree.Model.C20Table

namespace Gotree.C20

theorem scriptBound_counter (c : Nat) : scriptBound [("Intn", .counter c)] = fun i => i + c := by
  funext i; simp [scriptBound]

/-- `2i - 3 = 1 + 2(i - 2)` and `2i - 2 = 2 + 2(i - 2)` on the tips `i ≥ 2` -/
theorem utreeBounds_eq (rooted : Bool) (n : Nat) :
    utreeBounds rooted n = (List.range' 2 (n - 2)).map fun i => (if rooted then 2 else 1) + 2 * (i - 2) := by
  unfold utreeBounds
  apply List.map_congr_left
  intro i hi
  have : 2 ≤ i := (List.mem_range'_1.mp hi).1
  cases rooted <;> simp <;> omega

end Gotree.C20
