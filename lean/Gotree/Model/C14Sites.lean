/-
  C14 (round 7b) — the conditions the extractor (harness/c14/extract.go) reads in the source, as terms that Lean
  EVALUATES on probes: a row of `Gen/C14Sites.lean` of this kind is the PATH CONDITION under which a statement of
  the anchored code is reached (the conjunction of the enclosing `if`s, of the negated `else`s and of the negated
  guards `if c { continue / return }` before it).  A rewrite that keeps the value of the condition (guard clauses,
  `!(a >= b)` for `a < b`, turned operands) keeps the table theorems.

  Not linked into the driver; only `Gen/C14Sites.lean` and `Proofs/C14Tables.lean` import this.
-/
namespace Gotree.C14.Sites

inductive Ex where
  | atom (s : String)
  | cmp (op l r : String)
  | not (e : Ex)
  | and (a b : Ex)
  | or (a b : Ex)
  | tt
  deriving Repr

/-- a probe: the value of an operand / the truth of an atom is given by the FIRST rule whose key occurs in its
    text (operands are printed with parameters p0, p1, … and locals x0, x1, …) -/
structure Probe where
  vals : List (String × Rat) := []
  atoms : List (String × Bool) := []

def prefixL : List Char → List Char → Bool
  | [], _ => true
  | _ :: _, [] => false
  | a :: k, b :: s => a == b && prefixL k s

def infixL (k : List Char) : List Char → Bool
  | [] => k.isEmpty
  | c :: s => prefixL k (c :: s) || infixL k s

/-- `key` occurs in `s` (structural recursion on the characters: the kernel evaluates it) -/
def occurs (key s : String) : Bool := infixL key.toList s.toList

def startsWithS (s pre : String) : Bool := prefixL pre.toList s.toList

/-- a non-negative decimal literal -/
def natLit? (s : String) : Option Nat :=
  let cs := s.toList
  if cs.isEmpty || !cs.all Char.isDigit then none
  else some (cs.foldl (fun n c => 10 * n + (c.toNat - 48)) 0)

def Probe.val (p : Probe) (s : String) : Option Rat :=
  if s == "nil" then some 0
  else match natLit? s with
    | some n => some (n : Rat)
    | none => (p.vals.find? fun kv => occurs kv.1 s).map (·.2)

def Probe.atomVal (p : Probe) (s : String) : Option Bool :=
  (p.atoms.find? fun kv => occurs kv.1 s).map (·.2)

def cmpOp (op : String) (a b : Rat) : Option Bool :=
  if op == "<" then some (decide (a < b)) else if op == ">" then some (decide (a > b))
  else if op == "<=" then some (decide (a ≤ b)) else if op == ">=" then some (decide (a ≥ b))
  else if op == "==" then some (a == b) else if op == "!=" then some (a != b) else none

/-- `none`: an operand or atom the probe does not know (the check then fails) -/
def Ex.eval (p : Probe) : Ex → Option Bool
  | .tt => some true
  | .atom s => p.atomVal s
  | .cmp op l r =>
    match p.val l, p.val r with
    | some a, some b => cmpOp op a b
    | _, _ => none
  | .not e => (e.eval p).map (!·)
  | .and a b =>
    match a.eval p, b.eval p with
    | some x, some y => some (x && y)
    | _, _ => none
  | .or a b =>
    match a.eval p, b.eval p with
    | some x, some y => some (x || y)
    | _, _ => none

end Gotree.C14.Sites
