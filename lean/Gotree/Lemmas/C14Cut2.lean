/-
  C14 round 2 — the outer loop of `CutEdgesMaxLength` on the pointer graph, part 1:
  index ranges of the flood, pointwise reading of `visited`, the flood started at a node
  towards its other children.  Core Lean only.
-/
import Gotree.Lemmas.C14Cut1

namespace Gotree.C14
open Gotree Gotree.C14.Go

/-! ## where the flood marks -/

mutual
theorem reachT_range (thr : Rat) : ∀ (t : T) (n : Nat), ∀ j ∈ reachT thr n t, n ≤ j ∧ j + 1 < n + t.size
  | .node d pp k, n, j, hj => by
    simp only [reachT] at hj
    have := reachL_range thr k (n + 1) (by omega) j hj
    rw [size_node]; omega
theorem reachL_range (thr : Rat) : ∀ (k : Kids) (n : Nat), 1 ≤ n → ∀ j ∈ reachL thr n k, n ≤ j + 1 ∧ j + 1 < n + T.sizeL k
  | [], _, _, j, hj => by simp [reachL] at hj
  | (e, t) :: r, n, hn, j, hj => by
    simp only [reachL, List.mem_append] at hj
    rw [sizeL_cons]
    have hp := size_pos t
    rcases hj with hj | hj
    · split at hj
      · rcases List.mem_cons.1 hj with rfl | hj
        · omega
        · have := reachT_range thr t n j hj; omega
      · cases hj
    · have := reachL_range thr r (n + t.size) (by omega) j hj; omega
end

/-! ## `visited` pointwise -/

theorem markAll_size : ∀ (l : List Nat) (v : Array Bool), (markAll v l).size = v.size
  | [], _ => rfl
  | i :: l, v => by
    have := markAll_size l (v.set! i true)
    simpa [markAll] using this

theorem markAll_get : ∀ (l : List Nat) (v : Array Bool) (j : Nat), (∀ i ∈ l, i < v.size) →
    (markAll v l).getD j false = (v.getD j false || decide (j ∈ l))
  | [], v, j, _ => by simp [markAll]
  | i :: l, v, j, h => by
    have hi : i < v.size := h i (by simp)
    have ih := markAll_get l (v.set! i true) j (fun x hx => by simpa using h x (by simp [hx]))
    have : markAll v (i :: l) = markAll (v.set! i true) l := rfl
    rw [this, ih]
    by_cases hij : i = j
    · subst hij
      simp [Array.getD_eq_getD_getElem?, Array.set!_eq_setIfInBounds, hi]
    · have hji : ¬ j = i := fun e => hij e.symm
      simp [Array.getD_eq_getD_getElem?, Array.set!_eq_setIfInBounds, Array.getElem?_setIfInBounds, hij, hji]

/-! ## the flood started at a node, away from one child -/

/-- what the code knows about a node `p` (kids `all`, first kid index `p + 1`) -/
structure NodeCtx (g : G) (thr : Rat) (p : Nat) (all : Kids) : Prop where
  kids : ∀ x ∈ kidsIdx (p + 1) all, KidOK g p (p + 1) all x
  node : ∃ nd, g.nodes[p]? = some nd ∧
    ((nd.neigh = (kidsIdx (p + 1) all).map fun x => (x.1, x.1 - 1)) ∨
     (∃ pp q b, q < p ∧ nd.neigh = insAt ((kidsIdx (p + 1) all).map fun x => (x.1, x.1 - 1)) pp (q, p - 1) ∧
        g.edges[p - 1]? = some b ∧ ¬ b.d.len < thr))

/-- is `p` a tip: the root with a single neighbour -/
def NodeCtx.tipPart (g : G) (p : Nat) (nd : GNode) : Bag := if nd.neigh.length == 1 then [(g.name p, p)] else []

theorem flood_at (g : G) (thr : Rat) (p : Nat) (all : Kids) (hall : all ≠ []) (ctx : NodeCtx g thr p all)
    (nd : GNode) (hnd : g.nodes[p]? = some nd) (fuel c : Nat) (bag : Bag) (visited : Array Bool)
    (hc : p < c)
    (hfuel : ∀ x ∈ kidsIdx (p + 1) all, x.1 ≠ c → x.2.2.size ≤ fuel)
    (hfresh : ((bag ++ NodeCtx.tipPart g p nd).map (·.1) ++
      (((kidsIdx (p + 1) all).flatMap fun x => leafIdxT x.1 x.2.2).map g.name)).Nodup) :
    cutRecur g thr (fuel + 1) bag p c visited =
      .ok (bag ++ NodeCtx.tipPart g p nd ++ tipPairs g ((kidsIdx (p + 1) all).flatMap (openW thr c)),
           markAll visited ((kidsIdx (p + 1) all).flatMap (reachW thr c))) := by
  obtain ⟨nd', hnd', hform⟩ := ctx.node
  rw [hnd] at hnd'
  cases hnd'
  rw [cutRecur_succ g thr fuel bag p c visited nd hnd]
  let l := kidsIdx (p + 1) all
  have hlpos : l.length ≠ 0 := by
    intro h0
    have : (l.map (·.2)).length = 0 := by simpa using h0
    rw [kidsIdx_snd] at this
    exact hall (List.length_eq_zero_iff.1 this)
  have hkids : ∀ (b0 : Bag), ((b0.map (·.1)) ++ ((l.flatMap fun x => leafIdxT x.1 x.2.2).map g.name)).Nodup →
      (l.map fun x => (x.1, x.1 - 1)).foldlM (crStep g thr fuel p c) (b0, visited) =
        .ok (b0 ++ tipPairs g (l.flatMap (openW thr c)), markAll visited (l.flatMap (reachW thr c))) := by
    intro b0 hb0
    exact flood_kids g thr fuel p (p + 1) c all l [] b0 visited
      (fun x hx => ⟨ctx.kids x hx, flood_down g thr x.2.2, fun hne => hfuel x hx (by simpa using hne)⟩)
      (by simpa using hb0)
  rcases hform with hroot | ⟨pp, q, b, hq, hneigh, hb, hlong⟩
  · -- the root
    by_cases h1 : (nd.neigh.length == 1) = true
    · -- a tip: it goes into the bag
      have hname : nd.name = g.name p := by simp [G.name, hnd]
      have hfr : g.name p ∉ bag.map (·.1) := by
        simp only [NodeCtx.tipPart, h1, if_true, List.map_append, List.map_cons, List.map_nil] at hfresh
        intro h
        have h2 := (List.nodup_append.1 (List.nodup_append.1 hfresh).1).2.2
        exact h2 _ h _ (by simp) rfl
      have hadd : addTip g bag p = .ok (bag ++ [(g.name p, p)]) := by
        have h1' : (nd.neigh.length != 1) = false := by simpa using h1
        simp only [addTip, hnd, h1', Bool.false_eq_true, if_false, hname, lookup_none_of_not_mem hfr]
      simp only [h1, if_true, hadd, NodeCtx.tipPart]
      rw [hroot]
      exact hkids _ (by simpa [NodeCtx.tipPart, h1] using hfresh)
    · have h1' : (nd.neigh.length == 1) = false := by simpa using h1
      simp only [h1', Bool.false_eq_true, if_false, NodeCtx.tipPart, List.append_nil]
      rw [hroot]
      exact hkids bag (by simpa [NodeCtx.tipPart, h1'] using hfresh)
  · -- an inner node below a long branch
    have hlen : nd.neigh.length = l.length + 1 := by
      rw [hneigh]; simp [insAt, l]; omega
    have h1' : (nd.neigh.length == 1) = false := by
      rw [hlen]; simp [hlpos]
    simp only [h1', Bool.false_eq_true, if_false, NodeCtx.tipPart, List.append_nil]
    rw [hneigh, foldlM_insAt_ex _ _ pp (q, p - 1) _ (fun st => by
      have : ¬ b.d.len < thr := hlong
      simp [crStep, hb, this])]
    exact hkids bag (by simpa [NodeCtx.tipPart, h1'] using hfresh)

end Gotree.C14
