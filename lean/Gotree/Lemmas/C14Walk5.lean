/-
  C14 round 2 — Part 5: `ToDistanceMatrix` on the pointer graph = `matrix` of the rose-tree
  model, for trees with unique tip names.  Core Lean only.
-/
import Gotree.Lemmas.C14Walk4

namespace Gotree.C14
open Gotree Gotree.C14.Go

/-! ## lists -/

theorem inj_of_nodup_map {α β : Type} (f : α → β) : ∀ {l : List α}, (l.map f).Nodup →
    ∀ x ∈ l, ∀ y ∈ l, f x = f y → x = y
  | [], _, x, hx, _, _, _ => by cases hx
  | a :: l, h, x, hx, y, hy, hxy => by
    simp only [List.map_cons, List.nodup_cons, List.mem_map, not_exists, not_and] at h
    rcases List.mem_cons.1 hx with ex | hx <;> rcases List.mem_cons.1 hy with ey | hy
    · rw [ex, ey]
    · rw [ex] at hxy; exact absurd hxy.symm (h.1 y hy)
    · rw [ey] at hxy; exact absurd hxy (h.1 x hx)
    · exact inj_of_nodup_map f h.2 x hx y hy hxy

theorem nodup_of_map {α β : Type} (f : α → β) : ∀ {l : List α}, (l.map f).Nodup → l.Nodup
  | [], _ => List.nodup_nil
  | a :: l, h => by
    simp only [List.map_cons, List.nodup_cons, List.mem_map, not_exists, not_and] at h
    exact List.nodup_cons.2 ⟨fun ha => h.1 a ha rfl, nodup_of_map f h.2⟩

theorem nodup_map_of_inj {α β : Type} (f : α → β) : ∀ {l : List α}, l.Nodup →
    (∀ x ∈ l, ∀ y ∈ l, f x = f y → x = y) → (l.map f).Nodup
  | [], _, _ => List.nodup_nil
  | a :: l, h, hi => by
    have h' := List.nodup_cons.1 h
    simp only [List.map_cons, List.nodup_cons, List.mem_map, not_exists, not_and]
    refine ⟨fun x hx hfx => ?_, nodup_map_of_inj f h'.2 (fun x hx y hy => hi x (by simp [hx]) y (by simp [hy]))⟩
    have := hi x (by simp [hx]) a (by simp) hfx
    exact h'.1 (this ▸ hx)

theorem lookup_of_mem_nodup {β : Type} : ∀ {l : List (String × β)} {k : String} {v : β},
    (l.map (·.1)).Nodup → (k, v) ∈ l → l.lookup k = some v
  | [], _, _, _, h => by cases h
  | (k', v') :: l, k, v, hn, hm => by
    simp only [List.map_cons, List.nodup_cons, List.mem_map, not_exists, not_and] at hn
    rcases List.mem_cons.1 hm with h | h
    · cases h; simp [List.lookup_cons]
    · have hne : k ≠ k' := fun e => hn.1 (k, v) h e
      have : (k == k') = false := by simpa using hne
      simp only [List.lookup_cons, this]
      exact lookup_of_mem_nodup hn.2 h

theorem mapM_spec {α β γ : Type} (f : α → Option β) (g : β → γ) (h : α → γ) : ∀ (l : List α),
    (∀ a ∈ l, ∃ b, f a = some b ∧ g b = h a) → ∃ bs, l.mapM f = some bs ∧ bs.map g = l.map h
  | [], _ => ⟨[], by simp, rfl⟩
  | a :: l, hl => by
    obtain ⟨b, hb, hg⟩ := hl a (by simp)
    obtain ⟨bs, hbs, hgs⟩ := mapM_spec f g h l (fun x hx => hl x (by simp [hx]))
    exact ⟨b :: bs, by simp [List.mapM_cons, hb, hbs], by simp [hg, hgs]⟩

/-! ## `SetId` -/

theorem setIds_spec : ∀ (l : List Nat) (k : Nat) (A : Array Nat), l.Nodup → (∀ x ∈ l, x < A.size) →
    ((l.zipIdx k).foldl (fun ids ti => ids.set! ti.1 ti.2) A).size = A.size ∧
    (∀ j (h : j < l.length), ((l.zipIdx k).foldl (fun ids ti => ids.set! ti.1 ti.2) A).getD l[j] 0 = k + j) ∧
    (∀ x, x ∉ l → ((l.zipIdx k).foldl (fun ids ti => ids.set! ti.1 ti.2) A).getD x 0 = A.getD x 0)
  | [], _, A, _, _ => ⟨rfl, fun j h => by simp at h, fun _ _ => rfl⟩
  | a :: l, k, A, hn, hr => by
    have hn' := List.nodup_cons.1 hn
    simp only [List.zipIdx_cons, List.foldl_cons]
    have ha : a < A.size := hr a (by simp)
    obtain ⟨h1, h2, h3⟩ := setIds_spec l (k + 1) (A.set! a k) hn'.2
      (fun x hx => by simpa using hr x (by simp [hx]))
    refine ⟨by simpa using h1, fun j hj => ?_, fun x hx => ?_⟩
    · cases j with
      | zero =>
        simp only [List.getElem_cons_zero, Nat.add_zero]
        rw [h3 a hn'.1]
        simp [Array.getD_eq_getD_getElem?, Array.set!_eq_setIfInBounds, ha]
      | succ j =>
        simp only [List.getElem_cons_succ]
        rw [h2 j (by simpa using hj)]; omega
    · simp only [List.mem_cons, not_or] at hx
      rw [h3 x hx.2]
      have : a ≠ x := fun e => hx.1 e.symm
      simp [Array.getD_eq_getD_getElem?, Array.set!_eq_setIfInBounds, Array.getElem?_setIfInBounds, this]

theorem setIds_get (N : Nat) (tips : List Nat) (hn : tips.Nodup) (hr : ∀ x ∈ tips, x < N) (j : Nat) (hj : j < tips.length) :
    (setIds N tips).getD tips[j] 0 = j := by
  have := (setIds_spec tips 0 (Array.replicate N 0) hn (by simpa using hr)).2.1 j hj
  simpa [setIds] using this

/-! ## the metric -/

def metricOf (mi : Int) : Metric := if mi == 1 then .boots else if mi == 2 then .none else .brlen

theorem weight_eq (mi : Int) : weight mi = (metricOf mi).w := by
  funext e
  unfold weight metricOf
  by_cases h1 : mi = 1
  · simp [h1, Metric.w]
  · by_cases h2 : mi = 2
    · simp [h2, Metric.w]
    · simp [h1, h2, Metric.w]

/-! ## the matrix -/

theorem tips_lt_size (t : T) : ∀ i ∈ (G.ofT t).tips, i < (G.ofT t).nodes.size := by
  intro i hi
  have hsize : (G.ofT t).nodes.size = t.size := by simp [G.ofT, flatT_length]
  rw [tips_ofT] at hi
  obtain ⟨d, pp, ks⟩ := t
  rw [hsize, size_node]
  rcases List.mem_append.1 hi with h | h
  · split at h
    · simp at h; omega
    · cases h
  · have := leafIdxL_range ks 1 i h; omega

/-- `ToDistanceMatrix` of the statement-level model, run on the pointer graph of a rose tree
    with unique tip names, returns the matrix of the rose-tree model: same tips in the same
    order, same entries.  (`metricOf` reads the integer as the code does: 1 = supports,
    2 = ones, every other value = lengths.) -/
theorem matrixGo_eq_matrix (mi : Int) (t : T) (hu : t.tipNames.Nodup) :
    matrixGo mi t = some (matrix (metricOf mi) t) := by
  let g := G.ofT t
  have hnames : g.tips.map g.name = t.tipNames := tips_names_ofT t
  have hnamesN : (g.tips.map g.name).Nodup := by rw [hnames]; exact hu
  have hinj := inj_of_nodup_map g.name hnamesN
  have htipsN : g.tips.Nodup := nodup_of_map g.name hnamesN
  let tips := sortTips g g.tips
  have hperm : tips.Perm g.tips := insSort_perm _ _
  have htN : tips.Nodup := hperm.nodup_iff.2 htipsN
  have hsnames : tips.map g.name = sortNames t.tipNames := by
    show (insSort (fun a b => decide (g.name a < g.name b)) g.tips).map g.name = _
    rw [insSort_names g.name g.tips, hnames]
  let N := g.nodes.size
  let ids := setIds N tips
  let n := tips.length
  have hids : ∀ j (hj : j < n), ids.getD tips[j] 0 = j :=
    fun j hj => setIds_get N tips htN (fun x hx => tips_lt_size t x (hperm.mem_iff.1 hx)) j hj
  have hidr : ∀ i ∈ g.tips, ids.getD i 0 < n := by
    intro i hi
    obtain ⟨j, hj, e⟩ := List.getElem_of_mem (hperm.mem_iff.2 hi)
    rw [← e, hids j hj]; exact hj
  have hidinj : ∀ x ∈ tips, ∀ y ∈ tips, ids.getD x 0 = ids.getD y 0 → x = y := by
    intro x hx y hy e
    obtain ⟨j, hj, ej⟩ := List.getElem_of_mem hx
    obtain ⟨k, hk, ek⟩ := List.getElem_of_mem hy
    rw [← ej, ← ek, hids j hj, hids k hk] at e
    subst e; rw [← ej, ← ek]
  let w := weight mi
  let L : Array Rat := Array.replicate n 0
  let rowList : Nat → List Rat := fun ai => tips.map fun bi =>
    if g.name ai == g.name bi then 0 else ((row w t (g.name ai)).lookup (g.name bi)).getD 0
  have hsz : t.size ≤ N + 1 := by
    have : N = t.size := by show (G.ofT t).nodes.size = _; simp [G.ofT, flatT_length]
    omega
  -- each row
  have hrow : ∀ ai ∈ tips, ∃ R, pathLengths g ids mi (N + 1) ai none L 0 = some R ∧ R.toList = rowList ai := by
    intro ai hai
    have hai' : ai ∈ g.tips := hperm.mem_iff.1 hai
    obtain ⟨ws, hwn, hwi, hrun⟩ := walk_root mi t ids hu ai hai'
    have hLsz : L.size = n := by simp [L]
    refine ⟨applyW ids L ws, hrun (N + 1) L hsz (fun i hi => by rw [hLsz]; exact hidr i hi), ?_⟩
    have hwsN : (ws.map (·.1)).Nodup := hwi.nodup_iff.2 (htipsN.erase ai)
    have hwsmem : ∀ iv ∈ ws, iv.1 ∈ tips ∧ iv.1 ≠ ai := by
      intro iv hiv
      have : iv.1 ∈ g.tips.erase ai := hwi.mem_iff.1 (List.mem_map_of_mem hiv)
      have := (htipsN.mem_erase_iff).1 this
      exact ⟨hperm.mem_iff.2 this.2, this.1⟩
    have hkeys : (ws.map fun iv => ids.getD iv.1 0).Nodup := by
      have : (ws.map fun iv => ids.getD iv.1 0) = (ws.map (·.1)).map (fun i => ids.getD i 0) := by
        rw [List.map_map]; rfl
      rw [this]
      refine nodup_map_of_inj _ hwsN (fun x hx y hy e => ?_)
      obtain ⟨iv, hiv, rfl⟩ := List.mem_map.1 hx
      obtain ⟨iv', hiv', rfl⟩ := List.mem_map.1 hy
      exact hidinj _ (hwsmem iv hiv).1 _ (hwsmem iv' hiv').1 e
    have hrange : ∀ iv ∈ ws, ids.getD iv.1 0 < L.size := by
      intro iv hiv; rw [hLsz]; exact hidr _ (hperm.mem_iff.1 (hwsmem iv hiv).1)
    have hrowkeys : ((row w t (g.name ai)).map (·.1)).Nodup := by
      have h1 : ((ws.map fun iv => (g.name iv.1, iv.2)).map (·.1)).Perm ((row w t (g.name ai)).map (·.1)) := hwn.map _
      refine h1.nodup_iff.1 ?_
      have : (ws.map fun iv => (g.name iv.1, iv.2)).map (·.1) = (ws.map (·.1)).map g.name := by
        rw [List.map_map, List.map_map]; rfl
      rw [this]
      refine nodup_map_of_inj _ hwsN (fun x hx y hy e => ?_)
      obtain ⟨iv, hiv, rfl⟩ := List.mem_map.1 hx
      obtain ⟨iv', hiv', rfl⟩ := List.mem_map.1 hy
      exact hinj _ (hperm.mem_iff.1 (hwsmem iv hiv).1) _ (hperm.mem_iff.1 (hwsmem iv' hiv').1) e
    have hrl : (rowList ai).length = n := by
      show (List.map _ tips).length = tips.length
      simp
    apply List.ext_getElem
    · rw [Array.length_toList, applyW_size, hLsz, hrl]
    · intro j h1 h2
      have hj : j < n := by rw [hrl] at h2; exact h2
      have hjR : j < (applyW ids L ws).size := by rw [applyW_size, hLsz]; exact hj
      have hget : (applyW ids L ws).toList[j] = (applyW ids L ws).getD j 0 := by
        rw [Array.getElem_toList]
        simp [Array.getD_eq_getD_getElem?, hjR]
      rw [hget]
      simp only [rowList, List.getElem_map]
      have hbi : tips[j] ∈ tips := List.getElem_mem hj
      by_cases hab : ai = tips[j]
      · -- the start tip: never written
        rw [← hab]
        simp only [beq_self_eq_true, if_true]
        rw [applyW_other ids ws L j (fun iv hiv e => ?_)]
        · simp [L, Array.getD_eq_getD_getElem?, hj]
        · have hm := hwsmem iv hiv
          rw [← hids j hj, ← hab] at e
          exact hm.2 (hidinj _ hm.1 _ hai e)
      · have hne : (g.name ai == g.name tips[j]) = false := by
          have : g.name ai ≠ g.name tips[j] := fun e => hab (hinj _ hai' _ (hperm.mem_iff.1 hbi) e)
          simpa using this
        simp only [hne, Bool.false_eq_true, if_false]
        have hmem : tips[j] ∈ ws.map (·.1) :=
          hwi.mem_iff.2 ((htipsN.mem_erase_iff).2 ⟨fun e => hab e.symm, hperm.mem_iff.1 hbi⟩)
        obtain ⟨iv, hiv, hiv1⟩ := List.mem_map.1 hmem
        have hval := applyW_mem ids ws L hkeys hrange iv hiv
        rw [hiv1, hids j hj] at hval
        rw [hval]
        have hin : (g.name tips[j], iv.2) ∈ row w t (g.name ai) := by
          refine hwn.mem_iff.1 (List.mem_map.2 ⟨iv, hiv, ?_⟩)
          rw [hiv1]
        rw [lookup_of_mem_nodup hrowkeys hin]
        rfl
  obtain ⟨rows, hrows, hrl⟩ := mapM_spec (fun a => pathLengths g ids mi (N + 1) a none L 0) Array.toList rowList tips hrow
  have hgo : matrixGo mi t = some (tips.map g.name, rows.map Array.toList) := by
    show (match toDistanceMatrix g mi with
      | some (m, tips) => some (tips.map g.name, m)
      | none => none) = _
    have : toDistanceMatrix g mi = some (rows.map Array.toList, tips) := by
      show (match tips.mapM fun a => pathLengths g ids mi (N + 1) a none L 0 with
        | some rows => some (rows.map Array.toList, tips)
        | none => none) = _
      rw [hrows]
    rw [this]
  rw [hgo, hrl]
  have hm : matrix (metricOf mi) t = (tips.map g.name, (tips.map g.name).map fun a =>
      (tips.map g.name).map fun b => if a == b then 0 else ((row (metricOf mi).w t a).lookup b).getD 0) := by
    unfold matrix
    simp only [hsnames]
  rw [hm]
  congr 2
  rw [List.map_map]
  apply List.map_congr_left
  intro ai _
  show rowList ai = _
  simp only [rowList, List.map_map, Function.comp]
  rw [← weight_eq mi]
  rfl

end Gotree.C14
