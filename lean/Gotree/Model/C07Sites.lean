/-
  C07 — the vocabulary of the table `Gotree/Gen/C07Sites.lean`, which `harness/c07/extract.go`
  regenerates from the Go source (go/parser on tree/tree.go, tree/edge.go, cmd/collapse*.go,
  cmd/resolve.go) on every run, and the reading of that table the hand-written model was made from.

  The table holds the facts of the source that `Model/C07.lean` / `Model/C07Cmd.lean` silently assume:
    * the selection predicates of the three `Collapse…` functions, as expressions (`Ex`);
    * which of their parameters they hand to `RemoveEdges` as `removeRoot`, `removeTips`;
    * the two `continue` guards of `RemoveEdges`, in order, with what is done before `continue`;
    * the error condition and the value of `Edge.TopoDepth`;
    * the conditions of `resolveRecur` (`> 3` twice, `i < 2`, the parent correction) and the values
      given to the branches it makes; the sentinels `NIL_SUPPORT`, `NIL_LENGTH`, `NIL_PVALUE`;
    * for each of the four commands: the library method it calls, the flag (name, shorthand, default)
      bound to each argument, and the methods called on each tree in the loop, in order.

  In the expressions the extractor replaces the i-th parameter of the enclosing function by `$i`,
  the variable of the loop over the branches by `$e`, the receiver of `TopoDepth` by `$e`, and a local
  assigned from `$e.TopoDepth()` by that call — so that renaming a variable is not an alarm.

  Core Lean only.
-/
import Gotree.Model.C07
import Gotree.Model.C07Cmd

namespace Gotree.C07.Sites
open Gotree

/-- conditions as the extractor understands them -/
inductive Ex where
  | atom (s : String)
  | cmp (op : String) (a b : String)   -- operands by their text
  | and (a b : Ex)
  | or (a b : Ex)
  | not (a : Ex)
  deriving DecidableEq, Repr, Inhabited

def Ex.show : Ex → String
  | .atom s => s
  | .cmp op a b => a ++ " " ++ op ++ " " ++ b
  | .and a b => "(" ++ a.show ++ " && " ++ b.show ++ ")"
  | .or a b => "(" ++ a.show ++ " || " ++ b.show ++ ")"
  | .not a => "!" ++ a.show

/-- `a >= b` is read `b <= a`, `a > b` is read `b < a` (so that turning a comparison round is no alarm) -/
def Ex.norm : Ex → Ex
  | .atom s => .atom s
  | .cmp op a b =>
    if op == ">=" then .cmp "<=" b a
    else if op == ">" then .cmp "<" b a
    else .cmp op a b
  | .and a b => .and a.norm b.norm
  | .or a b => .or a.norm b.norm
  | .not a => .not a.norm

def cmpOp (op : String) (x y : Rat) : Option Bool :=
  if op == "<=" then some (decide (x ≤ y))
  else if op == "<" then some (decide (x < y))
  else if op == ">=" then some (decide (y ≤ x))
  else if op == ">" then some (decide (y < x))
  else if op == "==" then some (x == y)
  else if op == "!=" then some (x != y)
  else none

/-- `ρ` values the numeric atoms, `β` the Boolean atoms and the comparisons whose operands are not
    numbers (pointer equalities `==` / `!=`), looked up by their text.  `none`: something the reading does not know. -/
def eval (ρ : String → Option Rat) (β : String → Option Bool) : Ex → Option Bool
  | .atom s => β s
  | .cmp op a b =>
    match ρ a, ρ b with
    | some x, some y => cmpOp op x y
    | _, _ => if op == "==" || op == "!=" then β (a ++ " " ++ op ++ " " ++ b) else none
  | .and a b =>
    match eval ρ β a, eval ρ β b with
    | some x, some y => some (x && y)
    | _, _ => none
  | .or a b =>
    match eval ρ β a, eval ρ β b with
    | some x, some y => some (x || y)
    | _, _ => none
  | .not a => (eval ρ β a).map (!·)

/-- decimal literal of the Go source (`0.0`, `-1.0`, `2`) -/
def digitsVal (cs : List Char) : Option Nat :=
  if cs.isEmpty || !cs.all Char.isDigit then none
  else some (cs.foldl (fun n c => 10 * n + (c.toNat - '0'.toNat)) 0)

def litRat? (s : String) : Option Rat :=
  let cs := s.toList
  let (neg, cs) := match cs with
    | '-' :: r => (true, r)
    | _ => (false, cs)
  let ip := cs.takeWhile (· != '.')
  let fp := (cs.dropWhile (· != '.')).drop 1
  match digitsVal ip, (if fp.isEmpty then some 0 else digitsVal fp) with
  | some i, some f =>
    let v : Rat := (i : Rat) + (f : Rat) / ((10 ^ fp.length : Nat) : Rat)
    some (if neg then -v else v)
  | _, _ => none

/-- a guard of the loop of `RemoveEdges`: the condition, and the statements in front of `continue` -/
structure Guard where
  cond : Ex
  body : List String
  deriving DecidableEq, Repr

/-- a flag bound to an argument of the library call -/
structure FlagArg where
  flag : String
  short : String
  reg : String        -- the pflag registration function (`Float64VarP`, `IntVarP`, `BoolVar`)
  dflt : String       -- the default, as written
  deriving DecidableEq, Repr

structure Cmd where
  file : String
  use : String              -- the `Use:` of the cobra command
  call : String             -- the library method called on each tree
  args : List FlagArg       -- one per argument, in order
  loop : List String        -- methods called on `t.Tree` / tested on the record inside the loop, in order
  errReturn : Bool          -- the loop starts with `if t.Err != nil { …; return t.Err }`
  deriving DecidableEq, Repr

/- ## the reading of the source the model was written from (what the table must say) -/

def expSelLen : Ex := .cmp "<=" "$e.Length()" "$0"
def expSelSup : Ex :=
  .and (.cmp "!=" "$e.Support()" "NIL_SUPPORT") (.cmp "<" "$e.Support()" "$0")
def expSelDepth : Ex :=
  .and (.cmp "<=" "$0" "$e.TopoDepth()") (.cmp "<=" "$e.TopoDepth()" "$1")
def expDepthErr : Ex := .or (.cmp "==" "$e.ntaxleft" "0") (.cmp "==" "$e.ntaxright" "0")
def expDepthValue : String := "mutils.Min($e.ntaxleft, $e.ntaxright)"

/-- (function, what it passes as `removeRoot`, `removeTips`) -/
def expRemoveArgs : List (String × List String) :=
  [("CollapseShortBranches", ["$1", "$2"]), ("CollapseLowSupport", ["$1", "false"]), ("CollapseTopoDepth", ["$2", "$3"])]

def expGuards : List Guard :=
  [⟨.or (.atom "$e.Right().Tip()") (.atom "$e.Left().Tip()"), ["if $1 { $e.SetLength(0.0) }", "continue"]⟩,
   ⟨.and (.and (.not (.atom "$0")) (.cmp "==" "$e.Left()" "t.Root()"))
      (.cmp "==" "$e.Left().Nneigh()" "2"), ["continue"]⟩]

/-- `resolveRecur(current = $0, previous = $1)`: every `if` / `for` condition, in source order -/
def expResolveConds : List Ex :=
  [.cmp "!=" "n" "$1",                         -- recursion: every neighbour but the parent
   .cmp "<" "3" "len($0.Neigh())",              -- resolve this node?
   .cmp "!=" "$1" "nil",                       -- l-- : the parent is not grouped
   .cmp "!=" "n" "$1",                         -- togroup: every neighbour but the parent
   .cmp "<" "3" "len($0.Neigh())",              -- until three neighbours are left
   .cmp "<" "i" "2"]                           -- two branches under each new node

/-- the `Set…` calls of `resolveRecur`, in order: the moved branch keeps its values, the new one is
    `0.0`, no support, no p-value -/
def expResolveSets : List String :=
  ["etmp.SetLength(len)", "etmp.SetSupport(boot)", "etmp.SetPValue(pv)",
   "e.SetLength(0.0)", "e.SetSupport(NIL_SUPPORT)", "e.SetPValue(NIL_PVALUE)"]

/-- where `boot`, `len`, `pv` come from -/
def expResolveReads : List String := ["boot := e.Support()", "len := e.Length()", "pv := e.PValue()"]

/-- `Resolve()`: the calls, in order -/
def expResolveTop : List String := ["t.Root()", "t.resolveRecur(root, nil)", "t.ReinitInternalIndexes()"]

def expConsts : List (String × String) :=
  [("NIL_SUPPORT", "-1.0"), ("NIL_LENGTH", "-1.0"), ("NIL_PVALUE", "-1.0")]

/-- the one-line accessors the conditions are written with (receiver `$r`, parameter `$0`): `Tip()` is
    "exactly one neighbour", the getters and setters read and write the field of their name -/
def expAccessors : List (String × String) :=
  [("Node.Tip", "return len($r.neigh) == 1"), ("Node.Nneigh", "return len($r.neigh)"), ("Node.Neigh", "return $r.neigh"),
   ("Edge.Length", "return $r.length"), ("Edge.Support", "return $r.support"), ("Edge.PValue", "return $r.pvalue"),
   ("Edge.Left", "return $r.left"), ("Edge.Right", "return $r.right"),
   ("Edge.NumTipsLeft", "return $r.ntaxleft"), ("Edge.NumTipsRight", "return $r.ntaxright"),
   ("Edge.SetLength", "$r.length = $0"), ("Edge.SetSupport", "$r.support = $0"), ("Edge.SetPValue", "$r.pvalue = $0"),
   ("Tree.Root", "return $r.root")]
def expTipDef : Ex := .cmp "==" "len($r.neigh)" "1"

def expCmds : List Cmd :=
  [⟨"collapsebrlen.go", "length", "CollapseShortBranches",
     [⟨"length", "l", "Float64VarP", "0.0"⟩, ⟨"root", "", "BoolVar", "false"⟩, ⟨"tips", "", "BoolVar", "false"⟩],
     ["CollapseShortBranches", "Newick"], true⟩,
   ⟨"collapsesupport.go", "support", "CollapseLowSupport",
     [⟨"support", "s", "Float64VarP", "0.0"⟩, ⟨"root", "", "BoolVar", "false"⟩],
     ["CollapseLowSupport", "Newick"], true⟩,
   ⟨"collapsedepth.go", "depth", "CollapseTopoDepth",
     [⟨"min-depth", "m", "IntVarP", "0"⟩, ⟨"max-depth", "M", "IntVarP", "0"⟩,
      ⟨"root", "", "BoolVar", "false"⟩, ⟨"tips", "", "BoolVar", "false"⟩],
     ["ReinitIndexes", "CollapseTopoDepth", "Newick"], true⟩,
   ⟨"resolve.go", "resolve", "Resolve", [], ["Resolve", "Newick"], true⟩]

/- ## valuations: what the atoms of the table mean in the model -/

def ρLen (l : Rat) (s : SplitE) : String → Option Rat
  | "$e.Length()" => some s.e.len
  | "$0" => some l
  | _ => none

def ρSup (consts : List (String × String)) (x : Rat) (s : SplitE) : String → Option Rat
  | "$e.Support()" => some s.e.sup
  | "$0" => some x
  | "NIL_SUPPORT" => (consts.lookup "NIL_SUPPORT").bind litRat?
  | _ => none

def ρDepth (d : Nat) (mn mx : Int) : String → Option Rat
  | "$e.TopoDepth()" => some ((d : Int) : Rat)
  | "$0" => some (mn : Rat)
  | "$1" => some (mx : Rat)
  | _ => none

def ρSizes (sz : Nat × Nat) : String → Option Rat
  | "$e.ntaxleft" => some ((sz.1 : Int) : Rat)
  | "$e.ntaxright" => some ((sz.2 : Int) : Rat)
  | "0" => some 0
  | _ => none

def βNone : String → Option Bool := fun _ => none

/-- the loop of `RemoveEdges` on one branch: `childTip` = `e.Right().Tip()`, `deg` = the number of
    neighbours of `e.Left()` (it is a tip iff `deg == 1`), `atRoot` = `e.Left() == t.Root()` -/
def ρGuard (deg : Nat) : String → Option Rat
  | "$e.Left().Nneigh()" => some ((deg : Int) : Rat)
  | "2" => some 2
  | _ => none

def βGuard (rr rt childTip : Bool) (deg : Nat) (atRoot : Bool) : String → Option Bool
  | "$0" => some rr
  | "$1" => some rt
  | "$e.Right().Tip()" => some childTip
  | "$e.Left().Tip()" => some (deg == 1)
  | "$e.Left() == t.Root()" => some atRoot
  | _ => none

/-- `Node.Tip()` on a node with `deg` neighbours -/
def ρDeg (deg : Nat) : String → Option Rat
  | "len($r.neigh)" => some ((deg : Int) : Rat)
  | "1" => some 1
  | _ => none

/-- what happens to a branch handed to `RemoveEdges` -/
inductive Fate where
  | tip (zeroed : Bool)   -- first guard: kept; length set to 0 under `removeTips`
  | rootBranch            -- second guard: kept
  | contracted
  | unknown
  deriving DecidableEq, Repr

/-- the guards of the table, run in their order -/
def fateOfGuards (gs : List Guard) (rr rt childTip : Bool) (deg : Nat) (atRoot : Bool) : Fate :=
  match gs with
  | [g0, g1] =>
    match eval (ρGuard deg) (βGuard rr rt childTip deg atRoot) g0.cond,
          eval (ρGuard deg) (βGuard rr rt childTip deg atRoot) g1.cond with
    | some true, _ =>
      if g0.body == ["if $1 { $e.SetLength(0.0) }", "continue"] then .tip rt else .unknown
    | some false, some true => if g1.body == ["continue"] then .rootBranch else .unknown
    | some false, some false => .contracted
    | _, _ => .unknown
  | _ => .unknown

/-- the same decision as `contractL` takes it (`rr'` there is `removeRoot || the node is not the root`) -/
def fateOfModel (rr rt childTip : Bool) (deg : Nat) (atRoot : Bool) : Fate :=
  if childTip || deg == 1 then .tip rt
  else if !(rr || !atRoot) && deg == 2 then .rootBranch
  else .contracted

/- ## the guards of `RemoveEdges`, decided SEMANTICALLY on probes (round 7b)

   A probe is a state of the loop for one branch: the flags, `e.Right().Tip()`, the CURRENT number of
   neighbours of `e.Left()`, whether `e.Left()` is the root, and `deg0`, the number of neighbours the root had
   when `RemoveEdges` was entered (what `t.Root().Nneigh()` gives when it is read before the loop; the
   extractor replaces a local defined before the loop by its defining expression).  `reachable` is the
   invariant of the loop: without `removeRoot` a root with two neighbours keeps exactly two (both its
   branches are skipped), a root with one neighbour keeps one (its branch is a tip branch), a root with more
   only gains neighbours — so at the root "two neighbours now" is "two neighbours at the start". -/
structure Probe where
  rr : Bool
  rt : Bool
  childTip : Bool
  deg : Nat
  atRoot : Bool
  deg0 : Nat
  deriving Repr

def Probe.reachable (p : Probe) : Bool :=
  !p.atRoot || p.rr || ((p.deg0 == 2) == (p.deg == 2))

def ρGuardP (p : Probe) : String → Option Rat
  | "$e.Left().Nneigh()" => some ((p.deg : Int) : Rat)
  | "len($e.Left().Neigh())" => some ((p.deg : Int) : Rat)
  | "t.Root().Nneigh()" => some ((p.deg0 : Int) : Rat)
  | "len(t.Root().Neigh())" => some ((p.deg0 : Int) : Rat)
  | "0" => some 0
  | "1" => some 1
  | "2" => some 2
  | "3" => some 3
  | _ => none

def βGuardP (p : Probe) : String → Option Bool
  | "$0" => some p.rr
  | "$1" => some p.rt
  | "$e.Right().Tip()" => some p.childTip
  | "$e.Left().Tip()" => some (p.deg == 1)
  | "$e.Left() == t.Root()" => some p.atRoot
  | "t.Root() == $e.Left()" => some p.atRoot
  | "$e.Left() != t.Root()" => some (!p.atRoot)
  | "t.Rooted()" => some (p.deg0 == 2)
  | _ => none

/-- the guards of the table run on a probe (conditions as written, no normal form needed) -/
def fateOfGuardsP (gs : List Guard) (p : Probe) : Fate :=
  match gs with
  | [g0, g1] =>
    match eval (ρGuardP p) (βGuardP p) g0.cond, eval (ρGuardP p) (βGuardP p) g1.cond with
    | some true, _ =>
      if g0.body == ["if $1 { $e.SetLength(0.0) }", "continue"] then .tip p.rt else .unknown
    | some false, some true => if g1.body == ["continue"] then .rootBranch else .unknown
    | some false, some false => .contracted
    | _, _ => .unknown
  | _ => .unknown

def bools : List Bool := [false, true]

/-- every combination of the flags, degrees 0..4 (the conditions compare degrees with 1 and 2 only),
    restricted to the reachable ones -/
def probes : List Probe :=
  (bools.flatMap fun rr => bools.flatMap fun rt => bools.flatMap fun ct => bools.flatMap fun ar =>
    (List.range 5).flatMap fun deg => (List.range 5).map fun deg0 => (⟨rr, rt, ct, deg, ar, deg0⟩ : Probe)).filter
    Probe.reachable

def guardsAgree (gs : List Guard) : Bool :=
  probes.all fun p => fateOfGuardsP gs p == fateOfModel p.rr p.rt p.childTip p.deg p.atRoot

/-- `resolveRecur`: the two `> 3` tests on a node with `n` neighbours -/
def ρNeigh (n : Nat) : String → Option Rat
  | "len($0.Neigh())" => some ((n : Int) : Rat)
  | "3" => some 3
  | _ => none

/-- the defaults of the flags of a command, read as numbers -/
def Cmd.defaults (c : Cmd) : List (Option Rat) := c.args.map fun a =>
  if a.reg == "BoolVar" then (if a.dflt == "false" then some 0 else if a.dflt == "true" then some 1 else none)
  else litRat? a.dflt

end Gotree.C07.Sites
