/-
  C01 — helper lemmas for `parse_write` (character level).  Core Lean only.
-/
import Gotree.Spec.C01

namespace Gotree.Newick
open Gotree Gotree.C01

/- ## characters -/

theorem isIdent_false_iff (c : Char) :
    isIdent false c = true ↔
      (c == '[') = false ∧ (c == ']') = false ∧ (c == '(') = false ∧ (c == ')') = false ∧
      (c == ',') = false ∧ (c == ':') = false ∧ (c == ';') = false := by
  simp [isIdent, and_assoc]

theorem isIdent_true_of_ne (c : Char) (h : (c == ']') = false) (h2 : isIdent true c = false) :
    c = '[' ∨ c = '(' ∨ c = ')' ∨ c = ',' ∨ c = ':' := by
  simp [isIdent] at h2 h
  by_cases h1 : c = '['
  · exact Or.inl h1
  · by_cases h3 : c = '('
    · exact Or.inr (Or.inl h3)
    · by_cases h4 : c = ')'
      · exact Or.inr (Or.inr (Or.inl h4))
      · by_cases h5 : c = ','
        · exact Or.inr (Or.inr (Or.inr (Or.inl h5)))
        · exact Or.inr (Or.inr (Or.inr (Or.inr (h2 h1 h h3 h4 h5))))

theorem isIdent_of_notMeta (c : Char) (h : isMeta c = false) : isIdent false c = true := by
  simp [isMeta] at h
  simp [isIdent, h]

theorem numClean_ident (c : Char) (h : numClean c = true) : isIdent false c = true := by
  simp [numClean] at h
  simp [isIdent, h]

theorem numClean_notWs (c : Char) (h : numClean c = true) : isWhitespace c = false := by
  simp [numClean] at h
  simp [isWhitespace, h]

theorem numClean_notSlash (c : Char) (h : numClean c = true) : (c == '/') = false := by
  simp [numClean] at h
  simp [h]

/- ## takeWhile / dropWhile up to a stopper -/

theorem takeWhile_append_stop {α} (p : α → Bool) (w : List α) (d : α) (r : List α)
    (hw : w.all p = true) (hd : p d = false) : (w ++ d :: r).takeWhile p = w := by
  induction w with
  | nil => simp [List.takeWhile, hd]
  | cons x w ih =>
    simp only [List.all_cons, Bool.and_eq_true] at hw
    simp [List.takeWhile, hw.1, ih hw.2]

theorem dropWhile_append_stop {α} (p : α → Bool) (w : List α) (d : α) (r : List α)
    (hw : w.all p = true) (hd : p d = false) : (w ++ d :: r).dropWhile p = d :: r := by
  induction w with
  | nil => simp [List.dropWhile, hd]
  | cons x w ih =>
    simp only [List.all_cons, Bool.and_eq_true] at hw
    simp [List.dropWhile, hw.1, ih hw.2]

theorem takeWhile_append_stop' {α} (p : α → Bool) (w : List α) (d : α) (r : List α)
    (hd : p d = false) : (w ++ d :: r).takeWhile p = w.takeWhile p := by
  induction w with
  | nil => simp [List.takeWhile, hd]
  | cons x w ih =>
    by_cases hx : p x = true
    · simp [List.takeWhile, hx, ih]
    · simp [List.takeWhile, hx]

theorem dropWhile_append_stop' {α} (p : α → Bool) (w : List α) (d : α) (r : List α)
    (hd : p d = false) : (w ++ d :: r).dropWhile p = w.dropWhile p ++ d :: r := by
  induction w with
  | nil => simp [List.dropWhile, hd]
  | cons x w ih =>
    by_cases hx : p x = true
    · simp [List.dropWhile, hx, ih]
    · simp [List.dropWhile, hx]

/- ## the scanner on the pieces the writer emits -/

/-- the input goes on with a character that ends an identifier -/
def StartsDelim (l : List Char) : Prop := ∃ d r, l = d :: r ∧ isIdent false d = false

theorem scan_word (C : Codec) (c : Char) (w r : List Char)
    (hc : isIdent false c = true) (hws : isWhitespace c = false) (hw : w.all (isIdent false) = true)
    (hr : StartsDelim r) :
    scan C false (c :: w ++ r) = (if C.isFloat (c :: w) then .numeric else .ident, c :: w, r) := by
  obtain ⟨d, r', rfl, hd⟩ := hr
  have h := (isIdent_false_iff c).1 hc
  obtain ⟨h1, h2, h3, h4, h5, h6, h7⟩ := h
  simp only [List.cons_append, scan, hws, h1, h2, h3, h4, h5, h6, h7, Bool.false_eq_true, if_false, Bool.false_and]
  rw [takeWhile_append_stop _ w d r' hw hd, dropWhile_append_stop _ w d r' hw hd]

theorem scanIW_word (C : Codec) (c : Char) (w r : List Char)
    (hc : isIdent false c = true) (hws : isWhitespace c = false) (hw : w.all (isIdent false) = true)
    (hr : StartsDelim r) :
    scanIW C (c :: w ++ r) = (if C.isFloat (c :: w) then .numeric else .ident, c :: w, r) ∧
    skipWs C (c :: w ++ r) = c :: w ++ r := by
  have hs := scan_word C c w r hc hws hw hr
  have hk : skipWs C (c :: w ++ r) = c :: w ++ r := by
    unfold skipWs
    rw [hs]
    by_cases hf : C.isFloat (c :: w) = true <;> simp [hf]
  exact ⟨by unfold scanIW; rw [hk, hs], hk⟩

theorem scanIW_char (C : Codec) (c : Char) (r : List Char) (t : Tok)
    (h : scan C false (c :: r) = (t, [c], r)) (ht : t ≠ .ws) :
    scanIW C (c :: r) = (t, [c], r) ∧ skipWs C (c :: r) = c :: r := by
  have hk : skipWs C (c :: r) = c :: r := by
    unfold skipWs; rw [h]; simp [ht]
  exact ⟨by unfold scanIW; rw [hk, h], hk⟩

theorem scan_openpar (C : Codec) (r) : scan C false ('(' :: r) = (.openpar, ['('], r) := by simp [scan, isWhitespace]
theorem scan_closepar (C : Codec) (r) : scan C false (')' :: r) = (.closepar, [')'], r) := by simp [scan, isWhitespace]
theorem scan_openbrack (C : Codec) (r) : scan C false ('[' :: r) = (.openbrack, ['['], r) := by simp [scan, isWhitespace]
theorem scan_comma (C : Codec) (r) : scan C false (',' :: r) = (.newsibling, [','], r) := by simp [scan, isWhitespace]
theorem scan_colon (C : Codec) (r) : scan C false (':' :: r) = (.startlen, [':'], r) := by simp [scan, isWhitespace]
theorem scan_semi (C : Codec) (r) : scan C false (';' :: r) = (.eot, [';'], r) := by simp [scan, isWhitespace]

/- ## comments -/

theorem all_dropWhile {α} (p q : α → Bool) (l : List α) (h : l.all q = true) : (l.dropWhile p).all q = true := by
  induction l with
  | nil => simp
  | cons x l ih =>
    simp only [List.all_cons, Bool.and_eq_true] at h
    simp only [List.dropWhile]
    split
    · exact ih h.2
    · simp [h.1, h.2]

theorem length_dropWhile_le' {α} (p : α → Bool) (l : List α) : (l.dropWhile p).length ≤ l.length :=
  (List.dropWhile_sublist (l := l) p).length_le

/-- one `scan(true)` inside a comment: a non-empty piece of the comment, never past the `]` -/
theorem scan_true_step (C : Codec) (x : Char) (c r : List Char) (hx : (x == ']') = false)
    (hc : c.all (fun y => y != ']') = true) :
    ∃ l c', (scan C true (x :: c ++ ']' :: r)).1 ≠ .closebrack ∧ (scan C true (x :: c ++ ']' :: r)).1 ≠ .eof ∧
      (scan C true (x :: c ++ ']' :: r)).1 ≠ .illegal ∧
      (scan C true (x :: c ++ ']' :: r)).2.1 = l ∧ (scan C true (x :: c ++ ']' :: r)).2.2 = c' ++ ']' :: r ∧
      l ++ c' = x :: c ∧ c'.length ≤ c.length ∧ c'.all (fun y => y != ']') = true := by
  have hw : isWhitespace ']' = false := by decide
  have hi : isIdent true ']' = false := by decide
  simp only [List.cons_append, scan]
  split
  · refine ⟨x :: c.takeWhile isWhitespace, c.dropWhile isWhitespace, by simp, by simp, by simp, ?_, ?_, ?_, ?_, ?_⟩
    · simp [takeWhile_append_stop' _ c ']' r hw]
    · simp [dropWhile_append_stop' _ c ']' r hw]
    · simp [List.takeWhile_append_dropWhile]
    · exact length_dropWhile_le' _ _
    · exact all_dropWhile _ _ _ hc
  · split
    · exact ⟨[x], c, by simp, by simp, by simp, rfl, rfl, rfl, Nat.le_refl _, hc⟩
    · split
      · exact ⟨[x], c, by simp, by simp, by simp, rfl, rfl, rfl, Nat.le_refl _, hc⟩
      · split
        · exact ⟨[x], c, by simp, by simp, by simp, rfl, rfl, rfl, Nat.le_refl _, hc⟩
        · split
          · rename_i h; simp [h] at hx
          · split
            · exact ⟨[x], c, by simp, by simp, by simp, rfl, rfl, rfl, Nat.le_refl _, hc⟩
            · split
              · rename_i h; simp at h
              · split
                · exact ⟨[x], c, by simp, by simp, by simp, rfl, rfl, rfl, Nat.le_refl _, hc⟩
                · refine ⟨x :: c.takeWhile (isIdent true), c.dropWhile (isIdent true), ?_, ?_, ?_, ?_, ?_, ?_, ?_, ?_⟩
                  · simp only; split <;> simp
                  · simp only; split <;> simp
                  · simp only; split <;> simp
                  · simp [takeWhile_append_stop' _ c ']' r hi]
                  · simp [dropWhile_append_stop' _ c ']' r hi]
                  · simp [List.takeWhile_append_dropWhile]
                  · exact length_dropWhile_le' _ _
                  · exact all_dropWhile _ _ _ hc

theorem consumeComment_spec (C : Codec) : ∀ (n : Nat) (c : List Char), c.length ≤ n →
    c.all (fun y => y != ']') = true → ∀ acc r, consumeComment C (c ++ ']' :: r) acc = some (acc ++ c, r) := by
  intro n
  induction n with
  | zero =>
    intro c hn _ acc r
    have : c = [] := List.length_eq_zero_iff.1 (Nat.le_zero.1 hn)
    subst this
    rw [consumeComment]
    simp [scan, isWhitespace]
  | succ n ih =>
    intro c hn hc acc r
    cases c with
    | nil =>
      rw [consumeComment]
      simp [scan, isWhitespace]
    | cons x c0 =>
      simp only [List.all_cons, Bool.and_eq_true] at hc
      have hx : (x == ']') = false := by
        have := hc.1; simp at this; simp [this]
      obtain ⟨l, c', h1, h2, h3, h4, h5, h6, h7, h8⟩ := scan_true_step C x c0 r hx hc.2
      rw [consumeComment]
      simp only [h1, h2, h3, if_false, dite_false, or_self, dif_neg, not_false_eq_true]
      rw [h4, h5]
      have hlen : c'.length ≤ n := by simp at hn; omega
      rw [ih c' hlen h8 (acc ++ l) r, List.append_assoc, h6]

/- ## unfolding the loop -/

theorem run_cont (C : Codec) (st : PState) (inp : List Char) (st' : PState) (r' : List Char)
    (h : iter C st (scanIW C inp).1 (scanIW C inp).2.1 (skipWs C inp) (scanIW C inp).2.2 = .cont st' r')
    (hne : (scanIW C inp).1 ≠ .eof) : run C st inp = run C st' r' := by
  rw [run]
  split
  · rename_i o ho; rw [h] at ho; cases ho
  · rename_i s2 r2 ho
    rw [h] at ho; cases ho
    simp [hne]

theorem run_stop (C : Codec) (st : PState) (inp : List Char) (o : Outcome (PState × List Char))
    (h : iter C st (scanIW C inp).1 (scanIW C inp).2.1 (skipWs C inp) (scanIW C inp).2.2 = .stop o) :
    run C st inp = o := by
  rw [run]
  split
  · rename_i o' ho; rw [h] at ho; cases ho; rfl
  · rename_i s2 r2 ho
    rw [h] at ho; cases ho

/- ## single steps of the machine on the writer's pieces -/

def childFrame (name : String) (n : Nat) : Frame := ⟨⟨name, []⟩, { EdgeD.blank with id := (n : Int) }, []⟩

theorem run_open_child (C : Codec) (F : Frame) (S : List Frame) (L : Int) (pt : Option Tok) (n : Nat) (dn : Option T) (sb : Bool)
    (rest : List Char) (hL : L ≠ 0) :
    run C ⟨F :: S, L, pt, n, dn, sb⟩ ('(' :: rest) =
      run C ⟨childFrame "" n :: F :: S, L + 1, some .openpar, n + 1, dn, sb⟩ rest := by
  obtain ⟨h1, h2⟩ := scanIW_char C '(' rest .openpar (scan_openpar C rest) (by decide)
  apply run_cont
  · rw [h1, h2]
    simp [iter, PState.nodeNil, PState.pushChild, childFrame, hL]
  · rw [h1]; simp

theorem run_open_root (C : Codec) (pt : Option Tok) (n : Nat) (dn : Option T) (sb : Bool) (rest : List Char) :
    run C ⟨[], 0, pt, n, dn, sb⟩ ('(' :: rest) =
      run C ⟨[⟨⟨"", []⟩, EdgeD.blank, []⟩], 1, some .openpar, n, none, sb⟩ rest := by
  obtain ⟨h1, h2⟩ := scanIW_char C '(' rest .openpar (scan_openpar C rest) (by decide)
  apply run_cont
  · rw [h1, h2]
    simp [iter, PState.nodeNil, PState.pushRoot]
  · rw [h1]; simp

theorem run_comma (C : Codec) (F p : Frame) (S : List Frame) (L : Int) (pt : Option Tok) (n : Nat) (dn : Option T) (sb : Bool)
    (rest : List Char) :
    run C ⟨F :: p :: S, L, pt, n, dn, sb⟩ (',' :: rest) =
      run C ⟨{ p with kids := p.kids ++ [(F.e, F.toT)] } :: S, L, some .newsibling, n, dn, false⟩ rest := by
  obtain ⟨h1, h2⟩ := scanIW_char C ',' rest .newsibling (scan_comma C rest) (by decide)
  apply run_cont
  · rw [h1, h2]
    simp [iter, PState.pop]
  · rw [h1]; simp

theorem run_close (C : Codec) (F p : Frame) (S : List Frame) (L : Int) (pt : Option Tok) (n : Nat) (dn : Option T) (sb : Bool)
    (rest : List Char) :
    run C ⟨F :: p :: S, L, pt, n, dn, sb⟩ (')' :: rest) =
      run C ⟨{ p with kids := p.kids ++ [(F.e, F.toT)] } :: S, L - 1, some .closepar, n, dn, false⟩ rest := by
  obtain ⟨h1, h2⟩ := scanIW_char C ')' rest .closepar (scan_closepar C rest) (by decide)
  apply run_cont
  · rw [h1, h2]
    simp [iter, PState.pop]
  · rw [h1]; simp

theorem run_semi (C : Codec) (S : List Frame) (pt : Option Tok) (n : Nat) (dn : Option T) (rest : List Char) :
    run C ⟨S, 0, pt, n, dn, false⟩ (';' :: rest) = .ok (⟨S, 0, some .eot, n, dn, false⟩, ';' :: rest) := by
  obtain ⟨h1, h2⟩ := scanIW_char C ';' rest .eot (scan_semi C rest) (by decide)
  apply run_stop
  rw [h1, h2]
  simp [iter]

def wordTok (C : Codec) (w : List Char) : Tok := if C.isFloat w then .numeric else .ident

theorem wordTok_cases (C : Codec) (w : List Char) : wordTok C w = .numeric ∨ wordTok C w = .ident := by
  unfold wordTok; split <;> simp

/-- a tip: a word after `(` or `,` -/
theorem run_tip (C : Codec) (F : Frame) (S : List Frame) (L : Int) (pt : Tok) (n : Nat) (dn : Option T) (sb : Bool)
    (c : Char) (w rest : List Char) (hpt : pt = .openpar ∨ pt = .newsibling)
    (hc : isIdent false c = true) (hws : isWhitespace c = false) (hw : w.all (isIdent false) = true)
    (hr : StartsDelim rest) :
    run C ⟨F :: S, L, some pt, n, dn, sb⟩ (c :: w ++ rest) =
      run C ⟨childFrame (String.ofList (c :: w)) n :: F :: S, L, some (wordTok C (c :: w)), n + 1, dn, sb⟩ rest := by
  obtain ⟨h1, h2⟩ := scanIW_word C c w rest hc hws hw hr
  apply run_cont
  · rw [h1, h2]
    rcases hpt with rfl | rfl <;>
    · by_cases hf : C.isFloat (c :: w) = true <;>
        simp [iter, PState.nodeNil, PState.pushChild, childFrame, wordTok, hf]
  · rw [h1]; by_cases hf : C.isFloat (c :: w) = true <;> simp [hf]

/-- a node comment -/
theorem run_comment (C : Codec) (F : Frame) (S : List Frame) (L : Int) (pt : Tok) (n : Nat) (dn : Option T) (sb : Bool)
    (c : String) (rest : List Char)
    (hpt : pt = .closepar ∨ pt = .ident ∨ pt = .numeric ∨ pt = .closebrack)
    (hc : commentOK c = true) :
    run C ⟨F :: S, L, some pt, n, dn, sb⟩ (bracket c ++ rest) =
      run C ⟨{ F with d := { F.d with comments := F.d.comments ++ [c] } } :: S, L, some .closebrack, n, dn, false⟩ rest := by
  have hb : bracket c ++ rest = '[' :: (c.toList ++ ']' :: rest) := by simp [bracket]
  rw [hb]
  obtain ⟨h1, h2⟩ := scanIW_char C '[' (c.toList ++ ']' :: rest) .openbrack (scan_openbrack C _) (by decide)
  have hcc := consumeComment_spec C c.toList.length c.toList (Nat.le_refl _) hc [] rest
  apply run_cont
  · rw [h1, h2]
    simp only [iter, hcc]
    rcases hpt with rfl | rfl | rfl | rfl <;>
      simp [PState.nodeNil, PState.edgeNil, PState.addNodeComment, PState.modTop, String.ofList_toList]
  · rw [h1]; simp

/-- the branch comment: directly after the length -/
theorem run_ecomment (C : Codec) (F p : Frame) (S : List Frame) (L : Int) (n : Nat) (dn : Option T) (sb : Bool)
    (c : String) (rest : List Char) (hc : commentOK c = true) :
    run C ⟨F :: p :: S, L, some .startlen, n, dn, sb⟩ (bracket c ++ rest) =
      run C ⟨{ F with e := { F.e with comments := F.e.comments ++ [c] } } :: p :: S, L, some .closebrack, n, dn, false⟩ rest := by
  have hb : bracket c ++ rest = '[' :: (c.toList ++ ']' :: rest) := by simp [bracket]
  rw [hb]
  obtain ⟨h1, h2⟩ := scanIW_char C '[' (c.toList ++ ']' :: rest) .openbrack (scan_openbrack C _) (by decide)
  have hcc := consumeComment_spec C c.toList.length c.toList (Nat.le_refl _) hc [] rest
  apply run_cont
  · rw [h1, h2]
    simp [iter, hcc, PState.edgeNil, PState.addEdgeComment, PState.modTop, String.ofList_toList]
  · rw [h1]; simp

/- ## numbers -/

theorem all_imp {α} (p q : α → Bool) (l : List α) (h : l.all p = true) (hpq : ∀ x, p x = true → q x = true) :
    l.all q = true := by
  induction l with
  | nil => simp
  | cons x l ih =>
    simp only [List.all_cons, Bool.and_eq_true] at h ⊢
    exact ⟨hpq x h.1, ih h.2⟩

theorem fmt_word (C : FloatCodec) (v : Rat) (hv : C.dom v = true) :
    ∃ c w, C.fmt v = c :: w ∧ isIdent false c = true ∧ isWhitespace c = false ∧ w.all (isIdent false) = true ∧
      (c :: w).all (fun y => y != '/') = true := by
  obtain ⟨hne, hcl⟩ := C.fmt_clean v hv
  cases hf : C.fmt v with
  | nil => exact absurd hf hne
  | cons c w =>
    rw [hf] at hcl
    have hcl' := hcl
    simp only [List.all_cons, Bool.and_eq_true] at hcl
    refine ⟨c, w, rfl, numClean_ident c hcl.1, numClean_notWs c hcl.1, all_imp _ _ w hcl.2 numClean_ident, ?_⟩
    exact all_imp _ _ (c :: w) hcl' (fun x hx => by have := numClean_notSlash x hx; simp at this; simp [this])

/-- `:length` -/
theorem run_len (C : FloatCodec) (F p : Frame) (S : List Frame) (L : Int) (pt : Option Tok) (n : Nat) (dn : Option T) (sb : Bool)
    (v : Rat) (rest : List Char) (hL : L ≠ 0) (hF : F.e.len = NIL) (hv : C.dom v = true) (hr : StartsDelim rest) :
    run C.toCodec ⟨F :: p :: S, L, pt, n, dn, sb⟩ (':' :: (C.fmt v ++ rest)) =
      run C.toCodec ⟨{ F with e := { F.e with len := v } } :: p :: S, L, some .startlen, n, dn, false⟩ rest := by
  obtain ⟨c, w, hf, hc, hws, hw, _⟩ := fmt_word C v hv
  obtain ⟨h1, h2⟩ := scanIW_char C.toCodec ':' (C.fmt v ++ rest) .startlen (scan_colon _ _) (by decide)
  have hw2 := scanIW_word C.toCodec c w rest hc hws hw hr
  have hfl : C.isFloat (c :: w) = true := by rw [← hf]; exact C.fmt_isFloat v hv
  have hpa : C.parse (c :: w) = some v := by rw [← hf]; exact C.parse_fmt v hv
  apply run_cont
  · rw [h1, h2]
    simp only [iter]
    rw [hf, hw2.1]
    simp [hfl, PState.nodeNil, PState.edgeNil, PState.topLen, hF, hL, hpa, PState.setLen, PState.modTop]
  · rw [h1]; simp

/-- a support after `)` -/
theorem run_sup (C : FloatCodec) (F p : Frame) (S : List Frame) (L : Int) (n : Nat) (dn : Option T) (sb : Bool)
    (v : Rat) (rest : List Char) (hL : L ≠ 0) (hv : C.dom v = true) (hr : StartsDelim rest) :
    run C.toCodec ⟨F :: p :: S, L, some .closepar, n, dn, sb⟩ (C.fmt v ++ rest) =
      run C.toCodec ⟨{ F with e := { F.e with sup := v } } :: p :: S, L, some .closepar, n, dn, false⟩ rest := by
  obtain ⟨c, w, hf, hc, hws, hw, _⟩ := fmt_word C v hv
  have hw2 := scanIW_word C.toCodec c w rest hc hws hw hr
  have hfl : C.isFloat (c :: w) = true := by rw [← hf]; exact C.fmt_isFloat v hv
  have hpa : C.parse (c :: w) = some v := by rw [← hf]; exact C.parse_fmt v hv
  rw [hf]
  apply run_cont
  · rw [hw2.1, hw2.2]
    simp [iter, hfl, PState.edgeNil, hL, hpa, PState.setSup, PState.modTop]
  · rw [hw2.1]; simp [hfl]

/- ## labels -/

theorem splitSlash_ne_nil (l : List Char) : splitSlash l ≠ [] := by
  cases l with
  | nil => simp [splitSlash]
  | cons c r =>
    simp only [splitSlash]
    split
    · simp
    · split <;> simp

theorem splitSlash_noslash (l : List Char) (h : l.all (fun y => y != '/') = true) : splitSlash l = [l] := by
  induction l with
  | nil => simp [splitSlash]
  | cons c r ih =>
    simp only [List.all_cons, Bool.and_eq_true] at h
    have hc : (c == '/') = false := by have := h.1; simp at this; simp [this]
    simp [splitSlash, ih h.2, hc]

theorem splitSlash_two (a b : List Char) (ha : a.all (fun y => y != '/') = true) (hb : b.all (fun y => y != '/') = true) :
    splitSlash (a ++ '/' :: b) = [a, b] := by
  induction a with
  | nil => simp [splitSlash, splitSlash_noslash b hb]
  | cons c r ih =>
    simp only [List.all_cons, Bool.and_eq_true] at ha
    have hc : (c == '/') = false := by have := ha.1; simp at this; simp [this]
    simp [splitSlash, ih ha.2, hc]

/-- `support/p-value` after `)` -/
theorem run_sup_pval (C : FloatCodec) (F p : Frame) (S : List Frame) (L : Int) (n : Nat) (dn : Option T) (sb : Bool)
    (v q : Rat) (rest : List Char) (hv : C.dom v = true) (hq : C.dom q = true) (hr : StartsDelim rest) :
    run C.toCodec ⟨F :: p :: S, L, some .closepar, n, dn, sb⟩ (C.fmt v ++ '/' :: C.fmt q ++ rest) =
      run C.toCodec ⟨{ F with e := { F.e with sup := v, pval := q } } :: p :: S, L, some .closepar, n, dn, false⟩ rest := by
  obtain ⟨c, w, hf, hc, hws, hw, hns⟩ := fmt_word C v hv
  obtain ⟨c2, w2, hf2, hc2, _, hw2, hns2⟩ := fmt_word C q hq
  have hword : C.fmt v ++ '/' :: C.fmt q = c :: (w ++ '/' :: C.fmt q) := by rw [hf]; rfl
  have hall : (w ++ '/' :: C.fmt q).all (isIdent false) = true := by
    rw [hf2]
    simp only [List.all_append, List.all_cons, Bool.and_eq_true]
    exact ⟨hw, by decide, hc2, hw2⟩
  have hsc := scanIW_word C.toCodec c (w ++ '/' :: C.fmt q) rest hc hws hall hr
  have hnf : C.isFloat (c :: (w ++ '/' :: C.fmt q)) = false := by
    cases hx : C.isFloat (c :: (w ++ '/' :: C.fmt q)) with
    | false => rfl
    | true =>
      have := C.isFloat_noSlash _ hx
      simp at this
  have hsp : splitSlash (c :: (w ++ '/' :: C.fmt q)) = [C.fmt v, C.fmt q] := by
    have := splitSlash_two (c :: w) (C.fmt q) hns (by rw [hf2]; exact hns2)
    rw [hf]; exact this
  rw [hword]
  apply run_cont
  · rw [hsc.1, hsc.2]
    simp [iter, hnf, hsp, PState.edgeNil, C.fmt_isFloat v hv, C.fmt_isFloat q hq, C.parse_fmt v hv, C.parse_fmt q hq,
      PState.setSup, PState.setPval, PState.modTop]
  · rw [hsc.1]; simp [hnf]

/-- the name of an inner node, after `)` -/
theorem run_name_inner (C : Codec) (F p : Frame) (S : List Frame) (L : Int) (n : Nat) (dn : Option T) (sb : Bool)
    (c : Char) (w rest : List Char)
    (hc : isIdent false c = true) (hws : isWhitespace c = false) (hw : w.all (isIdent false) = true)
    (hnn : notNumeric C.isFloat (c :: w) = true) (hr : StartsDelim rest) :
    ∃ sb', run C ⟨F :: p :: S, L, some .closepar, n, dn, sb⟩ (c :: w ++ rest) =
      run C ⟨{ F with d := { F.d with name := String.ofList (c :: w) } } :: p :: S, L, some .closepar, n, dn, sb'⟩ rest := by
  obtain ⟨h1, h2⟩ := scanIW_word C c w rest hc hws hw hr
  simp only [notNumeric, Bool.and_eq_true, Bool.not_eq_true'] at hnn
  obtain ⟨hnf, hsl⟩ := hnn
  have hne : (scanIW C (c :: w ++ rest)).1 ≠ .eof := by rw [h1]; simp [hnf]
  -- the three ways the label branch can set the name
  cases hs : splitSlash (c :: w) with
  | nil => exact absurd hs (splitSlash_ne_nil _)
  | cons a t1 =>
    cases t1 with
    | nil =>
      refine ⟨sb, run_cont C _ _ _ _ ?_ hne⟩
      rw [h1, h2]
      simp [iter, hnf, hs, PState.nodeNil, PState.setName, PState.modTop]
    | cons b t2 =>
      cases t2 with
      | cons x t3 =>
        refine ⟨sb, run_cont C _ _ _ _ ?_ hne⟩
        rw [h1, h2]
        simp [iter, hnf, hs, PState.nodeNil, PState.setName, PState.modTop]
      | nil =>
        rw [hs] at hsl
        simp only [Bool.not_eq_true', Bool.and_eq_false_iff] at hsl
        by_cases ha : C.isFloat a = true
        · have hb : C.isFloat b = false := by
            rcases hsl with h | h
            · rw [ha] at h; cases h
            · exact h
          refine ⟨true, run_cont C _ _ _ _ ?_ hne⟩
          rw [h1, h2]
          simp [iter, hnf, hs, PState.nodeNil, PState.edgeNil, PState.setName, PState.modTop, ha, hb]
        · have ha' : C.isFloat a = false := by simpa using ha
          refine ⟨true, run_cont C _ _ _ _ ?_ hne⟩
          rw [h1, h2]
          simp [iter, hnf, hs, PState.nodeNil, PState.edgeNil, PState.setName, PState.modTop, ha']

/-- the name of the root, after the last `)` -/
theorem run_name_root (C : Codec) (F : Frame) (L : Int) (n : Nat) (dn : Option T) (sb : Bool)
    (c : Char) (w rest : List Char)
    (hc : isIdent false c = true) (hws : isWhitespace c = false) (hw : w.all (isIdent false) = true)
    (hnf : C.isFloat (c :: w) = false) (hr : StartsDelim rest) :
    run C ⟨[F], L, some .closepar, n, dn, sb⟩ (c :: w ++ rest) =
      run C ⟨[{ F with d := { F.d with name := String.ofList (c :: w) } }], L, some .closepar, n, dn, sb⟩ rest := by
  obtain ⟨h1, h2⟩ := scanIW_word C c w rest hc hws hw hr
  have hne : (scanIW C (c :: w ++ rest)).1 ≠ .eof := by rw [h1]; simp [hnf]
  apply run_cont _ _ _ _ _ _ hne
  rw [h1, h2]
  cases hs : splitSlash (c :: w) with
  | nil => exact absurd hs (splitSlash_ne_nil _)
  | cons a t1 =>
    cases t1 with
    | nil => simp [iter, hnf, hs, PState.nodeNil, PState.setName, PState.modTop]
    | cons b t2 =>
      cases t2 with
      | cons x t3 => simp [iter, hnf, hs, PState.nodeNil, PState.setName, PState.modTop]
      | nil => simp [iter, hnf, hs, PState.nodeNil, PState.edgeNil, PState.setName, PState.modTop]

/- ## sequences of steps -/

def OkPt (pt : Tok) : Prop := pt = .closepar ∨ pt = .ident ∨ pt = .numeric ∨ pt = .closebrack

theorem startsDelim_cons (d : Char) (r : List Char) (h : isIdent false d = false) : StartsDelim (d :: r) := ⟨d, r, rfl, h⟩

theorem startsDelim_comments (cs : List String) (r : List Char) (h : StartsDelim r) : StartsDelim (writeComments cs ++ r) := by
  cases cs with
  | nil => simpa [writeComments] using h
  | cons c cs => exact ⟨'[', c.toList ++ ']' :: ((List.map bracket cs).flatten ++ r), by simp [writeComments, bracket], by decide⟩

/-- all the node comments -/
theorem run_comments (C : Codec) : ∀ (cs : List String) (F : Frame) (S : List Frame) (L : Int) (pt : Tok) (n : Nat)
    (dn : Option T) (sb : Bool) (rest : List Char), OkPt pt → cs.all commentOK = true →
    ∃ pt', OkPt pt' ∧ run C ⟨F :: S, L, some pt, n, dn, sb⟩ (writeComments cs ++ rest) =
      run C ⟨{ F with d := { F.d with comments := F.d.comments ++ cs } } :: S, L, some pt', n, dn, sb && cs.isEmpty⟩ rest := by
  intro cs
  induction cs with
  | nil =>
    intro F S L pt n dn sb rest hpt _
    exact ⟨pt, hpt, by simp [writeComments]⟩
  | cons c cs ih =>
    intro F S L pt n dn sb rest hpt hc
    simp only [List.all_cons, Bool.and_eq_true] at hc
    obtain ⟨pt', hpt', h⟩ := ih { F with d := { F.d with comments := F.d.comments ++ [c] } } S L .closebrack n dn false rest
      (Or.inr (Or.inr (Or.inr rfl))) hc.2
    refine ⟨pt', hpt', ?_⟩
    have hw : writeComments (c :: cs) ++ rest = bracket c ++ (writeComments cs ++ rest) := by
      simp [writeComments]
    rw [hw, run_comment C F S L pt n dn sb c _ hpt hc.1, h]
    simp

/-- what follows the label of a node: node comments, `:length`, branch comment -/
theorem run_decor_tail (C : FloatCodec) (F p : Frame) (S : List Frame) (L : Int) (pt : Tok) (n : Nat) (dn : Option T) (sb : Bool)
    (cs : List String) (lv : Rat) (ecs : List String) (rest : List Char)
    (hL : L ≠ 0) (hpt : OkPt pt) (hF : F.e.len = NIL) (hFc : F.e.comments = [])
    (hcs : cs.all commentOK = true) (hlv : valOK C.dom lv = true)
    (hecs : ecs.all commentOK = true) (hen : (ecs.length == 0 || (ecs.length == 1 && lv != NIL)) = true)
    (hr : StartsDelim rest) :
    ∃ pt' sb', run C.toCodec ⟨F :: p :: S, L, some pt, n, dn, sb⟩
        (writeComments cs ++ (if lv != NIL then ':' :: C.fmt lv else []) ++ writeComments ecs ++ rest) =
      run C.toCodec ⟨{ F with d := { F.d with comments := F.d.comments ++ cs }, e := { F.e with len := lv, comments := ecs } } :: p :: S,
        L, some pt', n, dn, sb'⟩ rest := by
  have hr2 : StartsDelim (writeComments ecs ++ rest) := startsDelim_comments ecs rest hr
  obtain ⟨pt1, hpt1, h1⟩ := run_comments C.toCodec cs F (p :: S) L pt n dn sb
    ((if lv != NIL then ':' :: C.fmt lv else []) ++ writeComments ecs ++ rest) hpt hcs
  simp only [List.append_assoc] at h1 ⊢
  rw [h1]
  by_cases hl : lv = NIL
  · -- no length, hence no branch comment
    have he : ecs = [] := by
      cases ecs with
      | nil => rfl
      | cons x xs => simp [hl] at hen
    subst he
    refine ⟨pt1, sb && cs.isEmpty, ?_⟩
    simp [hl, writeComments]
    rw [← hF, ← hFc]
  · have hl' : (lv != NIL) = true := by simp [hl]
    have hdom : C.dom lv = true := by
      simp only [valOK, Bool.or_eq_true] at hlv
      rcases hlv with h | h
      · simp at h; exact absurd h hl
      · exact h
    simp only [hl', if_true, List.cons_append]
    rw [run_len C _ p S L (some pt1) n dn _ lv (writeComments ecs ++ rest) hL (by simpa using hF) hdom hr2]
    cases ecs with
    | nil =>
      refine ⟨.startlen, false, ?_⟩
      simp [writeComments, hFc]
    | cons x xs =>
      have hx : xs = [] := by
        cases xs with
        | nil => rfl
        | cons y ys => simp at hen
      subst hx
      simp only [List.all_cons, Bool.and_eq_true] at hecs
      refine ⟨.closebrack, false, ?_⟩
      have hw : writeComments [x] ++ rest = bracket x ++ rest := by simp [writeComments]
      rw [hw, run_ecomment C.toCodec _ p S L n dn false x rest hecs.1]
      simp [hFc]

/- ## names -/

theorem isSpaceGo_of_ws (c : Char) (h : isWhitespace c = true) : isSpaceGo c = true := by
  simp only [isWhitespace, Bool.or_eq_true, beq_iff_eq] at h
  rcases h with ((h | h) | h) | h <;> subst h <;> decide

theorem trim_first (s : String) (c : Char) (w : List Char) (hs : s.toList = c :: w) (ht : trimSpace s = s) :
    isWhitespace c = false := by
  cases hw : isWhitespace c with
  | false => rfl
  | true =>
    have hsp := isSpaceGo_of_ws c hw
    have hlen : (trimSpace s).toList.length < s.toList.length := by
      simp only [trimSpace, String.toList_ofList, List.length_reverse, hs, List.dropWhile, hsp]
      have h1 := length_dropWhile_le' isSpaceGo (List.dropWhile isSpaceGo w).reverse
      have h2 := length_dropWhile_le' isSpaceGo w
      simp only [List.length_reverse, List.length_cons] at h1 ⊢
      omega
    rw [ht] at hlen
    exact absurd hlen (Nat.lt_irrefl _)

theorem noMeta_ident (l : List Char) (h : noMeta l = true) : l.all (isIdent false) = true := by
  unfold noMeta at h
  exact all_imp _ _ l h (fun x hx => isIdent_of_notMeta x (by simpa using hx))

/- ## a whole child, and the list of children -/

/-- frame of a finished child: its data, the branch with its creation number, its normalised children -/
def doneFrame (e : EdgeD) (t : T) (n : Nat) : Frame :=
  ⟨(normFrom (n + 1) t).1.d, { e with id := (n : Int) }, (normFrom (n + 1) t).1.kids⟩

theorem doneFrame_toT (e : EdgeD) (t : T) (n : Nat) : (doneFrame e t n).toT = (normFrom (n + 1) t).1 := by
  cases t with
  | node d pp k => simp [doneFrame, Frame.toT, normFrom]

theorem doneFrame_e (e : EdgeD) (t : T) (n : Nat) : (doneFrame e t n).e = { e with id := (n : Int) } := rfl

/-- The invariant of Appendix F for one child: from a state whose top frame is the parent, after
    `(` or `,`, the text of the child leaves the finished child on top of the parent. -/
def KidOK (C : FloatCodec) (e : EdgeD) (t : T) : Prop :=
  ∀ (p : Frame) (S : List Frame) (L : Int) (pt : Tok) (n : Nat) (dn : Option T) (sb : Bool) (rest : List Char),
    0 < L → (pt = .openpar ∨ pt = .newsibling) → StartsDelim rest →
    ∃ pt' sb', run C.toCodec ⟨p :: S, L, some pt, n, dn, sb⟩
        (writeNode C.toCodec true t ++ writeDecor C.toCodec e t.d ++ rest) =
      run C.toCodec ⟨doneFrame e t n :: p :: S, L, some pt', (normFrom (n + 1) t).2, dn, sb'⟩ rest

theorem startsDelim_kids (C : Codec) (ks : Kids) (rest : List Char) : StartsDelim (writeKids C false ks ++ ')' :: rest) := by
  cases ks with
  | nil => exact ⟨')', rest, by simp [writeKids], by decide⟩
  | cons k ks =>
    obtain ⟨e, t⟩ := k
    exact ⟨',', writeNode C true t ++ (writeDecor C e t.d ++ (writeKids C false ks ++ ')' :: rest)), by simp [writeKids], by decide⟩

/-- the remaining children and the closing parenthesis, starting with the previous child still on the stack -/
theorem kids_tail (C : FloatCodec) : ∀ (ks : Kids), (∀ et ∈ ks, KidOK C et.1 et.2) →
    ∀ (G F : Frame) (S : List Frame) (L : Int) (pt : Option Tok) (n : Nat) (dn : Option T) (sb : Bool) (rest : List Char), 0 < L →
    run C.toCodec ⟨G :: F :: S, L, pt, n, dn, sb⟩ (writeKids C.toCodec false ks ++ ')' :: rest) =
      run C.toCodec ⟨{ F with kids := F.kids ++ (G.e, G.toT) :: (normFromL n ks).1 } :: S, L - 1, some .closepar,
        (normFromL n ks).2, dn, false⟩ rest := by
  intro ks
  induction ks with
  | nil =>
    intro _ G F S L pt n dn sb rest _
    simp only [writeKids, List.nil_append, normFromL]
    exact run_close C.toCodec G F S L pt n dn sb rest
  | cons k ks ih =>
    intro hk G F S L pt n dn sb rest hL
    obtain ⟨e, t⟩ := k
    have hkid : KidOK C e t := hk (e, t) (List.mem_cons_self ..)
    have hks : ∀ et ∈ ks, KidOK C et.1 et.2 := fun et h => hk et (List.mem_cons_of_mem _ h)
    have htxt : writeKids C.toCodec false ((e, t) :: ks) ++ ')' :: rest =
        ',' :: (writeNode C.toCodec true t ++ writeDecor C.toCodec e t.d ++ (writeKids C.toCodec false ks ++ ')' :: rest)) := by
      simp [writeKids]
    rw [htxt, run_comma]
    obtain ⟨pt', sb', h⟩ := hkid { F with kids := F.kids ++ [(G.e, G.toT)] } S L .newsibling n dn false
      (writeKids C.toCodec false ks ++ ')' :: rest) hL (Or.inr rfl) (startsDelim_kids _ ks rest)
    rw [h, ih hks _ _ S L (some pt') _ dn sb' rest hL]
    simp [normFromL, doneFrame_toT, doneFrame_e]

/-- all the children of a node and its closing parenthesis -/
theorem kids_all (C : FloatCodec) (k : EdgeD × T) (ks : Kids) (hk : ∀ et ∈ k :: ks, KidOK C et.1 et.2)
    (F : Frame) (S : List Frame) (L : Int) (n : Nat) (dn : Option T) (sb : Bool) (rest : List Char) (hL : 0 < L) :
    run C.toCodec ⟨F :: S, L, some .openpar, n, dn, sb⟩ (writeKids C.toCodec true (k :: ks) ++ ')' :: rest) =
      run C.toCodec ⟨{ F with kids := F.kids ++ (normFromL n (k :: ks)).1 } :: S, L - 1, some .closepar,
        (normFromL n (k :: ks)).2, dn, false⟩ rest := by
  obtain ⟨e, t⟩ := k
  have hkid : KidOK C e t := hk (e, t) (List.mem_cons_self ..)
  have hks : ∀ et ∈ ks, KidOK C et.1 et.2 := fun et h => hk et (List.mem_cons_of_mem _ h)
  have htxt : writeKids C.toCodec true ((e, t) :: ks) ++ ')' :: rest =
      writeNode C.toCodec true t ++ writeDecor C.toCodec e t.d ++ (writeKids C.toCodec false ks ++ ')' :: rest) := by
    simp [writeKids]
  obtain ⟨pt', sb', h⟩ := hkid F S L .openpar n dn sb (writeKids C.toCodec false ks ++ ')' :: rest) hL (Or.inl rfl)
    (startsDelim_kids _ ks rest)
  rw [htxt, h, kids_tail C ks hks _ F S L (some pt') _ dn sb' rest hL]
  simp [normFromL, doneFrame_toT, doneFrame_e]

theorem wfKids_mem (isF : List Char → Bool) (dom : Rat → Bool) : ∀ (ks : Kids), wfKids isF dom ks = true →
    ∀ et ∈ ks, wfNode isF dom et.1 et.2 = true := by
  intro ks
  induction ks with
  | nil => intro _ et h; cases h
  | cons k ks ih =>
    intro h et hm
    obtain ⟨e, t⟩ := k
    simp only [wfKids, Bool.and_eq_true] at h
    cases hm with
    | head => exact h.1
    | tail _ hm' => exact ih h.2 et hm'

theorem edge_eta (e : EdgeD) (n : Int) (l s p : Rat) (cs : List String) (hl : e.len = l) (hs : e.sup = s) (hp : e.pval = p)
    (hc : e.comments = cs) : ({ len := l, sup := s, pval := p, comments := cs, id := n } : EdgeD) = { e with id := n } := by
  cases e; simp_all

/-- a tip -/
theorem kid_tip (C : FloatCodec) (e : EdgeD) (d : NodeD) (pp : Nat) (h : wfNode C.isFloat C.dom e (.node d pp []) = true) :
    KidOK C e (.node d pp []) := by
  intro p S L pt n dn sb rest hL hpt hr
  simp only [wfNode, Bool.and_eq_true] at h
  obtain ⟨⟨hname, hcs⟩, hedge⟩ := h
  simp only [tipNameOK, Bool.and_eq_true, Bool.not_eq_true', beq_iff_eq] at hname
  obtain ⟨⟨hne, hnm⟩, htrim⟩ := hname
  simp only [tipEdgeOK, Bool.and_eq_true, beq_iff_eq] at hedge
  obtain ⟨⟨⟨⟨hsup, hpv⟩, hlv⟩, hecs⟩, hen⟩ := hedge
  cases hl : d.name.toList with
  | nil => simp [hl] at hne
  | cons c w =>
    have hnm' : noMeta (c :: w) = true := by rw [← hl]; exact hnm
    have hall := noMeta_ident _ hnm'
    simp only [List.all_cons, Bool.and_eq_true] at hall
    have hws := trim_first d.name c w hl htrim
    have hnode : writeNode C.toCodec true (.node d pp []) = c :: w := by simp [writeNode, writeKids, hl]
    have hdec : writeDecor C.toCodec e d =
        writeComments d.comments ++ (if e.len != NIL then ':' :: C.fmt e.len else []) ++ writeComments e.comments := by
      simp [writeDecor, hsup]
    have hr1 : StartsDelim (writeComments d.comments ++ (if e.len != NIL then ':' :: C.fmt e.len else []) ++
        writeComments e.comments ++ rest) := by
      simp only [List.append_assoc]
      apply startsDelim_comments
      split
      · exact ⟨':', _, rfl, by decide⟩
      · exact startsDelim_comments _ _ hr
    have hOk : OkPt (wordTok C.toCodec (c :: w)) := by
      rcases wordTok_cases C.toCodec (c :: w) with h | h <;> rw [h]
      · exact Or.inr (Or.inr (Or.inl rfl))
      · exact Or.inr (Or.inl rfl)
    obtain ⟨pt', sb', h2⟩ := run_decor_tail C (childFrame (String.ofList (c :: w)) n) p S L (wordTok C.toCodec (c :: w)) (n + 1) dn sb
      d.comments e.len e.comments rest (Int.ne_of_gt hL) hOk rfl rfl hcs hlv hecs hen hr
    refine ⟨pt', sb', ?_⟩
    simp only [T.d_node, hnode, hdec]
    rw [List.append_assoc, run_tip C.toCodec p S L pt n dn sb c w _ hpt hall.1 hws hall.2 (by simpa [List.append_assoc] using hr1)]
    rw [h2]
    have hnm2 : String.ofList (c :: w) = d.name := by rw [← hl]; exact String.ofList_toList
    have hd : ({ name := String.ofList (c :: w), comments := [] ++ d.comments } : NodeD) = d := by
      cases d; simp_all
    simp only [doneFrame, normFrom, normFromL, childFrame, EdgeD.blank, T.d_node, T.kids_node, List.nil_append]
    rw [edge_eta e n e.len NIL NIL e.comments rfl hsup hpv rfl]
    simp only [List.nil_append] at hd
    rw [hnm2]

theorem valOK_dom (dom : Rat → Bool) (v : Rat) (h : valOK dom v = true) (hv : v ≠ NIL) : dom v = true := by
  simp only [valOK, Bool.or_eq_true, beq_iff_eq] at h
  rcases h with h | h
  · exact absurd h hv
  · exact h

theorem toList_nil_eq (s : String) (h : s.toList = []) : s = "" := by
  have := String.ofList_toList (s := s)
  rw [h] at this
  exact this.symm

/-- the label of an inner node: its name, or its support, or support/p-value, or nothing -/
theorem run_label (C : FloatCodec) (F p : Frame) (S : List Frame) (L : Int) (n : Nat) (dn : Option T) (sb : Bool)
    (name : String) (e : EdgeD) (rest : List Char)
    (hin : innerNameOK C.isFloat name = true) (hs : valOK C.dom e.sup = true) (hp : valOK C.dom e.pval = true)
    (hxor : (name == "" || (e.sup == NIL && e.pval == NIL)) = true) (hps : (e.pval == NIL || e.sup != NIL) = true)
    (hFn : F.d.name = "") (hFs : F.e.sup = NIL) (hFp : F.e.pval = NIL) (hL : L ≠ 0) (hr : StartsDelim rest) :
    ∃ sb', run C.toCodec ⟨F :: p :: S, L, some .closepar, n, dn, sb⟩
        (name.toList ++ (if e.sup != NIL && name == "" then C.fmt e.sup ++ (if e.pval != NIL then '/' :: C.fmt e.pval else []) else []) ++ rest) =
      run C.toCodec ⟨{ F with d := { F.d with name := name }, e := { F.e with sup := e.sup, pval := e.pval } } :: p :: S,
        L, some .closepar, n, dn, sb'⟩ rest := by
  simp only [innerNameOK, Bool.and_eq_true] at hin
  obtain ⟨⟨hnm, hfirst⟩, hnum⟩ := hin
  cases hl : name.toList with
  | cons c w =>
    -- a name: no support, no p-value
    have hne : (name == "") = false := by
      cases hx : (name == "") with
      | false => rfl
      | true => simp at hx; rw [hx] at hl; simp at hl
    simp only [hne, Bool.false_or, Bool.and_eq_true, beq_iff_eq] at hxor
    rw [hl] at hnm hfirst hnum
    have hall := noMeta_ident _ hnm
    simp only [List.all_cons, Bool.and_eq_true] at hall
    have hws : isWhitespace c = false := by simpa using hfirst
    have hnn : notNumeric C.isFloat (c :: w) = true := by simpa using hnum
    obtain ⟨sb', h⟩ := run_name_inner C.toCodec F p S L n dn sb c w rest hall.1 hws hall.2 hnn hr
    refine ⟨sb', ?_⟩
    simp only [hne, Bool.and_false, Bool.false_eq_true, if_false, List.append_nil]
    rw [h]
    have hnm2 : String.ofList (c :: w) = name := by rw [← hl]; exact String.ofList_toList
    have e1 : e.sup = F.e.sup := by rw [hxor.1, hFs]
    have e2 : e.pval = F.e.pval := by rw [hxor.2, hFp]
    rw [hnm2, e1, e2]
  | nil =>
    have hname : name = "" := toList_nil_eq name hl
    subst hname
    simp only [List.nil_append, beq_self_eq_true, Bool.and_true]
    have hFd : ({ F.d with name := "" } : NodeD) = F.d := by rw [← hFn]
    by_cases hsn : e.sup = NIL
    · -- nothing at all
      have hpn : e.pval = NIL := by
        simp only [Bool.or_eq_true, beq_iff_eq, bne_iff_ne, ne_eq] at hps
        rcases hps with h | h
        · exact h
        · exact absurd hsn h
      refine ⟨sb, ?_⟩
      have e1 : e.sup = F.e.sup := by rw [hsn, hFs]
      have e2 : e.pval = F.e.pval := by rw [hpn, hFp]
      simp only [hsn, bne_self_eq_false, Bool.false_eq_true, if_false, List.nil_append, hFd]
      rw [← hsn, e1, e2]
    · have hs' : (e.sup != NIL) = true := by simp [hsn]
      have hds := valOK_dom _ _ hs hsn
      by_cases hpn : e.pval = NIL
      · refine ⟨false, ?_⟩
        simp only [hs', if_true, hpn, bne_self_eq_false, Bool.false_eq_true, if_false, List.append_nil, hFd]
        have e2 : NIL = F.e.pval := by rw [hFp]
        rw [run_sup C F p S L n dn sb e.sup rest hL hds hr, e2]
      · have hp' : (e.pval != NIL) = true := by simp [hpn]
        have hdp := valOK_dom _ _ hp hpn
        refine ⟨false, ?_⟩
        simp only [hs', if_true, hp', hFd]
        rw [run_sup_pval C F p S L n dn sb e.sup e.pval rest hds hdp hr]

/-- an inner node -/
theorem kid_inner (C : FloatCodec) (e : EdgeD) (d : NodeD) (pp : Nat) (k : EdgeD × T) (ks : Kids)
    (h : wfNode C.isFloat C.dom e (.node d pp (k :: ks)) = true) (ih : ∀ et ∈ k :: ks, KidOK C et.1 et.2) :
    KidOK C e (.node d pp (k :: ks)) := by
  intro p S L pt n dn sb rest hL hpt hr
  simp only [wfNode, Bool.and_eq_true] at h
  obtain ⟨⟨⟨hin, hcs⟩, hedge⟩, _⟩ := h
  simp only [innerEdgeOK, Bool.and_eq_true] at hedge
  obtain ⟨⟨⟨⟨⟨⟨hlv, hsv⟩, hpv⟩, hxor⟩, hps⟩, hecs⟩, hen⟩ := hedge
  have hLne : L ≠ 0 := Int.ne_of_gt hL
  have hnode : writeNode C.toCodec true (.node d pp (k :: ks)) =
      '(' :: (writeKids C.toCodec true (k :: ks) ++ ')' :: d.name.toList) := by
    simp [writeNode]
  have hdec : writeDecor C.toCodec e d =
      (if e.sup != NIL && d.name == "" then C.fmt e.sup ++ (if e.pval != NIL then '/' :: C.fmt e.pval else []) else []) ++
      (writeComments d.comments ++ (if e.len != NIL then ':' :: C.fmt e.len else []) ++ writeComments e.comments) := by
    simp [writeDecor]
  have hr1 : StartsDelim (writeComments d.comments ++ (if e.len != NIL then ':' :: C.fmt e.len else []) ++
      writeComments e.comments ++ rest) := by
    simp only [List.append_assoc]
    apply startsDelim_comments
    split
    · exact ⟨':', _, rfl, by decide⟩
    · exact startsDelim_comments _ _ hr
  -- "(" , the children, ")"
  have htxt : writeNode C.toCodec true (.node d pp (k :: ks)) ++ writeDecor C.toCodec e (T.node d pp (k :: ks)).d ++ rest =
      '(' :: (writeKids C.toCodec true (k :: ks) ++ ')' ::
        (d.name.toList ++ (if e.sup != NIL && d.name == "" then C.fmt e.sup ++ (if e.pval != NIL then '/' :: C.fmt e.pval else []) else []) ++
          (writeComments d.comments ++ (if e.len != NIL then ':' :: C.fmt e.len else []) ++ writeComments e.comments ++ rest))) := by
    rw [hnode, T.d_node, hdec]
    simp only [List.cons_append, List.append_assoc]
  rw [htxt, run_open_child C.toCodec p S L (some pt) n dn sb _ hLne,
    kids_all C k ks ih (childFrame "" n) (p :: S) (L + 1) (n + 1) dn sb _ (by omega)]
  have hL1 : L + 1 - 1 = L := by omega
  rw [hL1]
  -- the label
  let F1 : Frame := { childFrame "" n with kids := (childFrame "" n).kids ++ (normFromL (n + 1) (k :: ks)).1 }
  obtain ⟨sb1, h1⟩ := run_label C F1 p S L
    (normFromL (n + 1) (k :: ks)).2 dn false d.name e _ hin hsv hpv hxor hps rfl rfl rfl hLne hr1
  rw [h1]
  -- comments, length, branch comment
  let F2 : Frame := { F1 with d := { F1.d with name := d.name }, e := { F1.e with sup := e.sup, pval := e.pval } }
  obtain ⟨pt2, sb2, h2⟩ := run_decor_tail C F2 p S L .closepar (normFromL (n + 1) (k :: ks)).2 dn sb1
    d.comments e.len e.comments rest hLne (Or.inl rfl) rfl rfl hcs hlv hecs hen hr
  rw [h2]
  refine ⟨pt2, sb2, ?_⟩
  simp only [F2, F1, doneFrame, normFrom, childFrame, EdgeD.blank, T.d_node, T.kids_node, List.nil_append]

/-- Appendix F, the invariant, for every well-formed child -/
theorem kid_ok (C : FloatCodec) : ∀ (t : T) (e : EdgeD), wfNode C.isFloat C.dom e t = true → KidOK C e t := by
  intro t
  induction t using T.induct with
  | h d pp ks ih =>
    intro e h
    cases ks with
    | nil => exact kid_tip C e d pp h
    | cons k ks =>
      have hk : wfKids C.isFloat C.dom (k :: ks) = true := by
        simp only [wfNode, Bool.and_eq_true] at h
        exact h.2
      exact kid_inner C e d pp k ks h (fun et hm => ih et hm et.1 (wfKids_mem _ _ _ hk et hm))

/- ## the tips are already trimmed -/

theorem normFromL_length : ∀ (ks : Kids) (n : Nat), (normFromL n ks).1.length = ks.length := by
  intro ks
  induction ks with
  | nil => intro n; simp [normFromL]
  | cons k ks ih => intro n; obtain ⟨e, t⟩ := k; simp [normFromL, ih]

def TrimOK (t : T) : Prop := ∀ n, trimLeaves (normFrom n t).1 = (normFrom n t).1

theorem trimL_ok : ∀ (ks : Kids), (∀ et ∈ ks, TrimOK et.2) → ∀ n, trimLeavesL (normFromL n ks).1 = (normFromL n ks).1 := by
  intro ks
  induction ks with
  | nil => intro _ n; simp [normFromL, trimLeavesL]
  | cons k ks ih =>
    intro h n
    obtain ⟨e, t⟩ := k
    simp only [normFromL, trimLeavesL]
    rw [h (e, t) (List.mem_cons_self ..) (n + 1), ih (fun et hm => h et (List.mem_cons_of_mem _ hm))]

theorem trim_ok (isF : List Char → Bool) (dom : Rat → Bool) : ∀ (t : T) (e : EdgeD), wfNode isF dom e t = true → TrimOK t := by
  intro t
  induction t using T.induct with
  | h d pp ks ih =>
    intro e h n
    cases ks with
    | nil =>
      simp only [wfNode, Bool.and_eq_true, tipNameOK, beq_iff_eq] at h
      simp only [normFrom, normFromL, trimLeaves]
      rw [h.1.1.2]
    | cons k ks =>
      have hk : wfKids isF dom (k :: ks) = true := by
        simp only [wfNode, Bool.and_eq_true] at h
        exact h.2
      have hL := trimL_ok (k :: ks) (fun et hm => ih et hm et.1 (wfKids_mem _ _ _ hk et hm)) (n)
      obtain ⟨e1, t1⟩ := k
      simp only [normFrom, normFromL] at hL ⊢
      simp only [trimLeaves]
      rw [hL]

/- ## the oracle's relation `sameTree` and the writer do not look at ids and parent positions -/

theorem sameEdge_id (e : EdgeD) (n : Int) : sameEdge e { e with id := n } = true := by simp [sameEdge]

theorem sameEdge_euclid (a b c : EdgeD) (h1 : sameEdge a c = true) (h2 : sameEdge b c = true) : sameEdge a b = true := by
  simp only [sameEdge, Bool.and_eq_true, decide_eq_true_eq] at *
  obtain ⟨⟨⟨a1, a2⟩, a3⟩, a4⟩ := h1
  obtain ⟨⟨⟨b1, b2⟩, b3⟩, b4⟩ := h2
  exact ⟨⟨⟨a1.trans b1.symm, a2.trans b2.symm⟩, a3.trans b3.symm⟩, a4.trans b4.symm⟩

def SameNorm (t : T) : Prop := ∀ n, sameTree t (normFrom n t).1 = true

theorem sameKids_norm : ∀ (ks : Kids), (∀ et ∈ ks, SameNorm et.2) → ∀ n, sameKids ks (normFromL n ks).1 = true := by
  intro ks
  induction ks with
  | nil => intro _ n; simp [normFromL, sameKids]
  | cons k ks ih =>
    intro h n
    obtain ⟨e, t⟩ := k
    simp only [normFromL, sameKids, Bool.and_eq_true]
    exact ⟨⟨sameEdge_id e n, h (e, t) (List.mem_cons_self ..) (n + 1)⟩, ih (fun et hm => h et (List.mem_cons_of_mem _ hm)) _⟩

theorem sameTree_norm : ∀ (t : T), SameNorm t := by
  intro t
  induction t using T.induct with
  | h d pp ks ih =>
    intro n
    simp only [normFrom, sameTree, Bool.and_eq_true, decide_eq_true_eq]
    exact ⟨trivial, sameKids_norm ks ih n⟩

def Euclid (a : T) : Prop := ∀ b c, sameTree a c = true → sameTree b c = true → sameTree a b = true

theorem sameKids_euclid : ∀ (ka : Kids), (∀ et ∈ ka, Euclid et.2) → ∀ kb kc, sameKids ka kc = true → sameKids kb kc = true →
    sameKids ka kb = true := by
  intro ka
  induction ka with
  | nil =>
    intro _ kb kc h1 h2
    cases kc with
    | nil => cases kb with
      | nil => rfl
      | cons x xs => obtain ⟨e, t⟩ := x; simp [sameKids] at h2
    | cons y ys => obtain ⟨e, t⟩ := y; simp [sameKids] at h1
  | cons x xs ih =>
    intro h kb kc h1 h2
    obtain ⟨ea, ta⟩ := x
    cases kc with
    | nil => simp [sameKids] at h1
    | cons y ys =>
      obtain ⟨ec, tc⟩ := y
      cases kb with
      | nil => simp [sameKids] at h2
      | cons z zs =>
        obtain ⟨eb, tb⟩ := z
        simp only [sameKids, Bool.and_eq_true] at h1 h2 ⊢
        exact ⟨⟨sameEdge_euclid _ _ _ h1.1.1 h2.1.1, h (ea, ta) (List.mem_cons_self ..) tb tc h1.1.2 h2.1.2⟩,
          ih (fun et hm => h et (List.mem_cons_of_mem _ hm)) zs ys h1.2 h2.2⟩

theorem sameTree_euclid : ∀ (a : T), Euclid a := by
  intro a
  induction a using T.induct with
  | h d pp ks ih =>
    intro b c h1 h2
    cases b with
    | node db pb kb =>
      cases c with
      | node dc pc kc =>
        simp only [sameTree, Bool.and_eq_true, decide_eq_true_eq] at h1 h2 ⊢
        exact ⟨h1.1.trans h2.1.symm, sameKids_euclid ks ih kb kc h1.2 h2.2⟩

/-- the writer ignores branch ids and parent positions -/
def WriteNorm (C : Codec) (t : T) : Prop := ∀ n b, writeNode C b (normFrom n t).1 = writeNode C b t

theorem writeKids_norm (C : Codec) : ∀ (ks : Kids), (∀ et ∈ ks, WriteNorm C et.2) → ∀ n b,
    writeKids C b (normFromL n ks).1 = writeKids C b ks := by
  intro ks
  induction ks with
  | nil => intro _ n b; simp [normFromL, writeKids]
  | cons k ks ih =>
    intro h n b
    obtain ⟨e, t⟩ := k
    have hd : (normFrom (n + 1) t).1.d = t.d := by cases t; simp [normFrom]
    simp only [normFromL, writeKids]
    rw [h (e, t) (List.mem_cons_self ..) (n + 1) true, ih (fun et hm => h et (List.mem_cons_of_mem _ hm)), hd]
    simp [writeDecor]

theorem writeNode_norm (C : Codec) : ∀ (t : T), WriteNorm C t := by
  intro t
  induction t using T.induct with
  | h d pp ks ih =>
    intro n b
    simp only [normFrom, writeNode]
    rw [writeKids_norm C ks ih n true, normFromL_length]

end Gotree.Newick
