package c15

import (
	"fmt"
	"strings"
	"time"

	"verifharness/core"

	"github.com/evolbioinfo/gotree/io/newick"
	"github.com/evolbioinfo/gotree/tree"
)

// CLI tier (DESIGN §4.3): the commands that wrap the anchored functions — `gotree graft`,
// `merge`, `repopulate`, `collapse single`, `subtree` — are run as processes on files; what
// they print is read back with the real Newick parser and pushed through the same oracle and
// tie as the library-level cases.  The "before" dump of a CLI case is the α of the input as
// the binary reads it (the written text parsed again), so the Newick round trip cannot blur
// the comparison.

func parseNewick(s string) (*tree.Tree, error) {
	var t *tree.Tree
	var err error
	if p, msg := core.Safe(func() {
		t, err = newick.NewParser(strings.NewReader(s)).Parse()
		if err == nil && t != nil {
			t.ReinitIndexes() // as cmd's readTree does
		}
	}); p {
		return nil, fmt.Errorf("parser panicked: %s", msg)
	}
	return t, err
}

// asRead writes the tree as Newick and returns the text and the α of its re-reading.
func asRead(n *core.N) (string, *core.N, bool) {
	t, err := core.Build(n)
	if err != nil {
		panic(err)
	}
	txt := t.Newick()
	back, err := parseNewick(txt)
	if err != nil {
		return txt, nil, false
	}
	m, wf := core.Alpha(back)
	if !wf.OK() {
		return txt, nil, false
	}
	return txt, m, true
}

func cliOut(c *core.Ctx, args ...string) (*tree.Tree, string) {
	r := c.RunCLI("", 20*time.Second, args...)
	if r.Timeout {
		return nil, "panic:timeout"
	}
	if r.Exit != 0 {
		if strings.Contains(r.Stderr, "panic:") || strings.Contains(r.Stderr, "goroutine ") {
			return nil, "panic:" + core.Escape(firstLine(r.Stderr))
		}
		return nil, "err"
	}
	t, err := parseNewick(strings.TrimSpace(r.Stdout))
	if err != nil || t == nil {
		return nil, "panic:" + core.Escape("unreadable output: "+firstLine(r.Stdout))
	}
	return t, "ok"
}

func firstLine(s string) string {
	if i := strings.IndexByte(s, '\n'); i >= 0 {
		s = s[:i]
	}
	if len(s) > 200 {
		s = s[:200]
	}
	return s
}

func cliOpts(g *core.G, prefix string, rooted int) *core.N {
	o := opts(g)
	o.TipPrefix = prefix
	o.Rooted = rooted
	o.Comments = 0
	n, _ := g.Tree(o)
	core.NumberEdges(n)
	return n
}

func cliCases(c *core.Ctx) {
	g := c.G
	switch g.Intn(5) {
	case 0: // graft
		htxt, host, ok1 := asRead(cliOpts(g, "t", 2))
		gtxt, gr, ok2 := asRead(cliOpts(g, "g", 2))
		if !ok1 || !ok2 {
			return
		}
		tips := host.TipNames()
		tip := tips[g.Intn(len(tips))]
		t, oc := cliOut(c, "graft", "-i", c.TmpFile(htxt+"\n"), "-c", c.TmpFile(gtxt+"\n"), "-l", tip)
		d, wf, ia := "", "", ""
		if t != nil {
			d, wf = read(t)
			ia = indexAnswers(t, nil)
		}
		c.Emit("C15.graft", "1", host.Dump(), core.Escape(tip), gr.Dump(), oc, d, wf, ia, "cli")
	case 1: // merge
		n1 := cliOpts(g, "t", 1)
		n2 := cliOpts(g, "u", 1)
		for _, n := range []*core.N{n1, n2} {
			if len(n.Kids) > 2 {
				in := &core.N{E: core.NewE(), Kids: n.Kids[1:]}
				in.E.Len = 1
				n.Kids = []*core.N{n.Kids[0], in}
				core.NumberEdges(n)
			}
		}
		t1, a, ok1 := asRead(n1)
		t2, b, ok2 := asRead(n2)
		if !ok1 || !ok2 {
			return
		}
		t, oc := cliOut(c, "merge", "-i", c.TmpFile(t1+"\n"), "-c", c.TmpFile(t2+"\n"))
		d, wf, ia := "", "", ""
		if t != nil {
			d, wf = read(t)
			ia = indexAnswers(t, nil)
		} else if oc == "err" {
			d = a.Dump()
		}
		c.Emit("C15.merge", "1", "1", a.Dump(), b.Dump(), oc, d, wf, ia, "cli")
	case 2: // repopulate
		txt, n, ok := asRead(cliOpts(g, "t", 2))
		if !ok {
			return
		}
		tips := n.TipNames()
		perm := g.R.Perm(len(tips))
		var groups [][]string
		var lines []string
		fresh := 0
		for i := 0; i < 1+g.Intn(2) && i < len(tips); i++ {
			grp := []string{tips[perm[i]]}
			for j := 0; j < 1+g.Intn(3); j++ {
				grp = append(grp, fmt.Sprintf("n%d", fresh))
				fresh++
			}
			groups = append(groups, grp)
			lines = append(lines, strings.Join(grp, ","))
		}
		t, oc := cliOut(c, "repopulate", "-i", c.TmpFile(txt+"\n"), "-g", c.TmpFile(strings.Join(lines, "\n")+"\n"))
		d, wf, ia := n.Dump(), "", ""
		if t != nil {
			d, wf = read(t)
			ia = indexAnswers(t, nil)
		}
		c.Emit("C15.insid", "1", n.Dump(), core.StrLists(groups), oc, d, wf, ia, "cli")
	case 3: // collapse single
		raw := cliOpts(g, "t", 2)
		o := opts(g)
		addSingles(g, &o, raw, 0.25)
		stripComments(raw)
		core.NumberEdges(raw)
		txt, n, ok := asRead(raw)
		if !ok {
			return
		}
		t, oc := cliOut(c, "collapse", "single", "-i", c.TmpFile(txt+"\n"))
		d, wf := "", ""
		if t != nil {
			d, wf = read(t)
		} else {
			oc = "panic:" + oc
		}
		c.Emit("C15.rmsingle", "1", n.Dump(), oc, d, wf, "", "cli")
	default: // subtree at a named inner node
		raw := cliOpts(g, "t", 2)
		var inner [][]int
		for _, q := range raw.Paths() {
			if len(q) > 0 && len(raw.At(q).Kids) > 0 {
				inner = append(inner, q)
			}
		}
		if len(inner) == 0 {
			return
		}
		path := inner[g.Intn(len(inner))]
		raw.At(path).Name = "SUBX"
		txt, n, ok := asRead(raw)
		if !ok || n.At(path) == nil || n.At(path).Name != "SUBX" {
			return
		}
		t, oc := cliOut(c, "subtree", "-i", c.TmpFile(txt+"\n"), "-n", "SUBX")
		d, wf, ia := "", "", ""
		if t != nil {
			d, wf = read(t)
			ia = indexAnswers(t, nil)
		} else {
			oc = "panic:" + oc
		}
		c.Emit("C15.subtree", n.Dump(), pathStr(path), oc, d, wf, n.Dump(), "", "", ia, "", "cli")
	}
}

func stripComments(n *core.N) {
	n.Comments = nil
	if n.E != nil {
		n.E.Comments = nil
	}
	for _, k := range n.Kids {
		stripComments(k)
	}
}

// ---- glue cases: the command as a whole against the Lean functions cliGraft, cliMerge, … ----

// runGlue runs the binary and returns (outcome, α dump of the printed tree or "-").
func runGlue(c *core.Ctx, args ...string) (string, string) {
	r := c.RunCLI("", 20*time.Second, args...)
	if r.Timeout {
		return "panic:timeout", "-"
	}
	if strings.Contains(r.Stderr, "panic:") || strings.Contains(r.Stderr, "goroutine ") {
		return "panic:" + core.Escape(firstLine(r.Stderr)), "-"
	}
	if r.Exit != 0 {
		return "err", "-" // cobra prints the error and the usage; no tree is expected
	}
	oc := "ok"
	out := strings.TrimSpace(r.Stdout)
	if out == "" {
		return oc, "-"
	}
	t, err := parseNewick(out)
	if err != nil || t == nil {
		return "panic:" + core.Escape("unreadable output: "+firstLine(out)), "-"
	}
	d, wf := read(t)
	if wf != "" {
		return "panic:" + wf, "-"
	}
	return oc, d
}

func glueCases(c *core.Ctx) {
	g := c.G
	switch g.Intn(5) {
	case 0: // graft, incl. the refused ones (absent tip, the tip is the root)
		raw := cliOpts(g, "t", 2)
		if g.Chance(0.25) {
			o := opts(g)
			raw = rootTip(g, raw, &o, "rt")
			core.NumberEdges(raw)
		}
		htxt, host, ok1 := asRead(raw)
		gtxt, gr, ok2 := asRead(cliOpts(g, "g", 2))
		if !ok1 || !ok2 {
			return
		}
		tips := host.TipNames()
		tip := tips[g.Intn(len(tips))]
		switch g.Intn(6) {
		case 0:
			tip = "nosuchtip"
		case 1:
			tip = tips[0] // the root when it is a tip
		}
		oc, out := runGlue(c, "graft", "-i", c.TmpFile(htxt+"\n"), "-c", c.TmpFile(gtxt+"\n"), "-l", tip)
		c.Emit("C15.glue", "graft", host.Dump(), core.Escape(tip), gr.Dump(), oc, out)
	case 1: // merge, incl. unrooted / common names
		n1 := cliOpts(g, "t", 1)
		p2 := "u"
		if g.Chance(0.2) {
			p2 = "t"
		}
		n2 := cliOpts(g, p2, 1)
		for _, n := range []*core.N{n1, n2} {
			if len(n.Kids) > 2 && !g.Chance(0.2) {
				in := &core.N{E: core.NewE(), Kids: n.Kids[1:]}
				in.E.Len = 1
				n.Kids = []*core.N{n.Kids[0], in}
				core.NumberEdges(n)
			}
		}
		t1, a, ok1 := asRead(n1)
		t2, b, ok2 := asRead(n2)
		if !ok1 || !ok2 {
			return
		}
		oc, out := runGlue(c, "merge", "-i", c.TmpFile(t1+"\n"), "-c", c.TmpFile(t2+"\n"))
		c.Emit("C15.glue", "merge", a.Dump(), b.Dump(), "", oc, out)
	case 2: // repopulate, incl. refused groups
		txt, n, ok := asRead(cliOpts(g, "t", 2))
		if !ok {
			return
		}
		tips := n.TipNames()
		perm := g.R.Perm(len(tips))
		var groups [][]string
		var lines []string
		fresh := 0
		for i := 0; i < 1+g.Intn(2) && i < len(tips); i++ {
			grp := []string{tips[perm[i]]}
			for j := 0; j < 1+g.Intn(3); j++ {
				grp = append(grp, fmt.Sprintf("n%d", fresh))
				fresh++
			}
			groups = append(groups, grp)
		}
		switch g.Intn(6) {
		case 0:
			groups[0] = append(groups[0], tips[perm[len(tips)-1]]) // two existing
		case 1:
			groups = append(groups, []string{"z1", "z2"}) // none existing
		}
		for _, grp := range groups {
			lines = append(lines, strings.Join(grp, ","))
		}
		oc, out := runGlue(c, "repopulate", "-i", c.TmpFile(txt+"\n"), "-g", c.TmpFile(strings.Join(lines, "\n")+"\n"))
		c.Emit("C15.glue", "repopulate", n.Dump(), core.StrLists(groups), "", oc, out)
	case 3: // collapse single, incl. chains and a root that is a tip
		raw := cliOpts(g, "t", 2)
		o := opts(g)
		addSingles(g, &o, raw, 0.25)
		if g.Chance(0.25) {
			raw = rootTip(g, raw, &o, "rt")
		}
		stripComments(raw)
		core.NumberEdges(raw)
		txt, n, ok := asRead(raw)
		if !ok {
			return
		}
		oc, out := runGlue(c, "collapse", "single", "-i", c.TmpFile(txt+"\n"))
		c.Emit("C15.glue", "collapsesingle", n.Dump(), "", "", oc, out)
	default: // subtree -n '^name$': one inner match, a tip, no match, two matches, the root
		raw := cliOpts(g, "t", 2)
		var inner [][]int
		for _, q := range raw.Paths() {
			if len(q) > 0 && len(raw.At(q).Kids) > 0 {
				inner = append(inner, q)
			}
		}
		name := "SUBX"
		switch k := g.Intn(6); {
		case k == 0:
			name = raw.TipNames()[0]
		case k == 1:
			name = "NOSUCH"
		case k == 2 && len(inner) >= 2:
			raw.At(inner[0]).Name = "SUBX"
			raw.At(inner[len(inner)-1]).Name = "SUBX"
		case k == 3:
			raw.Name = "SUBX"
		default:
			if len(inner) == 0 {
				return
			}
			raw.At(inner[g.Intn(len(inner))]).Name = "SUBX"
		}
		txt, n, ok := asRead(raw)
		if !ok {
			return
		}
		oc, out := runGlue(c, "subtree", "-i", c.TmpFile(txt+"\n"), "-n", "^"+name+"$")
		c.Emit("C15.glue", "subtree", n.Dump(), core.Escape(name), "", oc, out)
	}
}
