import Driver.Proto
import Gotree.Spec.C16
import Gotree.Spec.C16Keys
import Gotree.Spec.C16Index
import Gotree.Spec.C16Cli
import Gotree.Spec.C16Extra
import Gotree.Spec.C16Doc
import Gotree.Spec.C16Depth
import Gotree.Model.C16Cli
import Gotree.Model.C16CliRun
import Gotree.Model.C16TopoCli
import Gotree.Model.C16DepthGo
import Gotree.Model.C16DepthGoU
import Gotree.Spec.C16DepthDist

namespace Gotree.Driver.C16
open Gotree Gotree.Driver Gotree.C16

def parseBool : String → Option Bool
  | "1" => some true | "0" => some false | _ => none

def parseAnswers (s : String) : List (Option Bool) :=
  s.toList.map fun c => if c == '1' then some true else if c == '0' then some false else none

mutual
def eraseIds : T → T
  | .node d p ks => .node d p (eraseIdsL ks)
def eraseIdsL : Kids → Kids
  | [] => []
  | (e, t) :: r => ({ e with id := -1 }, eraseIds t) :: eraseIdsL r
end

/- obs_P of C16 on a tree: tip names, rootedness, degree of the root, all branches as unrooted
   splits with their lengths -/

/-- equal up to one float64 rounding (the single addition `UnRoot` performs on the two root lengths) -/
def approx (a b : Rat) : Bool :=
  (if a ≥ b then a - b else b - a) * (4503599627370496 : Rat) ≤ (if b ≥ 0 then b else -b)

def usplitEq (x y : USplit) : Bool := x.side == y.side && x.sup == y.sup && approx x.len y.len

/-- fidelity only: all branches as unrooted splits with their lengths (one rounding allowed) -/
def lensEq (a b : T) : Bool :=
  a.usplitsAll.length == b.usplitsAll.length &&
  (List.zipWith usplitEq a.usplitsAll b.usplitsAll).all id

/-- obs_P of C16 (DESIGN §4.2): tip names, rootedness, degree of the root, the unrooted split set.
    Which Exp value lands on which branch is not part of the property: it is reported as the
    fidelity tag `lens-exact` and decides nothing. -/
def obsEq (a b : T) : Bool :=
  sortNames a.tipNames == sortNames b.tipNames && a.rooted == b.rooted &&
  a.kids.length == b.kids.length && a.usplitSet == b.usplitSet

def obsTopoEq (a b : T) : Bool :=
  sortNames a.tipNames == sortNames b.tipNames && a.usplitSet == b.usplitSet

def classOf (s : String) : String := (s.splitOn ":").headD ""

def kindTag : GenKind → String
  | .uniform => "uniform" | .yule => "yule" | .caterpillar => "caterpillar" | .balanced => "balanced" | .star => "star"

def genTags (g : GenKind) (n : Int) (rooted : Bool) (ints : List Nat) (lens : List Rat) : List String :=
  let below := decide (n < (g.min rooted : Int))
  [kindTag g, if rooted then "rooted" else "unrooted"] ++
  tagIf below "below-min" ++ tagIf (n < 0) "negative" ++ tagIf (n == (g.min rooted : Int)) "at-min" ++
  tagIf (!below && decide (4 ≤ g.ntips n.toNat)) "nontrivial" ++ tagIf (docGap g n rooted) "doc-min-gap" ++
  tagIf (!below && drawsInRange g n.toNat rooted ints) "hyp-draws-in-range" ++
  tagIf (!below && lensNonneg lens) "hyp-lens-nonneg" ++
  tagIf (!below) "hyp-min"

def parseBitRows (s : String) : List (List Bool) :=
  (splitTerm ";" s).map fun r => r.toList.map (· == '1')

def parseIdxObs (rawS nleftS nrightS hcS tdS tiS : String) : Option IdxObs :=
  match parseIntList nleftS, parseIntList nrightS, parseNatList hcS, parseIntList tdS, parseIntList tiS with
  | some nl, some nr, some hc, some td, some ti => some ⟨parseBitRows rawS, nl, nr, hc, td, ti⟩
  | _, _, _, _, _ => none

def handleGen (f : List String) : Verdict :=
  match f with
  | ks :: ns :: rs :: _seed :: cls :: intsS :: lensS :: sync :: rest =>
    match GenKind.parse ks, ns.toInt?, parseBool rs, parseNatList intsS, parseRatList lensS with
    | some g, some n, some rooted, some ints, some lens =>
      let tags := genTags g n rooted ints lens
      let below := decide (n < (g.min rooted : Int))
      let m := run g n rooted ints lens
      let cl := classOf cls
      -- the draw script replayed by the harness must be the one the model prescribes
      let scriptOK := ints.length == g.nintsZ n rooted && lens.length == g.nlens n rooted
      if cl == "panic" || cl == "timeout" || cl == "memory" then ⟨.oracle, "crash" :: tags, "the generator crashed or did not return: " ++ cls⟩
      else if cl == "malformed" then ⟨.oracle, tags, "the returned heap is not a tree: " ++ cls⟩
      else if below then
        if cl != "err" then ⟨.oracle, tags, "a size below the minimum was not rejected"⟩
        else if cls == "err:+tree" then
          ⟨.oracle, "err-with-tree" :: tags, "a rejected size: the error comes together with a tree (the caller may go on with it)"⟩
        else if !m.isErr then ⟨.tie, tags, "model does not reject"⟩
        else if sync != "ok" then ⟨.tie, tags, "draw protocol: the code did not consume the scripted draws before the rejection"⟩
        else if !scriptOK then ⟨.tie, tags, "draw protocol: the harness script is not the model's"⟩
        else ⟨.pass, "rejected" :: tags ++ tagIf (cls == "err:+tree") "err-with-tree", ""⟩
      else if cl == "err" then ⟨.oracle, tags, "a valid size was rejected"⟩
      else
        match rest with
        | dump :: tipsS :: rflag :: probesS :: ansS :: bitsS :: nrightS :: idxRest =>
          -- the raw index records and the node depths (always present)
          let idxObs : Option (Option IdxObs) := match idxRest with
            | [rawS, nleftS, hcS, tdS, tiS, _] => (parseIdxObs rawS nleftS nrightS hcS tdS tiS).map some
            | _ => none   -- a line without the index records and depths is a harness bug: BAD
          -- Node.Depth() of every node (last field; absent on older lines)
          let depthObs : Option (List Int) := match idxRest with
            | [_, _, _, _, _, dS] => parseIntList dS
            | _ => none
          match T.undump dump, parseStrList tipsS, parseBool rflag, parseStrList probesS, parseNatList nrightS, idxObs with
          | some t, some tips, some rf, some probes, some nright, some iob =>
            let nn := n.toNat
            let treeOK := genTreeOK2 g nn rooted t
            let flagsOK := tips == t.tipNames && rf == t.rooted
            let exOK := existsOK t probes (parseAnswers ansS)
            let bOK := match parseStrLists bitsS with
              | some bits => bitsS != "NOBITS" && bitsOK t bits nright
              | none => false
            if !treeOK then
              ⟨.oracle, tags ++ tagIf (rootIsTip t) "root-is-tip", "the returned tree is not a valid " ++ ks ++ " tree of the requested size/rootedness: names=" ++
                toString (sameNames t.tipNames (tipNamesUpTo (g.ntips nn))) ++ " unique=" ++ toString (!hasDup t.tipNames) ++
                " lens=" ++ toString (lensOk t) ++ " binary=" ++ toString t.binary ++ " rooted=" ++ toString t.rooted⟩
            else if !flagsOK then ⟨.oracle, tags, "Tips()/Rooted() disagree with the tree"⟩
            else if !exOK then ⟨.oracle, tags, "index not ready: ExistsTip answers are wrong"⟩
            else if !bOK then ⟨.oracle, tags, "index not ready: bitsets / taxon counts do not describe the tree"⟩
            else if !(match depthObs with | some ds => depthsOK t ds | none => false) then
              ⟨.oracle, tags, "index not ready: Node.Depth() is not the number of branches to the closest tip (below the node when rooted): " ++
                toString (depthObs.getD []) ++ " instead of " ++ toString (depthsOf t)⟩
            else if !t.rooted && !(match depthObs with | some ds => tipDistOKInt (adjOf t) ds | none => false) then
              ⟨.oracle, tags, "index not ready: Node.Depth() of an unrooted tree is not the number of branches to the closest tip (tipDistOK, theorem tipDistOK_sound): " ++
                toString (depthObs.getD [])⟩
            else if !(match iob with | some ob => indexOK t tips ob | none => false) then
              ⟨.oracle, tags, "index not ready: a branch record (bitset, taxon counts, TopoDepth) or a TipIndex is not what the split prescribes (C04.branchOK)"⟩
            else
              match m with
              | .ok o =>
                let exact := (eraseIds o.t).dump == (eraseIds t).dump
                let tags := tags ++ tagIf exact "exact" ++ tagIf (lensEq o.t t) "lens-exact" ++ tagIf iob.isSome "index-records" ++ tagIf depthObs.isSome "node-depths" ++
                  tagIf (o.t.rooted && depthObs == some (goComputeDepthsRooted o.t)) "depths-go-rooted" ++
                  tagIf (!t.rooted && depthObs == goComputeDepthsUnrooted t) "depths-go-unrooted"
                if sync != "ok" then ⟨.tie, tags, "draw protocol: the code did not consume the scripted draws"⟩
                else if !scriptOK then ⟨.tie, tags, "draw protocol: the harness script is not the model's"⟩
                else if !obsEq o.t t then ⟨.tie, tags, "model tree " ++ o.t.dump⟩
                else if !indexReady o then ⟨.tie, tags, "model index not ready"⟩
                else if exact && !(match depthObs with | some ds => depthsOK o.t ds | none => false) then
                  ⟨.tie, tags, "node depths differ from the model's"⟩
                else if !t.rooted && depthObs != goComputeDepthsUnrooted t then
                  ⟨.tie, tags, "node depths differ from the model of computeDepthUnRooted run on the returned tree: " ++
                    toString (goComputeDepthsUnrooted t)⟩
                else if o.t.rooted && exact && depthObs != some (goComputeDepthsRooted o.t) then
                  ⟨.tie, tags, "node depths differ from the model of computeDepthRecurRooted on the model's tree"⟩
                else if !(match iob with | some ob => indexTie C04.fnv1a o t ob | none => false) then
                  ⟨.tie, tags, "index records (bitset, counts, HashCode) differ from C04's ReinitIndexes on the model's tree"⟩
                else ⟨.pass, tags, ""⟩
              | .err e => ⟨.tie, tags, "model rejects: " ++ e⟩
              | .panic e => ⟨.tie, tags, "model panics: " ++ e⟩
          | _, _, _, _, _, _ => bad "C16.gen result fields"
        | _ => bad "C16.gen: ok without result fields"
    | _, _, _, _, _ => bad "C16.gen fields"
  | _ => bad "C16.gen arity"

def parseNatMatrix (s : String) : Option (List (List Nat)) := (splitTerm ";" s).mapM parseNatList

def handleCli (f : List String) : Verdict :=
  match f with
  | [ks, ns, rs, seedS, nbS, outS, variant, argvS, exitS, flags, ntrees, badS, dumps, intsS, lensS] =>
    match GenKind.parse ks, ns.toInt?, parseBool rs, nbS.toInt?, parseNatMatrix intsS, parseRatMatrix lensS, parseStrList argvS with
    | some g, some n, some rooted0, some nbI, some intsM, some lensM, some argv =>
      let nb := nbI.toNat
      let rooted := if g == .star then false else rooted0
      let creatable := variant != "badout"
      let tags := "cli" :: ("opts-" ++ variant) :: genTags g n rooted (intsM.headD []) (lensM.headD []) ++ tagIf (exitS == "0") "exit0" ++
        tagIf (nb > 1) "several-trees" ++ tagIf (outS == "1") "to-file" ++ tagIf (decide (nbI ≤ 0)) "zero-trees" ++
        tagIf (!creatable) "bad-output"
      -- option handling: the request the model reads off the command-line words must be the one the
      -- harness meant (size, rootedness, number of trees, output, seed)
      let seeded := variant != "noseed"
      match parseGenArgs (g == .balanced) argv (GenReq.default (g == .balanced)) with
      | none => ⟨.tie, tags, "option handling: the model reads a usage error off the command line"⟩
      | some req =>
      let optsOK := req.size == n && req.rooted == rooted0 && req.nbtrees == nbI && req.toFile == (outS == "1") &&
            (if seeded then req.seed == seedS.toInt? else req.seed == none)
      if !optsOK then ⟨.tie, tags, "option handling: the model reads another request off the command line"⟩ else
      let below := decide (n < (g.min rooted : Int))
      let hasP := flags.contains 'P' || flags.contains 'T'
      let hasE := flags.contains 'E'
      let runCli := fun (ints : List Nat) (lens : List Rat) =>
        if g == .star then starCli n lens else run g n rooted ints lens
      -- the command loop of the model (file creation, one call per tree, stop at the first error)
      let mo := genCli req creatable fun i => runCli (intsM.getD i []) (lensM.getD i [])
      let loopTie := (mo.exit == 0) == (exitS == "0") && mo.logged == hasE && toString mo.trees.length == ntrees
      if hasP then ⟨.oracle, "crash" :: tags, "the command crashed or hung"⟩
      else if !creatable then
        -- the output file cannot be created: an error, no tree anywhere, a non-zero exit status
        if ntrees != "0" then ⟨.oracle, tags, "the output file cannot be created, yet trees were written"⟩
        else if !hasE || exitS == "0" then
          ⟨.oracle, tags, "the output file cannot be created: no error message or exit status 0 (a calling script sees success, the trees are lost)"⟩
        else if !loopTie then ⟨.tie, tags, "command loop: the model exits/logs/writes otherwise"⟩
        else ⟨.pass, "rejected-output" :: tags, ""⟩
      else if decide (nbI ≤ 0) then
        -- no tree asked for: nothing may be written (exit status and message are the model's: tie)
        if ntrees != "0" || badS != "-" then ⟨.oracle, tags, "no tree was asked for, yet something was written"⟩
        else if !loopTie then ⟨.tie, tags, "command loop: the model exits/logs/writes otherwise"⟩
        else ⟨.pass, tags, ""⟩
      else if below then
        if ntrees != "0" then ⟨.oracle, tags, "a size below the minimum produced output"⟩
        else if !hasE then ⟨.oracle, tags, "a size below the minimum was not reported as an error"⟩
        else if exitS == "0" then
          ⟨.oracle, "rejected-exit0" :: tags, "a size below the minimum is reported on stderr but the command exits with status 0 (a calling script sees success)"⟩
        else if !loopTie then ⟨.tie, tags, "command loop: the model exits/logs/writes otherwise"⟩
        else ⟨.pass, "rejected" :: tags, ""⟩
      else if badS != "-" then ⟨.oracle, tags, "the output is not a readable tree: " ++ badS⟩
      else if ntrees != toString nb || exitS != "0" || hasE then
        ⟨.oracle, tags, "a valid size was rejected or the number of trees written is not the number asked for"⟩
      else
        match (splitTerm "|" dumps).mapM T.undump with
        | none => bad "C16.cli dumps"
        | some ts =>
          if !(ts.all (genTreeOK2 g n.toNat rooted)) then
            ⟨.oracle, tags, "a written tree is not a valid " ++ ks ++ " tree of the requested size/rootedness"⟩
          else
            let triples := List.zip ts (List.zip intsM lensM)
            if triples.length != nb then bad "C16.cli draws" else
            let tied := triples.all fun (t, ints, lens) =>
              match runCli ints lens with
              | .ok o => obsEq o.t t
              | _ => false
            let lensExact := triples.all fun (t, ints, lens) =>
              match runCli ints lens with
              | .ok o => lensEq o.t t
              | _ => false
            -- fidelity: the written trees are the model's trees in the model's order, lengths included
            let loopExact := mo.trees.length == ts.length && (List.zipWith lensEq mo.trees ts).all id
            let tags := tags ++ tagIf lensExact "lens-exact" ++ tagIf (seeded && loopExact) "loop-exact"
            if !seeded then ⟨.pass, "oracle-only" :: tags, ""⟩
            else if !loopTie then ⟨.tie, tags, "command loop: the model exits/logs/writes otherwise"⟩
            else if tied then ⟨.pass, tags, ""⟩ else ⟨.tie, tags, "a written tree differs from the model's tree for the replayed draws"⟩
    | _, _, _, _, _, _, _ => bad "C16.cli fields"
  | _ => bad "C16.cli arity"

def handleTopo (f : List String) : Verdict :=
  match f with
  | [ns, rs, via, namesS, cls, dumps] =>
    match ns.toInt?, parseBool rs, parseStrList namesS with
    | some n, some rooted, some names =>
      let viaCli := via.startsWith "cli"
      let minN : Int := if rooted then 2 else 3
      let badNames := !names.isEmpty && ((names.length : Int) != n) && via == "lib"
      let below := decide (n < minN) || badNames
      let dup := hasDup names
      -- the command: what `-i` brought, whether the output can be opened (model `topoCli`)
      let unreadable := via == "cli-noinput" || via == "cli-badinput"
      let creatable := via != "cli-badout"
      let inp : TopoInput := if unreadable then .unreadable else if viaCli && !names.isEmpty then .names names else .absent
      let tags := ["topo", via, if rooted then "rooted" else "unrooted"] ++ tagIf below "below-min" ++
        tagIf (!below && decide (n ≥ 4)) "nontrivial" ++ tagIf (!names.isEmpty) "names" ++ tagIf badNames "names-mismatch" ++
        tagIf (!below && !dup) "hyp-names-nodup" ++ tagIf unreadable "bad-input" ++ tagIf (!creatable) "bad-output"
      let cl := classOf cls
      -- the command takes the number of tips from the tree given with -i
      let nEff : Int := if viaCli && !names.isEmpty && !unreadable then (names.length : Int) else n
      let m := allTopologies nEff rooted (if unreadable then [] else names)
      let mo := topoCli n rooted inp creatable
      if cl == "panic" || cl == "timeout" || cl == "memory" then ⟨.oracle, "crash" :: tags, "the enumerator crashed or did not return: " ++ cls⟩
      else if cl == "malformed" then ⟨.oracle, tags, "the enumerator returned something that is not a tree: " ++ cls⟩
      else if unreadable || !creatable then
        -- an input that cannot be read / an output that cannot be opened: an error, a non-zero exit
        -- status, no tree anywhere
        if cl != "err" then ⟨.oracle, tags, "the input cannot be read or the output cannot be opened, yet the command reports success"⟩
        else if cls == "err:exit0" then
          ⟨.oracle, "rejected-exit0" :: tags, "the input cannot be read or the output cannot be opened: reported on stderr but the exit status is 0"⟩
        else if mo.exit == 0 then ⟨.tie, tags, "command model does not fail"⟩
        else ⟨.pass, "rejected-io" :: tags, ""⟩
      else if decide (nEff < minN) || badNames then
        if cl != "err" then ⟨.oracle, tags, "a size below the minimum / a wrong number of names was not rejected"⟩
        else if cls == "err:exit0" then
          ⟨.oracle, "rejected-exit0" :: tags, "a size below the minimum is reported on stderr but the command exits with status 0 (a calling script sees success)"⟩
        else if !m.isErr then ⟨.tie, tags, "model does not reject"⟩
        else if viaCli && mo.exit == 0 then ⟨.tie, tags, "command model does not fail"⟩
        else ⟨.pass, "rejected" :: tags, ""⟩
      else if cl == "err" then ⟨.oracle, tags, "a valid size was rejected"⟩
      else
        match (splitTerm "|" dumps).mapM T.undump with
        | none => bad "C16.topo dumps"
        | some ts =>
          let nn := nEff.toNat
          let tags := tags ++ tagIf (ts.any fun t => t.kids.length == 1) "stem-root"
          if ts.length != topoCount nn rooted then
            ⟨.oracle, tags, "number of topologies " ++ toString ts.length ++ " instead of " ++ toString (topoCount nn rooted)⟩
          else if !(ts.all (fun t => topoTreeOK nn rooted t names)) then ⟨.oracle, tags, "an enumerated tree is not a binary tree on the requested tips"⟩
          else if dup then ⟨.pass, "skip-dupnames" :: tags, ""⟩
          else if nn ≤ 10 && !(distinctNat (ts.map (topoKeyN (topoNames names nn) rooted))) then
            ⟨.oracle, tags, "a topology is enumerated twice (numeric canonical form, theorem topoOKN_sound)"⟩
          else if !(distinctKeys (ts.map (topoKey rooted))) then ⟨.oracle, tags, "a topology is enumerated twice"⟩
          else if ts.length ≤ 105 && !(pairwiseDistinct (ts.map belowFam)) then
            ⟨.oracle, tags, "a topology is enumerated twice (family of leaf sets, the predicate of allTopologies_nodup)"⟩
          else
            match m with
            | .ok ms =>
              let ik := ts.map (topoKey rooted)
              let mk := ms.map (topoKey rooted)
              let tags := tags ++ tagIf (ik == mk) "same-order"
              if viaCli && !(mo.exit == 0 && mo.trees.length == ts.length) then ⟨.tie, tags, "command model: another exit status or number of trees"⟩
              else if sortStr ik == sortStr mk then ⟨.pass, tags, ""⟩ else ⟨.tie, tags, "model enumerates another set"⟩
            | _ => ⟨.tie, tags, "model rejects"⟩
    | _, _, _ => bad "C16.topo fields"
  | _ => bad "C16.topo arity"

/-- common frame of the extra constructors.  ORACLE (model-free): `mustReject` is read off the
    inputs by a Spec predicate, `ok` judges the returned tree.  TIE: the model's outcome and its
    exact dump (the constructions are deterministic). -/
def extraVerdict (tags : List String) (mustReject : Bool) (m : Res Out) (cls : String) (dumpS : String)
    (ok : T → Bool) : Verdict :=
  let cl := classOf cls
  if cl == "panic" || cl == "timeout" || cl == "memory" || cl == "malformed" then
    ⟨.oracle, "crash" :: tags, "the constructor crashed or returned a broken heap: " ++ cls⟩
  else if mustReject then
    if cl != "err" then ⟨.oracle, tags, "an input that must be rejected was accepted"⟩
    else match m with
      | .err e => ⟨.pass, "rejected" :: tags ++ tagIf (cls == "err:" ++ escape e) "same-error", ""⟩
      | _ => ⟨.tie, tags, "model does not reject"⟩
  else if cl == "err" then ⟨.oracle, tags, "a valid input was rejected"⟩
  else
    match T.undump dumpS with
    | none => bad "extra dump"
    | some t =>
      if !(ok t) then ⟨.oracle, tags, "the returned tree is not the tree the constructor must build"⟩
      else match m with
        | .ok o =>
          if (eraseIds o.t).dump != (eraseIds t).dump then ⟨.tie, tags, "model tree " ++ o.t.dump⟩
          else ⟨.pass, "nontrivial" :: "exact" :: tags, ""⟩
        | .err e => ⟨.tie, tags, "model rejects: " ++ e⟩
        | .panic e => ⟨.tie, tags, "model panics: " ++ e⟩

def handleExtra (op : String) (f : List String) : Verdict :=
  match op, f with
  | "starn", [namesS, cls, dumpS] =>
    match parseStrList namesS with
    | some names =>
      extraVerdict (["starn"] ++ tagIf (hasDup names) "dup-names" ++ tagIf (names.length < 2) "below-min")
        (starnMustReject names) (starFromNames names) cls dumpS (starFromNamesOK names)
    | none => bad "C16.starn fields"
  | "start", [dinS, cls, dumpS] =>
    match T.undump dinS with
    | some tin =>
      let te := tipEdgesOf tin
      extraVerdict (["start"] ++ tagIf (hasDup (te.map (·.1))) "dup-names" ++ tagIf (te.length < 2) "below-min" ++
          tagIf (tin.kids.length == 1) "roottip" ++ tagIf (te.any fun x => x.2 == NIL) "absent-length")
        (startMustReject tin) (starFromTree tin) cls dumpS (starFromTreeOK tin)
    | none => bad "C16.start fields"
  | "bipart", [leftS, rightS, cls, dumpS] =>
    match parseStrList leftS, parseStrList rightS with
    | some left, some right =>
      extraVerdict (["bipart"] ++ tagIf (hasDup (left ++ right)) "dup-names" ++
          tagIf (left.length ≤ 1 || right.length ≤ 1) "below-min")
        (bipartMustReject left right) (bipartitionTree left right) cls dumpS (twoStarOK left right)
    | _, _ => bad "C16.bipart fields"
  | "edgetree", [dinS, kS, cls, dumpS] =>
    match T.undump dinS, kS.toNat? with
    | some tin, some k =>
      let below := (tin.splits.getD k ⟨[], EdgeD.blank, false⟩).below
      extraVerdict (["edgetree"] ++ tagIf (below.length ≤ 1) "tip-branch")
        (decide (tin.splits.length ≤ k)) (edgeTree tin k) cls dumpS
        (twoStarOK (tin.tipNames.filter fun x => !below.contains x) (tin.tipNames.filter fun x => below.contains x))
    | _, _ => bad "C16.edgetree fields"
  | _, _ => bad ("C16: unknown op " ++ op)

def handle (op : String) (f : List String) : Verdict :=
  match op with
  | "gen" => handleGen f
  | "cli" => handleCli f
  | "topo" => handleTopo f
  | _ => handleExtra op f

end Gotree.Driver.C16
