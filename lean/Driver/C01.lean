import Driver.Proto
import Gotree.Spec.C01
import Gotree.Model.C01Lit
import Gotree.Model.C01Buf

/-
  Handler of the C01 case lines (see harness/c01/c01.go for the producer).

    C01.rt     dump(orig)  text1  outcome  dump(reread)  text2
    C01.rt0    dump(orig)  signbits  text1  outcome  dump(reread)  signbits  text2   (trees holding -0.0)
    C01.parse  text  outcome  dump(tree)                       (malformed / odd texts: tie only)
    C01.float  literal  class  value  fmt  back                 (strconv against goCodec, and the codec laws on strconv's own output)
    C01.multi  text  outcome-classes  dumps                      (one Parser, Parse() until it fails: tie only)
    C01.more   text  outcome-classes  dumps                      (one Parser: Parse, then More(), as ReadMultiTrees does: tie only)
    C01.utf8   name-bytes  outcome  reread-name-bytes  text1  text2   (defect F2)
-/
namespace Gotree.Driver.C01
open Gotree Gotree.Driver Gotree.Newick Gotree.C01

mutual
def anyNode (p : Option EdgeD → T → Bool) : Option EdgeD → T → Bool
  | oe, .node d pp k => p oe (.node d pp k) || anyNodeL p k
def anyNodeL (p : Option EdgeD → T → Bool) : Kids → Bool
  | [] => false
  | (e, t) :: r => anyNode p (some e) t || anyNodeL p r
end

def nonInt (v : Rat) : Bool := v != NIL && v.den != 1

def edgeP (f : EdgeD → Bool) : Option EdgeD → T → Bool
  | some e, _ => f e
  | none, _ => false

def treeTags (t : T) : List String :=
  let multif := anyNode (fun oe n => n.kids.length ≥ (if oe.isSome then 3 else 4)) none t
  let comment := anyNode (fun oe n => !n.d.comments.isEmpty || (edgeP (fun e => !e.comments.isEmpty) oe n)) none t
  let support := anyNode (edgeP fun e => e.sup != NIL) none t
  let nonint := anyNode (edgeP fun e => nonInt e.len || nonInt e.sup || nonInt e.pval) none t
  tagIf (multif && comment && support && nonint) "rule" ++
  tagIf multif "multif" ++ tagIf comment "comment" ++ tagIf support "support" ++ tagIf nonint "nonint" ++
  tagIf t.rooted "rooted" ++ tagIf (!t.rooted) "unrooted" ++
  tagIf (anyNode (edgeP fun e => e.pval != NIL) none t) "pvalue" ++
  tagIf (anyNode (edgeP fun e => !e.comments.isEmpty) none t) "edgecomment" ++
  tagIf (anyNode (fun _ n => n.d.comments.length ≥ 2) none t) "multicomment" ++
  tagIf (!t.d.comments.isEmpty) "rootcomment" ++ tagIf (t.d.name != "") "rootname" ++
  tagIf (anyNode (fun oe n => oe.isSome && !n.kids.isEmpty && n.d.name != "") none t) "innername" ++
  tagIf (anyNode (fun oe n => oe.isSome && n.kids.isEmpty && goCodec.isFloat n.d.name.toList) none t) "numerictip" ++
  tagIf (anyNode (fun _ n => n.d.name.toList.any (fun c => c == ' ')) none t) "blankinname" ++
  tagIf (anyNode (fun _ n => n.d.name.toList.any (fun c => c == '/')) none t) "slashname" ++
  tagIf (anyNode (fun _ n => n.d.name.toList.any (fun c => c.toNat ≥ 128)) none t) "unicodename" ++
  tagIf (anyNode (fun _ n => (n.d.name.toList.filter (· == '/')).length ≥ 2) none t) "twoslash" ++
  tagIf (anyNode (fun oe n => oe.isSome && !n.kids.isEmpty && n.d.name != "" &&
      goCodec.isFloat (trimSpace n.d.name).toList) none t) "numblankinner" ++
  tagIf (anyNode (fun _ n => n.d.name.toList.any (fun c => isSpaceGo c && !isWhitespace c)) none t) "unispacename" ++
  tagIf (anyNode (fun oe n => oe.isSome && n.kids.length == 1) none t) "single" ++
  tagIf (anyNode (edgeP fun e => e.len == 0) none t) "zerolen" ++
  tagIf (anyNode (edgeP fun e => e.len == NIL) none t) "nolen" ++
  tagIf (anyNode (edgeP fun e => e.len != NIL && (e.len.den > 1024 || e.len.num.natAbs > 1048576)) none t) "longfloat" ++
  tagIf (anyNode (fun _ n => n.kids.length ≥ 10) none t) "deg10" ++
  tagIf (anyNode (fun _ n => n.ppos != 0) none t) "ppos"

def outcomeClass {α} : Outcome α → String
  | .ok _ => "ok" | .err _ => "err" | .panic _ => "panic" | .unrep _ => "unrep"

def isPrefixStr (p s : String) : Bool := p.toList.isPrefixOf s.toList

def bytesOf (s : String) : Option (List UInt8) := (unescapeBytes s.toList ByteArray.empty).map (·.toList)

/-- does a dump (or several, `|`-joined) hold a non-finite VALUE: only the `e<len>,<sup>,<pval>,<id>` tokens are looked
    at (names `n…` and comments `c…`/`k…` may well contain "inf" or "nan") -/
def dumpHasNonfinite (dumps : String) : Bool :=
  ((dumps.replace "|" " ").splitOn " ").any fun tok =>
    tok.front == 'e' && ((dropFirst tok).splitOn ",").any fun v => v == "nan" || v == "+inf" || v == "-inf"

/-- bytes given as a node comment and as a branch comment went through write + parse (defect F2 in comments) -/
def utf8cCase (be outcome nc2e ec2e : String) : Verdict :=
    match bytesOf be, bytesOf nc2e, bytesOf ec2e with
    | some b, some n2, some e2 =>
      let valid := (unescape be).isSome
      let tags := ["nontrivial-aux", "comment"] ++ tagIf valid "validutf8" ++ tagIf (!valid) "invalidutf8"
      if outcome == "ok" && b == n2 && b == e2 then ⟨.pass, tags, ""⟩
      else
        -- F2 in a comment: only when the bytes are not valid UTF-8 and BOTH comments came back as exactly
        -- ReadRune's lossy decoding of them
        let lossy := (String.ofList (decodeLossy b)).toUTF8.toList
        if outcome == "ok" && !valid && n2 == lossy && e2 == lossy then
          ⟨.oracle, tags, "class=F2-invalid-utf8-comment comment " ++ be ++ " comes back as " ++ nc2e⟩
        else ⟨.oracle, tags, "comment " ++ be ++ " comes back as " ++ nc2e ++ " / " ++ ec2e ++ " (" ++ outcome ++ ")"⟩
    | _, _, _ => bad "C01.utf8c fields"

/-- a name given as bytes went through write + parse: `where_` says which name -/
def utf8Case (namee outcome name2e where_ : String) : Verdict :=
    match bytesOf namee, bytesOf name2e with
    | some nb, some nb2 =>
      let valid := (unescape namee).isSome
      let tags := ["nontrivial-aux", where_] ++ tagIf valid "validutf8" ++ tagIf (!valid) "invalidutf8"
      if outcome == "ok" && nb == nb2 then ⟨.pass, tags, ""⟩
      else
        -- F2: only when the name is not valid UTF-8 and what came back is exactly ReadRune's lossy decoding of it
        let lossy := (String.ofList (decodeLossy nb)).toUTF8.toList
        if outcome == "ok" && !valid && nb2 == lossy then
          ⟨.oracle, tags, "class=F2-invalid-utf8-name name " ++ namee ++ " comes back as " ++ name2e⟩
        else ⟨.oracle, tags, "name " ++ namee ++ " comes back as " ++ name2e ++ " (" ++ outcome ++ ")"⟩
    | _, _ => bad "C01.utf8 fields"

/-- does the (abbreviated) message of the model's error name the reason the implementation gives: every piece of the
    model's message between `…` occurs in the Go message; a stale strconv error is recognised by its prefix -/
def errMsgAgrees (model go : String) : Bool :=
  if isPrefixStr "strconv.ParseFloat" model then isPrefixStr "strconv.ParseFloat" go
  else (model.splitOn "…").all fun part => part == "" || (go.splitOn part).length ≥ 2

/-- `C01.parse`: a (malformed / odd) text, the implementation's outcome class and dump: tie only -/
def parseCase (texte outcome dump2 : String) : Verdict :=
  match unescape texte with
  | none => bad "C01.parse text"
  | some text =>
    let m := parseStr goCodec text
    let mc := outcomeClass m
    -- the literal node-stack machine (variables node/edge, nil edges) is run next to the functional one
    let ml := Lit.parseL goCodec text.toList
    let litSame := match m, ml with
      | .ok a, .ok b => a.dump == b.dump
      | a, b => outcomeClass a == outcomeClass b && mc != "ok"
    if !litSame then ⟨.tie, [mc], "literal node-stack machine differs: " ++ outcomeClass ml⟩ else
    let mb := (Buf.parseB goCodec (Buf.fresh text.toList)).1
    let bufSame := match m, mb with
      | .ok a, .ok b => a.dump == b.dump
      | a, b => outcomeClass a == outcomeClass b && mc != "ok"
    if !bufSame then ⟨.tie, [mc], "literal unscan-buffer machine differs: " ++ outcomeClass mb⟩ else
    let tags := [mc] ++ tagIf (text.length > 3 && mc == "ok") "nontrivial-aux"
    match m with
    | .unrep _ =>
      -- Go succeeds and stores NaN/±Inf, which the dump shows
      if outcome == "ok" && dumpHasNonfinite dump2 then ⟨.pass, tags, ""⟩
      else ⟨.tie, tags, "model unrep, implementation " ++ outcome⟩
    | .ok mt =>
      if outcome != "ok" then ⟨.tie, tags, "model ok, implementation " ++ outcome⟩
      else (match T.undump dump2 with
        | none => bad "C01.parse dump"
        | some t2 => if mt.dump == t2.dump then ⟨.pass, tags, ""⟩ else ⟨.tie, tags, "model parse " ++ mt.dump⟩)
    | _ =>
      if (if isPrefixStr "panic" outcome then "panic" else outcome) == mc then ⟨.pass, tags, ""⟩
      else ⟨.tie, tags, "model " ++ mc ++ ", implementation " ++ outcome⟩


def handle (op : String) (f : List String) : Verdict :=
  match op, f with
  | "rt", [dump, text1e, outcome, dump2, text2e] =>
    match T.undump dump, unescape text1e, unescape text2e with
    | some t, some text1, some text2 =>
      let wf := WF01 goCodec.isFloat isF64 t
      -- the hypothesis of theorem `parse_write_goS` (executable codec, structural domain: all four laws proved)
      let godom := wf && WF01 goCodec.isFloat goDomS t
      let tt := treeTags t
      -- `nontrivial` (counted by the evidence) = an ORACLE-BEARING round-trip case satisfying the rule of Appendix C;
      -- everything else that is not trivial is `nontrivial-aux`
      let tags := tagIf wf "wf01" ++ tagIf (!wf) "nonwf" ++ tagIf godom "godom" ++
        tagIf (wf && tt.contains "rule") "nontrivial" ++ tagIf (!wf && tt.contains "rule") "nontrivial-aux" ++ tt
      -- 1. the oracle, on the implementation's output alone (before anything about the model)
      if wf && outcome != "ok" then ⟨.oracle, tags, "Parse(Newick(t)) fails: " ++ outcome⟩ else
      let ot2 := if outcome == "ok" then T.undump dump2 else none
      -- a finite tree that comes back holding NaN / ±Inf (the dump cannot be read as a `T` then) has not survived
      if wf && outcome == "ok" && ot2.isNone && dumpHasNonfinite dump2 then
        ⟨.oracle, tags, "re-read tree holds a non-finite value text1=" ++ escape text1⟩ else
      if outcome == "ok" && ot2.isNone then bad "C01.rt dump2" else
      let oracleOK : Bool := match ot2 with
        | some t2 => roundTripOK t t2 text1 text2
        | none => true
      if wf && !oracleOK then
        ⟨.oracle, tags, (match ot2 with
            | some t2 => if sameTree t t2 then "second text differs from the first" else "re-read tree differs from the original"
            | none => "") ++ " text1=" ++ escape text1⟩ else
      -- 2. the hypothesis of `parse_write_goS` must hold of every WF01 tree of float64 values
      if wf && !godom then ⟨.tie, tags, "a finite float64 value of the tree is outside the domain goDomS of the model codec"⟩ else
      -- 3. the model: both machines
      let mtext := writeStr goCodec t
      let mparse := parseStr goCodec text1
      let ml := Lit.parseL goCodec text1.toList
      let litSame := match mparse, ml with
        | .ok a, .ok b => a.dump == b.dump
        | a, b => outcomeClass a == outcomeClass b && outcomeClass a != "ok"
      if !litSame then ⟨.tie, tags, "literal node-stack machine differs: " ++ outcomeClass ml⟩ else
      match ot2 with
      | none =>
        -- the implementation could not re-read its own text (tree outside WF01)
        if mtext != text1 then ⟨.tie, tags, "model text " ++ escape mtext⟩
        else if outcomeClass mparse != (if isPrefixStr "panic" outcome then "panic" else outcome) then
          ⟨.tie, tags, "model outcome " ++ outcomeClass mparse⟩
        else ⟨.pass, "rejected" :: tags, ""⟩
      | some t2 =>
        if mtext != text1 then ⟨.tie, tags, "model text " ++ escape mtext⟩
        else match mparse with
          | .ok mt =>
            if mt.dump != t2.dump then ⟨.tie, tags, "model parse " ++ mt.dump⟩
            -- the second text: by theorem `write_normIds` it is the first one when the model re-read `t.normIds`
            else if (if mt.dump == t.normIds.dump then mtext else writeStr goCodec mt) != text2 then
              ⟨.tie, tags, "model second text " ++ escape (writeStr goCodec mt)⟩
            else ⟨.pass, tags ++ tagIf (roundTripOK t t2 text1 text2) "roundtrip" ++ tagIf (wf && mt.dump == t.normIds.dump) "thm-instance", ""⟩
          | o => ⟨.tie, tags, "model outcome " ++ outcomeClass o⟩
    | _, _, _ => bad "C01.rt fields"
  | "rt0", [dump, signs1, text1e, outcome, dump2, signs2, text2e] =>
    -- a tree holding -0.0 (the rational 0 in the dump): the oracle also compares the sign bits before and after.
    -- `Rat` has no -0, so the model's WRITER is not compared here (it prints 0); its reader is.
    match T.undump dump, unescape text1e, unescape text2e with
    | some t, some text1, some text2 =>
      let wf := WF01 goCodec.isFloat isF64 t
      let tt := treeTags t
      let tags := ["negzero-tree"] ++ tagIf wf "wf01" ++ tagIf (!wf) "nonwf" ++
        tagIf (wf && tt.contains "rule") "nontrivial" ++ tagIf (!wf && tt.contains "rule") "nontrivial-aux" ++ tt
      if wf && outcome != "ok" then ⟨.oracle, tags, "Parse(Newick(t)) fails: " ++ outcome⟩ else
      if outcome != "ok" then ⟨.pass, "rejected" :: tags, ""⟩ else
      match T.undump dump2 with
      | none => bad "C01.rt0 dump2"
      | some t2 =>
        if wf && !(roundTripOK t t2 text1 text2) then
          ⟨.oracle, tags, (if sameTree t t2 then "second text differs from the first" else "re-read tree differs from the original") ++
            " text1=" ++ escape text1⟩
        else if wf && signs1 != signs2 then ⟨.oracle, tags, "a sign bit (-0.0) is lost: " ++ signs1 ++ " -> " ++ signs2 ++ " text1=" ++ escape text1⟩
        else match parseStr goCodec text1, Lit.parseL goCodec text1.toList with
          | .ok mt, .ok ml =>
            if mt.dump != t2.dump then ⟨.tie, tags, "model parse " ++ mt.dump⟩
            else if ml.dump != mt.dump then ⟨.tie, tags, "literal node-stack machine differs"⟩
            else ⟨.pass, tags ++ tagIf (roundTripOK t t2 text1 text2 && signs1 == signs2) "roundtrip", ""⟩
          | o, _ => ⟨.tie, tags, "model outcome " ++ outcomeClass o⟩
    | _, _, _ => bad "C01.rt0 fields"
  | "parse", [texte, outcome, dump2] => parseCase texte outcome dump2
  | "parse", [texte, outcome, dump2, msge] =>
    -- the same with the text of the implementation's error: FIDELITY only — the verdict is that of the three-field
    -- form; the tag says whether the reason the model gives for refusing the text is the code's
    let v := parseCase texte outcome dump2
    let fid := match unescape texte, unescape msge with
      | some text, some gomsg =>
        (match parseStr goCodec text with
         | .err m => if errMsgAgrees m gomsg then ["fid-errmsg"] else ["fid-errmsg-diff"]
         | _ => [])
      | _, _ => []
    { v with tags := v.tags ++ fid }
  | "multi", [texte, classes, dumps] =>
    match unescape texte with
    | none => bad "C01.multi text"
    | some text =>
      let cls := if classes == "" then [] else classes.splitOn ","
      let ds := if dumps == "" then [] else dumps.splitOn "|"
      -- the model: Parse() again and again on the same reader, as many calls as the harness made
      let ms := (parseMany goCodec text.toList).take cls.length
      let mcls := ms.map outcomeClass
      let nok := (mcls.filter (· == "ok")).length
      let tags := ["multi" ++ toString nok] ++ tagIf (nok ≥ 2) "nontrivial-aux"
      -- an `unrep` of the model stands for a Go success with a non-finite value: compare up to there
      if mcls.contains "unrep" then
        (if dumpHasNonfinite dumps then ⟨.pass, "unrep" :: tags, ""⟩
         else ⟨.tie, tags, "model unrep, implementation " ++ classes⟩)
      else if mcls != cls.map (fun c => if isPrefixStr "panic" c then "panic" else c) then
        ⟨.tie, tags, "model outcomes " ++ ",".intercalate mcls⟩
      else
        let mds := ms.filterMap fun o => match o with | .ok t => some t.dump | _ => none
        match ds.mapM T.undump with
        | none => bad "C01.multi dumps"
        | some ts => if ts.map T.dump == mds then ⟨.pass, tags, ""⟩ else ⟨.tie, tags, "model trees " ++ "|".intercalate mds⟩
  | "more", [texte, classes, dumps] =>
    match unescape texte with
    | none => bad "C01.more text"
    | some text =>
      let cls := if classes == "" then [] else classes.splitOn ","
      let ds := if dumps == "" then [] else dumps.splitOn "|"
      -- the model of the ReadMultiTrees loop: Parse, then More, on the same reader (the harness stops after 12 turns)
      let ms := (parseWhileMore goCodec text.toList).take 12
      let mcls := ms.map outcomeClass
      -- the literal Parser object (reader + unscan buffer, Model/C01Buf.lean) is run next to the positional model
      let msB := (Buf.parseWhileMoreB goCodec (text.length + 1) (Buf.fresh text.toList)).take 12
      let sameB := msB.map outcomeClass == mcls &&
        (msB.filterMap fun o => match o with | .ok t => some t.dump | _ => none) ==
        (ms.filterMap fun o => match o with | .ok t => some t.dump | _ => none)
      if !sameB then ⟨.tie, ["more"], "literal unscan-buffer machine differs"⟩ else
      let nok := (mcls.filter (· == "ok")).length
      let tags := ["more" ++ toString nok] ++ tagIf (nok ≥ 2) "nontrivial-aux"
      -- an `unrep` of the model stands for a Go success with a non-finite value: compare up to there
      if mcls.contains "unrep" then
        (if dumpHasNonfinite dumps then ⟨.pass, "unrep" :: tags, ""⟩
         else ⟨.tie, tags, "model unrep, implementation " ++ classes⟩)
      else if mcls != cls.map (fun c => if isPrefixStr "panic" c then "panic" else c) then
        ⟨.tie, tags, "model outcomes " ++ ",".intercalate mcls⟩
      else
        let mds := ms.filterMap fun o => match o with | .ok t => some t.dump | _ => none
        match ds.mapM T.undump with
        | none => bad "C01.more dumps"
        | some ts => if ts.map T.dump == mds then ⟨.pass, tags, ""⟩ else ⟨.tie, tags, "model trees " ++ "|".intercalate mds⟩
  | "float", [lite, cls, val, fmte, back, fmt2e] =>
    match unescape lite, unescape fmte, unescape fmt2e with
    | some lit, some ftext, some ftext2 =>
      let r := goParseFloat lit.toList
      let mcls := match r with | .bad => "bad" | .fin _ => "fin" | .nonfin => "nonfin"
      let tags := [cls] ++ tagIf (cls == "fin") "nontrivial-aux"
      -- fourth codec law on strconv itself: a literal with a slash is never a float
      if cls != "bad" && lit.toList.any (fun c => c == '/') then ⟨.oracle, tags, "ParseFloat accepts a literal containing '/'"⟩
      else if cls == "fin" then
        match parseRat? val, parseRat? back with
        | some v, some b =>
          -- the three codec laws on strconv's own output (trust in strconv, exercised)
          let ft := ftext.toList
          if ft.isEmpty || !(ft.all numClean) then ⟨.oracle, tags, "FormatFloat text is empty or contains a metacharacter"⟩
          else if b != v then ⟨.oracle, tags, "ParseFloat(FormatFloat(x)) != x"⟩
          -- … and the text survives too (this is what tells -0.0 from 0, which have the same rational)
          else if ftext2 != ftext then ⟨.oracle, tags, "FormatFloat(ParseFloat(FormatFloat(x))) != FormatFloat(x)"⟩
          else if mcls != cls then ⟨.tie, tags, "model class " ++ mcls⟩
          else if r != .fin v then ⟨.tie, tags, "model value"⟩
          else if v == 0 && ft == "-0".toList then ⟨.pass, "negzero" :: tags, ""⟩   -- -0.0 has no counterpart in Rat (assumption)
          else if goCodec.fmt v != ft then ⟨.tie, tags, "model fmt " ++ String.ofList (goCodec.fmt v)⟩
          else if !(isF64 v) then ⟨.tie, tags, "model isF64"⟩
          else if !(goDomS v) then ⟨.tie, tags, "a float64 value outside goDomS (domain of the proved codec laws)"⟩
          else if !(goCodec.isFloat ft) || goCodec.parse ft != some v then ⟨.tie, tags, "model does not read its own text"⟩
          else ⟨.pass, tags, ""⟩
        | _, _ => bad "C01.float numbers"
      else if mcls != cls then ⟨.tie, tags, "model class " ++ mcls⟩
      else ⟨.pass, tags, ""⟩
    | _, _, _ => bad "C01.float fields"
  | "utf8", [namee, outcome, name2e, _text1e, _text2e] =>
    -- the bytes sit in a tip name (`C01.utf8`) …
    utf8Case namee outcome name2e "tip"
  | "utf8c", [be, outcome, nc2e, ec2e, _text1e] => utf8cCase be outcome nc2e ec2e
  | "utf8i", [namee, outcome, name2e, _text1e, _text2e] =>
    -- … or in the name of an inner node (`C01.utf8i`): a name all the same
    utf8Case namee outcome name2e "inner"
  | _, _ => bad ("C01: unknown op " ++ op)

end Gotree.Driver.C01
