/-
  C02 — the Newick parser never panics: the only dereference that is not guarded
  by a nil test in the Go code is `newtree.Tips()` at the end of `Parse`, and a root
  exists whenever `parseIter` returns at `;`.
-/
import Gotree.Model.C02Newick

namespace Gotree.C02.Newick
open Gotree Gotree.C02

/-- a root node has been set (`t.root != nil`) -/
def Rooted (st : PSt) : Prop := st.stk.isSome = true ∨ st.lastRoot.isSome = true

theorem rooted_pop {st st' : PSt} (h : pop st = some st') : Rooted st' := by
  unfold pop at h
  split at h
  · cases h
  all_goals (cases h; simp [Rooted])

theorem rooted_mapTopNode {st : PSt} (f : NodeD → NodeD) (h : Rooted st) : Rooted (mapTopNode st f) := by
  unfold mapTopNode
  split
  · exact h
  all_goals simp_all [Rooted]

theorem rooted_mapTopEdge {st : PSt} (f : EdgeD → EdgeD) (h : Rooted st) : Rooted (mapTopEdge st f) := by
  unfold mapTopEdge
  split
  · simp_all [Rooted]
  · exact h

theorem rooted_pushInner {st : PSt} (n : String) (h : Rooted st) : Rooted (pushInner st n) := by
  unfold pushInner
  split
  · exact h
  · simp_all [Rooted]

theorem rooted_of_not_nodeNil {st : PSt} (h : nodeNil st = false) : Rooted st := by
  unfold nodeNil at h
  left
  cases hs : st.stk <;> simp_all

/-- record updates that touch neither the stack nor the last root -/
theorem rooted_congr {st st' : PSt} (h1 : st'.stk = st.stk) (h2 : st'.lastRoot = st.lastRoot) (h : Rooted st) : Rooted st' := by
  unfold Rooted at *; rw [h1, h2]; exact h

theorem closeComment_rooted {st st' : PSt} {c : List Char} (h : closeComment st c = .cont st') (hr : Rooted st) : Rooted st' := by
  unfold closeComment at h
  have hr' : Rooted { st with stale := false, mode := Mode.iter } := rooted_congr rfl rfl hr
  simp only at h
  split at h
  · cases h; exact rooted_congr rfl rfl (rooted_mapTopEdge _ hr')
  · split at h
    · cases h; exact rooted_congr rfl rfl (rooted_mapTopNode _ hr')
    · split at h
      · cases h; exact rooted_congr rfl rfl (rooted_mapTopNode _ hr')
      · cases h

theorem closeComment_not_finished {st st' : PSt} {c : List Char} : closeComment st c ≠ .finished st' := by
  unfold closeComment
  simp only
  repeat' split
  all_goals simp

end Gotree.C02.Newick

namespace Gotree.C02.Newick
open Gotree Gotree.C02

/-- the state a step leads to has a root -/
def Step.Rooted : Step → Prop
  | .cont st => Newick.Rooted st
  | .finished st => Newick.Rooted st
  | .fail _ => True

theorem supportLabel_rooted {st : PSt} {lit : List Char} (hr : Rooted st) : (supportLabel st lit).Rooted := by
  unfold supportLabel
  split
  · exact hr
  · split
    · trivial
    · exact rooted_congr (st := mapTopEdge st _) rfl rfl (rooted_mapTopEdge _ hr)

theorem slashLabel_rooted {st : PSt} {lit : List Char} (hr : Rooted st) : Rooted (slashLabel st lit).1 := by
  unfold slashLabel
  split
  · split
    · exact hr
    · split
      · exact rooted_congr (st := st) rfl rfl hr
      · split
        · exact rooted_congr (st := st) rfl rfl hr
        · exact rooted_congr (st := mapTopEdge st _) rfl rfl (rooted_mapTopEdge _ hr)
  · exact hr

theorem nameLabel_rooted {st : PSt} {lit : List Char} (hr : Rooted st) : (nameLabel st lit).Rooted := by
  unfold nameLabel
  simp only
  split
  · split
    · trivial
    · exact rooted_mapTopNode _ (slashLabel_rooted hr)
  · exact slashLabel_rooted hr

theorem newTip_rooted {st : PSt} {tok : Tok} {lit : List Char} (hr : Rooted st) : (newTip st tok lit).Rooted := by
  unfold newTip
  split
  · trivial
  · split
    · trivial
    · exact rooted_congr (st := pushInner st _) rfl rfl (rooted_pushInner _ hr)

theorem stepIter_rooted {st : PSt} {tok : Tok} {lit : List Char}
    (hr : Rooted st ∨ tok = .openpar) : (stepIter st tok lit).Rooted := by
  unfold stepIter
  split
  · -- openpar
    split
    · split
      · trivial
      · simp [Step.Rooted, Rooted]
    · rename_i hn
      split
      · trivial
      · exact rooted_congr (st := pushInner st _) rfl rfl (rooted_pushInner _ (rooted_of_not_nodeNil (by simpa using hn)))
  · -- closepar
    split
    · trivial
    · rename_i st2 hp
      exact rooted_congr (st := st2) rfl rfl (rooted_pop hp)
  · exact rooted_congr (st := st) rfl rfl (hr.resolve_right (by decide))
  · trivial
  · exact rooted_congr (st := st) rfl rfl (hr.resolve_right (by decide))
  · split
    · trivial
    · rename_i st2 hp
      exact rooted_congr (st := st2) rfl rfl (rooted_pop hp)
  · split
    · exact supportLabel_rooted (hr.resolve_right (by decide))
    · exact newTip_rooted (hr.resolve_right (by decide))
  · split
    · exact nameLabel_rooted (hr.resolve_right (by decide))
    · exact newTip_rooted (hr.resolve_right (by decide))
  · split
    · trivial
    · exact rooted_congr (st := st) rfl rfl (hr.resolve_right (by decide))
  · exact hr.resolve_right (by decide)
  · exact hr.resolve_right (by decide)

theorem stepAfterColon_rooted {st : PSt} {tok : Tok} {lit : List Char} (hr : Rooted st) :
    (stepAfterColon st tok lit).Rooted := by
  unfold stepAfterColon
  have hr' : Rooted { st with mode := Mode.iter } := rooted_congr (st := st) rfl rfl hr
  simp only
  split
  · trivial
  · split
    · split
      · trivial
      · split
        · trivial
        · split
          · trivial
          · exact rooted_congr (st := mapTopEdge _ _) rfl rfl (rooted_mapTopEdge _ hr')
    · split
      · exact rooted_congr (st := st) rfl rfl hr
      · trivial

/-- the modes of `Parse` before `parseIter` has seen its first `(` -/
def preRoot (m : Mode) : Bool :=
  match m with
  | .start | .startComment | .start2 => true
  | _ => false

/-- invariant of `run`: before the first `(` nothing has been built; afterwards a root exists -/
def Good (st : PSt) : Prop := preRoot st.mode = true ∨ Rooted st

def Step.Good : Step → Prop
  | .cont st => Newick.Good st
  | .finished st => Newick.Rooted st
  | .fail _ => True

theorem Step.good_of_rooted {s : Step} (h : s.Rooted) : s.Good := by
  cases s with
  | cont st => exact Or.inr h
  | finished st => exact h
  | fail _ => trivial

theorem stepTok_good {st : PSt} {tok : Tok} {lit : List Char} (hg : Good st) : (stepTok st tok lit).Good := by
  unfold stepTok
  split
  · -- start
    split
    · exact Or.inl rfl
    · split
      · rename_i h; subst h
        exact Step.good_of_rooted (stepIter_rooted (Or.inr rfl))
      · trivial
  · split
    · rename_i h; subst h
      exact Step.good_of_rooted (stepIter_rooted (Or.inr rfl))
    · trivial
  · rename_i hm
    have hr : Rooted st := by
      rcases hg with h | h
      · rw [hm] at h; simp [preRoot] at h
      · exact h
    exact Step.good_of_rooted (stepIter_rooted (Or.inl hr))
  · rename_i hm
    have hr : Rooted st := by
      rcases hg with h | h
      · rw [hm] at h; simp [preRoot] at h
      · exact h
    exact Step.good_of_rooted (stepAfterColon_rooted hr)
  · exact hg
  · exact hg

theorem finish_no_panic {st : PSt} (hr : Rooted st) (m : String) : finish st ≠ .panic m := by
  unfold finish
  split
  · simp
  · split
    · simp
    · simp
    · rename_i h1 h2
      rcases hr with h | h <;> simp_all

theorem atEOF_no_panic (st : PSt) (m : String) : atEOF st ≠ .panic m := by
  unfold atEOF
  split <;> simp

theorem good_comment_iter {st : PSt} {acc : List Char} (hm : st.mode = .comment acc) (hg : Good st) : Rooted st := by
  rcases hg with h | h
  · rw [hm] at h; simp [preRoot] at h
  · exact h

theorem run_no_panic (st : PSt) (cs : List Char) (hg : Good st) (m : String) : run st cs ≠ .panic m := by
  fun_induction run st cs
  case case2 st cs hc s hne hcb acc hm st' hcc ih =>
    exact ih (Or.inr (closeComment_rooted hcc (good_comment_iter hm hg)))
  case case5 st cs hc s hne hcb hm ih => exact ih (Or.inl rfl)
  case case6 st cs hc s hne hcb acc hm ih =>
    exact ih (Or.inr (rooted_congr (st := st) rfl rfl (good_comment_iter hm hg)))
  case case7 st cs hc s hne hcb hm ih => exact ih hg
  case case9 st cs hc s hne st' hst ih =>
    have := stepTok_good (tok := s.tok) (lit := s.lit) hg
    rw [hst] at this
    exact ih this
  case case13 st cs hc s hne st' hst m' hf =>
    have := stepTok_good (tok := s.tok) (lit := s.lit) hg
    rw [hst] at this
    exact absurd hf (finish_no_panic this m')
  all_goals first | exact atEOF_no_panic _ _ | simp

theorem parse_no_panic (b : List UInt8) (m : String) : parse b ≠ .panic m :=
  run_no_panic {} _ (Or.inl rfl) m

end Gotree.C02.Newick
