/-
  C07 — Resolve on ARBITRARY trees (single-child nodes allowed): afterwards no node has more than three
  neighbours; single-child nodes are left as they are (so the result is binary exactly when there was
  none, `resolve_refines`).
-/
import Gotree.Lemmas.C07Resolve
import Gotree.Spec.C07

namespace Gotree.C07
open Gotree

theorem deg3L_all : ∀ k : Kids, deg3L k = k.all (fun x => deg3Below x.2)
  | [] => by simp [deg3L]
  | (e, c) :: r => by simp [deg3L, deg3L_all r]

theorem deg3L_perm {k1 k2 : Kids} (h : k1.Perm k2) : deg3L k1 = deg3L k2 := by
  rw [deg3L_all, deg3L_all]; exact h.all_eq

theorem deg3Below_node (d p k) : deg3Below (.node d p k) = (decide (k.length ≤ 2) && deg3L k) := by
  simp [deg3Below]

theorem moveKid_deg3 (x : EdgeD × T) : deg3Below (moveKid x).2 = deg3Below x.2 := by
  obtain ⟨e, c⟩ := x; cases c; simp [moveKid, deg3Below]

theorem joinTwo_deg3 (a b : EdgeD × T) : deg3Below (joinTwo a b).2 = (deg3Below a.2 && deg3Below b.2) := by
  simp [joinTwo, deg3Below, deg3L, moveKid_deg3]

theorem ladder_deg3 (extra dummy : Nat) : ∀ (fuel : Nat) (r : List (Nat × (EdgeD × T))),
    deg3L (r.map (·.2)) = true → deg3L ((ladder extra dummy fuel r).map (·.2)) = true
  | 0, r => by cases r <;> simp [ladder]
  | fuel + 1, [] => by simp [ladder]
  | fuel + 1, [a] => by simp [ladder]
  | fuel + 1, a :: b :: rest => by
    intro h
    rw [ladder_step]
    split
    · apply ladder_deg3 extra dummy fuel
      simp only [List.map_cons, deg3L, joinTwo_deg3] at h ⊢
      simpa [Bool.and_assoc] using h
    · exact h

theorem resolveNode_deg3 (isRoot : Bool) (d : NodeD) (p : Nat) (k : Kids) (ds : List Nat) (t' : T) (ds' : List Nat)
    (h : resolveNode isRoot d p k ds = some (t', ds')) (hk : deg3L k = true) : deg3L t'.kids = true := by
  unfold resolveNode at h
  simp only at h
  generalize (if isRoot = true then 0 else 1) = extra at h
  split at h
  · injection h with h; injection h with h _; subst h; exact hk
  · split at h
    · cases h
    · rename_i hds
      split at h
      · cases h
      · rename_i perm hperm
        split at h
        · cases h
        · rename_i nw surv hlad
          injection h with h; injection h with h _; subst h
          have hpl : perm.length = k.length := by
            rw [goPerm_length _ _ hperm]; simp; omega
          have htg := togroup_perm perm k hpl
          have hl := ladder_deg3 extra k.length k.length
            ((sortK (perm.zip ((List.range k.length).zip k))).map (·.2)).reverse
            (by rw [deg3L_perm htg]; exact hk)
          rw [hlad] at hl
          have hkids : ((sortK surv).map (·.2) ++ [nw.2]).Perm ((nw :: surv).map (·.2)) := by
            simp only [List.map_cons]
            exact (List.perm_append_singleton _ _).trans (((sortK_perm surv).map _).cons _)
          rw [T.kids_node, deg3L_perm hkids]
          exact hl

mutual
theorem resolveT_deg3 : ∀ (c : T) (ds : List Nat) (c' : T) (ds' : List Nat),
    resolveT false c ds = some (c', ds') → deg3Below c' = true
  | .node d p k, ds, c', ds', h => by
    obtain ⟨k1, ds1, hk, hn⟩ := resolveT_unfold false d p k ds c' ds' h
    have hb := resolveL_deg3 k ds k1 ds1 hk
    have hb' := resolveNode_deg3 false d p k1 ds1 c' ds' hn hb
    obtain ⟨_, _, _, _, _, hcount⟩ := resolveNode_spec (fun _ => ()) false d p k1 ds1 c' ds' hn
    cases c' with
    | node d' p' k' =>
      simp only [T.kids_node, Bool.false_eq_true, if_false] at hcount hb'
      rw [deg3Below_node, hb']
      simp only [Bool.and_true, decide_eq_true_eq]
      split at hcount <;> omega
theorem resolveL_deg3 : ∀ (k : Kids) (ds : List Nat) (k' : Kids) (ds' : List Nat),
    resolveL k ds = some (k', ds') → deg3L k' = true
  | [], ds, k', ds', h => by
    rw [resolveL] at h
    injection h with h; injection h with h _; subst h
    simp [deg3L]
  | (e, c) :: r, ds, k', ds', h => by
    obtain ⟨c1, ds1, r1, hc, hr, hk'⟩ := resolveL_unfold e c r ds k' ds' h
    subst hk'
    simp only [deg3L, Bool.and_eq_true]
    exact ⟨resolveT_deg3 c ds c1 ds1 hc, resolveL_deg3 r ds1 r1 ds' hr⟩
end

theorem resolve_deg3 (t t' : T) (ds : List Nat) (h : resolve t ds = some t') : deg3 t' = true := by
  have h' := resolve_some t ds t' h
  cases t with
  | node d p k =>
    obtain ⟨k1, ds1, hk, hn⟩ := resolveT_unfold true d p k ds t' [] h'
    have hb := resolveL_deg3 k ds k1 ds1 hk
    have hb' := resolveNode_deg3 true d p k1 ds1 t' [] hn hb
    obtain ⟨_, _, _, _, _, hcount⟩ := resolveNode_spec (fun _ => ()) true d p k1 ds1 t' [] hn
    simp only [if_true, Nat.add_zero] at hcount
    unfold deg3
    rw [hb']
    simp only [Bool.and_true, decide_eq_true_eq]
    split at hcount <;> omega

end Gotree.C07
